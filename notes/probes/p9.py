import sys; sys.path.insert(0,'/repo')
import numpy as np, algopy
from algopy import UTPM, CGraph, Function
np.random.seed(7)
def R(*s): return np.random.randn(*s)
def pad(x, D2):
    d = np.zeros((D2,)+x.data.shape[1:], dtype=x.data.dtype); d[:x.data.shape[0]] = x.data; return UTPM(d)
def pairing(name, f, xshape, D=3, P=2, make_x0=None):
    try:
        x0 = make_x0() if make_x0 else R(*xshape)
        cg = CGraph(); xf = Function(x0.copy()); yf = f(xf); cg.trace_off()
        cg.independentFunctionList=[xf]; cg.dependentFunctionList=[yf]
        X = UTPM(0.3*R(D,P,*xshape)); 
        for p in range(P): X.data[0,p] = (make_x0() if make_x0 else R(*xshape))
        V = UTPM(R(D,P,*xshape))
        cg.pushforward([X]); Y = yf.x
        Yb = UTPM(R(*Y.data.shape))
        cg.pullback([Yb]); Xb = xf.xbar
        # forward-only: F(x + t^D v) with 2D coeffs
        Z = pad(X,2*D); Z.data[D:] = V.data
        W1 = f(Z).data[D:]; W0 = f(pad(X,2*D)).data[D:]; W = W1-W0   # F'(x)v mod t^D
        worst=0
        for p in range(P):
            for d in range(D):
                lhs = sum(np.sum(Xb.data[k,p]*V.data[d-k,p]) for k in range(d+1))
                rhs = sum(np.sum(Yb.data[k,p]*W[d-k,p]) for k in range(d+1))
                worst = max(worst, abs(lhs-rhs)/max(1,abs(lhs),abs(rhs)))
        print('%-22s pairing err %.1e'%(name, worst))
    except Exception as e:
        print('%-22s EXC %s'%(name, str(e).strip().splitlines()[-1][:110]))
spd = lambda: (lambda A: A@A.T+3*np.eye(3))(R(3,3))
sym = lambda: (lambda A: A+A.T+np.diag([0,3.,6.]))(0.3*R(3,3))
wc = lambda: R(3,3)*0.3+np.diag([2.,-3.,4.])
C = np.arange(9.).reshape(3,3)/4-1
pairing('exp*', lambda x: algopy.exp(x)*x, (3,))
pairing('inv', lambda x: algopy.inv(x)*C, (3,3), make_x0=wc)
pairing('solve', lambda x: algopy.solve(x, x*C), (3,3), make_x0=wc)
pairing('det', lambda x: algopy.det(x), (3,3), make_x0=wc)
pairing('logdet', lambda x: algopy.logdet(x), (3,3), make_x0=wc)
pairing('trace', lambda x: algopy.trace(x*C), (3,3))
pairing('qr Q', lambda x: algopy.qr(x)[0]*C, (3,3), make_x0=wc)
pairing('qr R', lambda x: algopy.qr(x)[1]*C, (3,3), make_x0=wc)
pairing('qr both', lambda x: (lambda QR: algopy.dot(QR[0]*C, QR[1]))(algopy.qr(x)), (3,3), make_x0=wc)
pairing('qr tall R', lambda x: algopy.qr(x)[1], (4,2))
pairing('qr tall Q', lambda x: algopy.qr(x)[0], (4,2))
pairing('qr wide R', lambda x: algopy.qr(x)[1], (2,4))
pairing('qr_full', lambda x: (lambda QR: algopy.dot(QR[0]*np.arange(16.).reshape(4,4), QR[1]))(algopy.qr_full(x)), (4,2))
pairing('cholesky', lambda x: algopy.cholesky(x)*C, (3,3), make_x0=spd)
pairing('chol(AAt)', lambda x: algopy.cholesky(algopy.dot(x,x.T)+np.eye(3))*C, (3,3))
pairing('lu L', lambda x: algopy.lu(x)[1]*C, (3,3), make_x0=wc)
pairing('lu U', lambda x: algopy.lu(x)[2]*C, (3,3), make_x0=wc)
pairing('eigh l', lambda x: algopy.eigh(x+x.T)[0]*np.arange(3.), (3,3), make_x0=lambda: sym()/2)
pairing('eigh Q', lambda x: (lambda lQ: algopy.dot(lQ[1]*algopy.exp(lQ[0]), lQ[1].T)*C)(algopy.eigh(x+x.T)), (3,3), make_x0=lambda: sym()/2)
pairing('svd s', lambda x: algopy.svd(x)[1]*np.arange(3.), (3,3), make_x0=wc)
pairing('svd s wide', lambda x: algopy.svd(x)[1], (2,4))
pairing('svd UsVt', lambda x: (lambda U,s,V: algopy.dot(U[:,:2]*algopy.exp(s), V[:,:2].T))(*algopy.svd(x)), (2,4))
pairing('eig l (D=2)', lambda x: algopy.real(algopy.eig(x)[0])*np.arange(3.), (3,3), D=2, make_x0=lambda: np.diag([1.,2.,4.])+0.1*R(3,3))
pairing('fft', lambda x: algopy.real(algopy.fft.ifft(algopy.fft.fft(x)*np.arange(1,5.))), (4,))
pairing('fft imag', lambda x: algopy.imag(algopy.fft.fft(x))*np.arange(4.), (4,))
pairing('dot MM', lambda x: algopy.dot(x, x.T*C), (3,3))
pairing('dot cM', lambda x: algopy.dot(C, x), (3,3))
pairing('dot Mc', lambda x: algopy.dot(x, C), (3,3))
pairing('dot vv', lambda x: algopy.dot(x, x*np.arange(3.)), (3,))
pairing('prod', lambda x: algopy.prod(x), (4,))
pairing('sum None', lambda x: algopy.sum(x*C), (3,3))
pairing('diag ext', lambda x: algopy.diag(x)*np.arange(3.), (3,3))
pairing('diag build', lambda x: algopy.diag(x)*C, (3,))
pairing('symvec', lambda x: algopy.symvec(x)*np.arange(6.), (3,3))
pairing('vecsym', lambda x: algopy.vecsym(x)*C, (6,))
pairing('conj', lambda x: algopy.real(algopy.conjugate(algopy.fft.fft(x))), (4,))
pairing('x/ x[::-1]', lambda x: x/x[::-1], (3,), make_x0=lambda: np.abs(R(3))+1)
pairing('bcast mul', lambda x: x*x[0], (3,3))
pairing('bcast add row', lambda x: x+x[0], (3,3))
pairing('bcast add col', lambda x: x+x[:,:1], (3,3))
pairing('bcast div', lambda x: x/(x[0]*x[0]+1), (3,3))
pairing('bcast sub newaxis', lambda x: x[None,:]-x[:,None], (3,))
pairing('absolute', lambda x: algopy.absolute(x)*x, (3,))
pairing('sign', lambda x: algopy.sign(x)*x, (3,))
pairing('clip', lambda x: algopy.special.botched_clip(-0.5,0.5,x)*x, (3,))
pairing('hyperu', lambda x: algopy.special.hyperu(1.5,0.5,x*x+0.5), (3,))
pairing('polygamma', lambda x: algopy.special.polygamma(1,x*x+0.5), (3,))
pairing('x**x?', lambda x: (x*x+1)**2.5, (3,))
pairing('transpose view write', lambda x: (lambda y: (y.T.__setitem__((0,1), x[0,0]*x[1,1]), y*C)[-1])(algopy.zeros((3,3),dtype=x)+x), (3,3))
print('---- by D')
for D in (1,2,3):
    pairing('eigh Q D=%d'%D, lambda x: (lambda lQ: algopy.dot(lQ[1]*algopy.exp(lQ[0]), lQ[1].T)*C)(algopy.eigh(x+x.T)), (3,3), D=D, make_x0=lambda: sym()/2)
    pairing('eigh l D=%d'%D, lambda x: algopy.eigh(x+x.T)[0]*np.arange(3.), (3,3), D=D, make_x0=lambda: sym()/2)
    pairing('svd UsVt D=%d'%D, lambda x: (lambda U,s,V: algopy.dot(U[:,:2]*algopy.exp(s), V[:,:2].T))(*algopy.svd(x)), (2,4), D=D)
    pairing('svd sq UsVt D=%d'%D, lambda x: (lambda U,s,V: algopy.dot(U*algopy.exp(s), V.T))(*algopy.svd(x)), (3,3), D=D, make_x0=wc)
    pairing('cholesky sym D=%d'%D, lambda x: algopy.cholesky(x+x.T)*C, (3,3), D=D, make_x0=lambda: spd()/2)
pairing('eig l (D=1)', lambda x: algopy.real(algopy.eig(x)[0])*np.arange(3.), (3,3), D=1, make_x0=lambda: np.diag([1.,2.,4.])+0.1*R(3,3))
pairing('eig Q (D=1)', lambda x: (lambda l,Q: algopy.real(algopy.dot(Q*algopy.exp(l), algopy.inv(Q))))(*algopy.eig(x)), (3,3), D=1, make_x0=lambda: np.diag([1.,2.,4.])+0.1*R(3,3))
