import sys; sys.path.insert(0,'/repo')
import numpy as np, algopy, scipy.linalg, itertools
from algopy import UTPM
np.random.seed(4)
def R(*s): return np.random.randn(*s)
D,P=3,2
def slicewise(name, fa, fn, x, expect_view=None):
    try:
        y = fa(x)
    except Exception as e:
        try:
            fn(x.data[0,0]); print(name,'ALGOPY EXC but numpy ok:', repr(e)[:90])
        except Exception as e2: print(name,'both raise')
        return
    try:
        ref = np.array([[fn(x.data[d,p]) for p in range(P)] for d in range(D)])
    except Exception as e:
        print(name, 'numpy raises but algopy returned', type(y)); return
    if not isinstance(y,UTPM): print(name,'returned',type(y)); return
    ok = y.data.shape==ref.shape and np.array_equal(y.data,ref)
    msg = '' if ok else 'MISMATCH %s vs %s'%(y.data.shape, ref.shape)
    if expect_view is not None:
        sm = np.shares_memory(y.data,x.data); nsm = np.shares_memory(fn(x.data[0,0]), x.data)
        if sm!=nsm: msg += ' VIEW algopy=%s numpy=%s'%(sm,nsm)
    if msg: print(name,msg)
x = UTPM(R(D,P,3,4,2))
idxs = [0,-1,(1,2),(slice(None),1),(Ellipsis,0),(slice(None,None,-1),),(slice(0,3,2),slice(1,None)),(None,),(0,None,1),(Ellipsis,),(slice(None),None,Ellipsis,-1), (1,Ellipsis,None), slice(1,2), Ellipsis, None, (2,3,1), ([0,2],), (np.array([True,False,True]),)]
for ix in idxs:
    slicewise('getitem %r'%(ix,), lambda x: x[ix], lambda a: a[ix], x, expect_view=True)
slicewise('T', lambda x:x.T, lambda a:a.T, x, True)
slicewise('transpose()', lambda x:x.transpose(), lambda a:a.transpose(), x, True)
slicewise('transpose(axes)', lambda x:x.transpose((1,0,2)), lambda a:a.transpose((1,0,2)), x, True)
slicewise('algopy.transpose', lambda x:algopy.transpose(x), lambda a:np.transpose(a), x, True)
for shp in [(12,2),(2,12),(24,),(-1,),(4,-1),24,-1]:
    slicewise('reshape %r'%(shp,), lambda x:x.reshape(shp), lambda a:a.reshape(shp), x, True)
    slicewise('algopy.reshape %r'%(shp,), lambda x:algopy.reshape(x,shp), lambda a:np.reshape(a,shp), x, True)
for ax in [None,0,1,2,-1,-2,-3,(0,1)]:
    slicewise('sum axis=%r'%(ax,), lambda x:algopy.sum(x,axis=ax), lambda a:np.sum(a,axis=ax), x)
for reps in [2,(2,),(2,1),(1,2,1),(2,1,1,1),(1,1,1,1)]:
    slicewise('tile %r'%(reps,), lambda x:algopy.tile(x,reps), lambda a:np.tile(a,reps), x)
m = UTPM(R(D,P,3,3)); v=UTPM(R(D,P,3)); r=UTPM(R(D,P,3,4))
for k in [0,1,-1]:
    slicewise('diag(mat,k=%d)'%k, lambda x:algopy.diag(x,k), lambda a:np.diag(a,k), m)
    slicewise('diag(vec,k=%d)'%k, lambda x:algopy.diag(x,k), lambda a:np.diag(a,k), v)
    slicewise('diag(rect,k=%d)'%k, lambda x:algopy.diag(x,k), lambda a:np.diag(a,k), r)
    slicewise('triu(k=%d)'%k, lambda x:algopy.triu(x,k), lambda a:np.triu(a,k), r)
    slicewise('tril(k=%d)'%k, lambda x:algopy.tril(x,k), lambda a:np.tril(a,k), r)
slicewise('trace', lambda x:algopy.trace(x), lambda a:np.trace(a), m)
slicewise('trace rect', lambda x:algopy.trace(x), lambda a:np.trace(a), r)
slicewise('trace 3d', lambda x:algopy.trace(x), lambda a:np.trace(a), x)
slicewise('neg', lambda x:-x, lambda a:-a, x)
slicewise('negative', lambda x:algopy.negative(x), lambda a:np.negative(a), x)
xc = UTPM(R(D,P,3,4)+1j*R(D,P,3,4))
slicewise('conj', lambda x:x.conj(), lambda a:a.conj(), xc)
slicewise('conjugate', lambda x:algopy.conjugate(x), lambda a:np.conjugate(a), xc)
slicewise('real', lambda x:algopy.real(x), lambda a:np.real(a), xc, True)
slicewise('imag', lambda x:algopy.imag(x), lambda a:np.imag(a), xc, True)
slicewise('real of real', lambda x:algopy.real(x), lambda a:np.real(a), r, True)
slicewise('imag of real', lambda x:algopy.imag(x), lambda a:np.imag(a), r)
for n,ax in [(None,-1),(None,0),(5,-1),(2,0),(None,1)]:
    slicewise('fft n=%r ax=%r'%(n,ax), lambda x:algopy.fft.fft(x,n=n,axis=ax), lambda a:np.fft.fft(a,n=n,axis=ax), r)
    slicewise('ifft n=%r ax=%r'%(n,ax), lambda x:algopy.fft.ifft(x,n=n,axis=ax), lambda a:np.fft.ifft(a,n=n,axis=ax), xc)
for uplo in 'FLU':
    slicewise('symvec '+uplo, lambda x:algopy.symvec(x,uplo), lambda a:algopy.utils.symvec(a,uplo), m)
v6=UTPM(R(D,P,6))
slicewise('vecsym', lambda x:algopy.vecsym(x), lambda a:algopy.utils.vecsym(a), v6)
print('-- zeros/ones')
for shp in [3,(2,3),(),[2,2]]:
    for f,fn in [(algopy.zeros,np.zeros),(algopy.ones,np.ones)]:
        try:
            z=f(shp,dtype=x); ref=fn(shp)
            ok = z.shape==ref.shape and np.array_equal(z.data[0,0],ref) and not z.data[1:].any() and z.data.shape[:2]==(D,P)
            if not ok: print(f.__name__,shp,'MISMATCH',z.data.shape)
        except Exception as e: print(f.__name__,shp,'EXC',repr(e)[:80])
z=algopy.zeros_like(x); print('zeros_like', z.data.shape==x.data.shape and not z.data.any())
z=algopy.ones_like(x); print('ones_like', z.data.shape==x.data.shape and (z.data[0]==1).all() and not z.data[1:].any())
xi = UTPM(np.full((D,P,2),np.inf)); print('zeros dtype=inf utpm ->', algopy.zeros(2,dtype=xi).data.ravel()[:3])
print('-- setitem')
def setitem_case(ix, rhs_kind):
    xa = UTPM(R(D,P,3,4)); ref = xa.data.copy()
    tgt_shape = ref[0,0][ix].shape
    if rhs_kind=='utpm': rhs = UTPM(R(D,P,*tgt_shape)); 
    elif rhs_kind=='utpm_bcast': rhs = UTPM(R(D,P,*tgt_shape[-1:])) if len(tgt_shape)>0 else UTPM(R(D,P))
    elif rhs_kind=='ndarray': rhs = R(*tgt_shape)
    elif rhs_kind=='scalar': rhs = 2.5
    try:
        xa[ix] = rhs
    except Exception as e:
        print('setitem',ix,rhs_kind,'EXC',repr(e)[:90]); return
    for d in range(D):
        for p in range(P):
            if isinstance(rhs,UTPM): ref[d,p][ix] = rhs.data[d,p]
            else: ref[d,p][ix] = rhs if d==0 else 0
    if not np.array_equal(xa.data,ref): print('setitem',ix,rhs_kind,'MISMATCH')
for ix in [0,-1,(1,2),(slice(None),1),(Ellipsis,0),(slice(None,None,-1),),(slice(0,3,2),slice(1,None)),Ellipsis,slice(1,3),(Ellipsis,),(0,Ellipsis)]:
    for k in ['utpm','utpm_bcast','ndarray','scalar']:
        setitem_case(ix,k)
print('-- write through view')
xa = UTPM(R(D,P,3,4)); v = xa[1]; v[2] = 7.0; print('parent updated', (xa.data[0,:,1,2]==7).all() and not xa.data[1:,:,1,2].any())
vt = xa.T; vt[0,0] = UTPM(np.ones((D,P))); print('T view write', (xa.data[:,:,0,0]==1).all())
print('-- comparisons')
a=UTPM(R(D,P,3)); b=UTPM(R(D,P,3))
for op in ['lt','le','gt','ge','eq','ne']:
    import operator
    o=getattr(operator,op)
    print(op, o(a,b), np.all(o(a.data[0],b.data[0])), o(a,0.5), np.all(o(a.data[0],0.5)), type(o(a,b)))
print('-- len/size/ndim/shape')
print(len(x), x.size, x.ndim, x.shape)
s0 = UTPM(R(D,P)); 
try: print(len(s0))
except Exception as e: print('len scalar EXC', repr(e)[:60])
