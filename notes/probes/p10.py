import sys; sys.path.insert(0,'/repo')
import numpy as np, time
from fractions import Fraction
from math import comb
import algopy.exact_interpolation as ei
def check(N,d):
    t0=time.time()
    G, rays = ei.generate_Gamma_and_rays(N,d); J = ei.generate_multi_indices(N,d); n=len(J)
    raysI = [[int(v) for v in r] for r in rays]
    V = [[1]*n for _ in range(n)]
    for j in range(n):
        for a in range(n):
            v=1
            for k in range(N): v*= raysI[j][k]**int(J[a][k])
            V[j][a]=v
    worst=0
    for i in range(n):
        Gi=[Fraction(float(g)) for g in G[i]]
        for a in range(n):
            s=sum(Gi[j]*V[j][a] for j in range(n)); sc=sum(abs(Gi[j])*abs(V[j][a]) for j in range(n))
            r = abs(s-(1 if i==a else 0))
            worst=max(worst, float(r/max(sc,1)))
    return n, worst, time.time()-t0
for N,d in [(2,8),(2,12),(2,16),(2,20),(3,6),(3,8),(3,10),(4,6),(5,4),(6,3),(6,4),(7,3)]:
    print(N,d,check(N,d))
