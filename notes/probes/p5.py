import sys; sys.path.insert(0,'/repo')
import numpy as np, algopy, scipy.linalg, itertools
from algopy import UTPM
np.random.seed(3)
def R(*s): return np.random.randn(*s)
def U(D,P,*shp): return UTPM(R(D,P,*shp))
def tr(A): return A.T  # UTPM transpose
def mm(*a):
    r=a[0]
    for b in a[1:]: r = algopy.dot(r,b)
    return r
def E(x): return np.abs(x.data if isinstance(x,UTPM) else x).max()
D,P=5,2
print('== dot rank combos (UTPM,UTPM / UTPM,nd / nd,UTPM) vs per-coefficient reference')
def dot_ref(xd, yd):
    D=xd.shape[0]; out=None
    res=[]
    for d in range(D):
        row=[]
        for p in range(xd.shape[1]):
            s=sum(np.dot(xd[c,p], yd[d-c,p]) for c in range(d+1))
            row.append(s)
        res.append(row)
    return np.array(res)
for sx,sy in [((3,),(3,)),((2,3),(3,)),((3,),(3,2)),((2,3),(3,4)),((2,2,3),(3,)),((2,2,3),(3,4)),((2,3),(4,3,2)),((2,2,3),(4,3,2)),((3,),(4,3,2))]:
    x=U(D,P,*sx); y=U(D,P,*sy)
    for kind in ['UU','Un','nU']:
        try:
            if kind=='UU': z=algopy.dot(x,y); ref=dot_ref(x.data,y.data)
            elif kind=='Un':
                c=y.data[0,0]; z=algopy.dot(x,c); ref=np.array([[np.dot(x.data[d,p],c) for p in range(P)] for d in range(D)])
            else:
                c=x.data[0,0]; z=algopy.dot(c,y); ref=np.array([[np.dot(c,y.data[d,p]) for p in range(P)] for d in range(D)])
            ok = z.data.shape==ref.shape and np.allclose(z.data,ref)
            if not ok: print(sx,sy,kind,'MISMATCH', z.data.shape, ref.shape)
        except Exception as e: print(sx,sy,kind,'EXC',repr(e)[:100])
print('== inv/solve/det/logdet/trace with pivoting base')
A=U(D,P,3,3); A.data[0,:]=np.array([[0,2,1.],[1,0,3],[4,1,0]]) + 0.1*R(P,3,3)
Ai=algopy.inv(A); print('inv resid', E(mm(A,Ai)-np.eye(3)))
B=U(D,P,3,2); X=algopy.solve(A,B); print('solve resid', E(mm(A,X)-B))
c=R(3,2); X=algopy.solve(A,c); print('solve const rhs', E(mm(A,X)-c))
Ac=A.data[0,0]; X=algopy.solve(Ac,B); print('solve const A', E(algopy.dot(Ac,X)-B))
try:
    b1=U(D,P,3); X=algopy.solve(A,b1); print('solve vec rhs', X.shape)
except Exception as e: print('solve vec rhs EXC', repr(e)[:80])
# det reference: via cofactor expansion in UTPM arithmetic
def det3(M): return (M[0,0]*(M[1,1]*M[2,2]-M[1,2]*M[2,1]) - M[0,1]*(M[1,0]*M[2,2]-M[1,2]*M[2,0]) + M[0,2]*(M[1,0]*M[2,1]-M[1,1]*M[2,0]))
print('det err', E(algopy.det(A)-det3(A)), 'det0', algopy.det(A).data[0], np.linalg.det(A.data[0,0]))
ld=algopy.logdet(A); print('logdet vs log|det|', E(ld - algopy.log(abs(det3(A)))))
print('trace', E(algopy.trace(A)-(A[0,0]+A[1,1]+A[2,2])))
print('== factorizations')
for (M,N) in [(3,3),(4,2),(2,4)]:
    A=U(D,P,M,N)
    try:
        Q,Rr=algopy.qr(A); print('qr',(M,N),'QR-A',E(mm(Q,Rr)-A),'QtQ-I',E(mm(Q.T,Q)-np.eye(min(M,N))),'R lower', E(algopy.tril(Rr,-1)) if True else 0, 'base==numpy', np.allclose(Q.data[0,0],np.linalg.qr(A.data[0,0])[0]))
    except Exception as e: print('qr',(M,N),'EXC',repr(e)[:100])
    try:
        Q,Rr=algopy.qr_full(A); print('qr_full',(M,N),'QR-A',E(mm(Q,Rr)-A),'QtQ-I',E(mm(Q.T,Q)-np.eye(M)),'R lower', E(algopy.tril(Rr,-1)))
    except Exception as e: print('qr_full',(M,N),'EXC',repr(e)[:100])
    try:
        Us,s,V=algopy.svd(A); S=algopy.zeros((M,N),dtype=A); 
        for i in range(min(M,N)): S[i,i]=s[i]
        print('svd',(M,N),'USVt-A',E(mm(Us,S,V.T)-A),'UtU',E(mm(Us.T,Us)-np.eye(M)),'VtV',E(mm(V.T,V)-np.eye(N)), 's0', s.data[0,0])
    except Exception as e: print('svd',(M,N),'EXC',repr(e)[:100])
A=U(D,P,3,3); S=mm(A,A.T)+np.eye(3)
L=algopy.cholesky(S); print('chol LLt-A',E(mm(L,L.T)-S),'upper',E(algopy.triu(L,1)))
W,L,Uu=algopy.lu(A); print('lu', E(mm(W,L,Uu)-A), 'L unit', E(algopy.diag(L)-1), 'L upper', E(algopy.triu(L,1)), 'U lower', E(algopy.tril(Uu,-1)), 'W higher', np.abs(W.data[1:]).max())
Sy=A+A.T; l,Q=algopy.eigh(Sy); print('eigh AQ-QL',E(mm(Sy,Q)-Q*l), 'QtQ',E(mm(Q.T,Q)-np.eye(3)), 'asc', np.all(np.diff(l.data[0],axis=-1)>0))
# repeated eigenvalues
Q0=np.linalg.qr(R(4,4))[0]; Sy=U(D,P,4,4); Sy=Sy+Sy.T; Sy.data[0,:]=Q0@np.diag([1.,1.,2.,3.])@Q0.T
l,Q=algopy.eigh(Sy); print('eigh rep AQ-QL',E(mm(Sy,Q)-Q*l), 'QtQ',E(mm(Q.T,Q)-np.eye(4)), l.data[:2,0])
Sy.data[1,:]=0; Sy.data[1,:] = Q0@np.diag([5.,5.,1.,2.])@Q0.T  # split only at order 2
l,Q=algopy.eigh(Sy); print('eigh rep(split at 2) AQ-QL',E(mm(Sy,Q)-Q*l), 'QtQ',E(mm(Q.T,Q)-np.eye(4)))
A2=U(2,P,3,3); l,Q=algopy.eig(A2); print('eig AQ-QL', E(mm(A2,Q)-Q*l), l.data.dtype)
print('== expm')
A=U(D,P,3,3)*0.3; Ex=algopy.expm(A)
# reference: series
ref = UTPM(np.zeros_like(A.data)); ref.data[0,:]=np.eye(3); term=ref.copy()
for k in range(1,30): term = mm(term,A)/k; ref = ref+term
print('expm err', E(Ex-ref))
