import sys; sys.path.insert(0,'/repo')
import numpy as np, algopy, scipy.linalg, itertools, time
from algopy import UTPM
from fractions import Fraction
np.random.seed(5)
def R(*s): return np.random.randn(*s)
print('== C15 Gamma V = I')
import algopy.exact_interpolation as ei
for N in range(1,5):
    for d in range(1,6):
        t0=time.time()
        G, rays = ei.generate_Gamma_and_rays(N,d)
        J = ei.generate_multi_indices(N,d)
        V = np.array([[np.prod(rays[j]**J[a]) for a in range(len(J))] for j in range(len(J))])
        err = np.abs(G@V-np.eye(len(J))).max()
        # uniqueness of multi-indices
        uniq = len({tuple(r) for r in J})==len(J) and all(sum(r)==d for r in J)
        from math import comb
        print(N,d,len(J), comb(N+d-1,d), uniq, 'err %.1e'%err, 'maxG %.1e'%np.abs(G).max(), '%.2fs'%(time.time()-t0))
print('== C09 drivers on polynomial')
def f(x): return x[0]**3*x[1] + 2*x[1]**2*x[2] - x[0]*x[1]*x[2] + x[2]**4
def grad(x): return np.array([3*x[0]**2*x[1]-x[1]*x[2], x[0]**3+4*x[1]*x[2]-x[0]*x[2], 2*x[1]**2-x[0]*x[1]+4*x[2]**3])
def hess(x): return np.array([[6*x[0]*x[1], 3*x[0]**2-x[2], -x[1]],[3*x[0]**2-x[2], 4*x[2], 4*x[1]-x[0]],[-x[1],4*x[1]-x[0],12*x[2]**2]])
x=np.array([1.,2.,-3.]); v=np.array([1.,-1.,2.])
print(UTPM.extract_jacobian(f(UTPM.init_jacobian(x)))-grad(x))
print(UTPM.extract_jac_vec(f(UTPM.init_jac_vec(x,v))) if False else f(UTPM.init_jac_vec(x,v)).data[1,0]-grad(x)@v)
print(UTPM.extract_hessian(3,f(UTPM.init_hessian(x)))-hess(x))
print(UTPM.extract_hess_vec(3,f(UTPM.init_hess_vec(x,v)))-hess(x)@v)
print(UTPM.extract_tensor(3,f(UTPM.init_tensor(2,x)))-hess(x))
t3=UTPM.extract_tensor(3,f(UTPM.init_tensor(3,x)),as_full_matrix=False); print(t3, ei.generate_multi_indices(3,3).tolist())
try:
    print(UTPM.extract_jac_vec(f(UTPM.init_jac_vec(x,v))))
except Exception as e: print('extract_jac_vec scalar EXC', repr(e)[:80])
F = lambda x: algopy.zeros(2,dtype=x)
def Fv(x):
    y=algopy.zeros(2,dtype=x); y[0]=x[0]*x[1]; y[1]=x[2]**2*x[0]; return y
print(UTPM.extract_jacobian(Fv(UTPM.init_jacobian(x))), UTPM.extract_jac_vec(Fv(UTPM.init_jac_vec(x,v))))
print('int x:', UTPM.init_hessian(np.array([1,2,3])).data.dtype, UTPM.init_jacobian(np.array([1,2,3])).data.dtype, UTPM.init_hess_vec(np.array([1,2,3]),v).data.dtype, UTPM.init_tensor(2,np.array([1,2,3])).data.dtype)
print('== C17')
from algopy import utils
u=UTPM(R(4,3,2,5)); xb,V=utils.utpm2base_and_dirs(u); u2=utils.base_and_dirs2utpm(xb,V); print('b&d roundtrip (dir0 base only):', np.array_equal(u2.data[1:],u.data[1:]), np.array_equal(u2.data[0,0],u.data[0,0]))
print(np.array_equal(utils.utpm2dirs(u), u.data.transpose(2,3,1,0)))
for N in range(1,5):
    for piv in itertools.product(*[range(i,N) for i in range(N)]):
        Pm = utils.piv2mat(np.array(piv)); 
        # reference: apply swaps to identity rows
        perm=list(range(N))
        for i,pi in enumerate(piv): perm[i],perm[pi]=perm[pi],perm[i]
        # scipy: A[perm] = L U -> A = P L U with P = eye[:,perm]?? check via det sign and actual LU
        sgn = round(np.linalg.det(Pm)); 
        if sgn != utils.piv2det(np.array(piv)): print('piv2det mismatch', piv, sgn, utils.piv2det(np.array(piv)))
print('piv enumerated')
A=R(5,5); lu,piv=scipy.linalg.lu_factor(A); L=np.tril(lu,-1)+np.eye(5); Uu=np.triu(lu); print('PLU-A', np.abs(utils.piv2mat(piv)@L@Uu-A).max(), 'det', np.linalg.det(A)-utils.piv2det(piv)*np.prod(np.diag(Uu)))
x=UTPM(R(4,2,3)); print('shift', np.array_equal(x.shift(1).shift(-1).data[:3], x.data[:3]), np.array_equal(x.shift(-1).shift(1).data[1:], x.data[1:]))
try: print('shift0', np.array_equal(x.shift(0).data, x.data))
except Exception as e: print('shift0 EXC', e)
l=[[UTPM(R(3,2)) for j in range(2)] for i in range(3)]; y=UTPM.as_utpm(l); print('as_utpm', y.shape, all(np.array_equal(y[i,j].data,l[i][j].data) for i in range(3) for j in range(2)))
lc=[UTPM(R(3,2)+1j*R(3,2)) for i in range(2)]; y=UTPM.as_utpm(lc); print('as_utpm complex dtype', y.data.dtype)
y=utils.ndarray2utpm(l); print('ndarray2utpm', y.shape)
