import sys
sys.path.insert(0,'/tmp/probe/deps_ath')
import atheris
print('atheris', atheris.__file__)
sys.path.insert(0,'/repo')
with atheris.instrument_imports(include=['algopy']):
    import algopy
import numpy as np
cnt=[0]
def target(b):
    cnt[0]+=1
    fdp = atheris.FuzzedDataProvider(b)
    n = fdp.ConsumeIntInRange(1,4)
    x = algopy.UTPM(np.arange(2*1*n, dtype=float).reshape(2,1,n))
    i = fdp.ConsumeIntInRange(-n, n-1)
    assert np.array_equal(x[i].data, x.data[:,:,i])
atheris.Setup([sys.argv[0], '-runs=2000', '-seed=1'], target)
atheris.Fuzz()
