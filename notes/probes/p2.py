import sys; sys.path.insert(0,'/repo')
import numpy as np, algopy, warnings
from algopy import UTPM, CGraph, Function
np.random.seed(0)
def R(*s): return np.random.randn(*s)
C22=np.array([[1.,2.],[3.,-1.]]); C33=np.arange(9.).reshape(3,3)-2.5; C23=np.arange(6.).reshape(2,3)-1.5; C32=C23.T.copy()

def record(f, x0):
    cg = CGraph(); x = Function(x0); y = f(x); cg.trace_off()
    cg.independentFunctionList=[x]; cg.dependentFunctionList=[y]; return cg

def fwd_grad(f, x):
    return UTPM.extract_jacobian(f(UTPM.init_jacobian(x)))

def check(name, f, N=3, pos=False):
    try:
        x0 = np.abs(R(N))+0.5 if pos else R(N)
        x1 = np.abs(R(N))+0.5 if pos else R(N)
        cg = record(f, x0)
        g0 = cg.gradient(x0); g1 = cg.gradient(x1); g1b = cg.gradient(x1)
        print(name, 'rec pt err %.2e'%np.abs(g0-fwd_grad(f,x0)).max(), 'other pt err %.2e'%np.abs(g1-fwd_grad(f,x1)).max(), 'repeat err %.2e'%np.abs(g1b-g1).max())
    except Exception as e:
        print(name, 'EXC', str(e).strip().splitlines()[-1][:150])

check('neg int pow', lambda x: algopy.sum(x**-2), pos=True)
check('pow 3', lambda x: algopy.sum(x**3))
check('pow 0', lambda x: algopy.sum(x**0))
check('pow 2.5', lambda x: algopy.sum(x**2.5), pos=True)
check('tan', lambda x: algopy.sum(algopy.tan(x)))
def f_buf(x):
    y = algopy.zeros(2, dtype=x)
    y[0] = x[0]*x[1]
    y[1] = algopy.sin(y[0])*x[2]
    y[0] = y[0]*y[1]
    return y[0]+y[1]
check('buffer rewrite', f_buf)
def f_buf2(x):
    y = algopy.zeros(2, dtype=x)
    y[0] = x[0]*x[1]
    y[1] = y[0]*x[2]
    return y[1]*y[0]
check('buffer no rewrite', f_buf2)
check('sum axis0 sq', lambda x: algopy.sum(algopy.sum(algopy.reshape(x,(2,2)), axis=0)**2), N=4)
check('sum axis1 sq', lambda x: algopy.sum(algopy.sum(algopy.reshape(x,(2,2)), axis=1)**2), N=4)
check('sum axis0 23', lambda x: algopy.sum(algopy.sum(algopy.reshape(x,(2,3)), axis=0)**2), N=6)
check('sum axis-1 23', lambda x: algopy.sum(algopy.sum(algopy.reshape(x,(2,3)), axis=-1)**2), N=6)
check('reshape noncontig', lambda x: algopy.sum(algopy.reshape(algopy.reshape(x,(2,3)).T, (6,))*np.arange(6.)), N=6)
check('reshape contig', lambda x: algopy.sum(algopy.reshape(algopy.reshape(x,(2,3)), (6,))*np.arange(6.)), N=6)
check('transpose', lambda x: algopy.sum(algopy.dot(algopy.reshape(x,(2,3)).T, np.arange(2.))*np.arange(3.)), N=6)
check('tile', lambda x: algopy.sum(algopy.tile(x, 2)*np.arange(6.)))
check('c*x arr', lambda x: algopy.sum(np.arange(3.)*x))
check('Fn(c)*x', lambda x: algopy.sum(Function(np.arange(3.))*x))
check('c/x arr', lambda x: algopy.sum(np.arange(3.)/x), pos=True)
check('c-x arr', lambda x: algopy.sum((np.arange(3.)-x)**2))
check('setitem const arr', lambda x: (lambda y: (y.__setitem__(slice(0,2), np.ones(2)), y.__setitem__(2, x[0]*x[1]), algopy.sum(y*x))[-1])(algopy.zeros(3,dtype=x)))
check('setitem const scalar', lambda x: (lambda y: (y.__setitem__(0, 1.0), y.__setitem__(2, x[0]*x[1]), algopy.sum(y*x))[-1])(algopy.zeros(3,dtype=x)))
check('setitem bcast', lambda x: (lambda y: (y.__setitem__(slice(None), x[0]*x[1]), algopy.sum(y*x))[-1])(algopy.zeros(3,dtype=x)))
check('dot vec vec', lambda x: algopy.dot(x,x))
check('dot mat vec', lambda x: algopy.sum(algopy.dot(algopy.reshape(x,(2,2)), x[:2])), N=4)
check('dot vec mat', lambda x: algopy.sum(algopy.dot(x[:2], algopy.reshape(x,(2,2)))), N=4)
check('outer', lambda x: algopy.sum(algopy.outer(x,x)*C33))
check('outer diff len', lambda x: algopy.sum(algopy.outer(x[:2],x)*np.ones((2,3))))
check('prod', lambda x: algopy.prod(x))
check('abs', lambda x: algopy.sum(abs(x)))
check('getitem neg step', lambda x: algopy.sum(x[::-1]*np.arange(3.)))
check('x*x same', lambda x: algopy.sum(x*x))
check('sqrt', lambda x: algopy.sum(algopy.sqrt(x)), pos=True)
check('diag', lambda x: algopy.sum(algopy.diag(algopy.reshape(x,(2,2)))**2), N=4)
check('diag construct', lambda x: algopy.sum(algopy.dot(algopy.diag(x),x)))
check('trace', lambda x: algopy.trace(algopy.reshape(x,(2,2)))**2, N=4)
check('inv', lambda x: algopy.sum(algopy.inv(algopy.reshape(x,(2,2))+2*np.eye(2))*C22), N=4)
check('solve', lambda x: algopy.sum(algopy.solve(algopy.reshape(x,(2,2))+2*np.eye(2), algopy.reshape(x,(2,2)))*C22), N=4)
check('solve const rhs', lambda x: algopy.sum(algopy.solve(algopy.reshape(x,(2,2))+2*np.eye(2), np.ones((2,1)))), N=4)
check('solve const A', lambda x: algopy.sum(algopy.solve(np.array([[2.,1],[0,3]]), algopy.reshape(x,(2,2)))*C22), N=4)
check('det', lambda x: algopy.det(algopy.reshape(x,(2,2))+2*np.eye(2)), N=4)
check('logdet', lambda x: algopy.logdet(algopy.reshape(x,(2,2))+3*np.eye(2)), N=4)
check('dot const left', lambda x: algopy.sum(algopy.dot(C23, x)))
check('dot const right', lambda x: algopy.sum(algopy.dot(x, C32)))
check('triu', lambda x: algopy.sum(algopy.triu(algopy.reshape(x,(2,2)))**2), N=4)
check('symvec', lambda x: algopy.sum(algopy.symvec(algopy.reshape(x,(2,2)))**2), N=4)
check('vecsym', lambda x: algopy.sum(algopy.vecsym(x)**2))
check('fft', lambda x: algopy.sum(algopy.real(algopy.fft.fft(x))*np.arange(3.)))
check('minimum?', lambda x: algopy.sum(algopy.minimum(x, x*x)))
check('sign', lambda x: algopy.sum(algopy.sign(x)*x))
check('clip', lambda x: algopy.sum(algopy.special.botched_clip(-0.1,0.1,x)*x))
for nm in ['exp','expm1','log','log1p','sqrt','sin','cos','tan','arcsin','arccos','arctan','sinh','cosh','tanh','square','reciprocal','negative','absolute']:
    check(nm, (lambda nm: lambda x: algopy.sum(getattr(algopy,nm)(x*0.3+0.1 if nm in('arcsin','arccos') else x)))(nm), pos=True)
for nm in ['erf','erfi','dawsn','logit','expit','gammaln','psi']:
    check(nm, (lambda nm: lambda x: algopy.sum(getattr(algopy.special,nm)(x*0.2+0.1)))(nm), pos=True)
check('polygamma', lambda x: algopy.sum(algopy.special.polygamma(2, x)), pos=True)
check('hyperu', lambda x: algopy.sum(algopy.special.hyperu(1.5,0.5, x)), pos=True)
