import sys, time; sys.path.insert(0,'/repo')
import numpy as np, algopy
from algopy import UTPM, CGraph, Function
import hypothesis
from hypothesis import given, settings, strategies as st, seed, HealthCheck
from hypothesis.extra import numpy as hnp

UN = {'sin': (algopy.sin, lambda v: True), 'cos': (algopy.cos, lambda v: True), 'exp': (algopy.exp, lambda v: np.all(np.abs(v)<4)),
      'log': (algopy.log, lambda v: np.all(v>0.2)), 'sqrt': (algopy.sqrt, lambda v: np.all(v>0.2)), 'square': (algopy.square, lambda v: True),
      'recip': (algopy.reciprocal, lambda v: np.all(np.abs(v)>0.2))}
def run(prog, x):
    regs=[x]
    for ins in prog:
        op=ins[0]
        if op in UN: regs.append(UN[op][0](regs[ins[1]]))
        elif op=='add': regs.append(regs[ins[1]]+regs[ins[2]])
        elif op=='mul': regs.append(regs[ins[1]]*regs[ins[2]])
        elif op=='cmul': regs.append(ins[2]*regs[ins[1]])
        elif op=='rev': regs.append(regs[ins[1]][::-1])
        elif op=='buf':
            b=algopy.zeros(regs[ins[1]].shape, dtype=regs[ins[1]]); b[...] = regs[ins[1]] if False else b; 
            n=regs[ins[1]].shape[0]
            for i in range(n): b[i]=regs[ins[1]][i]
            b[0]=b[0]*b[n-1]
            regs.append(b)
    return regs[-1]
@st.composite
def programs(draw):
    n = draw(st.integers(2,4)); K=3
    pts = draw(hnp.arrays(float,(K,n),elements=st.floats(-2,2,width=32)))
    prog=[]; vals=[[p] for p in pts]  # per point register values
    L = draw(st.integers(1,8))
    for _ in range(L):
        nreg=len(vals[0])
        r = draw(st.integers(0,nreg-1))
        cands=[k for k,(f,ok) in UN.items() if all(ok(v[r]) for v in vals)] + ['add','mul','cmul','rev','buf']
        op = draw(st.sampled_from(cands))
        if op in UN: ins=(op,r)
        elif op in('add','mul'): ins=(op,r,draw(st.integers(0,nreg-1)))
        elif op=='cmul': ins=(op,r,draw(st.sampled_from([2.0,-0.5,3])))
        else: ins=(op,r)
        newv=[run([ins if ins[0] not in('add','mul') else ins], None) if False else None for v in vals]
        # evaluate incrementally
        ok=True; outs=[]
        for v in vals:
            regs=list(v)
            try:
                o = run_step(ins, regs)
            except Exception: ok=False; break
            if not np.all(np.isfinite(o)) or np.abs(o).max()>1e3: ok=False; break
            outs.append(o)
        if not ok: continue
        for v,o in zip(vals,outs): v.append(o)
        prog.append(ins)
    return n, pts, prog
def run_step(ins, regs):
    op=ins[0]
    if op in UN: return UN[op][0](regs[ins[1]])
    if op=='add': return regs[ins[1]]+regs[ins[2]]
    if op=='mul': return regs[ins[1]]*regs[ins[2]]
    if op=='cmul': return ins[2]*regs[ins[1]]
    if op=='rev': return regs[ins[1]][::-1]
    if op=='buf':
        b=regs[ins[1]].copy(); b[0]=b[0]*b[-1]; return b
stats={'n':0,'len':0,'t':0.0, 'fail':0}
@seed(1)
@settings(max_examples=300, deadline=None, database=None, suppress_health_check=list(HealthCheck))
@given(programs(), st.data())
def test(p, data):
    n, pts, prog = p
    D,P=3,2
    X = UTPM(np.concatenate([pts[1:3][None], data.draw(hnp.arrays(float,(D-1,P,n),elements=st.floats(-1,1,width=32)))]))
    V = UTPM(data.draw(hnp.arrays(float,(D,P,n),elements=st.floats(-1,1,width=32))))
    t0=time.time()
    cg=CGraph(); xf=Function(pts[0].copy()); yf=run(prog,xf); cg.trace_off(); cg.independentFunctionList=[xf]; cg.dependentFunctionList=[yf]
    cg.pushforward([X]); Y=yf.x
    Yb = UTPM(data.draw(hnp.arrays(float,Y.data.shape,elements=st.floats(-1,1,width=32))))
    cg.pullback([Yb]); Xb=xf.xbar
    Z=UTPM(np.concatenate([X.data,V.data])); Z0=UTPM(np.concatenate([X.data,0*V.data]))
    W=run(prog,Z).data[D:]-run(prog,Z0).data[D:]
    for p_ in range(P):
        for d in range(D):
            lhs=sum(np.sum(Xb.data[k,p_]*V.data[d-k,p_]) for k in range(d+1)); rhs=sum(np.sum(Yb.data[k,p_]*W[d-k,p_]) for k in range(d+1))
            sc=sum(np.sum(np.abs(Xb.data[k,p_]*V.data[d-k,p_])) for k in range(d+1))+sum(np.sum(np.abs(Yb.data[k,p_]*W[d-k,p_])) for k in range(d+1))
            assert abs(lhs-rhs)<=1e-9*max(sc,1), (prog, lhs, rhs)
    stats['n']+=1; stats['len']+=len(prog); stats['t']+=time.time()-t0
t0=time.time()
try: test()
except Exception as e: print('FAIL', str(e)[:300])
print(stats, 'total %.1fs'%(time.time()-t0))
