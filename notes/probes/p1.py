import sys; sys.path.insert(0,'/repo')
import numpy as np, algopy, warnings
from algopy import UTPM, CGraph, Function
np.random.seed(0)
def R(*s): return np.random.randn(*s)
x = UTPM(R(4,2,3))
def T(name, f):
    try:
        z = f(); print(name, 'dtype', z.data.dtype, 'shape', z.shape)
        return z
    except Exception as e: print(name, 'EXC', type(e).__name__, str(e)[:100])
print("== complex scalar op real UTPM")
T('c/x', lambda: (1+2j)/x)
T('c*x', lambda: (1+2j)*x)
T('c+x', lambda: (1+2j)+x)
T('c-x', lambda: (1+2j)-x)
T('x-c', lambda: x-(1+2j))
T('x/c', lambda: x/(1+2j))
T('x**c', lambda: x**(1+2j))
T('c**x', lambda: (1+2j)**x)
T('x**2.5 (neg base)', lambda: x**2.5)
xc = UTPM(R(4,2,3)+1j*R(4,2,3))
T('x*xc', lambda: x*xc); T('x/xc', lambda: x/xc); T('xc/x', lambda: xc/x); T('x+xc', lambda: x+xc); T('x-xc', lambda: x-xc)
ac = R(3)+1j*R(3)
T('x*ac', lambda: x*ac); T('ac*x', lambda: ac*x); T('x+ac', lambda: x+ac); T('ac+x', lambda: ac+x); T('ac-x', lambda: ac-x); T('ac/x', lambda: ac/x); T('x/ac', lambda: x/ac)
z = ac/x
if z is not None:
    print('imag dropped?', np.abs(z.data.imag).max() if np.iscomplexobj(z.data) else 'REAL RESULT')
T('np.complex128(1+2j)/x', lambda: np.complex128(1+2j)/x)
T('np.float64(2)/x', lambda: np.float64(2)/x)
T('np.float64(2)*x', lambda: np.float64(2)*x)
T('np.float64(2)-x', lambda: np.float64(2)-x)
T('np.float64(2)+x', lambda: np.float64(2)+x)
T('np.float64(2)**x', lambda: np.float64(2)**abs(x))
T('2**x', lambda: 2**x)
T('x**np.float64(2)', lambda: x**np.float64(2))
T('x**np.int64(2)', lambda: x**np.int64(2))
T('x**x', lambda: abs(x)**x)

print("== ndarray op UTPM with leading axis == P")
xs = UTPM(np.abs(R(3,2))+1)  # shape (), P=2
a = np.array([1.,2.])
for nm,op in [('a/x', lambda a,x: a/x), ('a*x', lambda a,x: a*x), ('a+x', lambda a,x: a+x), ('a-x', lambda a,x: a-x), ('x/a', lambda a,x: x/a), ('x*a', lambda a,x:x*a), ('x+a', lambda a,x:x+a),('x-a', lambda a,x:x-a)]:
    try:
        z = op(a, xs)
        exp = np.stack([ op(a[i], xs).data for i in range(2)], axis=-1)
        print(nm, 'shape', z.shape, 'err', np.abs(z.data-exp).max() if z.data.shape==exp.shape else ('shape mismatch', z.data.shape, exp.shape))
    except Exception as e: print(nm, 'exc', repr(e)[:100])
print("== constant array with more dims than UTPM")
x1 = UTPM(np.abs(R(3,2,3))+1)
a2 = np.abs(R(4,3))+1
for nm,op in [('a/x', lambda a,x: a/x), ('a*x', lambda a,x: a*x), ('a+x', lambda a,x: a+x), ('a-x', lambda a,x: a-x), ('x/a', lambda a,x: x/a), ('x*a', lambda a,x:x*a), ('x+a', lambda a,x:x+a),('x-a', lambda a,x:x-a)]:
    try:
        z = op(a2, x1)
        exp = np.stack([ op(a2[i], x1).data for i in range(4)], axis=2)
        print(nm, 'shape', z.shape, 'err', np.abs(z.data-exp).max() if z.data.shape==exp.shape else ('shape mismatch', z.data.shape, exp.shape))
    except Exception as e: print(nm, 'exc', repr(e)[:100])
