import sys; sys.path.insert(0,'/repo')
import numpy as np, algopy, warnings
from algopy import UTPM, CGraph, Function
np.random.seed(1)
def R(*s): return np.random.randn(*s)

print("== C06: two pullbacks after one pushforward")
def two_pb(name, f, N=3, D=2, P=1, pos=False):
    x0 = np.abs(R(N))+0.5 if pos else R(N)
    cg = CGraph(); x = Function(x0); y = f(x); cg.trace_off()
    cg.independentFunctionList=[x]; cg.dependentFunctionList=[y]
    X = UTPM(R(D,P,N)); 
    if pos: X.data[0] = np.abs(X.data[0])+0.5
    cg.pushforward([X])
    snap = [ (f_.x.data.copy() if isinstance(f_.x, UTPM) else None) for f_ in cg.functionList]
    yb = UTPM(R(*y.x.data.shape))
    cg.pullback([yb]); a = x.xbar.data.copy()
    changed = [i for i,(f_,s) in enumerate(zip(cg.functionList,snap)) if s is not None and isinstance(f_.x,UTPM) and not np.array_equal(f_.x.data, s)]
    cg.pullback([yb]); b = x.xbar.data.copy()
    print(name, 'second-vs-first %.2e'%np.abs(a-b).max(), 'nodes whose x changed:', [(i,cg.functionList[i].func.__name__) for i in changed])
two_pb('tan', lambda x: algopy.sum(algopy.tan(x)))
two_pb('sin', lambda x: algopy.sum(algopy.sin(x)))
def f_buf2(x):
    y = algopy.zeros(2, dtype=x)
    y[0] = x[0]*x[1]
    y[1] = algopy.sin(y[0])*x[2]
    return y[1]*y[0]
two_pb('buffer', f_buf2)
for nm in ['exp','log','sqrt','cos','square','reciprocal','absolute','expm1','log1p']:
    two_pb(nm, (lambda nm: lambda x: algopy.sum(getattr(algopy,nm)(x)))(nm), pos=True)
two_pb('pow', lambda x: algopy.sum(x**2.5), pos=True)
two_pb('div', lambda x: algopy.sum(x/x[::-1]), pos=True)
two_pb('inv', lambda x: algopy.sum(algopy.inv(algopy.reshape(x,(2,2))+2*np.eye(2))), N=4)
two_pb('qr', lambda x: algopy.sum(algopy.qr(algopy.reshape(x,(2,2))+2*np.eye(2))[1]), N=4)
two_pb('eigh', lambda x: (lambda A: algopy.sum(algopy.eigh(A+A.T)[0]*np.arange(2.)))(algopy.reshape(x,(2,2))), N=4)
two_pb('chol', lambda x: (lambda A: algopy.sum(algopy.cholesky(algopy.dot(A,A.T)+np.eye(2))))(algopy.reshape(x,(2,2))), N=4)
two_pb('det', lambda x: algopy.det(algopy.reshape(x,(2,2))+2*np.eye(2)), N=4)
two_pb('solve', lambda x: algopy.sum(algopy.solve(algopy.reshape(x,(2,2))+2*np.eye(2), algopy.reshape(x,(2,2)))), N=4)
two_pb('prod', lambda x: algopy.prod(x))
two_pb('dot', lambda x: algopy.sum(algopy.dot(algopy.reshape(x,(2,2)),algopy.reshape(x,(2,2)))), N=4)
for nm in ['erf','erfi','dawsn','logit','expit','gammaln','psi']:
    two_pb(nm, (lambda nm: lambda x: algopy.sum(getattr(algopy.special,nm)(x*0.2+0.1)))(nm), pos=True)

print("== does pullback modify user's ybar / pushforward modify input?")
x0=R(3); cg = CGraph(); x = Function(x0); y = algopy.sum(algopy.exp(x)*x); cg.trace_off()
cg.independentFunctionList=[x]; cg.dependentFunctionList=[y]
X = UTPM(R(3,2,3)); Xc = X.data.copy(); cg.pushforward([X]); print('input changed by pushforward:', not np.array_equal(X.data,Xc))
yb = UTPM(R(3,2)); ybc = yb.data.copy(); cg.pullback([yb]); print('ybar changed:', not np.array_equal(yb.data, ybc), 'input changed by pullback', not np.array_equal(X.data,Xc))

print("== forward outer")
a = UTPM(R(2,1,2)); b = UTPM(R(2,1,3))
try:
    z = UTPM.outer(a,b); print(z.shape)
except Exception as e: print('EXC', repr(e)[:120])
try:
    z = UTPM.outer(a,np.arange(3.)); print(z.shape)
except Exception as e: print('EXC', repr(e)[:120])
