import sys; sys.path.insert(0,'/repo')
import numpy as np, algopy, time
from algopy import UTPM
sys.path.insert(0,'/tmp/probe/deps')
import mpmath
from mpmath import mp, mpf, mpc
mp.dps = 40
np.random.seed(2)

def mp_taylor(fmp, coeffs):
    """coeffs: list of python floats/complex (x_0..x_{D-1}); returns list of D mp numbers: Taylor coeffs of f(x(t))"""
    D = len(coeffs)
    cs = [mpmath.mpmathify(c) for c in coeffs]
    g = lambda t: fmp(mpmath.polyval(cs[::-1], t))
    return mpmath.taylor(g, 0, D-1)

import scipy.special as sp
FUNCS = {
 'exp': (algopy.exp, mpmath.exp, 'all'),
 'expm1': (algopy.expm1, mpmath.expm1, 'all'),
 'log': (algopy.log, mpmath.log, 'pos'),
 'log1p': (algopy.log1p, mpmath.log1p, 'gt-1'),
 'sqrt': (algopy.sqrt, mpmath.sqrt, 'pos'),
 'sin': (algopy.sin, mpmath.sin, 'all'), 'cos': (algopy.cos, mpmath.cos, 'all'), 'tan': (algopy.tan, mpmath.tan, 'small'),
 'arcsin': (algopy.arcsin, mpmath.asin, 'abs<1'), 'arccos': (algopy.arccos, mpmath.acos, 'abs<1'), 'arctan': (algopy.arctan, mpmath.atan, 'all'),
 'sinh': (algopy.sinh, mpmath.sinh, 'all'), 'cosh': (algopy.cosh, mpmath.cosh, 'all'), 'tanh': (algopy.tanh, mpmath.tanh, 'all'),
 'reciprocal': (algopy.reciprocal, lambda x: 1/x, 'pos'), 'square': (algopy.square, lambda x: x*x, 'all'),
 'erf': (algopy.special.erf, mpmath.erf, 'all'), 'erfi': (algopy.special.erfi, mpmath.erfi, 'all'),
 'dawsn': (algopy.special.dawsn, lambda x: mpmath.sqrt(mpmath.pi)/2*mpmath.exp(-x*x)*mpmath.erfi(x), 'all'),
 'logit': (algopy.special.logit, lambda x: mpmath.log(x/(1-x)), '01'), 'expit': (algopy.special.expit, lambda x: 1/(1+mpmath.exp(-x)), 'all'),
 'gammaln': (algopy.special.gammaln, mpmath.loggamma, 'pos'), 'psi': (algopy.special.psi, lambda x: mpmath.psi(0,x), 'pos'),
 'polygamma2': (lambda x: algopy.special.polygamma(2,x), lambda x: mpmath.psi(2,x), 'pos'),
 'hyperu': (lambda x: algopy.special.hyperu(1.5,0.5,x), lambda x: mpmath.hyperu(1.5,0.5,x), 'pos'),
 'pow2.5': (lambda x: x**2.5, lambda x: x**mpf(2.5), 'pos'), 'pow-2': (lambda x: x**-2, lambda x: x**-2, 'pos'), 'pow3': (lambda x: x**3, lambda x: x**3, 'all'),
 'rpow': (lambda x: 2.5**x, lambda x: mpf(2.5)**x, 'all'),
 'powx': (lambda x: x**x, lambda x: x**x, 'pos'),
}
def base(dom, n):
    r = np.random.rand(n)
    if dom=='all': return 4*r-2
    if dom=='pos': return 0.4+2.5*r
    if dom=='gt-1': return -0.6+2.5*r
    if dom=='abs<1': return 1.6*r-0.8
    if dom=='01': return 0.15+0.7*r
    if dom=='small': return 2.4*r-1.2
D,P,n = 7,2,2
for name,(fa,fm,dom) in FUNCS.items():
    data = np.random.randn(D,P,n)
    data[0] = base(dom, P*n).reshape(P,n)
    t0=time.time()
    try:
        y = fa(UTPM(data.copy())).data
    except Exception as e:
        print(name,'EXC',repr(e)[:100]); continue
    worst=0
    for p in range(P):
        for i in range(n):
            ref = mp_taylor(fm, [float(c) for c in data[:,p,i]])
            ref = np.array([float(mpmath.re(r)) for r in ref])
            scale = np.maximum.accumulate(np.abs(ref))+1e-300
            worst=max(worst, np.max(np.abs(y[:,p,i]-ref)/np.maximum(scale,1)))
    print('%-10s worst rel err %.2e  (%.2fs)'%(name, worst, time.time()-t0))
