import sys; sys.path.insert(0,'/repo')
import numpy as np, algopy, time
from algopy import nthderiv
sys.path.insert(0,'/tmp/probe/deps')
import mpmath
from mpmath import mp, mpf
mp.dps=40
np.random.seed(6)
M = {
 'exp': mpmath.exp, 'exp2': lambda x: mpf(2)**x, 'expm1': mpmath.expm1, 'log': mpmath.log, 'log2': lambda x: mpmath.log(x,2), 'log10': mpmath.log10, 'log1p': mpmath.log1p,
 'sqrt': mpmath.sqrt, 'square': lambda x: x*x, 'reciprocal': lambda x: 1/x, 'negative': lambda x: -x,
 'sin': mpmath.sin, 'cos': mpmath.cos, 'arcsin': mpmath.asin, 'arccos': mpmath.acos, 'arctan': mpmath.atan,
 'sinh': mpmath.sinh, 'cosh': mpmath.cosh, 'arcsinh': mpmath.asinh, 'arccosh': mpmath.acosh, 'arctanh': mpmath.atanh,
 'erf': mpmath.erf, 'erfi': mpmath.erfi, 'gammaln': mpmath.loggamma, 'psi': lambda x: mpmath.psi(0,x),
}
def dom(f):
    d = f.domain.__name__
    r = np.random.rand(4)
    return {'DOM_ALL': 4*r-2, 'DOM_POS': 0.3+3*r, 'DOM_GT_1': 1.2+3*r, 'DOM_GT_NEG_1': -0.7+3*r, 'DOM_ABS_LT_1': 1.7*r-0.85}[d]
for name,fm in M.items():
    f = getattr(nthderiv,name); xs = dom(f)
    if name in ('psi',): xs = np.abs(xs)+0.3
    worst = {}
    for n in range(0,9):
        try:
            got = f(xs.copy(), n=n)
        except Exception as e:
            worst[n] = 'EXC '+repr(e)[:40]; continue
        ref = np.array([float(mpmath.diff(fm, mpf(float(x)), n)) for x in xs])
        worst[n] = '%.0e'%np.max(np.abs(got-ref)/np.maximum(1,np.abs(ref)))
    print('%-10s'%name, worst)
# extras
xs = 0.5+2*np.random.rand(3)
for n in range(0,6):
    got = nthderiv.polygamma(2, xs.copy(), n=n); ref=np.array([float(mpmath.diff(lambda t: mpmath.psi(2,t), mpf(float(x)), n)) for x in xs]); print('polygamma2',n,'%.0e'%np.max(np.abs(got-ref)/np.maximum(1,np.abs(ref))))
    got = nthderiv.hyperu(1.5,0.5, xs.copy(), n=n); ref=np.array([float(mpmath.diff(lambda t: mpmath.hyperu(1.5,0.5,t), mpf(float(x)), n)) for x in xs]); print('hyperu',n,'%.0e'%np.max(np.abs(got-ref)/np.maximum(1,np.abs(ref))))
for name in ['rint','fix','floor','ceil','trunc','sign','absolute']:
    f=getattr(nthderiv,name); xs=np.array([-1.3,0.4,2.7]); print(name,[f(xs.copy(),n=n).tolist() for n in range(3)])
print('clip', [nthderiv.clip(-1,1,np.array([-1.3,0.4,2.7]),n=n).tolist() for n in range(3)])
