"""Straight-line programs over the generic algopy API: instruction set, interpreter, concolic generator.

A program is plain data: a list of instructions over registers.  Register 0..n_in-1 are the inputs; every
instruction appends exactly one register (an in-place write appends an alias of the written buffer).  The same
instruction list runs unchanged on numpy.ndarray ("running the program directly"), algopy.UTPM and
algopy.Function (tracing) because it is written against the generic API (algopy.sin, algopy.dot,
algopy.zeros(shape, dtype=x), operators, indexing).

Generation is *concolic*: probe points are drawn first; the program is grown instruction by instruction and
after each step the ndarray back-end is evaluated at ALL probe points; an instruction is only emitted when its
preconditions hold there with a margin (construction, not rejection).
"""
import operator

import numpy as np
from hypothesis import strategies as st

import algopy

from . import gen

# ---------------------------------------------------------------------------
# instruction semantics (generic: ndarray / UTPM / Function)
# ---------------------------------------------------------------------------

UN = {
    'sin': algopy.sin, 'cos': algopy.cos, 'exp': algopy.exp, 'expm1': algopy.expm1, 'log': algopy.log,
    'log1p': algopy.log1p, 'sqrt': algopy.sqrt, 'square': algopy.square, 'reciprocal': algopy.reciprocal,
    'negative': algopy.negative, 'tan': algopy.tan, 'absolute': algopy.absolute, 'sign': algopy.sign,
    'erf': algopy.special.erf, 'erfi': algopy.special.erfi, 'dawsn': algopy.special.dawsn,
    'logit': algopy.special.logit, 'expit': algopy.special.expit, 'gammaln': algopy.special.gammaln,
    'psi': algopy.special.psi,
}

# preconditions on the ndarray value of the operand, with margins (DESIGN 3.4)
UN_PRE = {
    'sin': lambda v: True, 'cos': lambda v: True, 'square': lambda v: True, 'negative': lambda v: True,
    'exp': lambda v: np.all(np.abs(v) <= 4), 'expm1': lambda v: np.all(np.abs(v) <= 4),
    'log': lambda v: np.all(v >= 0.2), 'log1p': lambda v: np.all(v >= -0.7), 'sqrt': lambda v: np.all(v >= 0.2),
    'reciprocal': lambda v: np.all(np.abs(v) >= 0.2), 'tan': lambda v: np.all(np.abs(v) <= 1.2),
    'absolute': lambda v: np.all(np.abs(v) >= 0.05), 'sign': lambda v: np.all(np.abs(v) >= 0.05),
    'erf': lambda v: np.all(np.abs(v) <= 2), 'erfi': lambda v: np.all(np.abs(v) <= 2),
    'dawsn': lambda v: np.all(np.abs(v) <= 2), 'logit': lambda v: np.all((v >= 0.1) & (v <= 0.9)),
    'expit': lambda v: np.all(np.abs(v) <= 4), 'gammaln': lambda v: np.all((v >= 0.4) & (v <= 5)),
    'psi': lambda v: np.all((v >= 0.4) & (v <= 5)),
}
# forward-only (the tracer has no method for them): used by the forward-mode properties C11/C12/C14
UN_FWD = {'arcsin': algopy.arcsin, 'arccos': algopy.arccos, 'arctan': algopy.arctan, 'sinh': algopy.sinh,
          'cosh': algopy.cosh, 'tanh': algopy.tanh}
UN.update(UN_FWD)
UN_PRE.update({'arcsin': lambda v: np.all(np.abs(v) <= 0.8), 'arccos': lambda v: np.all(np.abs(v) <= 0.8),
               'arctan': lambda v: np.all(np.abs(v) <= 3), 'sinh': lambda v: np.all(np.abs(v) <= 3),
               'cosh': lambda v: np.all(np.abs(v) <= 3), 'tanh': lambda v: np.all(np.abs(v) <= 3)})
UN_NONLINEAR = set(UN) - {'negative', 'sign', 'absolute'}
UN_CHEAP = ['sin', 'cos', 'exp', 'expm1', 'log', 'log1p', 'sqrt', 'square', 'reciprocal', 'negative', 'tan',
            'absolute', 'sign']
UN_SPECIAL = ['erf', 'erfi', 'dawsn', 'logit', 'expit', 'gammaln', 'psi']

BIN = {'add': operator.add, 'sub': operator.sub, 'mul': operator.mul, 'div': operator.truediv}


class Precond(Exception):
    pass


def _is_cplx(v):
    return np.iscomplexobj(v)


def step(ins, regs):
    """execute one instruction on registers of any back-end; returns the new register value"""
    op = ins[0]
    if op == 'un':
        return UN[ins[1]](regs[ins[2]])
    if op == 'unp':
        name, params, a = ins[1], ins[2], ins[3]
        if name == 'polygamma':
            return algopy.special.polygamma(params[0], regs[a])
        if name == 'hyperu':
            return algopy.special.hyperu(params[0], params[1], regs[a])
        if name == 'botched_clip':
            return algopy.special.botched_clip(params[0], params[1], regs[a])
        raise KeyError(name)
    if op == 'bin':
        return BIN[ins[1]](regs[ins[2]], regs[ins[3]])
    if op == 'binc':
        f, a, c, side = BIN[ins[1]], regs[ins[2]], ins[3], ins[4]
        return f(a, c) if side == 'r' else f(c, a)
    if op == 'pow':
        return regs[ins[1]] ** ins[2]
    if op == 'powreg':
        return regs[ins[1]] ** regs[ins[2]]
    if op == 'neg':
        return -regs[ins[1]]
    if op == 'get':
        return regs[ins[1]][ins[2]]
    if op == 'T':
        return regs[ins[1]].T
    if op == 'reshape':
        return algopy.reshape(regs[ins[1]], ins[2])
    if op == 'zeros':
        if type(regs[ins[2]]) is np.ndarray:
            # plain operands (the reference path of C05 and others): NumPy itself, not algopy's dispatch for plain prototypes
            return np.zeros(ins[1], dtype=regs[ins[2]].dtype)
        return algopy.zeros(ins[1], dtype=regs[ins[2]])
    if op == 'ones':
        if type(regs[ins[2]]) is np.ndarray:
            return np.ones(ins[1], dtype=regs[ins[2]].dtype)
        return algopy.ones(ins[1], dtype=regs[ins[2]])
    if op == 'set':
        regs[ins[1]][ins[2]] = regs[ins[3]]
        return regs[ins[1]]
    if op == 'setc':
        regs[ins[1]][ins[2]] = ins[3]
        return regs[ins[1]]
    if op == 'sum':
        if ins[2] is None:
            return algopy.sum(regs[ins[1]])
        return algopy.sum(regs[ins[1]], axis=ins[2])
    if op == 'prod':
        return algopy.prod(regs[ins[1]])
    if op == 'trace':
        return algopy.trace(regs[ins[1]])
    if op == 'dot':
        return algopy.dot(regs[ins[1]], regs[ins[2]])
    if op == 'dotc':
        a, c, side = regs[ins[1]], ins[2], ins[3]
        return algopy.dot(a, c) if side == 'r' else algopy.dot(c, a)
    if op == 'outer':
        return algopy.outer(regs[ins[1]], regs[ins[2]])
    if op == 'inv':
        return algopy.inv(regs[ins[1]])
    if op == 'solve':
        return algopy.solve(regs[ins[1]], regs[ins[2]])
    if op == 'det':
        return algopy.det(regs[ins[1]])
    if op == 'logdet':
        return algopy.logdet(regs[ins[1]])
    if op == 'qr':
        return algopy.qr(regs[ins[1]])[ins[2]]
    if op == 'qr_twice':      # one factorisation, the SAME output taken out of the result tuple twice (two getitem nodes on one tuple node)
        t = algopy.qr(regs[ins[1]])
        k = ins[2]
        return t[k] * 2.0 + t[k]
    if op == 'qr_full':
        a = regs[ins[1]]
        if ins[2] == 0:
            # only the first N columns of the full Q are uniquely defined (the rest is an arbitrary basis of the complement)
            return algopy.qr_full(a)[0][:, :a.shape[1]]
        return algopy.qr_full(a)[1]
    if op == 'chol_spd':      # cholesky of a by-construction SPD expression  a a^T + c I
        a = regs[ins[1]]
        n = a.shape[0]
        return algopy.cholesky(algopy.dot(a, a.T) + ins[2] * np.eye(n))
    if op == 'eigh_sym':      # eigh of the by-construction symmetric expression a + a^T
        a = regs[ins[1]]
        return algopy.eigh(a + a.T)[ins[2]]
    if op == 'eigh_fun':      # sign invariant use of eigenvectors: Q diag(f(lam)) Q^T with f = sin
        a = regs[ins[1]]
        lam, Q = algopy.eigh(a + a.T)
        return algopy.dot(Q * algopy.sin(lam), Q.T)
    if op == 'eig_val':       # eigenvalues of a general matrix with real, distinct spectrum (algopy.eig supports D <= 2 only)
        return algopy.real(algopy.eig(regs[ins[1]])[0])
    if op == 'svd_s':
        return algopy.svd(regs[ins[1]])[1]
    if op == 'lu':
        return algopy.lu(regs[ins[1]])[ins[2]]
    if op == 'fft':
        return algopy.fft.fft(regs[ins[1]], n=ins[2], axis=ins[3])
    if op == 'ifft':
        return algopy.fft.ifft(regs[ins[1]], n=ins[2], axis=ins[3])
    if op == 'real':
        return algopy.real(regs[ins[1]])
    if op == 'imag':
        return algopy.imag(regs[ins[1]])
    if op == 'conj':
        return algopy.conjugate(regs[ins[1]])
    if op == 'tile':
        return algopy.tile(regs[ins[1]], ins[2])
    if op == 'diag':
        return algopy.diag(regs[ins[1]])
    if op == 'symvec':        # of the symmetric expression a + a^T
        a = regs[ins[1]]
        return algopy.symvec(a + a.T, ins[2])
    if op == 'vecsym':
        return algopy.vecsym(regs[ins[1]])
    if op == 'symvec_raw':    # of a square matrix that is NOT symmetric: UPLO selects the triangle / 'F' symmetrises
        return algopy.symvec(regs[ins[1]], ins[2])
    if op == 'rpowc':         # constant ** x  (plain ndarray / scalar base)
        return ins[2] ** regs[ins[1]]
    if op == 'eigh_raw':      # eigh of a register that is symmetric up to rounding (product a s a^T), eigenvalues or Q f(lam) Q^T
        lam, Q = algopy.eigh(regs[ins[1]])
        return lam if ins[2] == 0 else algopy.dot(Q * algopy.sin(lam), Q.T)
    # ---- forward-only operations (no tracer support / no pullback) ----
    if op == 'minmax':
        return getattr(algopy, ins[1])(regs[ins[2]], regs[ins[3]])
    if op == 'tri':
        return getattr(algopy, ins[1])(regs[ins[2]], ins[3])
    if op == 'expm':
        return algopy.expm(regs[ins[1]] * ins[2])
    if op == 'abs':
        return abs(regs[ins[1]])
    if op == 'iop':            # t = copy(a); t op= b   (forward only: the tracer has no in-place arithmetic)
        t = regs[ins[2]].copy()
        b = regs[ins[3]] if ins[4] == 'reg' else ins[3]
        t = {'add': operator.iadd, 'sub': operator.isub, 'mul': operator.imul, 'div': operator.itruediv}[ins[1]](t, b)
        return t
    if op == 'shift':          # t^s x(t) mod t^D (s >= 0); a plain value is the polynomial of degree 0
        a, sh = regs[ins[1]], ins[2]
        if isinstance(a, np.ndarray) or np.isscalar(a):
            return np.array(a, copy=True) if sh == 0 else np.zeros_like(a)
        return a.shift(sh)
    if op == 'solvec':         # solve with a constant (plain ndarray) operand on either side
        a, c, side = regs[ins[1]], ins[2], ins[3]
        return algopy.solve(a, c) if side == 'r' else algopy.solve(c, a)
    if op == 'umax':
        a = regs[ins[1]]
        return np.max(a) if isinstance(a, np.ndarray) else algopy.UTPM.max(a)
    if op == 'svd_full':       # sign/layout invariant use of all three factors: U diag(s) V^T (reconstruction)
        a = regs[ins[1]]
        U, sv, V = algopy.svd(a)
        k = sv.shape[0]
        if isinstance(a, np.ndarray):
            # numpy.linalg.svd returns V^H, UTPM.svd returns V (layout convention, see C10's statement)
            return np.dot(U[:, :k] * sv, V[:k, :])
        return algopy.dot(U[:, :k] * sv, V[:, :k].T)
    raise KeyError(op)


def run(prog, inputs):
    """run the whole program; returns the register list"""
    regs = list(inputs)
    for ins in prog:
        regs.append(step(ins, regs))
    return regs


# ---------------------------------------------------------------------------
# preconditions on ndarray values (checked at every probe point while generating)
# ---------------------------------------------------------------------------

MAXMAG = 1e3


def _smin(m):
    return np.linalg.svd(m, compute_uv=False).min()


def _gaps(v):
    v = np.sort(np.asarray(v, dtype=float))
    return np.min(np.diff(v)) if v.size > 1 else np.inf


KINKS_OK = [False]   # set by GenState.try_emit for the duration of a precondition test


def precond(ins, regs):
    """True iff the instruction is admissible on these ndarray registers (margins of DESIGN 3.4)"""
    op = ins[0]
    try:
        if op == 'un':
            v = regs[ins[2]]
            if _is_cplx(v):
                return False
            if KINKS_OK[0] and ins[1] in ('absolute', 'sign'):
                return True
            return bool(UN_PRE[ins[1]](np.asarray(v)))
        if op == 'unp':
            v = np.asarray(regs[ins[3]])
            if _is_cplx(v):
                return False
            if ins[1] == 'polygamma':
                return bool(np.all((v >= 0.4) & (v <= 5)))
            if ins[1] == 'hyperu':
                return bool(np.all((v >= 0.5) & (v <= 4)))
            if ins[1] == 'botched_clip':
                lo, hi = ins[2]
                if KINKS_OK[0]:
                    return True
                return bool(np.all((np.abs(v - lo) >= 0.05) & (np.abs(v - hi) >= 0.05)))
        if op == 'bin':
            a, b = np.asarray(regs[ins[2]]), np.asarray(regs[ins[3]])
            np.broadcast_shapes(a.shape, b.shape)
            if ins[1] == 'div':
                return bool(np.all(np.abs(b) >= 0.2))
            return True
        if op == 'binc':
            a, c = np.asarray(regs[ins[2]]), np.asarray(ins[3])
            np.broadcast_shapes(a.shape, c.shape)
            if ins[1] == 'div':
                d = c if ins[4] == 'r' else a
                return bool(np.all(np.abs(d) >= 0.2))
            return True
        if op == 'pow':
            v = np.asarray(regs[ins[1]])
            r = ins[2]
            if _is_cplx(v):
                return False
            if isinstance(r, int) and r >= 0:
                return True
            if isinstance(r, int):
                return bool(np.all(np.abs(v) >= 0.3))
            return bool(np.all(v >= 0.3))
        if op == 'powreg':
            a, b = np.asarray(regs[ins[1]]), np.asarray(regs[ins[2]])
            if _is_cplx(a) or _is_cplx(b):
                return False
            np.broadcast_shapes(a.shape, b.shape)
            return bool(np.all(a >= 0.3) and np.all(np.abs(b) <= 3))
        if op in ('inv', 'det', 'logdet', 'lu'):
            m = np.asarray(regs[ins[1]])
            if m.ndim != 2 or m.shape[0] != m.shape[1] or _is_cplx(m):
                return False
            if op == 'lu':
                # pivots of the LU factors bounded away from zero (L0, U0 are inverted)
                import scipy.linalg
                _, l, u = scipy.linalg.lu(m)
                return bool(np.min(np.abs(np.diag(u))) >= 0.2 and _smin(m) >= 0.2)
            if op == 'logdet':
                # algopy.logdet is log(det(x)): defined for positive determinants only
                return bool(_smin(m) >= 0.2 and np.linalg.det(m) >= 0.05)
            return bool(_smin(m) >= 0.2)
        if op == 'solve':
            m, b = np.asarray(regs[ins[1]]), np.asarray(regs[ins[2]])
            if m.ndim != 2 or m.shape[0] != m.shape[1] or b.ndim != 2 or b.shape[0] != m.shape[0]:
                return False
            if _is_cplx(m) or _is_cplx(b):
                return False
            return bool(_smin(m) >= 0.2)
        if op in ('qr', 'qr_full', 'qr_twice'):
            m = np.asarray(regs[ins[1]])
            if m.ndim != 2 or _is_cplx(m):
                return False
            if op == 'qr_full' and m.shape[0] < m.shape[1]:
                return False
            # full column rank of the leading square/tall part, diagonal of R away from zero
            k = min(m.shape)
            r = np.linalg.qr(m)[1]
            return bool(np.min(np.abs(np.diag(r)[:k])) >= 0.2)
        if op == 'chol_spd':
            m = np.asarray(regs[ins[1]])
            return m.ndim == 2 and not _is_cplx(m)
        if op in ('eigh_sym', 'eigh_fun', 'symvec'):
            m = np.asarray(regs[ins[1]])
            if m.ndim != 2 or m.shape[0] != m.shape[1] or _is_cplx(m):
                return False
            if op == 'symvec':
                return True
            return bool(_gaps(np.linalg.eigvalsh(m + m.T)) >= 0.3)
        if op == 'symvec_raw':
            m = np.asarray(regs[ins[1]])
            return m.ndim == 2 and m.shape[0] == m.shape[1] and not _is_cplx(m)
        if op == 'rpowc':
            a, c = np.asarray(regs[ins[1]]), np.asarray(ins[2])
            np.broadcast_shapes(a.shape, c.shape)
            return not _is_cplx(a) and bool(np.all(c >= 0.3) and np.all(np.abs(a) <= 3))
        if op == 'eigh_raw':
            m = np.asarray(regs[ins[1]])
            if m.ndim != 2 or m.shape[0] != m.shape[1] or _is_cplx(m):
                return False
            if np.max(np.abs(m - m.T)) > 1e-13 * max(1.0, np.max(np.abs(m))):
                return False
            return bool(_gaps(np.linalg.eigvalsh(0.5 * (m + m.T))) >= 0.3)
        if op == 'minmax':
            a, b = np.asarray(regs[ins[2]]), np.asarray(regs[ins[3]])
            return a.shape == b.shape and not _is_cplx(a) and not _is_cplx(b) and (KINKS_OK[0] or bool(np.all(np.abs(a - b) >= 0.05)))
        if op == 'iop':
            a = np.asarray(regs[ins[2]])
            b = np.asarray(regs[ins[3]] if ins[4] == 'reg' else ins[3])
            if _is_cplx(a) or _is_cplx(b) or a.ndim == 0:
                return False
            if np.broadcast_shapes(a.shape, b.shape) != a.shape:
                return False
            return ins[1] != 'div' or bool(np.all(np.abs(b) >= 0.2))
        if op == 'solvec':
            a, c = np.asarray(regs[ins[1]]), np.asarray(ins[2])
            if _is_cplx(a) or a.ndim != 2 or c.ndim != 2:
                return False
            if ins[3] == 'r':      # solve(A(t), C)
                return a.shape[0] == a.shape[1] == c.shape[0] and bool(_smin(a) >= 0.2)
            return c.shape[0] == c.shape[1] == a.shape[0]
        if op == 'umax':
            v = np.sort(np.ravel(np.asarray(regs[ins[1]])))
            # (exact ties of the maximum are a kink; the metamorphic forward checks admit them: the selection must then still be a
            #  function of the zeroth coefficients, whatever the number of coefficients carried)
            return not _is_cplx(v) and v.size >= 1 and (v.size == 1 or KINKS_OK[0] or bool(v[-1] - v[-2] >= 0.05))
        if op == 'tri':
            m = np.asarray(regs[ins[2]])
            return m.ndim == 2
        if op == 'abs':
            v = np.asarray(regs[ins[1]])
            return not _is_cplx(v) and (KINKS_OK[0] or bool(np.all(np.abs(v) >= 0.05)))
        if op == 'expm':
            m = np.asarray(regs[ins[1]]) * ins[2]
            return m.ndim == 2 and m.shape[0] == m.shape[1] and not _is_cplx(m) and bool(np.abs(m).sum(axis=0).max() <= 0.5)
        if op == 'eig_val':
            m = np.asarray(regs[ins[1]])
            if m.ndim != 2 or m.shape[0] != m.shape[1] or _is_cplx(m):
                return False
            w, V = np.linalg.eig(m)
            return bool(np.all(np.abs(np.imag(w)) == 0) and _gaps(np.real(w)) >= 0.3 and np.linalg.cond(V) <= 20)
        if op in ('svd_s', 'svd_full'):
            m = np.asarray(regs[ins[1]])
            if m.ndim != 2 or _is_cplx(m):
                return False
            s = np.linalg.svd(m, compute_uv=False)
            return bool(s.min() >= 0.2 and _gaps(s) >= 0.3)
        return True
    except Exception:
        return False


def _magnitude_ok(v):
    if v is None:
        return False
    if isinstance(v, tuple):
        return all(_magnitude_ok(x) for x in v)
    a = np.asarray(v)
    if a.dtype == object:
        return False
    return bool(np.all(np.isfinite(a)) and (a.size == 0 or np.max(np.abs(a)) <= MAXMAG))


# ---------------------------------------------------------------------------
# generator
# ---------------------------------------------------------------------------

FAMILIES_ALL = ['un', 'un', 'kink', 'special', 'unp', 'bin', 'bin', 'bcast', 'binc', 'binc', 'pow', 'neg', 'get', 'get', 'T', 'reshape',
                'buf', 'set', 'set', 'rmw', 'rmw', 'sum', 'prod', 'trace', 'dot', 'dot', 'dotc', 'outer', 'inv', 'solve', 'det',
                'logdet', 'qr', 'chol', 'eigh', 'svd', 'lu', 'fft', 'tile', 'diag', 'symvec', 'vecsym', 'cplx', 'bufdet']
FAMILIES_FWD_ONLY = ['unfwd', 'minmax', 'tri', 'abs', 'expm', 'svdfull', 'umax', 'powreg', 'iop', 'solvec', 'shift', 'rpowc', 'eighraw']
FAMILIES_POLY = ['un', 'bin', 'bin', 'bcast', 'binc', 'binc', 'pow', 'neg', 'get', 'get', 'T', 'reshape', 'buf', 'set', 'rmw', 'sum', 'prod',
                 'trace', 'dot', 'dot', 'dotc', 'outer', 'tile', 'diag']


class GenState:
    """register file evaluated at every probe point + bookkeeping about registers"""

    def __init__(self, pts_per_input):
        # pts_per_input: list over inputs of arrays (K,)+shape
        self.K = pts_per_input[0].shape[0]
        self.regs = [[np.array(p[k], dtype=float) for p in pts_per_input] for k in range(self.K)]
        self.n = len(pts_per_input)
        self.prog = []
        self.bufroot = {}      # register -> root buffer register (for buffers and their views)
        self.noncontig = set()  # registers that are non-contiguous views

    def shape(self, r):
        return np.shape(self.regs[0][r])

    def ndim(self, r):
        return np.ndim(self.regs[0][r])

    def cplx(self, r):
        return _is_cplx(self.regs[0][r])

    def try_emit(self, ins):
        """evaluate at all probe points; emit iff preconditions + magnitudes hold; returns success"""
        op = ins[0]
        outs = []
        prev = KINKS_OK[0]
        KINKS_OK[0] = bool(getattr(self, 'kinks_ok', False))
        try:
            for k in range(self.K):
                regs = self.regs[k]
                if not precond(ins, regs):
                    return False
        finally:
            KINKS_OK[0] = prev
        if op in ('set', 'setc'):
            # shape compatibility must be known before mutating anything
            tgt = self.regs[0][ins[1]][ins[2]]
            val = self.regs[0][ins[3]] if op == 'set' else ins[3]
            try:
                if np.broadcast_shapes(np.shape(tgt), np.shape(val)) != np.shape(tgt):
                    return False
            except ValueError:
                return False
            if _is_cplx(val) and not _is_cplx(tgt):
                return False
        for k in range(self.K):
            regs = self.regs[k]
            try:
                with np.errstate(all='ignore'):
                    o = step(ins, regs)
            except Exception:
                if op in ('set', 'setc') and k > 0:
                    raise
                return False
            if not _magnitude_ok(o):
                if op in ('set', 'setc'):
                    raise AssertionError('unexpected magnitude problem in a write')
                return False
            outs.append(o)
        shp = np.shape(outs[0])
        if any(np.shape(o) != shp for o in outs):
            return False
        for k in range(self.K):
            self.regs[k].append(outs[k])
        self.prog.append(ins)
        new = len(self.regs[0]) - 1
        if op in ('zeros', 'ones'):
            self.bufroot[new] = new
        elif op in ('set', 'setc'):
            self.bufroot[new] = self.bufroot[ins[1]]
        elif op in ('get', 'T') and ins[1] in self.bufroot and isinstance(outs[0], np.ndarray) and outs[0].base is not None:
            self.bufroot[new] = self.bufroot[ins[1]]
        if isinstance(outs[0], np.ndarray) and outs[0].ndim >= 1 and not outs[0].flags['C_CONTIGUOUS']:
            self.noncontig.add(new)
        return True

    def nreg(self):
        return len(self.regs[0])


def consts(draw, shape=None, kinds=('float', 'int', 'npfloat', 'nd')):
    """a constant operand: python float / int, numpy scalar or ndarray broadcastable to ``shape``"""
    kind = draw(st.sampled_from(list(kinds)))
    val = draw(st.sampled_from([2.0, -0.5, 3.0, 0.25, -1.5, 1.0, 0.0]))
    if kind == 'float':
        return val
    if kind == 'int':
        return draw(st.sampled_from([2, 3, -1, -2, 0, 1]))
    if kind == 'npfloat':
        return np.float64(val)
    shape = tuple(shape or ())
    # ndarray constant: the register's shape, or a broadcastable prefix-trimmed / size-1 variant
    variant = draw(st.integers(0, 2))
    if variant == 1 and len(shape) >= 1:
        shape = shape[1:]
    elif variant == 2 and len(shape) >= 1:
        shape = (1,) + shape[1:]
    arr = draw(gen.float_array(shape, st.sampled_from([0.5, 1.0, 2.0, -1.0, 1.5, -0.5, 3.0]), sparse=False))
    return np.asarray(arr, dtype=float)


def _basic_index(draw, shape):
    """basic index expression for an array of this shape (ints, negative ints, slices with steps, ellipsis)"""
    nd = len(shape)
    if nd == 0:
        return Ellipsis
    comps = []
    for s in shape:
        kind = draw(st.integers(0, 5))
        if kind <= 1:
            comps.append(draw(st.integers(-s, s - 1)))
        elif kind == 2:
            comps.append(slice(None))
        elif kind == 3:
            a = draw(st.integers(0, s - 1))
            b = draw(st.integers(a + 1, s))
            comps.append(slice(a, b))
        elif kind == 4:
            comps.append(slice(None, None, -1))
        else:
            comps.append(slice(draw(st.integers(0, s - 1)), None, 2))
    # trailing full slices may be dropped / replaced by an Ellipsis; a single component may be passed bare
    form = draw(st.integers(0, 3))
    if form == 0 and nd == 1:
        return comps[0]
    if form == 1:
        while len(comps) > 1 and comps[-1] == slice(None):
            comps.pop()
        if len(comps) == 1:
            return comps[0]
    if form == 2 and nd >= 2 and comps[-1] == slice(None):
        return tuple(comps[:-1]) + (Ellipsis,)
    return tuple(comps)


@st.composite
def programs(draw, n_inputs=(1, 2), max_len=8, families=None, out='any', K=4, in_rank=(0, 1, 2), max_side=3,
             allow_set_broadcast=True, allow_ndim_dot=False, min_len=1, first=None, allow_ones=True, raw_vectors=True, poly=False, kinks_ok=False,
             list_index=False):
    """draw (inputs' probe points, program).  Returns dict(pts=[array (K,)+shape ...], prog=[...], out=reg)."""
    fams = list(families or FAMILIES_ALL)
    nin = draw(st.integers(n_inputs[0], n_inputs[1]))
    pts = []
    for i in range(nin):
        if i == 0 and first in FIRST_INPUT:
            f1 = 'pow' if (kinks_ok and first in ('kink', 'abs')) else first     # 'pow' inputs contain exact zeros
            if kinks_ok and first == 'umax' and draw(st.booleans()):
                f1 = 'umaxtie'
            pts.append(draw(_special_input(f1, K, max_side)))
            continue
        rank = draw(st.sampled_from(list(in_rank)))
        if rank == 2 and draw(st.booleans()):
            n = draw(st.integers(2, max_side))
            shape = (n, n)
        else:
            shape = tuple(draw(st.integers(1 if rank < 2 else 2, max_side)) for _ in range(rank))
        if i > 0 and draw(st.booleans()):
            shape = pts[0].shape[1:]
            v = draw(st.integers(0, 3))
            if v == 1 and len(shape) >= 1:
                shape = shape[1:]
            elif v == 2 and len(shape) >= 1:
                k = draw(st.integers(0, len(shape) - 1))
                shape = tuple(1 if j == k else n for j, n in enumerate(shape))
        p = draw(gen.float_array((K,) + shape, st.one_of(gen.nice_floats(-2.0, 2.0), gen.dyadic_elements(8, 4)), sparse=False))
        pts.append(p)
    S = GenState(pts)
    S.raw_vectors = raw_vectors
    S.kinks_ok = kinks_ok   # metamorphic forward checks do not need smoothness: kink points (abs(0), ties of min/max) are admitted
    S.poly = poly      # restrict to the polynomial instruction subset (exact analytic derivatives exist)
    S.list_index = list_index      # index lists in getitem (replay check only)
    L = draw(st.integers(min_len, max_len))
    if first is not None:
        _emit_family(draw, S, first, allow_set_broadcast, allow_ndim_dot, allow_ones)
    attempts = 0
    while len(S.prog) < L and attempts < 4 * L + 8:
        attempts += 1
        fam = draw(st.sampled_from(fams))
        _emit_family(draw, S, fam, allow_set_broadcast, allow_ndim_dot, allow_ones)
    if not S.prog:
        S.try_emit(['un', 'sin', 0])
    outreg = _finish(draw, S, out)
    return {'pts': pts, 'prog': S.prog, 'out': outreg}


FIRST_INPUT = {'inv': 'regular', 'det': 'regular', 'logdet': 'posdet', 'solve': 'regular', 'lu': 'regular', 'qr': 'fullrank',
               'chol': 'square', 'eigh': 'gapsym', 'svd': 'svd', 'trace': 'matrix', 'T': 'matrix', 'diag': 'vecorsquare',
               'symvec': 'square', 'outer': 'vector', 'dot': 'vecormat', 'dotc': 'vecormat', 'prod': 'vector', 'tile': 'vecormat',
               'sum': 'vecormat', 'reshape': 'vecormat', 'get': 'vecormat', 'fft': 'vecormat', 'tri': 'matrix',
               'expm': 'square', 'svdfull': 'svd', 'minmax': 'vecormat', 'umax': 'vector', 'kink': 'awayzero', 'abs': 'awayzero', 'pow': 'withzeros', 'special': 'unitinterval', 'unp': 'unitinterval', 'unfwd': 'unitinterval', 'dotnd': 'cube', 'eig': 'realeig', 'powreg': 'unitinterval', 'solvec': 'regular', 'iop': 'vecormat', 'rpowc': 'vecormat', 'eighraw': 'square', 'vec2lin': 'vecgapsym', 'umaxtie': 'tievector', 'vecsym': 'vec36', 'cplx': 'vecormat', 'bufdet': 'regular'}


@st.composite
def _special_input(draw, first, K, max_side):
    """probe points (K,)+shape for input 0 such that the leading operation is admissible at every probe point"""
    kind = FIRST_INPUT[first]
    elems = st.one_of(gen.nice_floats(-2.0, 2.0), gen.dyadic_elements(8, 4))
    n = draw(st.integers(2, max_side))
    if kind in ('regular', 'posdet'):
        mats = []
        for k in range(K):
            m = draw(st.one_of(gen.well_conditioned(n), gen.pivot_forcing(n)))
            if kind == 'posdet' and np.linalg.det(m) < 0:
                m = m.copy()
                m[0] *= -1
            mats.append(m)
        return np.array(mats)
    if kind == 'fullrank':
        m_ = draw(st.integers(1, max_side))
        return np.array([draw(gen.well_conditioned(m_, n)) for k in range(K)])
    if kind == 'svd':
        m_ = draw(st.integers(1, n))
        tall = draw(st.integers(0, 5)) == 0
        return np.array([draw(gen.well_conditioned(n, m_) if tall else gen.well_conditioned(m_, n)) for k in range(K)])
    if kind == 'gapsym':
        mats = []
        for k in range(K):
            sym = draw(gen.symmetric_distinct(n, gap=0.4))
            a = draw(gen.float_array((n, n), elems, sparse=False))
            mats.append(0.5 * sym + 0.5 * (a - a.T))      # m + m^T == sym
        return np.array(mats)
    if kind == 'vecgapsym':
        # a vector of n*n entries whose (n,n) reshape m has m + m^T with well separated eigenvalues (histories: single 1-D input)
        n = draw(st.sampled_from([2, 2, 3]))
        vecs = []
        for k in range(K):
            sym = draw(gen.symmetric_distinct(n, gap=0.4))
            a = draw(gen.float_array((n, n), elems, sparse=False))
            vecs.append((0.5 * sym + 0.5 * (a - a.T)).reshape(n * n))
        return np.array(vecs)
    if kind == 'realeig':
        # V diag(lam) V^-1 with real separated eigenvalues and a well-conditioned eigenvector matrix
        mats = []
        for k in range(K):
            lam = draw(gen.spaced_values(n, 0.3, 0.4, signs=True))
            V = draw(gen.well_conditioned(n))
            mats.append(V @ np.diag(lam) @ np.linalg.inv(V))
        return np.array(mats)
    if kind == 'cube':
        shape = draw(st.sampled_from([(2, 2, 3), (2, 3, 2), (3, 2, 2), (2, 2, 2), (1, 2, 3)]))
        return draw(gen.float_array((K,) + shape, elems, sparse=False))
    if kind == 'unitinterval':
        # inside the domain of every special function of the registry (logit, gammaln, psi, polygamma, hyperu, arcsin, ...)
        shape = draw(st.sampled_from([(), (n,), (2, n)]))
        return draw(gen.float_array((K,) + shape, gen.nice_floats(0.55, 0.78), sparse=False))
    if kind == 'withzeros':
        shape = draw(st.sampled_from([(), (n,), (2, n)]))
        return draw(gen.float_array((K,) + shape, st.sampled_from([0.0, 0.0, 1.0, -1.0, 0.5, 2.0, -0.5, 1.5]), sparse=False))
    if kind == 'awayzero':
        shape = draw(st.sampled_from([(), (n,), (2, n)]))
        return draw(gen.float_array((K,) + shape, gen.interval_union((0.1, 2.0), (-2.0, -0.1)), sparse=False))
    if kind == 'square':
        return draw(gen.float_array((K, n, n), elems, sparse=False))
    if kind == 'matrix':
        shape = draw(st.sampled_from([(3, 2), (2, 3), (2, 2), (3, 3), (3, 1), (1, 3), (4, 2), (2, 4)]))
        return draw(gen.float_array((K,) + shape, elems, sparse=False))
    if kind == 'vector':
        return draw(gen.float_array((K, n), elems, sparse=False))
    if kind == 'vec36':
        return draw(gen.float_array((K, draw(st.sampled_from([3, 6, 3]))), elems, sparse=False))
    if kind == 'tievector':
        # few distinct values: the maximum is attained by several entries at most probe points
        n = draw(st.integers(2, 4))
        return draw(gen.float_array((K, n), st.sampled_from([1.0, 1.0, 0.5, -1.0, 1.0, 2.0]), sparse=False))
    if kind == 'vecorsquare':
        shape = draw(st.sampled_from([(n,), (n, n)]))
        return draw(gen.float_array((K,) + shape, elems, sparse=False))
    m_ = draw(st.integers(1, max_side))
    shape = draw(st.sampled_from([(n,), (m_, n), (n, m_)]))
    return draw(gen.float_array((K,) + shape, elems, sparse=False))


def compat_shape(S, a, r):
    try:
        np.broadcast_shapes(S.shape(a), S.shape(r))
        return True
    except ValueError:
        return False


def _pick(draw, S, pred):
    c = [r for r in range(S.nreg()) if pred(r)]
    if not c:
        return None
    # prefer recent registers so that programs become chains rather than stars
    if len(c) > 2 and draw(st.booleans()):
        c = c[-2:]
    return draw(st.sampled_from(c))


def _real(S):
    return lambda r: not S.cplx(r)


def _emit_family(draw, S, fam, allow_set_broadcast=True, allow_ndim_dot=False, allow_ones=True):
    # precondition tests made while choosing operands see the same kink policy as try_emit
    prev = KINKS_OK[0]
    KINKS_OK[0] = bool(getattr(S, 'kinks_ok', False))
    try:
        return _emit_family_impl(draw, S, fam, allow_set_broadcast, allow_ndim_dot, allow_ones)
    finally:
        KINKS_OK[0] = prev


def _emit_family_impl(draw, S, fam, allow_set_broadcast=True, allow_ndim_dot=False, allow_ones=True):
    raw_vectors = getattr(S, 'raw_vectors', True)
    poly = getattr(S, 'poly', False)
    real = _real(S)
    if fam in ('un', 'special'):
        name = draw(st.sampled_from(['square', 'negative', 'square'] if poly else (UN_CHEAP if fam == 'un' else UN_SPECIAL)))
        # an operand inside the function's domain at every probe point; if no register qualifies one is constructed
        # (0.5 + r^2 >= 0.5 for log / sqrt / reciprocal / gammaln / psi, sin(r) in [-1, 1] for tan / erf / ..., 0.5 + 0.3 sin(r) for logit) -
        # otherwise the functions with a restricted domain would hardly ever be emitted on raw inputs
        a = _pick(draw, S, lambda q: real(q) and all(precond(['un', name, q], S.regs[k]) for k in range(S.K)))
        if a is None:
            r = _pick(draw, S, real)
            if r is None:
                return False
            if name in ('log', 'sqrt', 'reciprocal', 'gammaln', 'psi', 'log1p'):
                ok = S.try_emit(['un', 'square', r]) and S.try_emit(['binc', 'add', S.nreg() - 1, 0.5, 'r'])
            elif name == 'logit':
                ok = S.try_emit(['un', 'sin', r]) and S.try_emit(['binc', 'mul', S.nreg() - 1, 0.3, 'r']) and S.try_emit(['binc', 'add', S.nreg() - 1, 0.5, 'r'])
            else:
                ok = S.try_emit(['un', 'sin', r])
            if not ok:
                return False
            a = S.nreg() - 1
        return S.try_emit(['un', name, a])
    if fam == 'kink':
        # absolute / sign / clip away from their kinks; operands whose sign differs between probe points are preferred
        which = draw(st.sampled_from(['absolute', 'sign', 'botched_clip', 'absolute']))
        if which == 'botched_clip':
            lo = draw(st.sampled_from([-1.0, -0.5, 0.0, 0.3]))
            ins_of = lambda q: ['unp', 'botched_clip', [lo, lo + 1.0], q]
        else:
            ins_of = lambda q: ['un', which, q]
        ok = lambda q: real(q) and all(precond(ins_of(q), S.regs[k]) for k in range(S.K))
        mixed = lambda q: ok(q) and len(set(np.sign(np.ravel(S.regs[k][q]))[0] for k in range(S.K))) > 1
        a = _pick(draw, S, mixed)
        if a is None:
            a = _pick(draw, S, ok)
        if a is None:
            return False
        return S.try_emit(ins_of(a))
    if fam == 'unp':
        a = _pick(draw, S, real)
        if a is None:
            return False
        which = draw(st.sampled_from(['polygamma', 'hyperu', 'botched_clip']))
        if which == 'polygamma':
            params = [draw(st.integers(0, 2))]
        elif which == 'hyperu':
            params = [draw(st.sampled_from([0.5, 1.0, 1.5])), draw(st.sampled_from([0.5, 1.5, 2.5]))]
        else:
            lo = draw(st.sampled_from([-1.0, -0.5, 0.0, 0.3]))
            params = [lo, lo + draw(st.sampled_from([0.5, 1.0, 2.0]))]
        return S.try_emit(['unp', which, params, a])
    if fam == 'bin':
        a = _pick(draw, S, lambda r: True)
        opn = draw(st.sampled_from(['add', 'sub', 'mul', 'mul'] + ([] if poly else ['div', 'div'])))

        def compat(r):
            try:
                np.broadcast_shapes(S.shape(a), S.shape(r))
            except ValueError:
                return False
            if opn == 'div':
                return all(precond(['bin', 'div', a, r], S.regs[k]) for k in range(S.K))
            return True
        want_bcast = draw(st.booleans())
        b = None
        if want_bcast:
            b = _pick(draw, S, lambda r: compat(r) and S.shape(r) != S.shape(a))
        if b is None:
            b = _pick(draw, S, compat)
        if b is None and opn == 'div':
            # make an admissible denominator: 0.5 + square(reg)
            c = _pick(draw, S, lambda r: real(r) and compat_shape(S, a, r))
            if c is None or not S.try_emit(['un', 'square', c]) or not S.try_emit(['binc', 'add', S.nreg() - 1, 0.5, 'r']):
                return False
            b = S.nreg() - 1
        if b is None:
            return False
        if draw(st.booleans()):
            a, b = (b, a) if opn != 'div' else (a, b)
        return S.try_emit(['bin', opn, a, b])
    if fam == 'bcast':
        # an operand that must be broadcast against its source: keepdims-style reductions and size-1 slices
        a = _pick(draw, S, lambda r: S.ndim(r) >= 1 and real(r))
        if a is None:
            return False
        nd = S.ndim(a)
        shp = S.shape(a)
        form = draw(st.integers(0, 2))
        if form == 0:
            ax = draw(st.integers(0, nd - 1))
            if not S.try_emit(['sum', a, ax]):
                return False
            new = list(shp)
            new[ax] = 1
            if nd > 1 and not S.try_emit(['reshape', S.nreg() - 1, tuple(new)]):
                return False
        elif form == 1:
            ax = draw(st.integers(0, nd - 1))
            idx = tuple(slice(0, 1) if k == ax else slice(None) for k in range(nd))
            if not S.try_emit(['get', a, idx]):
                return False
        else:
            if not S.try_emit(['get', a, (0,) * 1]):
                return False
        b = S.nreg() - 1
        opn = draw(st.sampled_from(['add', 'sub', 'mul'] + ([] if poly else ['div', 'div'])))
        order = draw(st.booleans())
        x, y = (a, b) if order else (b, a)
        if opn == 'div' and not all(precond(['bin', 'div', x, y], S.regs[k]) for k in range(S.K)):
            if not S.try_emit(['un', 'square', y]) or not S.try_emit(['binc', 'add', S.nreg() - 1, 0.5, 'r']):
                return False
            y = S.nreg() - 1
        return S.try_emit(['bin', opn, x, y])
    if fam == 'binc':
        a = _pick(draw, S, real)
        if a is None:
            return False
        opn = draw(st.sampled_from(['add', 'sub', 'mul', 'div']))
        c = consts(draw, S.shape(a))
        side = draw(st.sampled_from(['l', 'r']))
        if poly and opn == 'div':
            side = 'r'
        return S.try_emit(['binc', opn, a, c, side])
    if fam == 'pow':
        r = draw(st.sampled_from([2, 3, 0, 1] if poly else [2, 3, -1, -2, -3, 0.5, 1.5, -0.5, 2.0, 0, 1, 4]))
        a = None
        if draw(st.integers(0, 2)) == 0:
            # x**n, n a positive Python int, at a base point that is exactly zero (the kernels special-case it)
            a = _pick(draw, S, lambda q: real(q) and any(np.any(np.asarray(S.regs[k][q]) == 0) for k in range(1, S.K)))
            if a is not None:
                r = draw(st.sampled_from([3, 2, 4, 3] if not poly else [3, 2]))
        if a is None:
            a = _pick(draw, S, lambda q: real(q) and all(precond(['pow', q, r], S.regs[k]) for k in range(S.K)))
        if a is None:
            # make an admissible operand: 0.5 + square(reg) is >= 0.5 everywhere
            b = _pick(draw, S, real)
            if b is None or not S.try_emit(['un', 'square', b]) or not S.try_emit(['binc', 'add', S.nreg() - 1, 0.5, 'r']):
                return False
            a = S.nreg() - 1
        return S.try_emit(['pow', a, r])
    if fam == 'powreg':
        # polynomial ** polynomial (traced: the exponent is an operand of the node, not a constant)
        a = _pick(draw, S, lambda q: real(q) and all(precond(['pow', q, 0.5], S.regs[k]) for k in range(S.K)))
        if a is None:
            c = _pick(draw, S, real)
            if c is None or not S.try_emit(['un', 'square', c]) or not S.try_emit(['binc', 'add', S.nreg() - 1, 0.5, 'r']):
                return False
            a = S.nreg() - 1
        b = _pick(draw, S, lambda q: real(q) and q != a and all(precond(['powreg', a, q], S.regs[k]) for k in range(S.K)))
        if b is None:
            return False
        return S.try_emit(['powreg', a, b])
    if fam == 'neg':
        a = _pick(draw, S, lambda r: True)
        return S.try_emit(['neg', a])
    if fam == 'get':
        a = _pick(draw, S, lambda r: S.ndim(r) >= 1)
        if a is None:
            return False
        if getattr(S, 'list_index', False) and draw(st.integers(0, 4)) == 0:
            # an index list on the first axis (NumPy: a copy of the selected rows, in the listed order; no repetitions here)
            n = S.shape(a)[0]
            sel = draw(st.lists(st.integers(0, n - 1), min_size=1, max_size=n, unique=True))
            return S.try_emit(['get', a, list(sel)])
        idx = _basic_index(draw, S.shape(a))
        return S.try_emit(['get', a, idx])
    if fam == 'T':
        a = _pick(draw, S, lambda r: S.ndim(r) == 2)
        if a is None:
            return False
        return S.try_emit(['T', a])
    if fam == 'reshape':
        a = _pick(draw, S, lambda r: S.ndim(r) >= 1 and int(np.prod(S.shape(r))) >= 1)
        if a is None:
            return False
        if S.ndim(a) == 2 and draw(st.booleans()):
            # a non-contiguous source: transposed or strided view (NumPy copies in reshape, or reshapes the view)
            if draw(st.booleans()):
                if S.try_emit(['T', a]):
                    a = S.nreg() - 1
            else:
                if S.try_emit(['get', a, (slice(None), slice(None, None, -1))] if draw(st.booleans()) else ['get', a, (slice(None, None, -1),)]):
                    a = S.nreg() - 1
        n = int(np.prod(S.shape(a)))
        opts = [(n,), (-1,), (1, n), (n, 1)]
        for k in (2, 3):
            if n % k == 0 and n // k >= 1:
                opts.append((k, n // k))
                opts.append((n // k, -1))
        return S.try_emit(['reshape', a, draw(st.sampled_from(opts))])
    if fam == 'buf':
        a = _pick(draw, S, real)
        if a is None:
            return False
        shape = draw(st.sampled_from([(2,), (3,), (2, 2), (2, 3), (3, 3), S.shape(a) or (2,)]))
        kind = draw(st.sampled_from(['zeros', 'zeros', 'ones'] if allow_ones else ['zeros']))
        ok = S.try_emit([kind, tuple(shape), a])
        if ok:
            # fill a few entries right away so that buffers carry derivative information
            b = S.nreg() - 1
            for _ in range(draw(st.integers(1, 3))):
                _emit_set(draw, S, b, allow_set_broadcast)
        return ok
    if fam == 'set':
        b = _pick(draw, S, lambda r: r in S.bufroot and S.ndim(r) >= 1)
        if b is None:
            return _emit_family(draw, S, 'buf', allow_set_broadcast, allow_ndim_dot, allow_ones)
        return _emit_set(draw, S, b, allow_set_broadcast)
    if fam == 'rmw':
        # read an entry/view of a buffer, transform it, write it back to the same place (rewrite after read)
        b = _pick(draw, S, lambda r: r in S.bufroot and S.ndim(r) >= 1)
        if b is None:
            if not _emit_family(draw, S, 'buf', allow_set_broadcast, allow_ndim_dot, allow_ones):
                return False
            b = S.nreg() - 1
            if b not in S.bufroot or S.ndim(b) < 1:
                return False
        if S.ndim(b) in (1, 2) and draw(st.integers(0, 3)) == 0:
            # the same entry read twice with a scalar index, overwritten in between through ANOTHER node that aliases the buffer
            shp = S.shape(b)
            if S.ndim(b) == 1:
                i = draw(st.integers(0, shp[0] - 1))
                i0 = draw(st.integers(0, i))
                full, vidx, j = i, slice(i0, None), i - i0
            else:
                i = (draw(st.integers(0, shp[0] - 1)), draw(st.integers(0, shp[1] - 1)))
                full, vidx, j = i, i[0], i[1]
            if not S.try_emit(['get', b, vidx]):
                return False
            v = S.nreg() - 1
            if not S.try_emit(['get', b, full]):
                return False
            r1 = S.nreg() - 1
            w = _pick(draw, S, lambda r: real(r) and S.shape(r) == () and S.bufroot.get(r) != S.bufroot[b])
            if w is None:
                if not S.try_emit(['un', 'square' if poly else 'cos', r1]):
                    return False
                w = S.nreg() - 1
            if not (S.try_emit(['set', v, j, w]) and S.try_emit(['get', b, full])):
                return False
            return S.try_emit(['bin', draw(st.sampled_from(['add', 'mul'])), r1, S.nreg() - 1])
        idx = _basic_index(draw, S.shape(b))
        if not S.try_emit(['get', b, idx]):
            return False
        t = S.nreg() - 1
        f = draw(st.sampled_from(['square'] if poly else ['sin', 'cos', 'square', 'exp']))
        if not S.try_emit(['un', f, t]):
            return False
        u = S.nreg() - 1
        if draw(st.booleans()):
            o = _pick(draw, S, lambda r: real(r) and S.shape(r) in ((), S.shape(u)) and S.bufroot.get(r) != S.bufroot[b])
            if o is not None and S.try_emit(['bin', 'mul', u, o]):
                u = S.nreg() - 1
        if S.shape(u) != np.shape(S.regs[0][b][idx]):
            return False
        return S.try_emit(['set', b, idx, u])
    if fam == 'sum':
        a = _pick(draw, S, lambda r: S.ndim(r) >= 1 and not S.cplx(r))
        if a is None:
            return False
        nd = S.ndim(a)
        nc = [q for q in sorted(S.noncontig) if S.ndim(q) >= 2 and not S.cplx(q)]
        if nc and draw(st.integers(0, 2)) == 0:
            # the whole of a non-contiguous view (transpose, column block, reversed / strided rows): the adjoint buffer has that layout too
            return S.try_emit(['sum', draw(st.sampled_from(nc)), None])
        if not nc and nd >= 2 and draw(st.integers(0, 3)) == 0 and S.try_emit(['T', a]):
            return S.try_emit(['sum', S.nreg() - 1, None])
        if draw(st.integers(0, 3)) == 0:
            # a reduction over an axis of length 1 (or of a single element): nothing is added up, the result must still be a new value
            ones = [q for q in range(S.nreg()) if S.ndim(q) >= 1 and not S.cplx(q) and 1 in S.shape(q)]
            if ones:
                a = draw(st.sampled_from(ones))
                nd = S.ndim(a)
                k = draw(st.sampled_from([i for i, n in enumerate(S.shape(a)) if n == 1]))
                return S.try_emit(['sum', a, draw(st.sampled_from([k, k - nd] + ([None] if int(np.prod(S.shape(a))) == 1 else [])))])
            if S.try_emit(['get', a, (Ellipsis, slice(0, 1))]):
                a = S.nreg() - 1
                return S.try_emit(['sum', a, -1])
        axis = draw(st.sampled_from([None] + list(range(-nd, nd))))
        return S.try_emit(['sum', a, axis])
    if fam == 'prod':
        a = _pick(draw, S, lambda r: S.ndim(r) in (1, 2) and not S.cplx(r) and int(np.prod(S.shape(r))) <= 6)      # (any rank since the fix of KF-prod-rank)
        if a is None:
            return False
        return S.try_emit(['prod', a])
    if fam == 'trace':
        a = _pick(draw, S, lambda r: S.ndim(r) == 2 and not S.cplx(r))
        if a is None:
            return False
        return S.try_emit(['trace', a])
    if fam == 'dot':
        a = _pick(draw, S, lambda r: S.ndim(r) in (1, 2) and not S.cplx(r))
        if a is None:
            return False

        def compat(r):
            if S.cplx(r) or S.ndim(r) not in (1, 2):
                return False
            sa, sb = S.shape(a), S.shape(r)
            return sa[-1] == (sb[0] if len(sb) == 1 else sb[-2])
        b = _pick(draw, S, compat)
        if b is None:
            return False
        return S.try_emit(['dot', a, b])
    if fam == 'dotnd':
        # dot with an operand of rank 3 (NumPy: sum over the last axis of a and the second-to-last of b)
        a = _pick(draw, S, lambda r: S.ndim(r) == 3 and not S.cplx(r))
        if a is None:
            return False
        sa = S.shape(a)
        side = draw(st.sampled_from(['l', 'r']))

        def compat(r):
            if S.cplx(r) or S.ndim(r) not in (1, 2, 3):
                return False
            sb = S.shape(r)
            if side == 'r':     # dot(a, r)
                return sa[-1] == (sb[0] if len(sb) == 1 else sb[-2])
            return sb[-1] == sa[-2]   # dot(r, a)
        b = _pick(draw, S, compat)
        if b is None:
            k = sa[-1] if side == 'r' else sa[-2]
            c = np.asarray(draw(gen.float_array((k,) if draw(st.booleans()) else ((k, 2) if side == 'r' else (2, k)),
                                                st.sampled_from([0.5, 1.0, 2.0, -1.0, 1.5]), sparse=False)))
            return S.try_emit(['dotc', a, c, side])
        return S.try_emit(['dot', a, b] if side == 'r' else ['dot', b, a])
    if fam == 'dotc':
        a = _pick(draw, S, lambda r: S.ndim(r) in (1, 2) and not S.cplx(r))
        if a is None:
            return False
        side = draw(st.sampled_from(['l', 'r']))
        sa = S.shape(a)
        m = draw(st.integers(1, 3))
        if side == 'r':
            cshape = draw(st.sampled_from([(sa[-1],), (sa[-1], m)]))
        else:
            k = sa[0] if len(sa) == 1 else sa[-2]
            cshape = draw(st.sampled_from([(k,), (m, k)]))
        c = np.asarray(draw(gen.float_array(cshape, st.sampled_from([0.5, 1.0, 2.0, -1.0, 1.5, -0.5, 0.0]), sparse=False)))
        return S.try_emit(['dotc', a, c, side])
    if fam == 'outer':
        a = _pick(draw, S, lambda r: S.ndim(r) == 1 and not S.cplx(r))
        b = _pick(draw, S, lambda r: S.ndim(r) == 1 and not S.cplx(r))
        if a is None or b is None:
            return False
        return S.try_emit(['outer', a, b])
    if fam in ('inv', 'det', 'logdet', 'lu', 'eigh', 'symvec', 'chol'):
        a = _pick(draw, S, lambda r: S.ndim(r) == 2 and S.shape(r)[0] == S.shape(r)[1] and not S.cplx(r))
        if a is None:
            return False
        if fam == 'lu':
            return S.try_emit(['lu', a, draw(st.sampled_from([1, 2]))])
        if fam == 'eigh':
            kind = draw(st.sampled_from(['val', 'val', 'vec', 'fun'] if raw_vectors else ['fun', 'val', 'fun']))
            if kind == 'fun':
                return S.try_emit(['eigh_fun', a])
            return S.try_emit(['eigh_sym', a, 0 if kind == 'val' else 1])
        if fam == 'symvec':
            return S.try_emit([draw(st.sampled_from(['symvec', 'symvec_raw', 'symvec_raw'])), a, draw(st.sampled_from(['F', 'L', 'U']))])
        if fam == 'chol':
            return S.try_emit(['chol_spd', a, draw(st.sampled_from([1.0, 0.5, 2.0]))])
        return S.try_emit([fam, a])
    if fam == 'solve':
        a = _pick(draw, S, lambda r: S.ndim(r) == 2 and S.shape(r)[0] == S.shape(r)[1] and not S.cplx(r))
        if a is None:
            return False
        # UTPM.solve requires a 2-D right hand side (it raises a ValueError saying so for vectors)
        b = None
        if draw(st.booleans()):
            # a freshly allocated single-column right-hand side (n,1)
            v = _pick(draw, S, lambda r: S.ndim(r) == 1 and S.shape(r)[0] == S.shape(a)[0] and not S.cplx(r))
            if v is not None and S.try_emit(['reshape', v, (S.shape(a)[0], 1)]):
                b = S.nreg() - 1
            elif S.try_emit(['dotc', a, np.ones((S.shape(a)[0], 1)), 'r']):
                b = S.nreg() - 1
        if b is None:
            b = _pick(draw, S, lambda r: S.ndim(r) == 2 and S.shape(r)[0] == S.shape(a)[0] and not S.cplx(r))
        if b is None:
            return False
        return S.try_emit(['solve', a, b])
    if fam == 'qr':
        a = _pick(draw, S, lambda r: S.ndim(r) == 2 and not S.cplx(r))
        if a is None:
            return False
        which = draw(st.sampled_from(['qr', 'qr', 'qr_full', 'qr_twice']))
        if draw(st.integers(0, 2)) == 0 and S.try_emit(['T', a]):
            a = S.nreg() - 1       # Fortran-ordered view as operand
        return S.try_emit([which, a, draw(st.sampled_from([0, 1]))])
    if fam == 'eig':
        a = _pick(draw, S, lambda r: S.ndim(r) == 2 and S.shape(r)[0] == S.shape(r)[1] and not S.cplx(r))
        if a is None:
            return False
        return S.try_emit(['eig_val', a])
    if fam == 'svd':
        a = _pick(draw, S, lambda r: S.ndim(r) == 2 and not S.cplx(r))
        if a is None:
            return False
        return S.try_emit(['svd_s', a])
    if fam == 'fft':
        a = _pick(draw, S, lambda r: S.ndim(r) in (1, 2))
        if a is None:
            return False
        which = draw(st.sampled_from(['fft', 'ifft']))
        nd = S.ndim(a)
        axis = draw(st.sampled_from([-1] + list(range(nd))))
        ok = S.try_emit([which, a, None, axis])
        if ok:
            z = S.nreg() - 1
            form = draw(st.integers(0, 7))
            if form >= 6:
                # imag(z) (or real(z)) next to another consumer of z
                S.try_emit([draw(st.sampled_from(['imag', 'imag', 'real'])), z])
                part = S.nreg() - 1
                if S.try_emit(['bin', 'mul', z, z]) and S.try_emit(['real', S.nreg() - 1]):
                    S.try_emit(['bin', draw(st.sampled_from(['add', 'mul'])), S.nreg() - 1, part])
            elif form >= 4:
                # mix the complex intermediate with a real register: z - r, r - z, z + r, r * z
                r = _pick(draw, S, lambda q: not S.cplx(q) and S.shape(q) in ((), S.shape(z)))
                if r is not None:
                    opn = draw(st.sampled_from(['sub', 'sub', 'add', 'mul']))
                    args = (z, r) if form == 4 else (r, z)
                    if S.try_emit(['bin', opn, args[0], args[1]]):
                        S.try_emit([draw(st.sampled_from(['real', 'imag'])), S.nreg() - 1])
            elif form == 0:
                S.try_emit(['real', z])
            elif form == 1:
                S.try_emit(['imag', z])
            elif form == 2:
                S.try_emit(['bin', 'mul', z, z])
                S.try_emit(['real', S.nreg() - 1])
            else:
                S.try_emit(['conj', z])
                S.try_emit(['bin', 'mul', z, S.nreg() - 1])
                S.try_emit(['real', S.nreg() - 1])
        return ok
    if fam == 'unfwd':
        name = draw(st.sampled_from(sorted(UN_FWD)))
        a = _pick(draw, S, lambda q: real(q) and all(precond(['un', name, q], S.regs[k]) for k in range(S.K)))
        if a is None:
            b = _pick(draw, S, real)
            if b is None or not S.try_emit(['un', 'sin', b]) or not S.try_emit(['binc', 'mul', S.nreg() - 1, 0.5, 'r']):
                return False
            a = S.nreg() - 1
        return S.try_emit(['un', name, a])
    if fam == 'minmax':
        a = _pick(draw, S, lambda r: real(r) and S.ndim(r) >= 1)
        if a is None:
            return False
        b = _pick(draw, S, lambda r: real(r) and S.shape(r) == S.shape(a) and r != a)
        if b is None:
            if not S.try_emit(['un', 'cos', a]):
                return False
            b = S.nreg() - 1
        return S.try_emit(['minmax', draw(st.sampled_from(['minimum', 'maximum'])), a, b])
    if fam == 'iop':
        a = _pick(draw, S, lambda r: real(r) and S.ndim(r) >= 1)
        if a is None:
            return False
        opn = draw(st.sampled_from(['mul', 'add', 'sub', 'div', 'mul']))
        if draw(st.integers(0, 3)) == 0:
            return S.try_emit(['iop', opn, a, consts(draw, S.shape(a)), 'const'])

        def fits(r):
            try:
                ok = np.broadcast_shapes(S.shape(a), S.shape(r)) == S.shape(a)
            except ValueError:
                return False
            return ok and real(r) and all(precond(['iop', opn, a, r, 'reg'], S.regs[k]) for k in range(S.K))
        # a right operand of lower rank (broadcast needed) is preferred: that is where the direction axis can get mixed up
        b = _pick(draw, S, lambda r: fits(r) and S.ndim(r) < S.ndim(a))
        if b is None:
            if S.ndim(a) >= 1 and draw(st.booleans()) and S.try_emit(['get', a, 0]):
                cand = S.nreg() - 1
                b = cand if fits(cand) else None
        if b is None:
            b = _pick(draw, S, fits)
        if b is None:
            return False
        return S.try_emit(['iop', opn, a, b, 'reg'])
    if fam == 'shift':
        a = _pick(draw, S, lambda r: real(r))
        if a is None:
            return False
        return S.try_emit(['shift', a, draw(st.sampled_from([1, 2, 0, 3, 1]))])
    if fam == 'solvec':
        side = draw(st.sampled_from(['r', 'l']))
        if side == 'r':
            a = _pick(draw, S, lambda r: S.ndim(r) == 2 and S.shape(r)[0] == S.shape(r)[1] and real(r))
            if a is None:
                return False
            n = S.shape(a)[0]
            k = draw(st.sampled_from([1, 2, n]))
            c = np.asarray(draw(gen.float_array((n, k), st.sampled_from([0.5, 1.0, 2.0, -1.0, 1.5, 0.0]), sparse=False)), dtype=float)
        else:
            a = _pick(draw, S, lambda r: S.ndim(r) == 2 and real(r))
            if a is None:
                return False
            n = S.shape(a)[0]
            c = draw(st.one_of(gen.well_conditioned(n), gen.pivot_forcing(n)))
        if draw(st.booleans()):
            c = np.asfortranarray(c)      # Fortran-ordered constant (also what a single column or a .T view is)
        return S.try_emit(['solvec', a, c, side])
    if fam == 'umax':
        a = _pick(draw, S, lambda q: real(q) and S.ndim(q) == 1 and all(precond(['umax', q], S.regs[k]) for k in range(S.K)))  # UTPM.max: vectors only (declared)
        if a is None:
            return False
        return S.try_emit(['umax', a])
    if fam == 'tri':
        a = _pick(draw, S, lambda r: S.ndim(r) == 2 and real(r))
        if a is None:
            return False
        return S.try_emit(['tri', draw(st.sampled_from(['triu', 'tril'])), a, draw(st.sampled_from([0, 0, 1, -1]))])
    if fam == 'vec2lin':
        # vector -> square matrix -> factorisation (programs with a single 1-D input, e.g. the histories of C06)
        a = _pick(draw, S, lambda r: S.ndim(r) == 1 and S.shape(r)[0] in (4, 9) and real(r))
        if a is None:
            return False
        n = 2 if S.shape(a)[0] == 4 else 3
        if not S.try_emit(['reshape', a, (n, n)]):
            return False
        m = S.nreg() - 1
        for kind in draw(st.permutations(['eigh_fun', 'eigh_fun', 'eigh_val', 'chol', 'det', 'inv'])):
            ins = {'eigh_fun': ['eigh_fun', m], 'eigh_val': ['eigh_sym', m, 0], 'chol': ['chol_spd', m, 1.0], 'det': ['det', m], 'inv': ['inv', m]}[kind]
            if S.try_emit(ins):
                return True
        return False
    if fam == 'rpowc':
        a = _pick(draw, S, lambda q: real(q) and all(np.all(np.abs(np.asarray(S.regs[k][q])) <= 3) for k in range(S.K)))
        if a is None:
            return False
        kind = draw(st.sampled_from(['array', 'array', '0d', 'scalar', 'row']))
        shp = S.shape(a)
        el = st.sampled_from([0.5, 2.0, 1.5, 3.0, 1.0, 0.75, 2.5])
        if kind == 'scalar':
            c = draw(el)
        elif kind == '0d' or not shp:
            c = np.array(draw(el))
        elif kind == 'row':
            c = np.array([draw(el) for _ in range(shp[-1])])
        else:
            c = np.array([draw(el) for _ in range(int(np.prod(shp)))]).reshape(shp)
        return S.try_emit(['rpowc', a, c])
    if fam == 'eighraw':
        # a s a^T with s = a + a^T: symmetric as a polynomial, but only up to rounding in floating point
        a = _pick(draw, S, lambda r: S.ndim(r) == 2 and S.shape(r)[0] == S.shape(r)[1] and real(r))
        if a is None:
            return False
        n0 = S.nreg()
        if not (S.try_emit(['T', a]) and S.try_emit(['bin', 'add', a, n0]) and S.try_emit(['dot', a, n0 + 1]) and S.try_emit(['dot', n0 + 2, n0])):
            return False
        return S.try_emit(['eigh_raw', n0 + 3, draw(st.sampled_from([0, 1]))])
    if fam == 'abs':
        a = _pick(draw, S, lambda q: real(q) and all(precond(['abs', q], S.regs[k]) for k in range(S.K)))
        if a is None:
            return False
        return S.try_emit(['abs', a])
    if fam == 'expm':
        a = _pick(draw, S, lambda r: S.ndim(r) == 2 and S.shape(r)[0] == S.shape(r)[1] and real(r))
        if a is None:
            return False
        for c in (0.25, 0.1, 0.05, 0.02):
            if S.try_emit(['expm', a, c]):
                return True
        return False
    if fam == 'svdfull':
        a = _pick(draw, S, lambda r: S.ndim(r) == 2 and real(r))
        if a is None:
            return False
        return S.try_emit(['svd_full', a])
    if fam == 'tile':
        a = _pick(draw, S, lambda r: S.ndim(r) in (1, 2) and not S.cplx(r) and int(np.prod(S.shape(r))) <= 6)
        if a is None:
            return False
        reps = draw(st.sampled_from([2, (2,), (1, 2), (2, 1), (2, 2)]))
        return S.try_emit(['tile', a, reps])
    if fam == 'diag':
        a = _pick(draw, S, lambda r: not S.cplx(r) and (S.ndim(r) == 1 or (S.ndim(r) == 2 and S.shape(r)[0] == S.shape(r)[1])))
        if a is None:
            return False
        return S.try_emit(['diag', a])
    if fam == 'bufdet':
        # the determinant of ONE buffer taken twice with an in-place write in between (anything a factorisation keeps per operand
        # object must not survive the write)
        a = _pick(draw, S, lambda r: S.ndim(r) == 2 and S.shape(r)[0] == S.shape(r)[1] and real(r) and all(precond(['det', r], S.regs[k]) for k in range(S.K)))
        if a is None:
            return False
        n = S.shape(a)[0]
        if not (S.try_emit(['zeros', (n, n), a]) and S.try_emit(['set', S.nreg() - 1, Ellipsis, a])):
            return False
        b = S.nreg() - 1
        if not S.try_emit(['det', b]):
            return False
        d1 = S.nreg() - 1
        i = (draw(st.integers(0, n - 1)), draw(st.integers(0, n - 1)))
        for c in (3.0, -3.0, 5.0):
            if S.try_emit(['setc', b, i, c]):
                break
        else:
            return False
        b2 = S.nreg() - 1
        if not S.try_emit(['det', b2]):
            return False
        return S.try_emit(['bin', draw(st.sampled_from(['add', 'mul', 'sub'])), d1, S.nreg() - 1])
    if fam == 'vecsym':
        # vector of n(n+1)/2 entries -> symmetric matrix, then consumed NON-symmetrically (a symmetric consumer hides a pullback
        # that treats the two off-diagonal copies differently)
        a = _pick(draw, S, lambda r: S.ndim(r) == 1 and S.shape(r)[0] in (3, 6) and real(r))
        if a is None:
            return False
        if not S.try_emit(['vecsym', a]):
            return False
        m = S.nreg() - 1
        n = S.shape(m)[0]
        form = draw(st.integers(0, 3))
        if form == 0:
            c = np.array(draw(gen.float_array((n, n), st.sampled_from([0.5, 1.0, 2.0, -1.0, 1.5, 3.0, 0.0]), sparse=False)))
            S.try_emit(['binc', 'mul', m, c, 'r'])
        elif form == 1:
            S.try_emit(['get', m, (draw(st.integers(0, n - 2)), slice(draw(st.integers(1, n - 1)), None))])
        elif form == 2:
            c = np.array(draw(gen.float_array((n, draw(st.integers(1, 2))), st.sampled_from([0.5, 1.0, 2.0, -1.0]), sparse=False)))
            S.try_emit(['dotc', m, c, 'r'])
        else:
            b = _pick(draw, S, lambda r: S.shape(r) == (n, n) and r != m and real(r))
            if b is not None:
                S.try_emit(['bin', 'mul', m, b])
        return True
    if fam == 'cplx':
        # real / imag / conjugate applied to a value that is REAL while recording (a replay may be complex)
        a = _pick(draw, S, real)
        if a is None:
            return False
        form = draw(st.integers(0, 3))
        if form == 0:
            return S.try_emit(['conj', a]) and S.try_emit(['bin', 'mul', a, S.nreg() - 1]) and S.try_emit(['real', S.nreg() - 1])
        if form == 1:
            return S.try_emit(['real', a])
        if form == 2:
            return S.try_emit(['conj', a])
        return S.try_emit(['imag', a]) and S.try_emit(['bin', 'add', a, S.nreg() - 1])
    raise KeyError(fam)


def _emit_set(draw, S, b, allow_set_broadcast):
    shape = S.shape(b)
    idx = _basic_index(draw, shape)
    tshape = np.shape(S.regs[0][b][idx])
    if draw(st.integers(0, 5)) == 0 and S.ndim(b) >= 1:
        # buf[idx] = buf[k]: the value is a view of the target buffer itself
        k = draw(st.integers(0, shape[0] - 1))
        if S.try_emit(['get', b, k]):
            v = S.nreg() - 1
            try:
                fits_self = np.broadcast_shapes(tshape, S.shape(v)) == tshape
            except ValueError:
                fits_self = False
            if fits_self and (allow_set_broadcast or S.shape(v) == tshape):
                return S.try_emit(['set', b, idx, v])
    if draw(st.integers(0, 3)) == 0:
        if len(tshape) >= 1 and draw(st.booleans()):
            c = np.asarray(draw(gen.float_array(tshape, st.sampled_from([0.5, 1.0, 2.0, -1.0, 0.0]), sparse=False)), dtype=float)
        else:
            c = draw(st.sampled_from([1.0, 0.0, 2, -1.5]))
        return S.try_emit(['setc', b, idx, c])

    def fits(r):
        if S.cplx(r):
            return False
        s = S.shape(r)
        if s == tshape:
            return True
        if not allow_set_broadcast:
            return False
        try:
            return np.broadcast_shapes(tshape, s) == tshape
        except ValueError:
            return False
    v = _pick(draw, S, fits)
    if v is None:
        return False
    return S.try_emit(['set', b, idx, v])


def _finish(draw, S, out):
    """choose / construct the output register of the requested kind (always real)"""
    last = S.nreg() - 1
    if S.cplx(last):
        S.try_emit(['real', last])
        last = S.nreg() - 1
    if out == 'any':
        if draw(st.integers(0, 3)) == 0:
            # an intermediate register as output: the dependent node then has consumers recorded after it
            c = [q for q in range(S.n, S.nreg() - 1) if not S.cplx(q)]
            if c:
                return draw(st.sampled_from(c))
        return last
    if out == 'scalar':
        if S.ndim(last) > 0:
            form = draw(st.integers(0, 2))
            if form == 0 or not S.try_emit(['bin', 'mul', last, last]):
                S.try_emit(['sum', last, None])
            else:
                S.try_emit(['sum', S.nreg() - 1, None])
        if S.ndim(S.nreg() - 1) > 0 or S.cplx(S.nreg() - 1):
            # the reductions overflowed the magnitude bound: fall back to one entry of the last real array register
            r = max(q for q in range(S.nreg()) if not S.cplx(q))
            if S.ndim(r) > 0:
                S.try_emit(['get', r, (0,) * S.ndim(r)])
            else:
                S.try_emit(['un', 'negative', r])
        return S.nreg() - 1
    if out == 'vector':
        if S.ndim(last) == 0:
            # combine with an input to get a vector
            a = _pick(draw, S, lambda r: S.ndim(r) == 1 and not S.cplx(r))
            S.try_emit(['bin', 'mul', last, a if a is not None else 0])
            last = S.nreg() - 1
        if S.ndim(last) >= 2:
            S.try_emit(['reshape', last, (-1,)])
            last = S.nreg() - 1
        return last
    raise KeyError(out)


# ---------------------------------------------------------------------------
# classification of programs (evidence histogram / non-triviality rules)
# ---------------------------------------------------------------------------

def features(case):
    prog = case['prog']
    nin = len(case['pts'])
    f = set()
    root = {}          # register -> root buffer register
    readroots = set()  # buffers that have been read (directly or through a view)
    for n, ins in enumerate(prog):
        op = ins[0]
        reg = nin + n
        if op in ('zeros', 'ones'):
            f.add('buffer')
            root[reg] = reg
        if op in ('set', 'setc'):
            f.add('write')
            r = root.get(ins[1])
            root[reg] = r
            if r in readroots:
                f.add('rewrite-after-read')
            if ins[1] != r and prog[ins[1] - nin][0] in ('get', 'T'):
                f.add('view-write')
            if op == 'setc' and isinstance(ins[3], np.ndarray):
                f.add('write-ndarray-const')
        else:
            for a in ins[1:]:
                if isinstance(a, int) and not isinstance(a, bool) and a in root and op not in ('zeros', 'ones', 'pow', 'sum', 'tile'):
                    readroots.add(root[a])
            if op in ('sum',) and ins[1] in root:
                readroots.add(root[ins[1]])
        if op in ('get', 'T') and ins[1] in root:
            root[reg] = root[ins[1]]
        if op == 'bin':
            f.add('bin:' + ins[1])
        if op == 'binc':
            f.add('const-left' if ins[4] == 'l' else 'const-right')
            if isinstance(ins[3], (int, float)) and not isinstance(ins[3], bool) and ins[3] in (0, 1):
                f.add('const-neutral')
            if isinstance(ins[3], np.ndarray):
                f.add('const-ndarray')
        if op == 'pow':
            if isinstance(ins[2], int) and ins[2] < 0:
                f.add('neg-int-pow')
            elif not isinstance(ins[2], int):
                f.add('real-pow')
        if op in ('dot', 'dotc', 'outer'):
            f.add(op)
        if op in ('symvec_raw', 'rpowc', 'vecsym'):
            f.add(op)
        if op in ('real', 'imag', 'conj') and not any(q[0] in ('fft', 'ifft') for q in prog):
            f.add('real/imag/conj-of-real-value')
        if op in ('inv', 'solve', 'det', 'logdet', 'qr', 'qr_full', 'qr_twice', 'chol_spd', 'eigh_sym', 'eigh_fun', 'svd_s', 'lu', 'expm', 'svd_full', 'eig_val', 'eigh_raw'):
            f.add('linalg')
            f.add('linalg:' + op)
        if op in ('fft', 'ifft'):
            f.add('complex-intermediate')
        if op in ('reshape', 'T', 'tile', 'diag', 'symvec', 'sum', 'prod', 'trace'):
            f.add(op)
        if op == 'un' and ins[1] in UN_NONLINEAR or op in ('unp', 'pow', 'powreg', 'dot', 'outer', 'inv', 'solve', 'det', 'logdet', 'prod', 'qr', 'qr_full', 'qr_twice',
                                                          'chol_spd', 'eigh_sym', 'eigh_fun', 'svd_s', 'svd_full', 'lu', 'expm', 'eig_val', 'solvec', 'rpowc', 'eigh_raw') \
                or (op == 'bin' and ins[1] in ('mul', 'div')) or (op == 'binc' and ins[1] == 'div' and ins[4] == 'l'):
            f.add('nonlinear')
    f.add('len=%d' % min(len(prog), 12))
    f.add('inputs=%d' % len(case['pts']))
    return sorted(f)
