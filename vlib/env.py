"""Bootstrap shared by every check.

* puts $VERIF_REPO (default /repo) FIRST on sys.path and refuses to run when
  ``algopy`` is imported from anywhere else (site-packages holds a stale,
  non-editable copy);
* imports algopy BEFORE mpmath becomes importable: ``algopy.nthderiv`` does
  ``try: import mpmath`` and changes its exports when that succeeds, the
  baseline environment has no mpmath, so the code under test must not see it;
* installs mpmath (oracle only) into /verif/.deps/late from the offline
  wheelhouse when missing (idempotent).
"""
import os
import sys
import subprocess

VERIF = os.path.dirname(os.path.dirname(os.path.abspath(__file__)))
REPO = os.path.abspath(os.environ.get('VERIF_REPO', '/repo'))
DEPS_LATE = os.path.join(VERIF, '.deps', 'late')
DEPS_EARLY = os.path.join(VERIF, '.deps', 'early')
WHEELS = '/opt/veriftools/wheels'
# where evidence and newly found replay files are written (the sensitivity harness redirects it)
OUT = os.path.abspath(os.environ.get('VERIF_OUT', VERIF))


class HarnessError(Exception):
    pass


def _pip_target(target, pkgs):
    os.makedirs(target, exist_ok=True)
    cmd = [sys.executable, '-m', 'pip', 'install', '--quiet', '--no-index',
           '--find-links', WHEELS, '--target', target, '--upgrade'] + pkgs
    env = dict(os.environ)
    env['PIP_NO_INDEX'] = '1'
    env.pop('PYTHONPATH', None)
    subprocess.check_call(cmd, env=env, stdout=subprocess.DEVNULL)


def ensure_deps():
    """install what is missing (called by setup_cmd and, idempotently, by every check)"""
    try:
        import hypothesis  # noqa: F401
    except ImportError:
        if not os.path.isdir(os.path.join(DEPS_EARLY, 'hypothesis')):
            _pip_target(DEPS_EARLY, ['hypothesis', 'sortedcontainers', 'attrs'])
    if not os.path.isdir(os.path.join(DEPS_EARLY, 'atheris')):
        # optional engine (coverage-guided stage of C13's thorough tier); its absence only makes that stage inconclusive
        tmp = DEPS_EARLY + '.tmp%d' % os.getpid()
        try:
            _pip_target(tmp, ['atheris'])
            os.makedirs(DEPS_EARLY, exist_ok=True)
            for name in os.listdir(tmp):
                if not os.path.exists(os.path.join(DEPS_EARLY, name)):
                    os.rename(os.path.join(tmp, name), os.path.join(DEPS_EARLY, name))
        except Exception:
            pass
        finally:
            import shutil
            shutil.rmtree(tmp, ignore_errors=True)
    if not os.path.isdir(os.path.join(DEPS_LATE, 'mpmath')):
        # several checks may start at the same time: install into a private dir, then rename
        tmp = DEPS_LATE + '.tmp%d' % os.getpid()
        _pip_target(tmp, ['mpmath'])
        try:
            os.makedirs(os.path.dirname(DEPS_LATE), exist_ok=True)
            os.rename(tmp, DEPS_LATE)
        except OSError:
            import shutil
            shutil.rmtree(tmp, ignore_errors=True)


_done = False


def bootstrap():
    global _done
    if _done:
        return
    os.environ.setdefault('PYTHONDONTWRITEBYTECODE', '1')
    sys.dont_write_bytecode = True
    ensure_deps()
    # the code under test
    sys.path[:] = [p for p in sys.path if os.path.abspath(p or '.') != REPO]
    sys.path.insert(0, REPO)
    if os.path.isdir(DEPS_EARLY):
        sys.path.insert(1, DEPS_EARLY)
    for m in list(sys.modules):
        if m == 'mpmath' or m.startswith('mpmath.'):
            raise HarnessError('mpmath imported before algopy')
    import warnings
    warnings.simplefilter('ignore')
    import numpy
    numpy.seterr(all='ignore')
    import algopy
    f = os.path.abspath(algopy.__file__)
    if not f.startswith(REPO + os.sep):
        raise HarnessError('algopy imported from %s, not from %s' % (f, REPO))
    import algopy.special  # noqa
    import algopy.linalg  # noqa
    import algopy.fft  # noqa
    import algopy.exact_interpolation  # noqa
    import algopy.nthderiv  # noqa
    # now the oracle library
    sys.path.append(DEPS_LATE)
    import mpmath  # noqa: F401
    if VERIF not in sys.path:
        sys.path.append(VERIF)
    warnings.simplefilter('ignore')
    _done = True


if __name__ == '__main__':
    ensure_deps()
    print('deps ok')
