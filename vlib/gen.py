"""Shared Hypothesis strategies (values, shapes, UTPM coefficient arrays, matrices)."""
import numpy as np
from hypothesis import strategies as st
from hypothesis.extra import numpy as hnp


def _snap(v):
    v = float(v)
    return 0.0 if abs(v) < 1e-6 else v


def nice_floats(lo, hi):
    """floats in [lo,hi], no subnormal/tiny junk"""
    return st.floats(lo, hi, allow_nan=False, allow_infinity=False, allow_subnormal=False, width=64).map(_snap).filter(lambda v: lo <= v <= hi)


def coeff_elements(mag=1.0):
    """higher-order coefficient values: small integers, dyadics k/8, floats; zero is likely"""
    return st.one_of(
        st.sampled_from([0.0, 1.0, -1.0, 0.5, -0.5]).map(lambda v: v * mag),
        st.integers(-8, 8).map(lambda k: k / 8.0 * mag),
        nice_floats(-mag, mag),
    )


def dyadic_elements(kmax=16, den=4):
    return st.integers(-kmax, kmax).map(lambda k: k / float(den))


def interval_union(*ivs):
    """floats from a union of closed intervals"""
    return st.one_of(*[nice_floats(lo, hi) for lo, hi in ivs])


@st.composite
def dims(draw, Dmax=6, Pmax=3, Dmin=1, Pmin=1):
    # weighted towards D >= 3 (where convolution terms exist); D = 1, 2 stay present
    # (Hypothesis favours the first elements of sampled_from: the interesting sizes come first)
    pool = [d for d in range(max(3, Dmin), Dmax + 1)] * 2 + [d for d in range(Dmin, Dmax + 1)][::-1]
    D = draw(st.sampled_from(pool))
    P = draw(st.sampled_from([p for p in [2, 1, 2, 3, 1, 2, 4] if Pmin <= p <= Pmax]))
    return D, P


def shapes(max_rank=3, max_side=3, min_rank=0, min_side=1):
    return hnp.array_shapes(min_dims=min_rank, max_dims=max_rank, min_side=min_side, max_side=max_side)


@st.composite
def float_array(draw, shape, elements, sparse=True):
    shape = tuple(shape)
    if int(np.prod(shape, dtype=int)) == 0:
        return np.zeros(shape)
    if sparse and draw(st.integers(0, 2)) == 0:
        return draw(hnp.arrays(np.float64, shape, elements=elements, fill=st.just(0.0)))
    return draw(hnp.arrays(np.float64, shape, elements=elements, fill=st.nothing()))


@st.composite
def higher_coeffs(draw, shape, elements, sparse=True):
    """higher-order coefficient block (D-1,)+rest: dense, element-sparse, or with whole orders zeroed
    (patterns like x0 + x2 t^2, x0 + x3 t^3: an identically zero layer below a non-zero one)"""
    a = draw(float_array(shape, elements, sparse=sparse))
    n = shape[0] if len(shape) else 0
    if n >= 2 and draw(st.integers(0, 3)) == 0:
        keep = draw(st.lists(st.booleans(), min_size=n, max_size=n))
        if draw(st.booleans()):
            keep[0] = False       # x_1 == 0: the first non-vanishing layer has order m >= 2
        if not any(keep):
            keep[-1] = True
        a = a * np.array(keep, dtype=float).reshape((n,) + (1,) * (len(shape) - 1))
        if keep[-1] and not np.any(a[-1]):
            a[-1] = 1.0
    return a


@st.composite
def utpm_data(draw, D, P, shape, base, mag=1.0, cplx=False, base_im=None):
    """coefficient array (D,P)+shape; zeroth coefficients from ``base`` (drawn independently per
    direction and element), higher ones from coeff_elements (dense or sparse patterns)."""
    shape = tuple(shape)
    x0 = draw(float_array((1, P) + shape, base, sparse=False))
    if D > 1:
        hi = draw(higher_coeffs((D - 1, P) + shape, coeff_elements(mag)))
        x = np.concatenate([x0, hi], axis=0)
    else:
        x = x0
    if cplx:
        im0 = draw(float_array((1, P) + shape, base_im if base_im is not None else coeff_elements(mag), sparse=False))
        if D > 1:
            imh = draw(higher_coeffs((D - 1, P) + shape, coeff_elements(mag)))
            im = np.concatenate([im0, imh], axis=0)
        else:
            im = im0
        x = x + 1j * im
    return x


def pattern_class(x):
    """classify the higher-coefficient pattern of data (D,P,...)"""
    D = x.shape[0]
    if D == 1:
        return 'D1'
    hi = x[1:]
    nz = np.count_nonzero(hi)
    if nz == 0:
        return 'const'
    if any(not np.any(hi[k]) and np.any(hi[k + 1:]) for k in range(hi.shape[0] - 1)):
        return 'zero-layer-below-nonzero'
    if nz < hi.size / 2:
        return 'sparse'
    return 'dense'


def distinct_bases(x):
    """P>=2 and the zeroth coefficients differ between directions"""
    if x.shape[1] < 2:
        return False
    return not all(np.array_equal(x[0, 0], x[0, p]) for p in range(1, x.shape[1]))


# ---------------------------------------------------------------------------
# matrices with guaranteed regularity (constructive)
# ---------------------------------------------------------------------------

@st.composite
def orthogonal(draw, n):
    """orthogonal matrix from a product of Givens rotations with drawn angles and a sign flip"""
    Q = np.eye(n)
    if n == 1:
        return Q * draw(st.sampled_from([1.0, -1.0]))
    k = draw(st.integers(0, n * (n - 1) // 2 + 1))
    for _ in range(k):
        i = draw(st.integers(0, n - 2))
        j = draw(st.integers(i + 1, n - 1))
        th = draw(nice_floats(-3.0, 3.0))
        G = np.eye(n)
        c, s = np.cos(th), np.sin(th)
        G[i, i] = c
        G[j, j] = c
        G[i, j] = -s
        G[j, i] = s
        Q = Q @ G
    if draw(st.booleans()):
        Q[:, 0] *= -1
    return Q


@st.composite
def spaced_values(draw, n, lo, gap, maxstep=1.5, signs=False):
    """n values, pairwise separated by >= gap, the smallest magnitude >= lo"""
    vals = []
    v = lo + draw(nice_floats(0.0, maxstep))
    for _ in range(n):
        vals.append(v)
        v = v + gap + draw(nice_floats(0.0, maxstep))
    vals = np.array(vals)
    if signs:
        sg = np.array([draw(st.sampled_from([1.0, -1.0])) for _ in range(n)])
        vals = vals * sg
    return vals


@st.composite
def well_conditioned(draw, m, n=None, smin=0.3):
    """Q1 diag(s) Q2^T with prescribed, separated singular values (full rank min(m,n))"""
    n = m if n is None else n
    k = min(m, n)
    s = draw(spaced_values(k, smin, 0.3))
    Q1 = draw(orthogonal(m))
    Q2 = draw(orthogonal(n))
    S = np.zeros((m, n))
    S[:k, :k] = np.diag(s[::-1])
    return Q1 @ S @ Q2.T


@st.composite
def pivot_forcing(draw, n):
    """row-permuted diagonally dominant matrix: LU needs row exchanges"""
    A = draw(float_array((n, n), coeff_elements(1.0), sparse=False))
    A = A * 0.3 + np.diag(draw(spaced_values(n, 1.5, 0.3, signs=True)))
    perm = draw(st.permutations(list(range(n))))
    return A[list(perm)]


@st.composite
def spd(draw, n, lmin=0.3):
    lam = draw(spaced_values(n, lmin, 0.3))
    Q = draw(orthogonal(n))
    A = Q @ np.diag(lam) @ Q.T
    return 0.5 * (A + A.T)


@st.composite
def symmetric_distinct(draw, n, gap=0.3):
    lam = draw(spaced_values(n, 0.2, gap)) - draw(nice_floats(0.0, 3.0))
    Q = draw(orthogonal(n))
    A = Q @ np.diag(lam) @ Q.T
    return 0.5 * (A + A.T)
