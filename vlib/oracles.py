"""Reference computations that share no code with algopy's recurrences."""
import itertools
from fractions import Fraction

import numpy as np
import mpmath
from mpmath import mp, mpf, mpc

from .runner import Inconclusive

# ---------------------------------------------------------------------------
# arbitrary precision numerical differentiation of t -> f(x(t))
# ---------------------------------------------------------------------------

MP_DPS = 50


def _to_mp(v):
    if isinstance(v, (complex, np.complexfloating)):
        return mpc(float(v.real), float(v.imag))
    return mpf(float(v))


def mp_taylor(f_mp, coeffs, D=None, dps=MP_DPS):
    """Taylor coefficients 0..D-1 of t -> f_mp(sum_k coeffs[k] t^k) at t = 0.

    coeffs: sequence of floats/complex (one scalar series); returns list of D python
    complex or float numbers.  Uses mpmath.taylor (numerical differentiation in
    ``dps`` digit arithmetic), no series recurrences.
    """
    if D is None:
        D = len(coeffs)
    old = mp.dps
    mp.dps = dps + 6 * D
    try:
        cs = [_to_mp(c) for c in coeffs][::-1]

        def g(t):
            return f_mp(mpmath.polyval(cs, t))
        try:
            out = mpmath.taylor(g, 0, D - 1)
        except (ValueError, ZeroDivisionError, ArithmeticError) as e:
            # mpmath could not evaluate the reference (e.g. hypsum() failed to converge): no verdict
            raise Inconclusive('mpmath reference failed: %s' % (str(e)[:120],))
        res = []
        for o in out:
            if isinstance(o, mpc) or (hasattr(o, 'imag') and o.imag != 0):
                res.append(complex(o))
            else:
                res.append(float(o))
        while len(res) < D:
            res.append(0.0)
        return res
    finally:
        mp.dps = old


def mp_taylor_multi(f_mp, coeff_list, D, dps=MP_DPS):
    """same for f of several scalar series: f_mp(x1(t), x2(t), ...)"""
    old = mp.dps
    mp.dps = dps + 6 * D
    try:
        css = [[_to_mp(c) for c in coeffs][::-1] for coeffs in coeff_list]

        def g(t):
            return f_mp(*[mpmath.polyval(cs, t) for cs in css])
        try:
            out = mpmath.taylor(g, 0, D - 1)
        except (ValueError, ZeroDivisionError, ArithmeticError) as e:
            raise Inconclusive('mpmath reference failed: %s' % (str(e)[:120],))
        res = []
        for o in out:
            if isinstance(o, mpc):
                res.append(complex(o))
            else:
                res.append(float(o))
        return res
    finally:
        mp.dps = old


def mp_compose(deriv_seq, coeffs, dps=MP_DPS):
    """Taylor coefficients of f(x(t)) from the scaled derivatives a_k = f^(k)(x_0)/k! (callable deriv_seq(x0, D) -> list of
    D mp numbers, computed by mpmath) and the truncated powers of u(t) = x(t) - x_0, all in ``dps`` + 4 D digit arithmetic.
    Cheap for large D where numerical differentiation of the composition is not."""
    D = len(coeffs)
    old = mp.dps
    mp.dps = dps + 4 * D
    try:
        x = [_to_mp(c) for c in coeffs]
        try:
            a = deriv_seq(x[0], D)
        except (ValueError, ZeroDivisionError, ArithmeticError) as e:
            raise Inconclusive('mpmath reference failed: %s' % (str(e)[:120],))
        u = [mpf(0)] + x[1:]
        y = [mpf(0)] * D
        pw = [mpf(1)] + [mpf(0)] * (D - 1)
        for k in range(D):
            for d in range(D):
                y[d] += a[k] * pw[d]
            nxt = [mpf(0)] * D
            for i in range(D):
                if pw[i] == 0:
                    continue
                for j in range(1, D - i):
                    nxt[i + j] += pw[i] * u[j]
            pw = nxt
        return [complex(v) if isinstance(v, mpc) and v.imag != 0 else float(v.real if isinstance(v, mpc) else v) for v in y]
    finally:
        mp.dps = old


# ---------------------------------------------------------------------------
# exact truncated power series over Fractions (Gaussian rationals for complex)
# ---------------------------------------------------------------------------

class GQ:
    """Gaussian rational a + b i with Fraction parts (exact complex arithmetic)"""
    __slots__ = ('re', 'im')

    def __init__(self, re, im=0):
        self.re = Fraction(re)
        self.im = Fraction(im)

    @staticmethod
    def of(v):
        if isinstance(v, GQ):
            return v
        if isinstance(v, (complex, np.complexfloating)):
            return GQ(Fraction(float(v.real)), Fraction(float(v.imag)))
        if isinstance(v, (np.floating, float)):
            return GQ(Fraction(float(v)))
        if isinstance(v, (int, np.integer)):
            return GQ(Fraction(int(v)))
        if isinstance(v, Fraction):
            return GQ(v)
        if isinstance(v, (bool, np.bool_)):
            return GQ(int(v))
        raise TypeError(type(v))

    def __add__(self, o):
        o = GQ.of(o)
        return GQ(self.re + o.re, self.im + o.im)
    __radd__ = __add__

    def __sub__(self, o):
        o = GQ.of(o)
        return GQ(self.re - o.re, self.im - o.im)

    def __rsub__(self, o):
        return GQ.of(o) - self

    def __neg__(self):
        return GQ(-self.re, -self.im)

    def __mul__(self, o):
        o = GQ.of(o)
        return GQ(self.re * o.re - self.im * o.im, self.re * o.im + self.im * o.re)
    __rmul__ = __mul__

    def __truediv__(self, o):
        o = GQ.of(o)
        n = o.re * o.re + o.im * o.im
        return GQ((self.re * o.re + self.im * o.im) / n, (self.im * o.re - self.re * o.im) / n)

    def __rtruediv__(self, o):
        return GQ.of(o) / self

    def __eq__(self, o):
        o = GQ.of(o)
        return self.re == o.re and self.im == o.im

    def __hash__(self):
        return hash((self.re, self.im))

    def __complex__(self):
        return complex(float(self.re), float(self.im))

    def __abs__(self):
        return abs(complex(self))

    def is_real(self):
        return self.im == 0

    def __repr__(self):
        return 'GQ(%s,%s)' % (self.re, self.im)


_to_gq = np.frompyfunc(GQ.of, 1, 1)
_gq_abs = np.frompyfunc(lambda g: abs(g), 1, 1)


def gq_array(a):
    """ndarray / scalar -> object ndarray of GQ (exact)"""
    return np.asarray(_to_gq(np.asarray(a)), dtype=object)


def gq_to_complex(a):
    return np.asarray(np.frompyfunc(complex, 1, 1)(a), dtype=complex)


def gq_abs(a):
    return np.asarray(_gq_abs(a), dtype=float)


class FracSeries:
    """truncated power series whose coefficients are object ndarrays of GQ; NumPy supplies broadcasting"""

    def __init__(self, coeffs):
        self.c = [np.asarray(c, dtype=object) for c in coeffs]
        self.D = len(self.c)

    @staticmethod
    def from_data(data):
        """data: float/complex ndarray (D,)+shape  (ONE direction)"""
        return FracSeries([gq_array(data[d]) for d in range(data.shape[0])])

    @staticmethod
    def const(a, D):
        a = gq_array(a)
        z = np.asarray(_to_gq(np.zeros(a.shape, dtype=int)), dtype=object)
        return FracSeries([a] + [z for _ in range(D - 1)])

    def __add__(self, o):
        return FracSeries([a + b for a, b in zip(self.c, o.c)])

    def __sub__(self, o):
        return FracSeries([a - b for a, b in zip(self.c, o.c)])

    def __mul__(self, o):
        out = []
        for d in range(self.D):
            s = self.c[0] * o.c[d]
            for k in range(1, d + 1):
                s = s + self.c[k] * o.c[d - k]
            out.append(s)
        return FracSeries(out)

    def absmul(self, o):
        """sum of absolute values of the convolution terms (float), the natural error scale"""
        out = []
        for d in range(self.D):
            s = gq_abs(self.c[0] * o.c[d])
            for k in range(1, d + 1):
                s = s + gq_abs(self.c[k] * o.c[d - k])
            out.append(s)
        return out

    def __truediv__(self, o):
        out = []
        for d in range(self.D):
            s = self.c[d]
            # broadcast
            for k in range(1, d + 1):
                s = s - o.c[k] * out[d - k]
            out.append(s / o.c[0])
        return FracSeries(out)

    def ipow(self, n):
        assert n >= 0
        shape = np.broadcast(self.c[0]).shape
        r = FracSeries.const(np.ones(shape, dtype=int), self.D)
        b = self
        while n:
            if n & 1:
                r = r * b
            n >>= 1
            if n:
                b = b * b
        return r

    def to_complex(self):
        return np.array([gq_to_complex(c) for c in np.broadcast_arrays(*self.c)])

    def imag_nonzero(self):
        for c in self.c:
            for g in np.asarray(c, dtype=object).ravel():
                if g.im != 0:
                    return True
        return False


# ---------------------------------------------------------------------------
# reference convolution products on float data (definition, no algopy code)
# ---------------------------------------------------------------------------

def conv(x, y, op):
    """z_d = sum_k op(x_k, y_{d-k}) for data of ONE direction: x,y are arrays (D,)+shape"""
    D = x.shape[0]
    out = []
    for d in range(D):
        s = op(x[0], y[d])
        for k in range(1, d + 1):
            s = s + op(x[k], y[d - k])
        out.append(s)
    return np.array(out)


def conv_abs(x, y, op):
    return conv(np.abs(x), np.abs(y), op)


def conv_dot(x, y):
    return conv(x, y, np.dot)


def utpm_conv(xd, yd, op):
    """xd, yd: (D,P)+shape data; per direction"""
    P = xd.shape[1]
    outs = [conv(xd[:, p], yd[:, p], op) for p in range(P)]
    return np.stack(outs, axis=1)


# ---------------------------------------------------------------------------
# sparse exact multivariate polynomials
# ---------------------------------------------------------------------------

def _obj_map(f, arr):
    out = np.empty(arr.shape, dtype=object)
    for idx in np.ndindex(*arr.shape):
        out[idx] = f(arr[idx])
    return out if out.ndim else out.item()


class ExactPoly:
    """sparse multivariate polynomial {exponent tuple: Fraction}"""
    __slots__ = ('n', 't')

    def __init__(self, n, terms=None):
        self.n = n
        self.t = {k: Fraction(v) for k, v in (terms or {}).items() if v != 0}

    @staticmethod
    def var(n, i):
        e = [0] * n
        e[i] = 1
        return ExactPoly(n, {tuple(e): 1})

    @staticmethod
    def const(n, c):
        return ExactPoly(n, {(0,) * n: Fraction(c)})

    def _coerce(self, o):
        if isinstance(o, ExactPoly):
            return o
        if isinstance(o, (np.integer,)):
            o = int(o)
        if isinstance(o, (np.floating,)):
            o = float(o)
        return ExactPoly.const(self.n, Fraction(o))

    def __add__(self, o):
        if isinstance(o, np.ndarray):
            return _obj_map(lambda e: self + e, o)
        o = self._coerce(o)
        t = dict(self.t)
        for k, v in o.t.items():
            t[k] = t.get(k, 0) + v
        return ExactPoly(self.n, t)
    __radd__ = __add__

    def __neg__(self):
        return ExactPoly(self.n, {k: -v for k, v in self.t.items()})

    def __sub__(self, o):
        if isinstance(o, np.ndarray):
            return _obj_map(lambda e: self - e, o)
        return self + (-self._coerce(o))

    def __rsub__(self, o):
        if isinstance(o, np.ndarray):
            return _obj_map(lambda e: e - self, o)
        return self._coerce(o) - self

    def __mul__(self, o):
        if isinstance(o, np.ndarray):
            return _obj_map(lambda e: self * e, o)
        o = self._coerce(o)
        t = {}
        for k1, v1 in self.t.items():
            for k2, v2 in o.t.items():
                k = tuple(a + b for a, b in zip(k1, k2))
                t[k] = t.get(k, 0) + v1 * v2
        return ExactPoly(self.n, t)
    __rmul__ = __mul__

    def __truediv__(self, o):
        if isinstance(o, np.ndarray):
            return _obj_map(lambda e: self / e, o)
        if isinstance(o, ExactPoly):
            assert list(o.t.keys()) in ([(0,) * self.n], []), 'division by a non-constant polynomial'
            o = o.t.get((0,) * self.n, Fraction(0))
        if isinstance(o, (np.integer,)):
            o = int(o)
        if isinstance(o, (np.floating,)):
            o = float(o)
        o = Fraction(o)
        return ExactPoly(self.n, {k: v / o for k, v in self.t.items()})

    def __pow__(self, n):
        assert isinstance(n, (int, np.integer)) and n >= 0
        r = ExactPoly.const(self.n, 1)
        for _ in range(int(n)):
            r = r * self
        return r

    def diff(self, i):
        t = {}
        for k, v in self.t.items():
            if k[i] > 0:
                e = list(k)
                e[i] -= 1
                t[tuple(e)] = t.get(tuple(e), 0) + v * k[i]
        return ExactPoly(self.n, t)

    def diff_multi(self, alpha):
        p = self
        for i, a in enumerate(alpha):
            for _ in range(a):
                p = p.diff(i)
        return p

    def eval(self, x):
        """x: sequence of Fractions"""
        s = Fraction(0)
        for k, v in self.t.items():
            m = v
            for xi, e in zip(x, k):
                if e:
                    m = m * xi ** e
            s += m
        return s

    def degree(self):
        return max([sum(k) for k in self.t] or [0])

    def __repr__(self):
        return 'ExactPoly(%r)' % (self.t,)


def compositions(d, n):
    """all tuples of n non-negative ints summing to d (independent enumeration)"""
    if n == 1:
        yield (d,)
        return
    for i in range(d, -1, -1):
        for rest in compositions(d - i, n - 1):
            yield (i,) + rest


# ---------------------------------------------------------------------------
# generic comparison helpers
# ---------------------------------------------------------------------------

def relerr(got, ref, scale=None):
    """max |got-ref| / scale, elementwise scale = max(1,|ref|) by default; returns float"""
    got = np.asarray(got)
    ref = np.asarray(ref)
    if got.shape != ref.shape:
        return float('inf')
    if got.size == 0:
        return 0.0
    if scale is None:
        scale = np.maximum(1.0, np.abs(ref))
    with np.errstate(all='ignore'):
        e = np.abs(got - ref) / scale
    if not np.all(np.isfinite(ref)):
        raise Inconclusive('non-finite reference')
    if not np.all(np.isfinite(got)):
        return float('inf')
    return float(np.max(e))
