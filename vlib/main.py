import sys
import importlib
import traceback


def main():
    if len(sys.argv) < 2:
        print('usage: vcheck <ID> quick|thorough | vcheck <ID> --replay <file>', file=sys.stderr)
        return 2
    pid = sys.argv[1].upper()
    try:
        from . import env
        env.bootstrap()
        from . import runner
        mod = importlib.import_module('vlib.checks.' + pid.lower())
        return runner.main_check(mod, sys.argv[2:])
    except SystemExit:
        raise
    except BaseException:
        traceback.print_exc()
        print('HARNESS-ERROR (exit 2): check %s could not be run' % pid, file=sys.stderr)
        return 2


if __name__ == '__main__':
    sys.exit(main())
