"""Plain-data (JSON) encoding of case descriptors.

A descriptor is a nest of dict / list / tuple / str / int / float / bool / None
/ complex / slice / Ellipsis / numpy scalars / numpy arrays.  ``enc`` maps it to
JSON-able data, ``dec`` maps it back *bit-exactly* (Python's json prints floats
with repr, which round-trips binary64).
"""
import json
import hashlib
import numpy as np


def _enc_float(v):
    return float(v)


def enc(o):
    if o is None or isinstance(o, (bool, str)):
        return o
    if isinstance(o, (np.bool_,)):
        return {'__np__': 'bool', 'v': bool(o)}
    if isinstance(o, np.generic):
        # before the Python int/float/complex tests: numpy.float64 / complex128 subclass float / complex
        if o.dtype.kind == 'c':
            return {'__np__': str(o.dtype), 'v': [float(o.real), float(o.imag)]}
        if o.dtype.kind == 'f':
            return {'__np__': str(o.dtype), 'v': float(o)}
        if o.dtype.kind in 'iu':
            return {'__np__': str(o.dtype), 'v': int(o)}
        raise TypeError('cannot encode numpy scalar %r' % o)
    if isinstance(o, int):
        return o
    if isinstance(o, float):
        return o
    if isinstance(o, complex):
        return {'__complex__': [o.real, o.imag]}
    if isinstance(o, np.ndarray):
        a = np.ascontiguousarray(o).reshape(o.shape)     # (ascontiguousarray turns 0-d into 1-d)
        if a.dtype.kind == 'c':
            flat = [[float(z.real), float(z.imag)] for z in a.ravel()]
        elif a.dtype.kind == 'f':
            flat = [float(z) for z in a.ravel()]
        elif a.dtype.kind in 'iu':
            flat = [int(z) for z in a.ravel()]
        elif a.dtype.kind == 'b':
            flat = [bool(z) for z in a.ravel()]
        else:
            raise TypeError('cannot encode array dtype %s' % a.dtype)
        return {'__nd__': str(a.dtype), 'shape': list(a.shape), 'v': flat}
    if isinstance(o, np.generic):
        if o.dtype.kind == 'c':
            return {'__np__': str(o.dtype), 'v': [float(o.real), float(o.imag)]}
        if o.dtype.kind == 'f':
            return {'__np__': str(o.dtype), 'v': float(o)}
        if o.dtype.kind in 'iu':
            return {'__np__': str(o.dtype), 'v': int(o)}
        raise TypeError('cannot encode numpy scalar %r' % o)
    if isinstance(o, tuple):
        return {'__tuple__': [enc(x) for x in o]}
    if isinstance(o, list):
        return [enc(x) for x in o]
    if isinstance(o, dict):
        return {str(k): enc(v) for k, v in o.items()}
    if isinstance(o, slice):
        return {'__slice__': [enc(o.start), enc(o.stop), enc(o.step)]}
    if o is Ellipsis:
        return {'__ellipsis__': 1}
    raise TypeError('cannot encode %r' % (type(o),))


def dec(o):
    if isinstance(o, list):
        return [dec(x) for x in o]
    if isinstance(o, dict):
        if '__nd__' in o:
            dt = np.dtype(o['__nd__'])
            if dt.kind == 'c':
                a = np.array([complex(r, i) for r, i in o['v']], dtype=dt)
            else:
                a = np.array(o['v'], dtype=dt)
            return a.reshape(tuple(o['shape']))
        if '__np__' in o:
            if o['__np__'] == 'bool':
                return np.bool_(o['v'])
            dt = np.dtype(o['__np__'])
            if dt.kind == 'c':
                return dt.type(complex(*o['v']))
            return dt.type(o['v'])
        if '__complex__' in o:
            return complex(*o['__complex__'])
        if '__tuple__' in o:
            return tuple(dec(x) for x in o['__tuple__'])
        if '__slice__' in o:
            return slice(*[dec(x) for x in o['__slice__']])
        if '__ellipsis__' in o:
            return Ellipsis
        return {k: dec(v) for k, v in o.items()}
    return o


def dumps(o, **kw):
    return json.dumps(enc(o), sort_keys=True, **kw)


def loads(s):
    return dec(json.loads(s))


def chash(o):
    return hashlib.sha1(dumps(o).encode()).hexdigest()[:16]


def abbreviate(o, maxlen=12):
    """JSON-able, human-readable, shortened view of a descriptor (for evidence samples)"""
    if isinstance(o, np.ndarray):
        flat = o.ravel()
        if o.dtype.kind == 'c':
            vals = [str(complex(z)) for z in flat[:maxlen]]
        else:
            vals = [z.item() for z in flat[:maxlen]]
        d = {'array': str(o.dtype), 'shape': list(o.shape), 'first': vals}
        if flat.size > maxlen:
            d['more'] = int(flat.size - maxlen)
        return d
    if isinstance(o, np.generic):
        return '%s(%r)' % (o.dtype, o.item())
    if isinstance(o, complex):
        return str(o)
    if isinstance(o, (tuple, list)):
        r = [abbreviate(x, maxlen) for x in o[:40]]
        return r if isinstance(o, list) else {'tuple': r}
    if isinstance(o, dict):
        return {str(k): abbreviate(v, maxlen) for k, v in o.items()}
    if isinstance(o, slice):
        return 'slice(%s,%s,%s)' % (o.start, o.stop, o.step)
    if o is Ellipsis:
        return '...'
    return o
