"""Bucketed Hypothesis runner shared by all checks.

A check module exposes ``PID``, ``RULE`` (text of the non-triviality rule),
``ASSUMPTIONS`` and ``buckets(tier) -> [Bucket]``.  Every bucket is an
independent Hypothesis test (own derived seed) over *plain-data case
descriptors*; the property function consumes nothing but the descriptor, so a
saved descriptor replays without Hypothesis.
"""
import os
import sys
import json
import time
import glob
import hashlib
import traceback
import multiprocessing

from . import env
from . import codec


class Violation(AssertionError):
    """the property is violated on this case"""


class Inconclusive(Exception):
    """oracle could not decide (non-finite reference, two oracles disagree, ...)"""


class Rejected(Exception):
    """the code declared the input form unsupported (NotImplementedError etc.)"""


def guard(fn, *args, **kwargs):
    """call into the code under test; an exception there is a verdict, not a harness error"""
    try:
        return fn(*args, **kwargs)
    except NotImplementedError as e:
        raise Rejected('NotImplementedError: %s' % (str(e)[:200],))
    except (Violation, Inconclusive, Rejected):
        raise
    except AssertionError as e:
        # the code's own "sorry, only ... is supported" asserts are declared rejections, like NotImplementedError
        if 'supported' in str(e):
            raise Rejected('AssertionError: %s' % (str(e)[:200],))
        raise Violation('raised AssertionError: %s' % (str(e)[:300],))
    except Exception as e:
        tb = traceback.extract_tb(e.__traceback__)
        where = ''
        for fr in reversed(tb):
            if os.sep + 'algopy' + os.sep in fr.filename:
                where = ' at %s:%d' % (os.path.basename(fr.filename), fr.lineno)
                break
        msg = str(e)
        if 'Traceback (most recent call last)' in msg:
            last = [l for l in msg.strip().splitlines() if l.strip()][-1]
            if last.startswith('NotImplementedError') or (last.startswith('AssertionError') and 'supported' in last):
                raise Rejected(last[:200])
            # the tracer wraps the original exception text + traceback into a plain Exception
            lines = [l for l in msg.strip().splitlines() if l.strip()]
            inner = [l for l in lines if l.startswith('  File ') and (os.sep + 'algopy' + os.sep) in l]
            loc = ''
            if inner:
                parts = inner[-1].split(',')
                loc = ' [%s:%s]' % (os.path.basename(parts[0].split('"')[1]), parts[1].strip().replace('line ', ''))
            msg = lines[0][:80] + ' ... ' + lines[-1][:220] + loc
        raise Violation('raised %s%s: %s' % (type(e).__name__, where, msg[:400]))


class Stats:
    def __init__(self):
        self.n = 0
        self.nontrivial = set()
        self.classes = {}
        self.inconclusive = 0
        self.rejected = 0
        self.excluded = {}
        self.samples = []
        self.maxerr = 0.0
        self.nsample_nt = 0

    def event(self, label):
        self.classes[label] = self.classes.get(label, 0) + 1

    def exclude(self, kfid):
        self.excluded[kfid] = self.excluded.get(kfid, 0) + 1

    def err(self, e):
        if e > self.maxerr:
            self.maxerr = float(e)


class Bucket:
    def __init__(self, name, strategy, prop, n, nontrivial=None, classes=None, shards=None, weight=1.0):
        self.name = name
        self.strategy = strategy      # zero-argument callable returning a Hypothesis strategy
        self.prop = prop              # prop(case, stats)
        self.n = n                    # {'quick': int, 'thorough': int}  (examples per shard)
        self.nontrivial = nontrivial or (lambda case: True)
        self.classes = classes or (lambda case: [])
        self.shards = shards or {'quick': 1, 'thorough': 1}
        self.weight = weight


def derive_seed(seed, pid, name, shard):
    h = hashlib.sha256(('%d:%s:%s:%d' % (seed, pid, name, shard)).encode()).hexdigest()
    return int(h[:12], 16)


_REG = {}


def _run_job(job):
    pid, tier, bname, shard, seed = job
    import hypothesis
    from hypothesis import given, settings, HealthCheck, Phase
    import hypothesis.internal.conjecture.engine as eng
    eng.MAX_SHRINKING_SECONDS = 25 if tier == 'quick' else 90
    b = _REG[bname]
    stt = Stats()
    fail = {}
    t0 = time.time()
    n = b.n[tier]

    @hypothesis.seed(derive_seed(seed, pid, bname, shard))
    @settings(max_examples=n, database=None, deadline=None, derandomize=False,
              report_multiple_bugs=False, suppress_health_check=list(HealthCheck),
              phases=[Phase.generate, Phase.shrink], print_blob=False)
    @given(b.strategy())
    def test(case):
        stt.n += 1
        try:
            b.prop(case, stt)
        except Inconclusive:
            stt.inconclusive += 1
            return
        except Rejected:
            stt.rejected += 1
            return
        except Violation as v:
            fail['case'] = case
            fail['msg'] = str(v)
            raise
        for c in b.classes(case):
            stt.event(c)
        if b.nontrivial(case):
            stt.nontrivial.add(codec.chash(case))
            if stt.nsample_nt < 2:
                stt.nsample_nt += 1
                stt.samples.insert(0, codec.abbreviate(case))
        elif len(stt.samples) < 1:
            stt.samples.append(codec.abbreviate(case))

    res = {'bucket': bname, 'shard': shard, 'failure': None, 'error': None}
    try:
        test()
    except Violation:
        res['failure'] = {'case': codec.enc(fail['case']), 'msg': fail['msg']}
    except BaseException as e:  # harness problem (incl. Hypothesis Flaky / health errors)
        if 'case' in fail and isinstance(e, AssertionError):
            res['failure'] = {'case': codec.enc(fail['case']), 'msg': fail['msg']}
        elif 'case' in fail and isinstance(e, hypothesis.errors.Flaky):
            # the property DID observe a violation, but the case passed when Hypothesis ran it again: the outcome depends on
            # state that earlier cases left in the process (module / class level caches of the code under test) - for a
            # history-dependent defect that is the symptom itself.  Reported as a violation; the saved case is the last failing one.
            res['failure'] = {'case': codec.enc(fail['case']),
                              'msg': fail['msg'] + ' [not reproducible in isolation: depends on state left in the process by earlier cases]'}
        else:
            res['error'] = ''.join(traceback.format_exception(type(e), e, e.__traceback__))[-4000:]
    res.update(n=stt.n, nontrivial=sorted(stt.nontrivial), classes=stt.classes,
               inconclusive=stt.inconclusive, rejected=stt.rejected, excluded=stt.excluded,
               samples=stt.samples, wall=time.time() - t0, maxerr=stt.maxerr)
    return res


class KnownFindings:
    def __init__(self):
        p = os.path.join(env.VERIF, 'known_findings.json')
        self.entries = []
        if os.path.exists(p):
            with open(p) as f:
                self.entries = json.load(f).get('findings', [])
        # fragments written while a check is being built (merged into known_findings.json before release)
        for frag in sorted(glob.glob(os.path.join(env.VERIF, 'known_findings.d', '*.json'))):
            with open(frag) as f:
                doc = json.load(f)
            self.entries.extend(doc if isinstance(doc, list) else doc.get('findings', []))
        self.by_id = {e['id']: e for e in self.entries}

    def is_open(self, kfid):
        e = self.by_id.get(kfid)
        return bool(e) and e.get('status') == 'open'

    def open_for(self, pid):
        return [e for e in self.entries if e.get('status') == 'open' and pid in e.get('properties', [])]


KF = KnownFindings()


def _run_replay_file(mod, path, breg):
    with open(path) as f:
        doc = json.load(f)
    case = codec.dec(doc['case'])
    b = breg.get(doc['bucket'])
    if b is None:
        # bucket names may carry parameters; fall back to the family name
        b = breg.get(doc['bucket'].split('#')[0])
    if b is None:
        raise env.HarnessError('replay %s names unknown bucket %s' % (path, doc['bucket']))
    stt = Stats()
    try:
        b.prop(case, stt)
    except Violation as v:
        return 'fail', str(v)
    except Inconclusive as v:
        return 'inconclusive', str(v)
    except Rejected as v:
        return 'rejected', str(v)
    return 'pass', ''


def save_replay(pid, bname, case_enc, msg):
    d = os.path.join(env.OUT, 'replays', pid, 'found')
    os.makedirs(d, exist_ok=True)
    h = hashlib.sha1(json.dumps(case_enc, sort_keys=True).encode()).hexdigest()[:10]
    safe = ''.join(c if c.isalnum() or c in '-_.' else '_' for c in bname)
    path = os.path.join(d, '%s-%s.json' % (safe, h))
    with open(path, 'w') as f:
        json.dump({'property': pid, 'bucket': bname, 'msg': msg, 'case': case_enc}, f, indent=1, sort_keys=True)
    return path


def main_check(mod, argv):
    """argv: [tier] or ['--replay', file]"""
    env.bootstrap()
    pid = mod.PID
    seed = int(os.environ.get('VERIF_SEED', '1'))
    if argv and argv[0] == '--replay':
        breg = {b.name: b for b in mod.buckets('thorough')}
        rc = 0
        for path in argv[1:]:
            out, msg = _run_replay_file(mod, path, breg)
            print('replay %s: %s %s' % (path, out, msg))
            if out == 'fail':
                print('VIOLATION property=%s replay=%s' % (pid, path))
                rc = 1
        return rc
    tier = argv[0] if argv else os.environ.get('VERIF_TIER', 'quick')
    if tier not in ('quick', 'thorough'):
        raise env.HarnessError('unknown tier %r' % tier)
    t0 = time.time()
    bl = mod.buckets(tier)
    breg = {b.name: b for b in bl}
    _REG.clear()
    _REG.update(breg)
    violations = []   # (bucket, path, msg)
    known_lines = []
    replayed = 0
    errors = []

    # 1. regression tier: committed replay files (must pass), known-finding reproducers
    rdir = os.path.join(env.VERIF, 'replays', pid)
    no_replay = bool(os.environ.get('VERIF_NO_REPLAY'))   # sensitivity experiments: generated search only
    for path in ([] if no_replay else sorted(glob.glob(os.path.join(rdir, '*.json')))):
        out, msg = _run_replay_file(mod, path, breg)
        replayed += 1
        if out == 'fail':
            violations.append(('replay', path, msg))
    for e in ([] if no_replay else KF.entries):
        if pid not in e.get('properties', []):
            continue
        rps = [e.get('replay', {}).get(pid)] + [r for r in e.get('more_reproducers', []) if r.startswith('replays/%s/' % pid)]
        rps = [r for r in rps if r]
        still = None
        for rp in rps:
            path = os.path.join(env.VERIF, rp)
            out, msg = _run_replay_file(mod, path, breg)
            replayed += 1
            if e.get('status') == 'open':
                if out == 'fail' and still is None:
                    still = msg
            elif out == 'fail':
                violations.append(('fixed-finding:' + e['id'], path, msg))
        if e.get('status') == 'open' and rps:
            if still is not None:
                known_lines.append('KNOWN-FINDING: property=%s %s [%s] (%s)' % (pid, e['what'], e['id'], still[:160]))
            else:
                print('note: open known finding %s no longer reproduces' % (e['id'],))

    # 2. generated search
    jobs = []
    for b in bl:
        for s in range(b.shards[tier]):
            jobs.append((b.weight * b.n[tier], (pid, tier, b.name, s, seed)))
    jobs.sort(key=lambda j: -j[0])
    jobs = [j[1] for j in jobs]
    nproc = int(os.environ.get('VERIF_PROCS', '16'))
    results = []
    if nproc <= 1 or len(jobs) <= 1:
        for j in jobs:
            results.append(_run_job(j))
    else:
        ctx = multiprocessing.get_context('fork')
        with ctx.Pool(min(nproc, len(jobs)), maxtasksperchild=None) as pool:
            for r in pool.imap_unordered(_run_job, jobs, chunksize=1):
                results.append(r)
    results.sort(key=lambda r: (r['bucket'], r['shard']))

    evaluations = replayed
    nontrivial = set()
    classes = {}
    excluded = {}
    per_bucket = {}
    samples = []
    inconclusive = rejected = 0
    for r in results:
        evaluations += r['n']
        nontrivial.update(r['nontrivial'])
        inconclusive += r['inconclusive']
        rejected += r['rejected']
        for k, v in r['classes'].items():
            classes[k] = classes.get(k, 0) + v
        for k, v in r['excluded'].items():
            excluded[k] = excluded.get(k, 0) + v
        pb = per_bucket.setdefault(r['bucket'], {'cases': 0, 'nontrivial': 0, 'wall_s': 0.0, 'max_rel_err': 0.0})
        pb['cases'] += r['n']
        pb['nontrivial'] += len(r['nontrivial'])
        pb['wall_s'] = round(pb['wall_s'] + r['wall'], 2)
        pb['max_rel_err'] = max(pb['max_rel_err'], r['maxerr'])
        if r['shard'] == 0 and r['samples'] and len(samples) < 40:
            samples.append({'bucket': r['bucket'], 'case': r['samples'][0]})
        if r['failure']:
            path = save_replay(pid, r['bucket'], r['failure']['case'], r['failure']['msg'])
            violations.append((r['bucket'], path, r['failure']['msg']))
        if r['error']:
            errors.append((r['bucket'], r['error']))

    for line in known_lines:
        print(line)
    for bname, path, msg in violations:
        print('VIOLATION property=%s replay=%s' % (pid, (os.path.relpath(path, env.VERIF) if path.startswith(env.VERIF + os.sep) else path)))
        print('  bucket=%s: %s' % (bname, msg[:600]))
    for bname, err in errors:
        print('HARNESS-ERROR bucket=%s\n%s' % (bname, err), file=sys.stderr)

    wall = time.time() - t0
    ev = {
        'property_id': pid, 'tier': tier, 'seed': seed, 'level': 'exploration',
        'coverage': {
            'evaluations': int(evaluations),
            'distinct_nontrivial': len(nontrivial),
            'rule': mod.RULE,
            'samples': samples[:40],
            'buckets': len(bl),
            'jobs': len(jobs),
            'replay_files_executed': replayed,
            'inconclusive': inconclusive,
            'declared_rejections': rejected,
            'excluded_by_known_finding': excluded,
            'class_histogram': dict(sorted(classes.items())),
            'per_bucket': per_bucket,
            'known_findings_reported': known_lines,
            'exhaustive': bool(getattr(mod, 'EXHAUSTIVE', False)),
            'harness_errors': len(errors),
        },
        'assumptions': list(mod.ASSUMPTIONS),
        'wall_s': round(wall, 2),
        'violations': len(violations),
    }
    extra = getattr(mod, 'extra_evidence', None)
    if extra:
        ev['coverage'].update(extra(tier))
    os.makedirs(os.path.join(env.OUT, 'evidence'), exist_ok=True)
    with open(os.path.join(env.OUT, 'evidence', pid + '.json'), 'w') as f:
        json.dump(ev, f, indent=1, sort_keys=True, default=str)
    print('%s %s seed=%d: %d cases in %d buckets (%d jobs), %d distinct non-trivial, %d inconclusive, '
          '%d declared rejections, %d violations, %d harness errors, %.1fs'
          % (pid, tier, seed, evaluations, len(bl), len(jobs), len(nontrivial), inconclusive, rejected,
             len(violations), len(errors), wall))
    if violations:
        return 1
    if errors:
        return 2
    return 0
