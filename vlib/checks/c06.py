"""C06 - results are independent of call history.

Model-based test over call histories: a history is a drawn list of steps (forward evaluation at (point, D, P, kind),
reverse sweep with a seed, driver call, recording/evaluating a second graph, plain replay) applied to ONE recorded
graph.  The expected result of every call is computed from that call's arguments alone: forward = direct execution
of the program; reverse / driver = the same call on a FRESH graph recorded for the purpose with the call's own forward
argument (a graph without history).  Invariants: a reverse sweep leaves every node's forward value byte-identical
and does not touch the caller's seed; Function.cgraph stays None between calls; a value returned by an earlier call
(held by the caller without copying) is not changed by any later call.
"""
import numpy as np
from hypothesis import strategies as st

import algopy
from algopy import UTPM, CGraph, Function

from ..runner import Bucket, Violation, Inconclusive, Rejected, guard, KF
from .. import gen
from .. import prog as PG
from .c05 import _mk_input, eval_spec, refill

PID = 'C06'
RULE = ('histories of 2..10 steps over {forward(point,D,P,kind), reverse(seed), driver(name,point,v,w), second graph, plain replay} '
        'drawn as one Hypothesis value (the generator tracks the abstract state: kind/D/P of the last forward evaluation) and applied '
        'to one recorded program (single 1-D input, scalar or vector output) from the concolic generator.  Non-trivial = history '
        'contains >= 2 reverse sweeps after one forward, or a forward at another point/D/P followed by a reverse, or a driver call '
        'after a reverse sweep, or an interleaved second graph; distinct by descriptor hash.  Forward steps may re-use the caller\'s containers '
        'refilled in place; the second graph may be recorded WHILE the first is evaluated; history-linalg* buckets (vector reshaped to a '
        'matrix, then eigh/cholesky/inv/det); history-two-inputs (either input plain or polynomial, changing between evaluations; non-trivial '
        'there = the roles change and a reverse sweep follows)')
ASSUMPTIONS = [
    'expected value of a call = the same call on a fresh graph recorded with the call\'s own forward argument (no history) / direct execution',
    'agreement to 1e-12 relative to max(1, max|reference|) (identical kernels, only buffer state may differ)',
    'histories <= 10 steps, programs <= 7 instructions, N <= 4, D <= 3, P <= 3',
]

TOL = 1e-12


def _record(case, inputs):
    cg = CGraph()
    try:
        fins = [Function(x) for x in inputs]
        regs = PG.run(case['prog'], fins)
    finally:
        cg.trace_off()
    cg.independentFunctionList = fins
    cg.dependentFunctionList = [regs[case['out']]]
    return cg, fins, regs


def _record_detached(case, inputs):
    """record a reference graph without disturbing a recording that is in progress"""
    saved = Function.cgraph
    try:
        return _record(case, inputs)
    finally:
        Function.cgraph = saved


def _snap(x):
    if isinstance(x, UTPM):
        return ('U', x.data.shape, str(x.data.dtype), x.data.tobytes())
    if isinstance(x, np.ndarray):
        return ('A', x.shape, str(x.dtype), x.tobytes())
    if isinstance(x, tuple):
        return tuple(_snap(e) for e in x)
    if isinstance(x, (list,)):
        return tuple(_snap(e) for e in x)
    if x is None or isinstance(x, (int, float, complex, str, np.generic)):
        return ('S', repr(x))
    return ('O', type(x).__name__)


def _close(got, ref, what, stats):
    got = np.asarray(got)
    ref = np.asarray(ref)
    if got.shape != ref.shape:
        raise Violation('%s: shape %s, without history %s' % (what, got.shape, ref.shape))
    if not np.all(np.isfinite(ref)):
        raise Inconclusive('non-finite reference')
    scale = max(1.0, float(np.max(np.abs(ref))) if ref.size else 1.0)
    d = np.abs(got - ref)
    e = float(np.max(d)) / scale if ref.size and np.all(np.isfinite(got)) else (0.0 if not ref.size else float('inf'))
    stats.err(min(e, 1.0))
    if e > TOL:
        i = np.unravel_index(int(np.argmax(np.where(np.isfinite(d), d, np.inf))), ref.shape) if ref.ndim else ()
        raise Violation('%s: entry %s is %.15g, the same call without history gives %.15g (rel. %.2e)'
                        % (what, tuple(int(k) for k in i), float(np.real(got[i])), float(np.real(ref[i])), e))


DRIVERS_SCALAR = ['gradient', 'hessian', 'hess_vec']
DRIVERS_VECTOR = ['jacobian', 'jac_vec', 'vec_jac', 'vec_hess']


def _forward_reference(case, name, x, v, w):
    """the driver's result from forward-mode propagation of the direct program only (no graph, no reverse sweep): immune to
    state that all graphs share (module/class level caches), which the fresh-graph reference would inherit"""
    from .c04 import fwd_jacobian, fwd_hessian_of
    if name == 'gradient' or name == 'jacobian':
        return fwd_jacobian(case, x)
    if name == 'hessian':
        return fwd_hessian_of(case, x)
    if name == 'hess_vec':
        return fwd_hessian_of(case, x) @ v
    if name == 'jac_vec':
        return fwd_jacobian(case, x) @ v
    if name == 'vec_jac':
        return w @ fwd_jacobian(case, x)
    if name == 'vec_hess':
        return fwd_hessian_of(case, x, w)
    raise KeyError(name)


TOL_FWD = 1e-8


def _close_fwd(got, case, name, x, v, w, what, stats):
    try:
        ref = np.asarray(_forward_reference(case, name, np.array(x, dtype=float), v, w))
    except Exception as e:
        stats.event('forward-reference:unavailable')
        return
    got = np.asarray(got)
    if got.shape != ref.shape or not np.all(np.isfinite(ref)):
        stats.event('forward-reference:unavailable')
        return
    scale = max(1.0, float(np.max(np.abs(ref))) if ref.size else 1.0)
    e = float(np.max(np.abs(got - ref))) / scale if ref.size and np.all(np.isfinite(got)) else (0.0 if not ref.size else float('inf'))
    stats.event('forward-reference:compared')
    if e > TOL_FWD:
        raise Violation('%s: differs from the forward-mode derivative of the direct program by %.2e (rel.) although the same call on a '
                        'fresh graph may agree: state shared between graphs' % (what, e))


def _call_driver(cg, name, x, v, w):
    x, v, w = x.copy(), v.copy(), w.copy()
    if name in ('gradient', 'hessian', 'jacobian'):
        return getattr(cg, name)(x)
    if name in ('hess_vec', 'jac_vec'):
        return getattr(cg, name)(x, v)
    if name in ('vec_jac', 'vec_hess'):
        return getattr(cg, name)(w, x)
    raise KeyError(name)


def prop_history(case, stats):
    case = dict(case)
    case['prog'] = list(case['prog'])       # 'extend' steps append instructions (local copy)
    pts = case['pts'][0]
    rec_in = _mk_input(case, case['rec'])
    cg, fins, regs = guard(_record, case, rec_in)
    last_fwd = None     # inputs of the last forward evaluation (UTPM) or None
    last_objs = None    # the caller's input containers of the last forward evaluation
    held = []           # results handed to the caller (NOT copied) with a byte snapshot taken when they were returned

    def hold(what, obj):
        arr = obj.data if isinstance(obj, UTPM) else obj
        if isinstance(arr, np.ndarray):
            held.append((what, arr, arr.tobytes()))
    for n, stp in enumerate(case['history']):
        kind = stp['step']
        what = 'step %d (%s)' % (n, kind)
        if kind == 'forward':
            xin = _mk_input(case, stp['spec'])
            try:
                ref = PG.run(case['prog'], _mk_input(case, stp['spec']))[case['out']]
            except NotImplementedError as e:
                raise Rejected(str(e))
            if stp.get('reuse'):
                # the caller writes the next point into the containers of the previous evaluation and passes the same objects
                same = refill(last_objs, xin)
                if same is not None:
                    xin = same
                    what += ' [same input objects, refilled in place]'
                    stats.event('forward:containers-reused')
                    # results that are views of the caller's own container change with it: not "changed by a later call"
                    mems = [x.data if isinstance(x, UTPM) else x for x in xin]
                    held[:] = [h for h in held if not any(np.may_share_memory(h[1], m) for m in mems)]
            last_objs = xin
            guard(cg.pushforward, xin)
            got = cg.dependentFunctionList[0].x
            if isinstance(ref, UTPM) != isinstance(got, UTPM):
                raise Violation('%s: result kind %s, direct execution %s' % (what, type(got).__name__, type(ref).__name__))
            _close(got.data if isinstance(got, UTPM) else got, ref.data if isinstance(ref, UTPM) else ref, what, stats)
            hold(what + ' result', got)
            last_fwd = stp['spec'] if stp['spec']['kind'] == 'utpm' else None
        elif kind == 'reverse':
            if last_fwd is None:
                raise Inconclusive('history invalid: reverse without UTPM forward')
            seed = UTPM(stp['ybar'].copy())
            seed_before = seed.data.tobytes()
            before = [_snap(f.x) for f in cg.functionList]
            guard(cg.pullback, [seed])
            if seed.data.tobytes() != seed_before:
                raise Violation('%s: the reverse sweep modified the caller\'s seed' % what)
            after = [_snap(f.x) for f in cg.functionList]
            for i, (a, b) in enumerate(zip(before, after)):
                if a != b:
                    raise Violation('%s: the reverse sweep changed the forward value of node %d (%s)'
                                    % (what, i, cg.functionList[i].func.__name__))
            hold(what + ' input adjoint', fins[0].xbar)
            got = fins[0].xbar.data.copy()
            # the same call on a graph without history
            cg2, fins2, regs2 = guard(_record, case, _mk_input(case, last_fwd))
            guard(cg2.pullback, [UTPM(stp['ybar'].copy())])
            _close(got, fins2[0].xbar.data, what + ' input adjoint', stats)
        elif kind == 'driver':
            x = np.array(pts[stp['k']], dtype=float)
            got = guard(_call_driver, cg, stp['name'], x, stp['v'], stp['w'])
            cg2, _, _ = guard(_record, case, [x.copy()])
            ref = guard(_call_driver, cg2, stp['name'], x, stp['v'], stp['w'])
            _close(got, ref, what + ' ' + stp['name'], stats)
            _close_fwd(got, case, stp['name'], x, stp['v'], stp['w'], what + ' ' + stp['name'], stats)
            hold(what + ' ' + stp['name'] + ' result', got)
            last_fwd = None     # drivers evaluate the graph themselves
        elif kind == 'other_graph':
            cgo = CGraph()
            try:
                g = Function(np.array(stp['x'], dtype=float))
                s1 = algopy.sin(g)
                if stp.get('mid') is not None:
                    # the first graph is evaluated while the second one is being recorded
                    x = np.array(pts[stp['mid']['k']], dtype=float)
                    if stp['mid']['how'] == 'plain':
                        got = guard(cg.function, [x.copy()])[0]
                        _close(got, PG.run(case['prog'], [x.copy()])[case['out']], what + ' evaluation during the other recording', stats)
                    else:
                        got = guard(_call_driver, cg, stp['mid']['how'], x, stp['mid']['v'], stp['mid']['w'])
                        cg2, _, _ = _record_detached(case, [x.copy()])
                        ref = guard(_call_driver, cg2, stp['mid']['how'], x, stp['mid']['v'], stp['mid']['w'])
                        _close(got, ref, what + ' ' + stp['mid']['how'] + ' during the other recording', stats)
                    last_fwd = None
                    if Function.cgraph is not cgo:
                        raise Violation('%s: evaluating the first graph ended / redirected the recording of the second graph' % what)
                h = algopy.sum(s1 * g)
            finally:
                cgo.trace_off()
            names = [f.func.__name__ for f in cgo.functionList]
            if names != ['Id', 'sin', 'mul', 'sum']:
                raise Violation('%s: the second graph recorded %s instead of its own four operations' % (what, names[:8]))
            cgo.independentFunctionList = [g]
            cgo.dependentFunctionList = [h]
            xo = np.array(stp['x'], dtype=float) + 1.0
            go = guard(cgo.gradient, xo)
            _close(go, np.cos(xo) * xo + np.sin(xo), what + ' gradient of the second graph', stats)
        elif kind == 'extend':
            # the caller switches recording on again and continues the program (documented: cg.trace_on()); from now on the graph is
            # the longer program - compared with a graph of the longer program recorded in one go
            cg.trace_on()
            try:
                newreg = guard(PG.step, ['un', stp['f'], case['out']], regs)
            finally:
                cg.trace_off()
            regs.append(newreg)
            case['prog'].append(['un', stp['f'], case['out']])
            case['out'] = len(regs) - 1
            cg.dependentFunctionList = [newreg]
            last_fwd = None
        elif kind == 'replay_plain':
            x = np.array(pts[stp['k']], dtype=float)
            got = guard(cg.function, [x.copy()])[0]
            ref = PG.run(case['prog'], [x.copy()])[case['out']]
            _close(got, ref, what, stats)
            last_fwd = None
        else:
            raise KeyError(kind)
        if Function.cgraph is not None:
            raise Violation('%s left Function.cgraph set (recording still on)' % what)
        # results returned by earlier calls must not be changed by later calls
        for hw, arr, snap in held:
            if arr.tobytes() != snap:
                raise Violation('%s changed the value that had been returned earlier by %s' % (what, hw))


def prop_history2(case, stats):
    """two inputs; forward evaluations may hand over one of them as a plain array (a constant) and the other as a Taylor
    polynomial, and change that from one evaluation to the next; reverse sweeps are compared with a graph without history"""
    cg, fins, regs = guard(_record, case, _mk_input(case, case['rec']))
    last = None
    for n, stp in enumerate(case['history']):
        what = 'step %d (%s)' % (n, stp['step'])
        if stp['step'] == 'forward':
            xin = _mk_input(case, stp['spec'])
            try:
                ref = PG.run(case['prog'], _mk_input(case, stp['spec']))[case['out']]
            except NotImplementedError as e:
                raise Rejected(str(e))
            guard(cg.pushforward, xin)
            got = cg.dependentFunctionList[0].x
            if isinstance(ref, UTPM) != isinstance(got, UTPM):
                raise Violation('%s: result kind %s, direct execution %s' % (what, type(got).__name__, type(ref).__name__))
            _close(got.data if isinstance(got, UTPM) else got, ref.data if isinstance(ref, UTPM) else ref, what, stats)
            last = stp['spec'] if isinstance(got, UTPM) else None
        else:
            if last is None:
                raise Inconclusive('history invalid: reverse without a Taylor polynomial result')
            y = cg.dependentFunctionList[0].x
            if y.data.shape != stp['ybar'].shape:
                raise Inconclusive('seed shape')
            # the same sweep on a graph without history first: if IT refuses (an operation without support for a plain operand),
            # the call is outside what the library does at all, with or without history
            cg2, fins2, _ = guard(_record, case, _mk_input(case, last))
            try:
                cg2.pullback([UTPM(stp['ybar'].copy())])
            except Exception as e:
                stats.event('mixed-reverse-refused-without-history')
                raise Rejected('reverse sweep with a plain input refused also without history: %s' % str(e)[-120:])
            guard(cg.pullback, [UTPM(stp['ybar'].copy())])
            for i, (f, f2) in enumerate(zip(fins, fins2)):
                if isinstance(f2.x, UTPM):
                    if not isinstance(f.xbar, UTPM):
                        raise Violation('%s: no adjoint for input %d, which was a Taylor polynomial in the last evaluation' % (what, i))
                    _close(f.xbar.data, f2.xbar.data, what + ' adjoint of input %d' % i, stats)
        if Function.cgraph is not None:
            raise Violation('%s left Function.cgraph set' % what)


@st.composite
def history2_cases(draw, tier):
    K = 4
    allow_bcast = not KF.is_open('KF-setitem-broadcast-reverse')
    # (no buffers: zeros(shape, dtype=<plain input>) is a plain array into which no polynomial can be stored - the direct program
    #  itself would be invalid for a mixed evaluation)
    fams = [f for f in PG.FAMILIES_ALL if f not in ('buf', 'set', 'rmw')]
    pr = draw(PG.programs(n_inputs=(2, 2), max_len=6, min_len=2, out='any', K=K, allow_set_broadcast=allow_bcast, allow_ones=False, families=fams))
    case = dict(pr)
    case['kind'] = 'two-inputs'
    rec = draw(eval_spec(pr['pts'], K, Dmax=2))
    rec['idx'] = [0] * len(rec['idx'])
    case['rec'] = rec
    dense = gen.nice_floats(-1.0, 1.0)
    hist = []
    last = None
    L = draw(st.integers(3, 7))
    while len(hist) < L:
        k = draw(st.sampled_from(['forward', 'forward', 'reverse', 'reverse'] if last is not None else ['forward']))
        if k == 'forward':
            like = None
            prevf = [h for h in hist if h['step'] == 'forward']
            if prevf and draw(st.booleans()):
                like = prevf[-1]['spec']          # same D, P: only which input is plain changes
            spec = draw(eval_spec(pr['pts'], K, kinds=('utpm',), Dmax=3, like=like))
            spec['plain'] = draw(st.sampled_from([[False, False], [True, False], [False, True], [False, False]]))
            hist.append({'step': 'forward', 'spec': spec})
            D, P = spec['D'], len(spec['idx'])
            # shape of the output under this evaluation (a program whose output depends on a plain input only gives a plain result)
            try:
                y = PG.run(pr['prog'], _mk_input(case, spec))[pr['out']]
            except Exception:
                y = None
            last = (D, P, np.shape(y.data)[2:]) if isinstance(y, UTPM) else None
        else:
            D, P, oshape = last
            hist.append({'step': 'reverse', 'ybar': draw(gen.float_array((D, P) + tuple(oshape), dense, sparse=False))})
    case['history'] = hist
    return case


def _h2_classes(case):
    c = ['kind=two-inputs', 'steps=%d' % len(case['history'])]
    plains = [tuple(s_['spec']['plain']) for s_ in case['history'] if s_['step'] == 'forward']
    if len(set(plains)) >= 2:
        c.append('plain/polynomial role of an input changes between evaluations')
    if any(any(p) for p in plains):
        c.append('mixed plain and polynomial inputs')
    h = [s_['step'] for s_ in case['history']]
    if 'reverse' in h:
        c.append('with-reverse')
    return c + PG.features(case)


@st.composite
def history_cases(draw, tier, outkind, first=None, families=None, driver_heavy=False):
    K = 4
    allow_bcast = not KF.is_open('KF-setitem-broadcast-reverse')
    pr = draw(PG.programs(n_inputs=(1, 1), in_rank=(1,), max_side=4, max_len=7, min_len=1, families=families, out=outkind, K=K,
                          allow_set_broadcast=allow_bcast, first=first, allow_ones=False))
    case = dict(pr)
    case['kind'] = outkind
    N = pr['pts'][0].shape[1]
    y = PG.run(pr['prog'], [np.array(pr['pts'][0][0], dtype=float)])[pr['out']]
    oshape = np.shape(y)
    M = int(np.size(y))
    rec = draw(eval_spec(pr['pts'], K, Dmax=2))
    rec['idx'] = [0] * len(rec['idx'])
    case['rec'] = rec
    dense = gen.nice_floats(-1.0, 1.0)
    L = draw(st.sampled_from([6, 5, 8, 4, 7, 3] + ([10, 9] if tier == 'thorough' else []) + [2]))
    hist = []
    last = None      # (D, P) of the last UTPM forward or None
    drivers = DRIVERS_SCALAR if outkind == 'scalar' else DRIVERS_VECTOR
    while len(hist) < L:
        choices = ['forward', 'forward', 'driver', 'other_graph', 'replay_plain']
        if sum(1 for h in hist if h['step'] == 'extend') < 2 and hist:
            choices.append('extend')
        if driver_heavy:
            # many driver calls coming back to the same (driver, point) after evaluations elsewhere
            choices = ['driver', 'driver', 'driver', 'driver', 'forward', 'replay_plain']
        if last is not None:
            choices = ['reverse', 'reverse', 'reverse'] + choices
        k = draw(st.sampled_from(choices))
        if k == 'forward':
            prevf = [h for h in hist if h['step'] == 'forward']
            if prevf and draw(st.integers(0, 2)) == 0:
                spec = draw(eval_spec(pr['pts'], K, kinds=('utpm', 'utpm', 'nd'), Dmax=3, like=prevf[-1]['spec']))
                hist.append({'step': 'forward', 'spec': spec, 'reuse': True})
            else:
                spec = draw(eval_spec(pr['pts'], K, kinds=('utpm', 'utpm', 'nd'), Dmax=3))
                hist.append({'step': 'forward', 'spec': spec})
            last = (spec['D'], len(spec['idx'])) if spec['kind'] == 'utpm' else None
        elif k == 'reverse':
            D, P = last
            hist.append({'step': 'reverse', 'ybar': draw(gen.float_array((D, P) + tuple(oshape), dense, sparse=False))})
        elif k == 'driver':
            prev = [h for h in hist if h['step'] == 'driver']
            if prev and draw(st.booleans()):
                # come back to an earlier (driver, point) pair with new vectors
                old = draw(st.sampled_from(prev))
                name, kk = old['name'], old['k']
            else:
                name, kk = draw(st.sampled_from(drivers)), draw(st.integers(0, K - 1))
            hist.append({'step': 'driver', 'name': name, 'k': kk,
                         'v': draw(gen.float_array((N,), dense, sparse=False)),
                         'w': draw(gen.float_array((M,), dense, sparse=False))})
            last = None
        elif k == 'extend':
            hist.append({'step': 'extend', 'f': draw(st.sampled_from(['sin', 'cos', 'square']))})
            last = None
        elif k == 'other_graph':
            stp = {'step': 'other_graph', 'x': draw(gen.float_array((3,), dense, sparse=False)), 'mid': None}
            if draw(st.booleans()):
                stp['mid'] = {'how': draw(st.sampled_from(drivers + ['plain'])), 'k': draw(st.integers(0, K - 1)),
                              'v': draw(gen.float_array((N,), dense, sparse=False)), 'w': draw(gen.float_array((M,), dense, sparse=False))}
                last = None
            hist.append(stp)
        else:
            hist.append({'step': 'replay_plain', 'k': draw(st.integers(0, K - 1))})
            last = None
    case['history'] = hist
    return case


def _hist_classes(case):
    h = [s['step'] for s in case['history']]
    c = set()
    # >= 2 reverse sweeps after one forward
    run = 0
    for s in h:
        if s == 'reverse':
            run += 1
            if run >= 2:
                c.add('multi-reverse-after-one-forward')
        elif s != 'other_graph':
            run = 0
    fwd = [s for s in case['history'] if s['step'] == 'forward']
    if len(fwd) >= 2 and 'reverse' in h[h.index('forward') + 1:]:
        sigs = set((f['spec']['kind'], f['spec'].get('D'), len(f['spec']['idx'])) for f in fwd)
        if len(sigs) >= 2:
            c.add('forward-other-D-P-then-reverse')
    if 'other_graph' in h:
        c.add('interleaved-second-graph')
    if any(s_['step'] == 'other_graph' and s_.get('mid') for s_ in case['history']):
        c.add('evaluation-while-another-graph-records')
    if 'extend' in h and any(x in h[:h.index('extend')] for x in ('reverse', 'driver')):
        c.add('graph-extended-after-a-sweep')
    if any(s_.get('reuse') for s_ in case['history']):
        c.add('forward-with-same-spec-as-previous-forward')
    hist = case['history']
    for i, st_ in enumerate(hist):
        if st_['step'] != 'driver':
            continue
        for j in range(i):
            if hist[j]['step'] == 'driver' and hist[j]['name'] == st_['name'] and hist[j]['k'] == st_['k']:
                between = hist[j + 1:i]
                if any((b['step'] == 'driver' and b['k'] != st_['k']) or b['step'] in ('forward', 'replay_plain') for b in between):
                    c.add('same-driver-same-point-after-other-evaluation')
    for i, s in enumerate(h):
        if s == 'driver' and 'reverse' in h[:i]:
            c.add('driver-after-reverse')
        if s == 'reverse' and 'driver' in h[:i]:
            c.add('reverse-after-driver')
    return c


def _nontrivial(case):
    return bool(_hist_classes(case))


def _classes(case):
    c = ['kind=' + case['kind'], 'steps=%d' % len(case['history']), 'rec=' + case['rec']['kind']]
    c += sorted(_hist_classes(case))
    c += ['step:' + s for s in sorted(set(s['step'] for s in case['history']))]
    c += PG.features(case)
    return c


def buckets(tier):
    bl = []
    for kind in ('scalar', 'vector'):
        bl.append(Bucket('history:' + kind, (lambda kind=kind: history_cases(tier, kind)), prop_history,
                         {'quick': 160, 'thorough': 600}, nontrivial=_nontrivial, classes=_classes,
                         shards={'quick': 6, 'thorough': 12}, weight=10.0))
        bl.append(Bucket('history-buffers:' + kind,
                         (lambda kind=kind: history_cases(tier, kind, first='rmw', families=['un', 'bin', 'binc', 'set', 'rmw', 'get', 'buf'])),
                         prop_history, {'quick': 160, 'thorough': 500}, nontrivial=_nontrivial, classes=_classes,
                         shards={'quick': 4, 'thorough': 6}, weight=10.0))
        bl.append(Bucket('history-elementwise:' + kind,
                         (lambda kind=kind: history_cases(tier, kind, first='un', families=['un', 'un', 'special', 'bin', 'binc', 'pow'])),
                         prop_history, {'quick': 160, 'thorough': 500}, nontrivial=_nontrivial, classes=_classes,
                         shards={'quick': 2, 'thorough': 6}, weight=10.0))
        bl.append(Bucket('history-drivers:' + kind,
                         (lambda kind=kind: history_cases(tier, kind, first='un', families=['un', 'bin', 'binc', 'pow', 'dot'], driver_heavy=True)),
                         prop_history, {'quick': 160, 'thorough': 500}, nontrivial=_nontrivial, classes=_classes,
                         shards={'quick': 3, 'thorough': 6}, weight=10.0))
        # factorisations of a reshaped input: eigh/cholesky/inv/det pullbacks keep work arrays keyed on shapes and base points
        bl.append(Bucket('history-linalg:' + kind,
                         (lambda kind=kind: history_cases(tier, kind, first='vec2lin', families=['un', 'bin', 'binc', 'vec2lin', 'get'])),
                         prop_history, {'quick': 100, 'thorough': 400}, nontrivial=_nontrivial, classes=_classes,
                         shards={'quick': 4, 'thorough': 6}, weight=12.0))
        bl.append(Bucket('history-linalg-drivers:' + kind,
                         (lambda kind=kind: history_cases(tier, kind, first='vec2lin', families=['un', 'bin', 'binc', 'get'], driver_heavy=True)),
                         prop_history, {'quick': 100, 'thorough': 400}, nontrivial=_nontrivial, classes=_classes,
                         shards={'quick': 4, 'thorough': 6}, weight=12.0))
    bl.append(Bucket('history-two-inputs', (lambda: history2_cases(tier)), prop_history2, {'quick': 200, 'thorough': 1500},
                     nontrivial=(lambda case: len(set(tuple(s_['spec']['plain']) for s_ in case['history'] if s_['step'] == 'forward')) >= 2
                                 and any(s_['step'] == 'reverse' for s_ in case['history'])),
                     classes=_h2_classes, shards={'quick': 4, 'thorough': 8}, weight=8.0))
    return bl
