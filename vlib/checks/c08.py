"""C08 - matrix factorizations satisfy their defining equations modulo t^D.

The oracles are validity predicates evaluated per direction with a reference convolution (oracles.conv via
_c08_ref.smul) that does not call algopy: Q R = A, Q^T Q = I, R upper triangular; L L^T = A; P L U = A;
A Q = Q diag(lambda), Q^T Q = I; U diag(s) V^T = A, U^T U = I, V^T V = I -- at every order -- plus NumPy/SciPy's
factorization for the zeroth coefficient where the convention is fixed (QR, Cholesky, LU, eigh).
"""
import numpy as np
import scipy.linalg
from hypothesis import strategies as st

import algopy
from algopy import UTPM

from ..runner import Bucket, Violation, Inconclusive, Rejected, guard, KF
from .. import gen
from . import _c08_ref as R

PID = 'C08'
RULE = ('one bucket per factorization x shape class (square/tall/wide) resp. spectrum class; cases = (D <= 6 (eig <= 2), '
        'P <= 3, sizes <= 5, coefficient array) drawn by Hypothesis; zeroth coefficients are built constructively and '
        'independently for every direction: Q1 diag(s) Q2^T with separated singular values >= 0.3 (qr, svd, lu; wide qr: '
        'regular leading square block), row-permuted diagonally dominant (lu with pivoting), Q diag(lambda>0) Q^T '
        '(cholesky), symmetric with eigenvalue gaps >= 0.3 (eigh distinct), V diag(lambda) V^-1 with real separated or '
        'complex-pair spectrum (eig); repeated symmetric spectra: whole curves A(t) = Q(t) Lambda(t) Q(t)^T mod t^D with '
        'Q(t) = Q0 exp(S(t)), S skew polynomial, and eigenvalue curves of a block agreeing up to a drawn order and '
        'separating (by >= 0.3 in that coefficient) at order 1, 2, ... or never, recursively; near-degenerate buckets (eigh, svd): '
        'one pair of DISTINCT eigen-/singular values at distance 1e-7..1e-3 (in A_0, or exactly repeated in A_0 and separating by that '
        'little at order 1), D <= 4; higher coefficients (gen.higher_coeffs: dense, sparse, whole orders zero) otherwise '
        'arbitrary in [-1,1] (symmetrized for cholesky/eigh); non-trivial = D >= 3 and min(M,N) >= 2 (eig, which admits D <= 2 only: D = 2, N >= 2, A_1 != 0); distinct by '
        'descriptor hash')
ASSUMPTIONS = [
    'validity predicates per direction with tolerance 1e-8 * max_{k<=d} max_entries sum|terms| (norm-wise, running over the orders)',
    'zeroth coefficients equal numpy.linalg.qr (qr), scipy.linalg.qr (qr_full), numpy.linalg.cholesky, scipy.linalg.lu / lu_factor, numpy.linalg.eigh to 1e-12 (the wrappers the code itself calls); '
    'eigh with repeated eigenvalues of A0: eigenvalues compared, eigenvectors only through validity (the basis of an eigenspace is fixed by higher orders); svd, eig: validity only',
    'qr of a wide matrix requires a regular leading M x M block (Q is the QR factor of that block); qr_full of a wide matrix raises NotImplementedError (declared rejection)',
    'eig asserts D <= 2 (declared rejection above); spectra real-distinct or with complex conjugate pairs, all eigenvalues pairwise >= 0.3 apart',
    'cholesky / eigh inputs are symmetric at every order by construction; svd inputs have full rank min(M,N) with distinct singular values >= 0.3, gaps >= 0.3',
    'lu: P is returned as a permutation matrix W with A = W L U (scipy.linalg.lu convention), W constant; lu2/lu_factor: LAPACK pivot indices, row i swapped with row piv[i] in sequence',
    'near-degenerate buckets: A Q = Q diag(lambda), U S V^T = A keep 1e-8; the orthogonality predicates use max(1e-8, 1e-13/gap) because vectors belonging to a gap g carry a relative error eps/g (measured <= 1e-16/g on the unchanged tree)',
    'the matrix polynomial is handed over as a fresh C-contiguous array or (1/3) as a transposed view X.T; after the call it must be bit-identical to what was passed (the equations are statements about the curve the caller holds)',
    'out= of the class methods (1/4 of the cases; cleared buffer or non-zero garbage): qr, qr_full, cholesky, eigh, eig fill the buffers; returned objects and buffer contents must both satisfy the predicates',
    'complex coefficient data: only eig handles it on this tree (complex l, Q); qr, qr_full, cholesky, lu, eigh, svd raise UFuncTypeError (float work arrays, formulas written with transposes): documented in notes/C08.md, not asserted',
    'base-point classes for qr, qr_full, svd, cholesky, lu*, eigh:distinct, eig (2/9 of the cases each): neighbouring base points per direction A_0[p] = A_0[0] + h E_p, h in {1e-6, 1e-7, 1e-9} (different but numpy.allclose), and the whole matrix polynomial scaled by 2^-k, k in {30,40,50,60} (all entries < 1e-8); every predicate is relative to the magnitude of the data (zeroth coefficients relative to max|ref|)',
    'tiny-magnitude class: the documented absolute thresholds qr(epsilon=1e-14), eigh/svd(epsilon=1e-8) are passed scaled by 2^-k; the factors of 2^-k B must be the exactly scaled factors of B to 1e-10 (metamorphic; not for eig, whose LAPACK eigenpair order and column signs are not scale-equivariant); qr with M >= N: k = 30 only while KF-qr-epsilon-ignored is open',
    'default-eps class (2/11 of the qr, eigh:distinct, svd cases): small data WITHOUT the epsilon argument at scales where the documented default still sees full rank / distinct values: qr whole matrix or ONE column times 2^-k, k in 30..38 (pivots 1e-12..9e-9 vs default 1e-14); eigh / svd times 2^-k, k in {16, 20, 22} (gaps >= 7e-8 vs default 1e-8); same relative predicates and scaling relation (column case: Q equal, R column-wise scaled, compared column by column)',
    'NumPy, SciPy/LAPACK are trusted',
]

TOL = 1e-8
TOL0 = 1e-12
VAL = gen.interval_union((-2.0, 2.0))
EIG_DECLARED = ('only first-order Taylor polynomials are supported',)


# ---------------------------------------------------------------------------
# generators
# ---------------------------------------------------------------------------

def _dims(Dmax=6):
    return gen.dims(Dmax=Dmax, Pmax=3)


@st.composite
def hi_coeffs(draw, D, P, shape, sym=False, mag=1.0):
    if D == 1:
        return np.zeros((0, P) + tuple(shape))
    H = draw(gen.higher_coeffs((D - 1, P) + tuple(shape), gen.coeff_elements(mag)))      # dense / sparse / zero layers
    if sym:
        H = 0.5 * (H + np.swapaxes(H, -1, -2))
    return H


@st.composite
def mn(draw, shape_class):
    if shape_class == 'square':
        n = draw(st.integers(1, 5))
        return n, n
    if shape_class == 'tall':
        n = draw(st.integers(1, 4))
        return draw(st.integers(n + 1, 5)), n
    m = draw(st.integers(1, 4))
    return m, draw(st.integers(m + 1, 5))


@st.composite
def fullrank_base(draw, M, N, wide_leading=False):
    if M < N and wide_leading:
        A1 = draw(gen.well_conditioned(M))
        A2 = draw(gen.float_array((M, N - M), VAL, sparse=False))
        return np.concatenate([A1, A2], axis=1)
    return draw(gen.well_conditioned(M, N))


@st.composite
def rect_cases(draw, op, shape_class, tier):
    """qr, qr_full, svd"""
    D, P = draw(_dims())
    M, N = draw(mn(shape_class))
    A = np.zeros((D, P, M, N))
    for p in range(P):
        A[0, p] = draw(fullrank_base(M, N, wide_leading=(op != 'svd')))
    A[1:] = draw(hi_coeffs(D, P, (M, N)))
    return {'op': op, 'shape': shape_class, 'A': A}


@st.composite
def cholesky_cases(draw, tier):
    D, P = draw(_dims())
    n = draw(st.integers(1, 5))
    A = np.zeros((D, P, n, n))
    for p in range(P):
        A[0, p] = draw(gen.spd(n))
    A[1:] = draw(hi_coeffs(D, P, (n, n), sym=True))
    return {'op': 'cholesky', 'A': A}


@st.composite
def lu_cases(draw, op, cls, tier):
    D, P = draw(_dims())
    n = draw(st.integers(1, 5))
    A = np.zeros((D, P, n, n))
    for p in range(P):
        c = cls if (p == 0 or draw(st.booleans())) else ('wc' if cls == 'pivot' else 'pivot')
        A[0, p] = draw(gen.pivot_forcing(n)) if c == 'pivot' else draw(gen.well_conditioned(n))
    A[1:] = draw(hi_coeffs(D, P, (n, n)))
    return {'op': op, 'A': A}


@st.composite
def eigh_distinct_cases(draw, tier):
    D, P = draw(_dims())
    n = draw(st.integers(1, 5))
    A = np.zeros((D, P, n, n))
    for p in range(P):
        A[0, p] = draw(gen.symmetric_distinct(n, gap=0.3))
    A[1:] = draw(hi_coeffs(D, P, (n, n), sym=True))
    return {'op': 'eigh', 'cls': 'distinct', 'A': A}


@st.composite
def _composition(draw, total, minparts=1):
    """random composition of ``total`` into >= minparts positive parts"""
    parts = []
    rest = total
    while rest > 0:
        need = max(0, minparts - len(parts) - 1)
        k = draw(st.integers(1, rest - need))
        parts.append(k)
        rest -= k
    return parts


@st.composite
def _separated(draw, g):
    v = draw(gen.spaced_values(g, 0.2, 0.3)) - draw(gen.nice_floats(0.0, 3.0))
    return [float(v[i]) for i in draw(st.permutations(list(range(g))))]


@st.composite
def eigen_curves(draw, n, D):
    """lam (D,n): eigenvalue curves.  lam[0] ascending with exact repetitions; the curves of a repeated block share
    their coefficients up to a drawn order and separate there (>= 0.3) into sub-blocks, recursively, or never."""
    sizes = [draw(st.integers(2, n))]
    if n - sizes[0] > 0:
        sizes += draw(_composition(n - sizes[0]))
    sizes = [sizes[i] for i in draw(st.permutations(list(range(len(sizes)))))]
    lam = np.zeros((D, n))
    v0 = np.sort(draw(gen.spaced_values(len(sizes), 0.2, 0.3)) - draw(gen.nice_floats(0.0, 3.0)))
    splits = []

    def fill(idx, k, never):
        if k >= D:
            if len(idx) > 1:
                splits.append((len(idx), 'never'))
            return
        if len(idx) == 1:
            for kk in range(k, D):
                lam[kk, idx[0]] = draw(gen.coeff_elements(1.0))
            return
        if never or draw(st.integers(0, 2)) == 0:
            c = draw(gen.coeff_elements(1.0))
            for i in idx:
                lam[k, i] = c
            fill(idx, k + 1, never)
            return
        parts = draw(_composition(len(idx), minparts=2))
        vals = draw(_separated(len(parts)))
        splits.append((len(idx), k))
        pos = 0
        for part, v in zip(parts, vals):
            sub = idx[pos:pos + part]
            pos += part
            for i in sub:
                lam[k, i] = v
            fill(sub, k + 1, False)

    pos = 0
    for j, m in enumerate(sizes):
        idx = list(range(pos, pos + m))
        pos += m
        for i in idx:
            lam[0, i] = v0[j]
        fill(idx, 1, m > 1 and draw(st.integers(0, 4)) == 0)
    return lam, sizes, splits


@st.composite
def eigh_repeated_cases(draw, tier):
    D, P = draw(_dims())
    n = draw(st.integers(2, 5))
    A = np.zeros((D, P, n, n))
    meta = []
    for p in range(P):
        if p > 0 and draw(st.integers(0, 3)) == 0:
            # a direction with a simple spectrum next to directions with repeated eigenvalues
            A[0, p] = draw(gen.symmetric_distinct(n, gap=0.3))
            A[1:, p] = draw(hi_coeffs(D, 1, (n, n), sym=True))[:, 0]
            meta.append({'blocks': [1] * n, 'splits': []})
            continue
        lam, sizes, splits = draw(eigen_curves(n, D))
        Q0 = draw(gen.orthogonal(n))
        S = np.zeros((D, n, n))
        if D > 1:
            X = draw(gen.higher_coeffs((D - 1, n, n), gen.coeff_elements(1.0)))
            S[1:] = 0.5 * (X - np.swapaxes(X, -1, -2))
        A[:, p] = R.sym_curve(Q0, S, lam)
        meta.append({'blocks': [int(s) for s in sizes], 'splits': [[int(a), (b if b == 'never' else int(b))] for a, b in splits]})
    return {'op': 'eigh', 'cls': 'repeated', 'A': A, 'meta': meta}


GAPS = st.one_of(st.sampled_from([1e-3, 1e-5, 1e-6, 3e-7]), gen.nice_floats(-7.0, -3.0).map(lambda e: float(10.0 ** e)))


@st.composite
def near_pair_values(draw, n, lo=0.2, shift=True):
    """n ascending values: ONE pair at distance g in [1e-7, 1e-3], all other distances >= 0.3 - g"""
    g = draw(GAPS)
    if n == 2:
        v = draw(gen.spaced_values(1, lo, 0.3))
    else:
        v = draw(gen.spaced_values(n - 1, lo, 0.3))
    if shift:
        v = v - draw(gen.nice_floats(0.0, 3.0))
    i = draw(st.integers(0, len(v) - 1))
    vals = np.concatenate([v[:i + 1], [v[i] + g], v[i + 1:]])
    return vals, g, i


@st.composite
def eigh_near_cases(draw, tier):
    """distinct but nearly repeated eigenvalues: 1e-7 <= gap <= 1e-3 (the code's own threshold for 'repeated' is 1e-8).
    variants: generic = gap in A_0, arbitrary symmetric higher coefficients (eigenvector coefficients grow like
    gap^-d); curve = gap in A_0, A(t) = Q(t) Lambda(t) Q(t)^T with bounded analytic eigenvectors; split = the pair is
    exactly repeated in A_0 and separates by the small gap in the first-order coefficient"""
    D, P = draw(gen.dims(Dmax=4, Pmax=2, Dmin=2))
    n = draw(st.integers(2, 5))
    variant = draw(st.sampled_from(['generic', 'generic', 'curve', 'split']))
    A = np.zeros((D, P, n, n))
    gmin = 1.0
    for p in range(P):
        vals, g, i = draw(near_pair_values(n))
        gmin = min(gmin, g)
        Q0 = draw(gen.orthogonal(n))
        if variant == 'generic':
            A0 = Q0 @ np.diag(vals) @ Q0.T
            A[0, p] = 0.5 * (A0 + A0.T)
            A[1:, p] = draw(hi_coeffs(D, 1, (n, n), sym=True))[:, 0]
            continue
        lam = np.zeros((D, n))
        lam[1:] = draw(gen.float_array((D - 1, n), gen.coeff_elements(1.0), sparse=False))
        if variant == 'curve':
            lam[0] = vals
        else:
            lam[0] = vals
            lam[0, i + 1] = vals[i]                    # exactly repeated at order 0 ...
            lam[1, i + 1] = lam[1, i] + g              # ... separating by g at order 1
        S = np.zeros((D, n, n))
        X = draw(gen.higher_coeffs((D - 1, n, n), gen.coeff_elements(1.0)))
        S[1:] = 0.5 * (X - np.swapaxes(X, -1, -2))
        A[:, p] = R.sym_curve(Q0, S, lam)
    return {'op': 'eigh', 'cls': 'near-degenerate', 'variant': variant, 'gap': float(gmin), 'A': A}


@st.composite
def svd_near_cases(draw, shape_class, tier):
    D, P = draw(gen.dims(Dmax=4, Pmax=2, Dmin=2))
    M, N = draw(mn(shape_class))
    if min(M, N) < 2:
        M, N = M + 1, N + 1
    K = min(M, N)
    A = np.zeros((D, P, M, N))
    gmin = 1.0
    for p in range(P):
        vals, g, i = draw(near_pair_values(K, lo=0.3, shift=False))
        gmin = min(gmin, g)
        Smat = np.zeros((M, N))
        Smat[:K, :K] = np.diag(vals[::-1])
        A[0, p] = draw(gen.orthogonal(M)) @ Smat @ draw(gen.orthogonal(N)).T
    A[1:] = draw(hi_coeffs(D, P, (M, N)))
    return {'op': 'svd', 'shape': shape_class, 'cls': 'near-degenerate', 'gap': float(gmin), 'A': A}


@st.composite
def eig_cases(draw, cls, tier, Dmax=2, Dmin=1):
    D, P = draw(gen.dims(Dmax=Dmax, Pmax=3, Dmin=Dmin))
    n = draw(st.integers(2 if cls == 'complex' else 1, 5))
    A = np.zeros((D, P, n, n))
    for p in range(P):
        V = draw(gen.well_conditioned(n))
        if cls == 'real':
            B = np.diag(draw(_separated(n)))
        else:
            npairs = draw(st.integers(1, n // 2))
            vals = draw(_separated(npairs + (n - 2 * npairs)))
            B = np.zeros((n, n))
            for j in range(npairs):
                a = vals[j]
                b = 0.3 + draw(gen.nice_floats(0.0, 2.0))
                B[2 * j:2 * j + 2, 2 * j:2 * j + 2] = [[a, b], [-b, a]]
            for j in range(2 * npairs, n):
                B[j, j] = vals[npairs + j - 2 * npairs]
        A[0, p] = V @ B @ np.linalg.inv(V)
    A[1:] = draw(hi_coeffs(D, P, (n, n)))
    return {'op': 'eig', 'cls': cls, 'A': A}


ANGLE = gen.nice_floats(-3.1, 3.1)


@st.composite
def _complex_wc(draw, n, unitary=False):
    """complex n x n matrix with prescribed singular values: Q1 diag(s e^{i a}) Q2^T e^{i b} ... ; unitary: s = 1"""
    Q1 = draw(gen.orthogonal(n))
    Q2 = draw(gen.orthogonal(n))
    s = np.ones(n) if unitary else draw(gen.spaced_values(n, 0.3, 0.3))
    ph = np.exp(1j * draw(gen.float_array((n,), ANGLE, sparse=False)))
    ph2 = np.exp(1j * draw(gen.float_array((n,), ANGLE, sparse=False)))
    return (Q1 * (s * ph)[None, :]) @ (Q2.T * ph2[None, :])


@st.composite
def _complex_array(draw, shape):
    re = draw(gen.float_array(shape, gen.coeff_elements(1.0)))
    im = draw(gen.float_array(shape, gen.coeff_elements(1.0)))
    return re + 1j * im


@st.composite
def eig_complex_cases(draw, tier):
    """complex coefficient data (UTPM.eig allocates complex l, Q and works in complex arithmetic):
    hermitian  = U diag(real lambda) U^H, Hermitian A_1: all eigenvalue coefficients real, eigenvectors complex;
    real-pencil = V (L0 + t L1) V^-1 with real L0, L1 and complex V: same, non-normal;
    general    = V diag(complex lambda) V^-1, arbitrary complex A_1.  Eigenvalues pairwise >= 0.3 apart."""
    D, P = draw(gen.dims(Dmax=2, Pmax=3))
    n = draw(st.integers(1, 5))
    variant = draw(st.sampled_from(['hermitian', 'real-pencil', 'general']))
    A = np.zeros((D, P, n, n), dtype=complex)
    for p in range(P):
        lam = np.array(draw(_separated(n)))
        if variant == 'hermitian':
            U = draw(_complex_wc(n, unitary=True))
            A0 = U @ np.diag(lam) @ U.conj().T
            A[0, p] = 0.5 * (A0 + A0.conj().T)
            if D > 1:
                X = draw(_complex_array((n, n)))
                A[1, p] = 0.5 * (X + X.conj().T)
        else:
            V = draw(_complex_wc(n))
            Vi = np.linalg.inv(V)
            if variant == 'general':
                lam = lam + 1j * draw(gen.float_array((n,), gen.interval_union((-2.0, 2.0)), sparse=False))
                A[0, p] = V @ np.diag(lam) @ Vi
                if D > 1:
                    A[1, p] = draw(_complex_array((n, n)))
            else:
                A[0, p] = V @ np.diag(lam) @ Vi
                if D > 1:
                    A[1, p] = V @ np.diag(draw(gen.float_array((n,), gen.coeff_elements(1.0), sparse=False))) @ Vi
    return {'op': 'eig', 'cls': 'complex-input', 'variant': variant, 'A': A}


# ---------------------------------------------------------------------------
# properties
# ---------------------------------------------------------------------------

def _live(case):
    """the matrix polynomial as handed to algopy: a fresh C-contiguous array or (case['lay'] == 'T') a transposed view"""
    return R.live_operand(case['A'], True, case.get('lay', 'C'))


OUT_UNBOUND = ('lu', 'lu2', 'lu_factor', 'svd')      # signature has out=, body has no branch for it (KF-factor-out-unbound)


@st.composite
def with_layout(draw, strat):
    case = draw(strat)
    case['lay'] = draw(st.sampled_from(['C', 'C', 'T']))
    # out= of the class methods (1/4 of the cases): cleared buffer or non-zero garbage
    m = draw(st.sampled_from([None] * 6 + ['zeros', 'garbage']))
    if m is not None:
        steered = []
        if case['op'] in OUT_UNBOUND and KF.is_open('KF-factor-out-unbound'):
            steered.append('KF-factor-out-unbound')
            m = None
        elif case['op'] == 'eigh' and m == 'garbage' and KF.is_open('KF-eigh-out-nonzero'):
            steered.append('KF-eigh-out-nonzero')
            m = 'zeros'
        if m is not None:
            case['out'] = m
        if steered:
            case['steered'] = steered
    # base-point classes that only matter RELATIVE to the data: neighbouring base points per direction (a finite
    # difference stencil / continuation steps in one UTPM: different, but numpy.allclose), and the whole matrix polynomial
    # scaled by a power of two to tiny magnitude (all entries < 1e-8: every absolute threshold misfires; the factors must
    # be the exactly scaled factors of the unscaled problem).  Only for the buckets whose structure lives in A_0 alone.
    op, cls = case['op'], case.get('cls')
    eligible = (not np.iscomplexobj(case['A'])) and (
        (op != 'eig' and cls in (None, 'distinct')) or (op == 'eig' and cls in ('real', 'complex') and case['A'].shape[0] <= 2))
    if eligible:
        v = draw(st.sampled_from([None] * 5 + ['neighbour', 'neighbour', 'tiny', 'tiny', 'default-eps', 'default-eps']))
        A = case['A']
        D, P, M, N = A.shape
        if v == 'neighbour' and P > 1:
            h = draw(st.sampled_from([1e-6, 1e-7, 1e-9]))
            A = A.copy()
            for p in range(1, P):
                E = draw(gen.float_array((M, N), gen.interval_union((-1.0, 1.0)), sparse=False))
                if case['op'] in ('cholesky', 'eigh'):
                    E = 0.5 * (E + E.T)
                A[0, p] = A[0, 0] + h * E
            case['A'] = A
            case['base'] = 'neighbour,h=%g' % h
        elif v == 'tiny':
            k = draw(st.sampled_from([30, 40, 50, 60]))
            if op == 'qr' and M >= N and k > 30 and KF.is_open('KF-qr-epsilon-ignored'):
                # UTPM.qr drops its epsilon argument for M >= N: the scaled rank threshold cannot be passed, so keep
                # |diag R_0| above the default 1e-14 while the finding is open
                k = 30
                case['steered'] = case.get('steered', []) + ['KF-qr-epsilon-ignored']
            case['A'] = A * 2.0 ** -k
            case['tiny_k'] = k
            case['base'] = 'tiny,2^-%d' % k
        elif v == 'default-eps' and op in EPSILON:
            # small data handled with the DEFAULT threshold (no epsilon argument): scales at which the documented default
            # (qr 1e-14, eigh / svd 1e-8) still sees full rank / distinct values with a margin of >= 100 resp. >= 7
            if op == 'qr':
                k = draw(st.sampled_from([30, 32, 34, 36, 38]))          # pivots 0.3..9 * 2^-k in [1e-12, 9e-9]
                if draw(st.booleans()):
                    j = draw(st.integers(0, N - 1))                        # ONE tiny column in an O(1) matrix
                    A = A.copy()
                    A[..., j] *= 2.0 ** -k
                    case['A'] = A
                    case['col_k'] = [j, k]
                    case['base'] = 'default-eps,column*2^-%d' % k
                    return case
            else:
                k = draw(st.sampled_from([16, 20, 22]))                  # gaps >= 0.3 * 2^-22 = 7e-8 > 1e-8
            case['A'] = A * 2.0 ** -k
            case['tiny_k'] = k
            case['default_eps'] = True
            case['base'] = 'default-eps,2^-%d' % k
    return case


# absolute thresholds that are documented PARAMETERS of the methods: scaled with the data for tiny-magnitude input
EPSILON = {'qr': 1e-14, 'eigh': 1e-8, 'svd': 1e-8}


def _eps_kwargs(case):
    k = case.get('tiny_k')
    if k and case['op'] in EPSILON and not case.get('default_eps'):
        return {'epsilon': EPSILON[case['op']] * 2.0 ** -k}
    return {}


def _call(case, fglobal, fclass, shapes, stats, dtype=float, declared=(), single=False):
    """call the factorization (public global function, or the class method when an out= buffer is passed);
    returns (returned objects, buffers or None)"""
    for k in case.get('steered', []):
        stats.exclude(k)
    X = _live(case)
    bufs = None
    if case.get('out'):
        bufs = tuple(UTPM(R.out_buffer(s, dt, case['out'])) for s, dt in
                     zip(shapes, dtype if isinstance(dtype, (tuple, list)) else [dtype] * len(shapes)))
        ret = R.guard_declared(fclass, X, out=(bufs[0] if single else bufs), declared=declared, **_eps_kwargs(case))
    else:
        ret = R.guard_declared(fglobal, X, declared=declared, **_eps_kwargs(case))
    R.assert_unchanged(X, case['A'], case['op'])
    return ret, bufs


def _scaling(case, ret, fglobal, names, factors, stats):
    """tiny-magnitude class: A = 2^-k B.  The factorization of A must be the exactly scaled factorization of B
    (powers of two commute with every floating point operation involved): factor_i(A) = factors[i] * factor_i(B).
    Both sides come from the code under test (metamorphic relation); the predicates above validate the A side."""
    k = case.get('tiny_k')
    col = case.get('col_k')
    if col:
        # qr with ONE column scaled by 2^-k: A = B diag(c_j) => Q(A) = Q(B), R(A) = R(B) diag(c_j) exactly
        j, k = col
        Bbig = case['A'].copy()
        Bbig[..., j] *= 2.0 ** k
        cvec = np.ones(case['A'].shape[-1])
        cvec[j] = 2.0 ** -k
        big = guard(fglobal, UTPM(Bbig))
        for r, b, nm, f in zip(ret, big, names, (1.0, cvec)):
            rd, bd = _utpm(r, nm), _utpm(b, nm) * f
            if rd.shape != bd.shape:
                raise Violation('qr column scaling: %s has shape %s versus %s' % (nm, rd.shape, bd.shape))
            D = rd.shape[0]
            for jj in range(rd.shape[-1]) if nm == 'R' else [slice(None)]:       # R column by column: own magnitude
                a_, b_ = rd[..., jj], bd[..., jj]
                sc = np.maximum.accumulate(np.abs(b_).reshape(D, -1).max(axis=1))
                R.eq_check(a_, b_, np.maximum(sc, 1e-300), 1e-10, stats,
                           'qr: %s (column %s) of B diag(.., 2^-%d, ..) versus the column-scaled %s of B' % (nm, jj, k, nm))
        return
    if not k:
        return
    big = guard(fglobal, UTPM(case['A'] * 2.0 ** k))
    big = big if isinstance(big, (tuple, list)) else (big,)
    ret = ret if isinstance(ret, (tuple, list)) else (ret,)
    for r, b, nm, f in zip(ret, big, names, factors(2.0 ** -k)):
        rd, bd = _utpm(r, nm), _utpm(b, nm) * f
        if rd.shape != bd.shape:
            raise Violation('%s scaling: %s has shape %s for 2^-%d*B and %s for B' % (case['op'], nm, rd.shape, k, bd.shape))
        D = rd.shape[0]
        sc = np.maximum.accumulate(np.abs(bd).reshape(D, -1).max(axis=1)) if bd.size else np.ones(D)
        R.eq_check(rd, bd, np.maximum(sc, 1e-300), 1e-10, stats,
                   '%s: %s of 2^-%d*B versus the scaled %s of B' % (case['op'], nm, k, nm))


def _result_sets(ret, bufs, names):
    """[(tag, data tuple)]: the returned objects, and the caller's buffers when they are different objects"""
    ret = ret if isinstance(ret, (tuple, list)) else (ret,)
    sets = [('', tuple(_utpm(o, nm) for o, nm in zip(ret, names)))]
    if bufs is not None and any(b is not r for b, r in zip(bufs, ret)):
        sets.append((' [contents of the out buffers]', tuple(b.data for b in bufs)))
    return sets


def _utpm(z, what):
    if not isinstance(z, UTPM):
        raise Violation('%s is %s, not UTPM' % (what, type(z).__name__))
    return z.data


def _shape(data, shp, what):
    if data.shape != tuple(shp):
        raise Violation('%s: data shape %s, expected %s' % (what, data.shape, tuple(shp)))


def _zeroth(got, ref, stats, what):
    got = np.asarray(got)
    ref = np.asarray(ref)
    if got.shape != ref.shape:
        raise Violation('%s: shape %s versus %s' % (what, got.shape, ref.shape))
    m = float(np.max(np.abs(ref))) if ref.size else 0.0
    e = float(np.max(np.abs(got - ref))) / (m if m > 0 else 1.0) if ref.size else 0.0      # relative: tiny-magnitude inputs
    if not np.isfinite(e) or e > TOL0:
        raise Violation('%s: zeroth coefficient differs from the NumPy/SciPy factorization by %.2e (relative)' % (what, e))


def _orth(Q, stats, what, tol=TOL):
    D, m, k = Q.shape
    R.eq_check(R.smul(R.sT(Q), Q), R.sident(k, D), R.term_scale(R.smul_abs(R.sT(Q), Q)), tol, stats, what)


def _orth_tol(case):
    """eigen-/singular vectors belonging to a gap g are determined to a relative accuracy of eps/g only (already in
    LAPACK's order-0 result); the orthogonality residual of the higher coefficients inherits that factor.  Measured on
    the unchanged tree: <= 1e-16/g relative to the term magnitudes; allowed: 1e-13/g, never below the usual 1e-8.
    The defining equation A Q = Q diag(lambda) keeps the plain tolerance."""
    g = case.get('gap')
    return TOL if not g else max(TOL, 1e-13 / g)


def prop_qr(case, stats):
    A = case['A']
    D, P, M, N = A.shape
    full = case['op'] == 'qr_full'
    K = M if full else min(M, N)
    ret, bufs = _call(case, algopy.qr_full if full else algopy.qr, UTPM.qr_full if full else UTPM.qr,
                      [(D, P, M, K), (D, P, K, N)], stats)
    low = np.array([[r > c for c in range(N)] for r in range(K)], dtype=bool)
    for tag, (Q, Rr) in _result_sets(ret, bufs, ('Q', 'R')):
        _shape(Q, (D, P, M, K), 'Q' + tag)
        _shape(Rr, (D, P, K, N), 'R' + tag)
        for p in range(P):
            what = '%s p=%d%s' % (case['op'], p, tag)
            Qp, Rp, Ap = Q[:, p], Rr[:, p], A[:, p]
            R.eq_check(R.smul(Qp, Rp), Ap, R.term_scale(R.smul_abs(Qp, Rp), Ap), TOL, stats, what + ': Q R = A')
            _orth(Qp, stats, what + ': Q^T Q = I')
            R.zero_check(Rp, low, R.term_scale(Rp), TOL, stats, what + ': R upper triangular')
            q0, r0 = scipy.linalg.qr(Ap[0]) if full else np.linalg.qr(Ap[0])
            _zeroth(Qp[0], q0, stats, what + ': Q')
            _zeroth(Rp[0], r0, stats, what + ': R')
    _scaling(case, ret, algopy.qr_full if full else algopy.qr, ('Q', 'R'), lambda c: (1.0, c), stats)


def prop_cholesky(case, stats):
    A = case['A']
    D, P, n, _ = A.shape
    ret, bufs = _call(case, algopy.cholesky, UTPM.cholesky, [A.shape], stats, single=True)
    up = np.triu(np.ones((n, n), dtype=bool), 1)
    for tag, (L,) in _result_sets(ret, bufs, ('L',)):
        _shape(L, A.shape, 'L' + tag)
        for p in range(P):
            what = 'cholesky p=%d%s' % (p, tag)
            Lp, Ap = L[:, p], A[:, p]
            R.eq_check(R.smul(Lp, R.sT(Lp)), Ap, R.term_scale(R.smul_abs(Lp, R.sT(Lp)), Ap), TOL, stats, what + ': L L^T = A')
            R.zero_check(Lp, up, R.term_scale(Lp), TOL, stats, what + ': L lower triangular')
            _zeroth(Lp[0], np.linalg.cholesky(Ap[0]), stats, what + ': L')
    _scaling(case, ret, algopy.cholesky, ('L',), lambda c: (np.sqrt(c),), stats)


def _check_LU(L, U, PA, stats, what):
    """PA: row-permuted A of one direction with PA = L U demanded; L unit lower, U upper at every order"""
    D, n, _ = L.shape
    R.eq_check(R.smul(L, U), PA, R.term_scale(R.smul_abs(L, U), PA), TOL, stats, what + ': L U = P^T A')
    up = np.triu(np.ones((n, n), dtype=bool), 1)
    R.zero_check(L, up, R.term_scale(L), TOL, stats, what + ': L lower triangular')
    R.zero_check(U, up.T, R.term_scale(U), TOL, stats, what + ': U upper triangular')
    dg = np.array([np.diag(L[d]) for d in range(D)])
    dg[0] -= 1.0
    R.eq_check(dg, np.zeros_like(dg), R.term_scale(L), TOL, stats, what + ': unit diagonal of L(t)')


def prop_lu(case, stats):
    A = case['A']
    D, P, n, _ = A.shape
    ret, bufs = _call(case, algopy.lu, UTPM.lu, [A.shape] * 3, stats)
    for tag, (W, L, U) in _result_sets(ret, bufs, ('W', 'L', 'U')):
        for X, nm in ((W, 'W'), (L, 'L'), (U, 'U')):
            _shape(X, A.shape, nm + tag)
        for p in range(P):
            what = 'lu p=%d%s' % (p, tag)
            w0 = W[0, p]
            if np.any(W[1:, p] != 0):
                raise Violation(what + ': permutation has non-zero higher coefficients')
            if not (np.all((w0 == 0) | (w0 == 1)) and np.all(w0.sum(axis=0) == 1) and np.all(w0.sum(axis=1) == 1)):
                raise Violation(what + ': W_0 is not a permutation matrix')
            PA = np.array([np.dot(w0.T, A[d, p]) for d in range(D)])      # exact: row selection
            _check_LU(L[:, p], U[:, p], PA, stats, what)
            p0, l0, u0 = scipy.linalg.lu(A[0, p])
            _zeroth(w0, p0, stats, what + ': P')
            _zeroth(L[0, p], l0, stats, what + ': L')
            _zeroth(U[0, p], u0, stats, what + ': U')
    _scaling(case, ret, algopy.lu, ('W', 'L', 'U'), lambda c: (1.0, 1.0, c), stats)


def _apply_pivots(Ap, piv):
    """LAPACK convention: row i was interchanged with row piv[i], i = 0, 1, ..."""
    PA = Ap.copy()
    for i, j in enumerate(piv):
        if i != j:
            PA[:, [i, j]] = PA[:, [j, i]]
    return PA


def _pivots(v, n, what):
    piv = np.asarray(v)
    if piv.shape != (n,) or np.any(piv != np.round(piv)) or np.any(piv < np.arange(n)) or np.any(piv >= n):
        raise Violation('%s: invalid pivot vector %r' % (what, piv.tolist()))
    return piv.astype(int)


def prop_lu2(case, stats):
    """UTPM.lu2 -> (PIV, L, U);  UTPM.lu_factor -> (LU, PIV)"""
    A = case['A']
    D, P, n, _ = A.shape
    if case['op'] == 'lu2':
        ret, bufs = _call(case, UTPM.lu2, UTPM.lu2, [(D, P, n), A.shape, A.shape], stats, dtype=[int, float, float])
        names = ('PIV', 'L', 'U')
    else:
        ret, bufs = _call(case, UTPM.lu_factor, UTPM.lu_factor, [A.shape, (D, P, n)], stats)
        names = ('LU', 'PIV')
    for tag, datas in _result_sets(ret, bufs, names):
        if case['op'] == 'lu2':
            PIV, L, U = datas
        else:
            LU, PIV = datas
            _shape(LU, A.shape, 'LU' + tag)
            L = np.tril(LU, -1)
            L[0] += np.eye(n)
            U = np.triu(LU, 0)
        _shape(PIV, (D, P, n), 'PIV' + tag)
        _shape(L, A.shape, 'L' + tag)
        _shape(U, A.shape, 'U' + tag)
        for p in range(P):
            what = '%s p=%d%s' % (case['op'], p, tag)
            if np.any(PIV[1:, p] != 0):
                raise Violation(what + ': pivots have non-zero higher coefficients')
            piv = _pivots(PIV[0, p], n, what)
            _check_LU(L[:, p], U[:, p], _apply_pivots(A[:, p], piv), stats, what)
            lu0, piv0 = scipy.linalg.lu_factor(A[0, p])
            _zeroth(piv, piv0, stats, what + ': piv')
            _zeroth(np.tril(L[0, p], -1) + U[0, p], lu0, stats, what + ': LU')
    if case['op'] == 'lu2':
        _scaling(case, ret, UTPM.lu2, names, lambda c: (1.0, 1.0, c), stats)
    else:
        up = np.triu(np.ones((n, n)))
        _scaling(case, ret, UTPM.lu_factor, names, lambda c: (np.where(up > 0, c, 1.0), 1.0), stats)


def prop_eigh(case, stats):
    A = case['A']
    D, P, n, _ = A.shape
    ret, bufs = _call(case, algopy.eigh, UTPM.eigh, [(D, P, n), (D, P, n, n)], stats)
    for tag, (lam, Q) in _result_sets(ret, bufs, ('lambda', 'Q')):
        _shape(lam, (D, P, n), 'lambda' + tag)
        _shape(Q, (D, P, n, n), 'Q' + tag)
        for p in range(P):
            what = 'eigh p=%d%s' % (p, tag)
            lp, Qp, Ap = lam[:, p], Q[:, p], A[:, p]
            Lp = R.sdiag(lp)
            R.eq_check(R.smul(Ap, Qp), R.smul(Qp, Lp), R.term_scale(R.smul_abs(Ap, Qp), R.smul_abs(Qp, Lp)), TOL, stats,
                       what + ': A Q = Q diag(lambda)')
            _orth(Qp, stats, what + ': Q^T Q = I', _orth_tol(case))
            w0, q0 = np.linalg.eigh(Ap[0])
            sc = float(np.abs(w0).max()) or 1.0                       # relative to the data (tiny-magnitude class)
            if np.any(np.diff(lp[0]) < -TOL0 * sc):
                raise Violation('%s: lambda_0 not ascending: %r' % (what, lp[0].tolist()))
            _zeroth(lp[0], w0, stats, what + ': lambda')
            if n == 1 or np.min(np.diff(w0)) > 1e-3 * sc:
                _zeroth(Qp[0], q0, stats, what + ': Q')
    _scaling(case, ret, algopy.eigh, ('lambda', 'Q'), lambda c: (c, 1.0), stats)


def prop_eig(case, stats):
    A = case['A']
    D, P, n, _ = A.shape
    ret, bufs = _call(case, algopy.eig, UTPM.eig, [(D, P, n), (D, P, n, n)], stats, dtype=complex, declared=EIG_DECLARED)
    for tag, (lam, Q) in _result_sets(ret, bufs, ('lambda', 'Q')):
        _shape(lam, (D, P, n), 'lambda' + tag)
        _shape(Q, (D, P, n, n), 'Q' + tag)
        for p in range(P):
            what = 'eig p=%d%s' % (p, tag)
            lp, Qp, Ap = lam[:, p], Q[:, p], A[:, p].astype(complex)
            Lp = R.sdiag(lp.astype(complex))
            Qc = Qp.astype(complex)
            R.eq_check(R.smul(Ap, Qc), R.smul(Qc, Lp), R.term_scale(R.smul_abs(Ap, Qc), R.smul_abs(Qc, Lp)), TOL, stats,
                       what + ': A Q = Q diag(lambda)')
            sv = np.linalg.svd(Qc[0], compute_uv=False)
            if not (sv[-1] > 1e-6 * sv[0]):
                raise Violation('%s: Q_0 is singular (singular values %r)' % (what, sv.tolist()))
    # (no scaling relation for eig: LAPACK's geev returns the eigenpairs of B and of 2^-k B in a different ORDER and with
    #  different column signs; the relative validity predicates above are the specification)


def prop_svd(case, stats):
    A = case['A']
    D, P, M, N = A.shape
    K = min(M, N)
    ret, bufs = _call(case, algopy.svd, UTPM.svd, [(D, P, M, M), (D, P, K), (D, P, N, N)], stats)
    for tag, (U, s, V) in _result_sets(ret, bufs, ('U', 's', 'V')):
        _shape(U, (D, P, M, M), 'U' + tag)
        _shape(s, (D, P, K), 's' + tag)
        _shape(V, (D, P, N, N), 'V' + tag)
        for p in range(P):
            what = 'svd p=%d%s' % (p, tag)
            Up, sp, Vp, Ap = U[:, p], s[:, p], V[:, p], A[:, p]
            S = np.zeros((D, M, N))
            S[:, :K, :K] = R.sdiag(sp)
            US = R.smul(Up, S)
            USa = R.smul_abs(Up, S)
            R.eq_check(R.smul(US, R.sT(Vp)), Ap, R.term_scale(R.smul_abs(USa, R.sT(Vp)), Ap), TOL, stats, what + ': U diag(s) V^T = A')
            _orth(Up, stats, what + ': U^T U = I', _orth_tol(case))
            _orth(Vp, stats, what + ': V^T V = I', _orth_tol(case))
            s0 = sp[0]
            if np.any(s0 < 0) or np.any(np.diff(s0) > TOL0 * float(s0.max())):
                raise Violation('%s: s_0 not descending and non-negative: %r' % (what, s0.tolist()))
            # implied by the predicates above (orthogonal factors, ordered non-negative diagonal): s_0 are THE singular values
            sv = np.linalg.svd(Ap[0], compute_uv=False)
            if np.max(np.abs(s0 - sv)) > 1e-10 * float(sv.max()):
                raise Violation('%s: s_0 = %r, singular values of A_0 are %r' % (what, s0.tolist(), sv.tolist()))
    _scaling(case, ret, algopy.svd, ('U', 's', 'V'), lambda c: (1.0, c, 1.0), stats)


# ---------------------------------------------------------------------------
# classes / non-triviality
# ---------------------------------------------------------------------------

def _nontrivial(case):
    A = case['A']
    if case['op'] == 'eig':
        # the code admits D <= 2 only: the first-order coefficient is the non-trivial content
        return A.shape[0] == 2 and A.shape[2] >= 2 and bool(np.any(A[1] != 0))
    return A.shape[0] >= 3 and min(A.shape[2:]) >= 2


def _classes(case):
    A = case['A']
    D, P, M, N = A.shape
    c = ['D=%d' % D, 'P=%d' % P, 'op=' + case['op'], 'size=%dx%d' % (M, N),
         'shape=' + ('square' if M == N else 'tall' if M > N else 'wide'), 'pattern=' + gen.pattern_class(A)]
    if gen.distinct_bases(A):
        c.append('distinct-bases')
    if case.get('lay') == 'T':
        c.append('layout=transposed-view operand')
    if case.get('base'):
        c.append('base=' + case['base'].split(',')[0])
        c.append('base=' + case['base'])
    if case.get('out'):
        c.append('out=' + case['out'])
        c.append('out=%s,op=%s' % (case['out'], case['op']))
    if np.iscomplexobj(A):
        c.append('complex-input')
        if 'variant' in case:
            c.append('complex-input=' + case['variant'])
    if case['op'] in ('lu', 'lu2', 'lu_factor'):
        pv = []
        for p in range(P):
            piv = scipy.linalg.lu_factor(A[0, p])[1]
            pv.append(bool(np.any(piv != np.arange(N))))
        c.append('pivoted=' + ('all-directions' if all(pv) else 'some-directions' if any(pv) else 'none'))
    if case['op'] in ('eigh', 'eig') or case.get('cls') == 'near-degenerate':
        c.append('spectrum=' + case['cls'])
    if case.get('gap'):
        c.append('near-gap=1e%d..1e%d' % (int(np.floor(np.log10(case['gap']) + 1e-9)), int(np.floor(np.log10(case['gap']) + 1e-9)) + 1))
        if 'variant' in case:
            c.append('near-variant=' + case['variant'])
    for m in case.get('meta', []):
        c.append('blocks=' + '+'.join(str(b) for b in m['blocks']))
        for size, order in m['splits']:
            c.append('split-order=%s' % order)
            c.append('split-order=%s,block=%d' % (order, size))
        if len(m['splits']) >= 2 and any(o != 'never' for _, o in m['splits']):
            c.append('nested-or-multiple-splits')
    return c


# ---------------------------------------------------------------------------

def buckets(tier):
    bl = []

    def add(name, strat, prop, nq, nt, shards=1, weight=1.0):
        bl.append(Bucket(name, (lambda strat=strat: with_layout(strat())), prop, {'quick': nq, 'thorough': nt}, nontrivial=_nontrivial, classes=_classes,
                         shards={'quick': 1, 'thorough': shards}, weight=weight))

    for sc in ('square', 'tall', 'wide'):
        add('qr:' + sc, (lambda sc=sc: rect_cases('qr', sc, tier)), prop_qr, 150, 1500, 2, 2.0)
        add('qr_full:' + sc, (lambda sc=sc: rect_cases('qr_full', sc, tier)), prop_qr, 150 if sc != 'wide' else 20,
            1500 if sc != 'wide' else 100, 2 if sc != 'wide' else 1, 2.0)
        add('svd:' + sc, (lambda sc=sc: rect_cases('svd', sc, tier)), prop_svd, 120, 1000, 4, 8.0)
    add('cholesky', (lambda: cholesky_cases(tier)), prop_cholesky, 200, 1500, 2, 2.0)
    for op, prop in (('lu', prop_lu), ('lu2', prop_lu2), ('lu_factor', prop_lu2)):
        add(op + ':regular', (lambda op=op: lu_cases(op, 'wc', tier)), prop, 100, 1000, 2, 2.0)
        add(op + ':pivoting', (lambda op=op: lu_cases(op, 'pivot', tier)), prop, 100, 1000, 2, 2.0)
    add('eigh:distinct', (lambda: eigh_distinct_cases(tier)), prop_eigh, 150, 1500, 3, 4.0)
    add('eigh:repeated', (lambda: eigh_repeated_cases(tier)), prop_eigh, 200, 1500, 6, 6.0)
    add('eigh:near-degenerate', (lambda: eigh_near_cases(tier)), prop_eigh, 200, 1500, 3, 4.0)
    for sc in ('square', 'tall', 'wide'):
        add('svd:near-degenerate:' + sc, (lambda sc=sc: svd_near_cases(sc, tier)), prop_svd, 60, 500, 2, 8.0)
    add('eig:real', (lambda: eig_cases('real', tier)), prop_eig, 150, 1500, 1, 1.0)
    add('eig:complex-pairs', (lambda: eig_cases('complex', tier)), prop_eig, 150, 1500, 1, 1.0)
    add('eig:complex-input', (lambda: eig_complex_cases(tier)), prop_eig, 200, 2000, 1, 1.0)
    add('eig:D>2', (lambda: eig_cases('real', tier, Dmax=6, Dmin=3)), prop_eig, 20, 100, 1, 1.0)
    return bl
