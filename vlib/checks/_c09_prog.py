"""Plain-data programs R^N -> scalar | vector | matrix for C09 and their interpreters.

A program is a nested list (JSON-able through vlib.codec).  The same program is executed by ``run`` on
* algopy.UTPM arrays                     (code under test; call through runner.guard),
* object ndarrays of oracles.ExactPoly   (exact analytic derivatives, polynomial subset),
* object ndarrays of ExactPoly with all signs made positive (majorant: magnitude of the terms),
* float ndarrays                         (domain checks while generating smooth programs),
* object ndarrays of mpmath.mpf          (numerical differentiation oracle for smooth programs).

Node forms (e = vector expression, s = scalar expression, c = Python int, A = int64 ndarray):
  ['x']                      the input vector                       ['sl', e, a, b, step]    e[a:b:step]
  ['idx', e, i]              e[i]                                   ['cdot', A, e]           dot(A, e)   (A 2-D or 1-D)
  ['dot', e1, e2]            inner product                          ['sum', e]               sum(e)
  ['add'|'sub'|'mul', a, b]  element-wise / scalar-with-vector      ['pow', a, n]            a ** n  (n Python int >= 1)
  ['neg', a]                 -a                                     ['cmul'|'cadd'|'csub', c, a, 'l'|'r']  constant on the left/right
  ['stack', [s, ...]]        out = zeros(m, dtype=x); out[i] = s_i  ['stack2', [[s, ..], ..]]  the same for a matrix
  ['reshape', e, (m1, m2)]   e.reshape((m1, m2))                    ['fn', name, a]          smooth element-wise function
  ['div', a, b]              a / b   (smooth family only)           ['cdiv', c, a, 'l'|'r']  c / a  or  a / c   (smooth family only)
"""
import itertools
from fractions import Fraction

import numpy as np
from hypothesis import strategies as st

from ..oracles import ExactPoly


# ---------------------------------------------------------------------------
# back-ends
# ---------------------------------------------------------------------------

class BackendUTPM:
    """generic algopy API, as a user would write the program"""
    majorant = False

    def __init__(self, algopy):
        self.a = algopy

    def const(self, c):
        return c

    def mat(self, A):
        return A

    def dot(self, a, b):
        return self.a.dot(a, b)

    def sum(self, a):
        return self.a.sum(a)

    def zeros(self, shape, x):
        return self.a.zeros(shape, dtype=x)

    def setitem(self, out, idx, val):
        out[idx] = val

    def fn(self, name, a):
        return getattr(self.a, name)(a)

    def wrap(self, v):
        return v


def _box(v):
    if isinstance(v, np.ndarray):
        return v
    a = np.empty((), dtype=object)
    a[()] = v
    return a


class BackendObject:
    """object ndarrays (ExactPoly, mpmath numbers); scalars are kept as 0-d object arrays so that NumPy broadcasts"""

    def __init__(self, majorant=False, fns=None, zero=0):
        self.majorant = majorant
        self.fns = fns or {}
        self.zero = zero

    def const(self, c):
        return abs(c) if self.majorant else c

    def mat(self, A):
        A = np.asarray(A)
        return (np.abs(A) if self.majorant else A).astype(object)

    def dot(self, a, b):
        return _box(np.dot(a, b))

    def sum(self, a):
        return _box(np.sum(a))

    def zeros(self, shape, x):
        out = np.empty(shape, dtype=object)
        out[...] = self.zero
        return out

    def setitem(self, out, idx, val):
        out[idx] = val[()] if isinstance(val, np.ndarray) and val.ndim == 0 else val

    def fn(self, name, a):
        return _box(np.frompyfunc(self.fns[name], 1, 1)(a))

    def wrap(self, v):
        return _box(v)


class BackendFloat:
    majorant = False

    def const(self, c):
        return c

    def mat(self, A):
        return np.asarray(A)

    def dot(self, a, b):
        return np.dot(a, b)

    def sum(self, a):
        return np.sum(a)

    def zeros(self, shape, x):
        return np.zeros(shape)

    def setitem(self, out, idx, val):
        out[idx] = val

    def fn(self, name, a):
        return getattr(np, name)(a)

    def wrap(self, v):
        return v


def run(node, x, B):
    """every intermediate result passes through B.wrap (object back-ends re-box scalars that NumPy unboxed)"""
    return B.wrap(_run(node, x, B))


def _run(node, x, B):
    op = node[0]
    if op == 'x':
        return x
    if op == 'sl':
        return run(node[1], x, B)[slice(node[2], node[3], node[4])]
    if op == 'idx':
        return B.wrap(run(node[1], x, B)[node[2]])
    if op == 'cdot':
        return B.wrap(B.dot(B.mat(node[1]), run(node[2], x, B)))
    if op == 'dot':
        return B.wrap(B.dot(run(node[1], x, B), run(node[2], x, B)))
    if op == 'sum':
        return B.wrap(B.sum(run(node[1], x, B)))
    if op in ('add', 'sub', 'mul'):
        a = run(node[1], x, B)
        b = run(node[2], x, B)
        if op == 'add' or (op == 'sub' and B.majorant):
            return a + b
        if op == 'sub':
            return a - b
        return a * b
    if op == 'pow':
        return run(node[1], x, B) ** node[2]
    if op == 'div':
        return run(node[1], x, B) / run(node[2], x, B)
    if op == 'cdiv':
        a = run(node[2], x, B)
        return node[1] / a if node[3] == 'l' else a / node[1]
    if op == 'neg':
        a = run(node[1], x, B)
        return a if B.majorant else -a
    if op in ('cmul', 'cadd', 'csub'):
        c = B.const(node[1])
        a = run(node[2], x, B)
        left = node[3] == 'l'
        if op == 'cmul':
            return c * a if left else a * c
        if op == 'cadd' or B.majorant:
            return c + a if left else a + c
        return c - a if left else a - c
    if op == 'stack':
        out = B.zeros(len(node[1]), x)
        for i, s in enumerate(node[1]):
            B.setitem(out, i, run(s, x, B))
        return out
    if op == 'stack2':
        rows = node[1]
        out = B.zeros((len(rows), len(rows[0])), x)
        for i, r in enumerate(rows):
            for j, s in enumerate(r):
                B.setitem(out, (i, j), run(s, x, B))
        return out
    if op == 'reshape':
        return run(node[1], x, B).reshape(tuple(node[2]))
    if op == 'fn':
        return B.wrap(B.fn(node[1], run(node[2], x, B)))
    raise KeyError(op)


def lay(a, layout, perm=None):
    """array with the values and shape of ``a`` on a different buffer: C | F | T (transposed view of a C buffer) |
    perm (axes stored in the order perm) | strided (every second entry of a larger buffer) | reversed (negative strides)"""
    a = np.asarray(a)
    if layout in (None, 'C') or a.ndim == 0 or a.size == 0:
        return np.array(a, order='C', copy=True)
    if layout == 'F':
        return np.array(a, order='F', copy=True)
    if layout == 'T':
        return np.array(a.T, order='C', copy=True).T
    if layout == 'perm':
        perm = [int(i) for i in perm]
        return np.array(a.transpose(perm), order='C', copy=True).transpose([int(i) for i in np.argsort(perm)])
    if layout == 'strided':
        big = np.zeros(tuple(2 * n for n in a.shape), dtype=a.dtype)
        v = big[tuple(slice(None, None, 2) for _ in a.shape)]
        v[...] = a
        return v
    if layout == 'reversed':
        sl = tuple(slice(None, None, -1) for _ in a.shape)
        return np.array(a[sl], order='C', copy=True)[sl]
    raise KeyError(layout)


@st.composite
def draw_layout(draw, ndim):
    """(layout, perm or None); layouts that coincide with C for the rank are reported as C; arrays of rank >= 2 get a
    non-C layout most of the time (that is where the memory order can matter)"""
    l = draw(st.sampled_from(['C', 'C', 'F', 'T', 'T', 'perm', 'strided', 'reversed'] if ndim < 2 else
                             ['C', 'F', 'F', 'T', 'T', 'perm', 'strided', 'reversed']))
    if ndim < 1 or (ndim < 2 and l in ('F', 'T', 'perm')):
        return 'C', None
    if l == 'perm':
        return l, list(draw(st.permutations(list(range(ndim)))))
    return l, None


def walk(o):
    """all nodes of a program (a node is a list whose first item is the operation name)"""
    if isinstance(o, list):
        if o and isinstance(o[0], str):
            yield o
            rest = o[1:]
        else:
            rest = o
        for c in rest:
            yield from walk(c)


def size(node):
    return sum(1 for _ in walk(node))


def ops_used(node):
    return set((n[0] if n[0] != 'fn' else 'fn:' + n[1]) for n in walk(node))


# ---------------------------------------------------------------------------
# exact evaluation
# ---------------------------------------------------------------------------

def exact_outputs(prog, N, majorant=False):
    """object ndarray (output shape) of ExactPoly"""
    x = np.empty(N, dtype=object)
    for i in range(N):
        x[i] = ExactPoly.var(N, i)
    B = BackendObject(majorant=majorant, zero=ExactPoly.const(N, 0))
    out = _box(run(prog, x, B))
    for idx in np.ndindex(*out.shape):
        if not isinstance(out[idx], ExactPoly):
            out[idx] = ExactPoly.const(N, out[idx])
    return out


def frac_point(x):
    x = np.asarray(x)
    if x.dtype.kind in 'iu':
        return [Fraction(int(v)) for v in x.ravel()]
    return [Fraction(float(v)) for v in x.ravel()]


def has_mixed_monomial(polys):
    for p in polys.ravel():
        for k in p.t:
            if sum(1 for e in k if e > 0) >= 2:
                return True
    return False


def max_degree(polys):
    return max(p.degree() for p in polys.ravel())


def factorial_multi(alpha):
    f = 1
    for a in alpha:
        for k in range(2, a + 1):
            f *= k
    return f


# ---------------------------------------------------------------------------
# Hypothesis generators of polynomial programs (integer constants); degree bounded by construction
# ---------------------------------------------------------------------------

_C = st.sampled_from([1, -1, 2, -2, 3, -3, 2, 5, 7])


@st.composite
def _intmat(draw, m, n):
    vals = draw(st.lists(st.integers(-3, 3), min_size=m * n, max_size=m * n))
    A = np.array(vals, dtype=np.int64).reshape(m, n)
    if not A.any():
        A[0, 0] = 1
    return A


@st.composite
def poly_vec(draw, N, k, deg, depth):
    """vector expression of length k whose entries are polynomials of degree <= deg (deg >= 1); the degree budget is
    spent with high probability (products / powers are preferred while budget and depth remain)"""
    if depth <= 0:
        choices = ['leaf']
    elif deg == 1:
        choices = ['leaf', 'leaf', 'leaf', 'add', 'sub', 'cop', 'neg', 'stack']
    else:
        choices = ['mul', 'mul', 'mul', 'pow', 'pow', 'smul', 'smul', 'add', 'sub', 'cop', 'stack', 'leaf']
    ch = draw(st.sampled_from(choices))
    if ch == 'leaf' and deg >= 2 and draw(st.booleans()):
        # spend the remaining budget on a power of a linear leaf
        return ['pow', draw(poly_vec(N, k, 1, 0)), draw(st.sampled_from([deg, deg] + list(range(2, deg + 1))))]
    if ch == 'leaf':
        forms = ['cdot', 'cdot', 'cdot']
        if k == N:
            forms += ['x', 'x', 'x', 'rev']
        elif k < N:
            forms += ['sl', 'sl']
        if 2 * k - 1 <= N and k >= 1:
            forms += ['step']
        f = draw(st.sampled_from(forms))
        if f == 'x':
            return ['x']
        if f == 'rev':
            return ['sl', ['x'], None, None, -1]
        if f == 'sl':
            a = draw(st.integers(0, N - k))
            return ['sl', ['x'], a, a + k, 1]
        if f == 'step':
            return ['sl', ['x'], 0, 2 * k - 1, 2]
        return ['cdot', draw(_intmat(k, N)), ['x']]
    if ch in ('add', 'sub'):
        return [ch, draw(poly_vec(N, k, deg, depth - 1)), draw(poly_vec(N, k, deg, depth - 1))]
    if ch == 'cop':
        return [draw(st.sampled_from(['cmul', 'cmul', 'cadd', 'csub'])), draw(_C), draw(poly_vec(N, k, deg, depth - 1)),
                draw(st.sampled_from(['l', 'r']))]
    if ch == 'neg':
        return ['neg', draw(poly_vec(N, k, deg, depth - 1))]
    if ch == 'stack':
        return ['stack', [draw(poly_scalar(N, deg, depth - 1)) for _ in range(k)]]
    if ch == 'mul':
        d1 = draw(st.integers(1, deg - 1))
        return ['mul', draw(poly_vec(N, k, d1, depth - 1)), draw(poly_vec(N, k, deg - d1, depth - 1))]
    if ch == 'pow':
        n = draw(st.sampled_from([deg] + list(range(2, deg + 1))))
        return ['pow', draw(poly_vec(N, k, deg // n, depth - 1)), n]
    # scalar times vector, either order
    d1 = draw(st.integers(1, deg - 1))
    s = draw(poly_scalar(N, d1, depth - 1))
    v = draw(poly_vec(N, k, deg - d1, depth - 1))
    return ['mul', s, v] if draw(st.booleans()) else ['mul', v, s]


@st.composite
def poly_scalar(draw, N, deg, depth):
    if depth <= 0:
        choices = ['leaf']
    elif deg == 1:
        choices = ['leaf', 'leaf', 'idx', 'sum', 'cvdot', 'cvdot', 'add', 'sub', 'cop', 'neg']
    else:
        choices = ['mul', 'mul', 'pow', 'pow', 'dot', 'dot', 'dot', 'sum', 'sum', 'idx', 'cvdot', 'add', 'sub', 'cop']
    ch = draw(st.sampled_from(choices))
    if ch == 'leaf':
        # a single variable or a linear form a.x (powers / products of linear forms carry mixed monomials)
        if draw(st.booleans()):
            lf = ['idx', ['x'], draw(st.integers(-N, N - 1))]
        else:
            lf = ['cdot', draw(_intmat(1, N))[0], ['x']]
        if deg >= 2 and draw(st.booleans()):
            return ['pow', lf, draw(st.sampled_from([deg, deg] + list(range(2, deg + 1))))]
        return lf
    k = draw(st.integers(1, max(1, min(N, 4))))
    if ch == 'idx':
        return ['idx', draw(poly_vec(N, k, deg, depth - 1)), draw(st.integers(0, k - 1))]
    if ch == 'sum':
        return ['sum', draw(poly_vec(N, k, deg, depth - 1))]
    if ch == 'cvdot':
        a = draw(_intmat(1, k))[0]
        return ['cdot', a, draw(poly_vec(N, k, deg, depth - 1))]
    if ch in ('add', 'sub'):
        return [ch, draw(poly_scalar(N, deg, depth - 1)), draw(poly_scalar(N, deg, depth - 1))]
    if ch == 'cop':
        return [draw(st.sampled_from(['cmul', 'cmul', 'cadd', 'csub'])), draw(_C), draw(poly_scalar(N, deg, depth - 1)),
                draw(st.sampled_from(['l', 'r']))]
    if ch == 'neg':
        return ['neg', draw(poly_scalar(N, deg, depth - 1))]
    if ch == 'mul':
        d1 = draw(st.integers(1, deg - 1))
        return ['mul', draw(poly_scalar(N, d1, depth - 1)), draw(poly_scalar(N, deg - d1, depth - 1))]
    if ch == 'pow':
        n = draw(st.sampled_from([deg] + list(range(2, deg + 1))))
        return ['pow', draw(poly_scalar(N, deg // n, depth - 1)), n]
    d1 = draw(st.integers(1, deg - 1))
    return ['dot', draw(poly_vec(N, k, d1, depth - 1)), draw(poly_vec(N, k, deg - d1, depth - 1))]


@st.composite
def poly_program(draw, N, out, deg=None, depth=None):
    """out in {'scalar','vector','matrix'}; returns the program (degree <= 5 by construction)"""
    if deg is None:
        deg = draw(st.sampled_from([1, 2, 2, 3, 3, 4, 5]))
    if depth is None:
        depth = draw(st.sampled_from([1, 2, 2, 3, 3]))
    if out == 'scalar':
        return draw(poly_scalar(N, deg, max(depth, 1)))
    if out == 'vector':
        k = draw(st.integers(1, 4))
        return draw(poly_vec(N, k, deg, depth))
    m1 = draw(st.integers(1, 3))
    m2 = draw(st.integers(1, 3))
    if draw(st.booleans()):
        return ['reshape', draw(poly_vec(N, m1 * m2, deg, depth)), (m1, m2)]
    return ['stack2', [[draw(poly_scalar(N, deg, max(depth - 1, 0))) for _ in range(m2)] for _ in range(m1)]]


# ---------------------------------------------------------------------------
# smooth (non-polynomial) programs: grown bottom-up, every function applied only where its argument is inside the
# domain with margin AT THE GENERATED POINT (construction, not rejection)
# ---------------------------------------------------------------------------

SMOOTH_FNS = ['sin', 'cos', 'exp', 'tanh', 'arctan', 'log', 'sqrt', 'sinh']
MP_NAMES = {'sin': 'sin', 'cos': 'cos', 'exp': 'exp', 'tanh': 'tanh', 'arctan': 'atan', 'log': 'log', 'sqrt': 'sqrt', 'sinh': 'sinh'}
_BF = BackendFloat()


def _admissible(val):
    val = np.asarray(val, dtype=float)
    ok = ['sin', 'cos', 'tanh', 'arctan']
    if np.all(np.abs(val) <= 2.5):
        ok += ['exp', 'sinh']
    if np.all(val >= 0.3) and np.all(val <= 50):
        ok += ['log', 'sqrt', 'log', 'sqrt']
    return ok


@st.composite
def _smooth_term(draw, N, x, scalar, k):
    """fn(polynomial of degree <= 2 with small constants)"""
    inner = draw(poly_scalar(N, draw(st.integers(1, 2)), 1)) if scalar else draw(poly_vec(N, k, draw(st.integers(1, 2)), 1))
    val = run(inner, x, _BF)
    if not np.all(np.abs(val) <= 40):
        inner = ['fn', 'tanh', inner]
        val = run(inner, x, _BF)
    name = draw(st.sampled_from(_admissible(val)))
    return ['fn', name, inner]


@st.composite
def _smooth_expr(draw, N, x, scalar, k, depth):
    if depth == 0:
        return draw(_smooth_term(N, x, scalar, k))
    ch = draw(st.sampled_from(['term', 'add', 'sub', 'mul', 'mul', 'fn', 'polymul', 'reduce', 'div', 'div', 'cdiv'] if scalar else
                              ['term', 'add', 'sub', 'mul', 'mul', 'fn', 'polymul', 'smul', 'div', 'div', 'cdiv']))
    if ch == 'term':
        return draw(_smooth_term(N, x, scalar, k))
    if ch in ('add', 'sub', 'mul'):
        return [ch, draw(_smooth_expr(N, x, scalar, k, depth - 1)), draw(_smooth_expr(N, x, scalar, k, depth - 1))]
    if ch == 'fn':
        inner = draw(_smooth_expr(N, x, scalar, k, depth - 1))
        val = run(inner, x, _BF)
        return ['fn', draw(st.sampled_from(_admissible(val))), inner]
    if ch == 'div':
        # numerator: a polynomial or a smooth expression; denominator bounded away from 0 AT THE POINT, by construction
        num = draw(st.one_of(poly_scalar(N, draw(st.integers(1, 2)), 1) if scalar else poly_vec(N, k, draw(st.integers(1, 2)), 1),
                             _smooth_expr(N, x, scalar, k, depth - 1)))
        den = draw(poly_scalar(N, 1, 1) if scalar else poly_vec(N, k, 1, 1)) if draw(st.booleans()) else draw(_smooth_expr(N, x, scalar, k, depth - 1))
        val = np.asarray(run(den, x, _BF), dtype=float)
        if not (np.all(np.abs(val) >= 0.3) and np.all(np.abs(val) <= 50)):
            den = ['cadd', draw(st.sampled_from([2, 3, -2])), ['fn', 'tanh', den], draw(st.sampled_from(['l', 'r']))]    # |.| in [1, 4]
        return ['div', num, den]
    if ch == 'cdiv':
        inner = draw(_smooth_expr(N, x, scalar, k, depth - 1)) if draw(st.booleans()) else \
            draw(poly_scalar(N, draw(st.integers(1, 2)), 1) if scalar else poly_vec(N, k, draw(st.integers(1, 2)), 1))
        side = draw(st.sampled_from(['r', 'r', 'l']))
        c = draw(st.sampled_from([2, 3, -3, 7, 2.5]))
        if side == 'l':
            val = np.asarray(run(inner, x, _BF), dtype=float)
            if not (np.all(np.abs(val) >= 0.3) and np.all(np.abs(val) <= 50)):
                inner = ['cadd', 3, ['fn', 'tanh', inner], 'l']
        return ['cdiv', c, inner, side]
    if ch == 'polymul':
        p = draw(poly_scalar(N, 1, 1)) if scalar else draw(poly_vec(N, k, 1, 1))
        return ['mul', p, draw(_smooth_expr(N, x, scalar, k, depth - 1))]
    if ch == 'reduce':
        kk = draw(st.integers(1, max(1, min(N, 3))))
        v = draw(_smooth_expr(N, x, False, kk, depth - 1))
        if draw(st.booleans()):
            return ['sum', v]
        return ['dot', v, draw(poly_vec(N, kk, 1, 1))]
    return ['mul', draw(_smooth_expr(N, x, True, 1, depth - 1)), draw(_smooth_expr(N, x, False, k, depth - 1))]


@st.composite
def smooth_program(draw, N, x, out):
    x = np.asarray(x, dtype=float)
    depth = draw(st.sampled_from([0, 1, 1, 2, 2]))
    if out == 'scalar':
        return draw(_smooth_expr(N, x, True, 1, depth))
    if out == 'vector':
        k = draw(st.integers(1, 3))
        if draw(st.integers(0, 3)) == 0:
            return ['stack', [draw(_smooth_expr(N, x, True, 1, max(depth - 1, 0))) for _ in range(k)]]
        return draw(_smooth_expr(N, x, False, k, depth))
    m1 = draw(st.integers(1, 2))
    m2 = draw(st.integers(1, 3))
    return ['reshape', draw(_smooth_expr(N, x, False, m1 * m2, depth)), (m1, m2)]
