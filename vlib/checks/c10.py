"""C10 - zeroth coefficient, shapes and comparisons follow NumPy; plain-argument dispatch.

(a) for a registry of public operations: result.data[0,p] equals the NumPy/SciPy function applied to the zeroth
    coefficients of direction p, and shape / len / size / ndim of the result are NumPy's;
(b) comparison operators return bool(numpy.all(op(x0, y0))) over all directions and elements;
(c) every public algopy / algopy.special / algopy.fft / algopy.linalg name that shadows a NumPy/SciPy function,
    called with ndarrays / Python scalars only, returns exactly (type, dtype, values) what that function returns.
Oracle: NumPy / SciPy as executable specification.
"""
import operator
import types
import numpy as np
import scipy.linalg
import scipy.special
from hypothesis import strategies as st
from hypothesis.extra import numpy as hnp

import algopy
from algopy import UTPM

from ..runner import Bucket, Violation, Inconclusive, Rejected, guard, KF
from .. import gen
from . import _c10_ops as ops
from . import c13 as sh          # shape-manipulating operations: generators and NumPy references are shared with C13

PID = 'C10'
RULE = ('(a) one bucket per public operation (arithmetic operator x operand kinds incl. broadcasting, reflected and in-place '
        'forms; element-wise and special functions; abs/sign/min/max; indexing, reshape, transpose, sum, prod, tile, diag, '
        'triu, tril, trace, symvec, vecsym, neg, conj, real, imag, fft, ifft, zeros/ones(-like); dot, outer, inv, solve, det, '
        'logdet, expm, qr, qr_full, cholesky, lu, eigh, eig eigenvalues, svd singular values, max, argmax): cases = '
        '(entry point, D<=4, P<=3, shapes, arguments with zeroth coefficients drawn independently per direction inside the '
        'domain of the function / regular by construction).  (b) one bucket per comparison operator x operand kinds; the '
        'zeroth coefficients are built from a drawn element-wise outcome pattern (all true, all false, ties, mixed, a single '
        'deviating element in one direction).  (c) one bucket per shadowing public name (table built at run time), '
        'arguments: float / int / float32 / 0-d ndarrays, Python and NumPy scalars.  '
        'Non-trivial: P >= 2 with different zeroth coefficients per direction, or rank >= 2 of an argument or result, or a '
        'comparison whose element-wise outcomes are mixed.  Distinct by descriptor hash.')
ASSUMPTIONS = [
    'exact equality for data movement, +,-,*,/, min/max/clip and shape metadata; 1e-13 relative to max(1,|ref|) for '
    'element-wise / special functions, powers, prod, dot (same library routine, possibly another code path); 1e-12 for '
    'LAPACK based operations and expm (Pade-7 inside its radius, |A0|_1 <= 0.5)',
    'outputs fixed only up to sign / layout (svd U and V, eig eigenvectors) are compared by shape only (values: C08)',
    'logdet: matrices with positive determinant (log(det) of the docstring); solve: matrix right-hand sides (the code '
    'states the (D,P,M,K) requirement); cholesky/eigh: symmetric coefficients; eig: D <= 2 (declared by the code)',
    'len() is compared when NumPy defines it (ndim >= 1)',
    'comparison: truth value of bool(result); "!=" is not defined by UTPM and is not asserted',
    'plain dispatch: reference = the NumPy/SciPy function of the same name (numpy, numpy.linalg, scipy.linalg, scipy.special, '
    'numpy.fft in that order - the namespaces the dispatch templates name); compared by type, dtype and '
    'numpy.array_equal(equal_nan=True); expm is a compound (its own Pade-7 on ndarrays), compared to 1e-12 instead; '
    'dtype arguments of zeros/ones: type objects and example values (ndarray, Python / NumPy scalars)',
]

SL = slice(None)

# ---------------------------------------------------------------------------
# comparison helpers
# ---------------------------------------------------------------------------


def finite(a):
    a = np.asarray(a)
    return a.dtype.kind not in 'fc' or bool(np.all(np.isfinite(a)))


def cmp_value(got, ref, tol, what, stats):
    got = np.asarray(got)
    ref = np.asarray(ref)
    if got.shape != ref.shape:
        raise Violation('%s: zeroth coefficient has shape %s, NumPy result %s' % (what, got.shape, ref.shape))
    if not finite(ref):
        raise Inconclusive('non-finite reference')
    if np.iscomplexobj(ref) and not np.iscomplexobj(got) and np.any(ref.imag != 0):
        raise Violation('%s: NumPy result is complex %r, zeroth coefficient is real %r' % (what, ref.ravel()[:3], got.ravel()[:3]))
    if got.size == 0:
        return
    if np.array_equal(got, ref):
        stats.event('value:bitwise-equal')
        return
    if tol == ops.EXACT:
        bad = tuple(int(i) for i in np.argwhere(got != ref)[0])
        raise Violation('%s: zeroth coefficient at %s is %r, NumPy gives %r (exact comparison)' % (what, bad, got[bad].item(), ref[bad].item()))
    if not finite(got):
        raise Violation('%s: non-finite zeroth coefficient %r, NumPy gives %r' % (what, got.ravel()[:4], ref.ravel()[:4]))
    scale = max(1.0, float(np.max(np.abs(ref))))
    e = float(np.max(np.abs(got - ref))) / scale
    stats.err(e)
    stats.event('value:within-tol')
    if e > tol:
        bad = tuple(int(i) for i in np.argwhere(np.abs(got - ref) == np.max(np.abs(got - ref)))[0])
        raise Violation('%s: zeroth coefficient at %s is %r, NumPy gives %r (rel. err %.2e > %g)' % (what, bad, got[bad].item(), ref[bad].item(), e, tol))


ULPS = 4


def cmp_ulp(got, ref, what, stats):
    """element-wise RELATIVE comparison: every element within ULPS units in the last place of the NumPy value, zeros exactly
    zero.  Used for tiny base points, where an error that is invisible relative to max(1, |ref|) changes every digit."""
    got = np.asarray(got)
    ref = np.asarray(ref)
    if got.shape != ref.shape:
        raise Violation('%s: zeroth coefficient has shape %s, NumPy result %s' % (what, got.shape, ref.shape))
    if not finite(ref):
        raise Inconclusive('non-finite reference')
    if got.size == 0:
        return
    if np.array_equal(got, ref):
        stats.event('value:bitwise-equal')
        return
    if not finite(got):
        raise Violation('%s: non-finite zeroth coefficient %r, NumPy gives %r' % (what, got.ravel()[:4], ref.ravel()[:4]))
    err = np.abs(got - ref)
    allowed = ULPS * np.spacing(np.abs(ref).astype(float))
    allowed = np.where(ref == 0, 0.0, allowed)
    stats.event('value:within-ulps')
    if np.any(err > allowed):
        bad = tuple(int(i) for i in np.argwhere(err > allowed)[0])
        rel = float(err[bad] / abs(ref[bad])) if ref[bad] != 0 else float('inf')
        raise Violation('%s: zeroth coefficient at %s is %r, NumPy gives %r (relative error %.2e, more than %d ulp)'
                        % (what, bad, got[bad].item(), ref[bad].item(), rel, ULPS))


def cmp_meta(y, ref, what):
    """shape, ndim, size, len of a UTPM result against the NumPy result"""
    ref = np.asarray(ref)
    shp = guard(lambda: y.shape)
    if tuple(shp) != ref.shape or not isinstance(shp, tuple):
        raise Violation('%s: .shape is %r, NumPy result has %r' % (what, shp, ref.shape))
    nd = guard(lambda: y.ndim)
    if nd != ref.ndim:
        raise Violation('%s: .ndim is %r, NumPy result has %r' % (what, nd, ref.ndim))
    sz = guard(lambda: y.size)
    if sz != ref.size:
        raise Violation('%s: .size is %r, NumPy result has %r' % (what, sz, ref.size))
    if ref.ndim >= 1:
        ln = guard(lambda: len(y))
        if ln != len(ref):
            raise Violation('%s: len() is %r, NumPy result has %r' % (what, ln, len(ref)))


def as_tuple(r):
    return tuple(r) if isinstance(r, (tuple, list)) else (r,)


def describe(case):
    parts = []
    for a in case['args']:
        v = a['v']
        if a['k'] == 'U':
            parts.append('UTPM(D=%d,P=%d,shape=%s%s%s)' % (v.shape[0], v.shape[1], v.shape[2:], '' if v.dtype == np.float64 else ',' + str(v.dtype),
                                                          ',layout=' + a['lay'] if a.get('lay') else ''))
        elif a['k'] == 'A':
            parts.append('ndarray(%s,%s)' % (v.shape, v.dtype))
        else:
            parts.append('%s(%r)' % (type(v).__name__, v))
    return '%s[%s](%s%s)' % (case['op'], case.get('form'), ', '.join(parts), (', %r' % case['params']) if case.get('params') else '')


# ---------------------------------------------------------------------------
# (a) registry operations
# ---------------------------------------------------------------------------

def _objects(case):
    objs, P = [], None
    for a in case['args']:
        if a['k'] == 'U':
            objs.append(UTPM(ops.layout(a['v'], a.get('lay'))))
            P = a['v'].shape[1]
        elif a['k'] == 'A':
            objs.append(np.array(a['v'], copy=True))
        else:
            objs.append(a['v'])
    return objs, P


def _tol(case, op):
    if op.tol != ops.EXACT and case.get('dmode') == 'f32':
        return 2e-6        # single precision data: NumPy's own result is only that accurate
    if op.tol == ops.EXACT and str(case.get('dmode', '')).startswith('c') and case['op'].split(':')[0] in ('mul', 'imul', 'outer'):
        return 1e-14       # complex products: NumPy's array loop and its scalar path differ in the last bit (FMA)
    return op.tol


def check_reg(case, outs, objs, P, stats, what):
    """zeroth coefficients and metadata of the results ``outs`` of a registry case against NumPy / SciPy"""
    op = ops.REG[case['op']]
    tol = _tol(case, op)
    for p in range(P):
        plain = [a['v'][0, p] if a['k'] == 'U' else a['v'] for a in case['args']]
        refs = as_tuple(op.ref(case.get('form'), case.get('params', {}), *plain))
        if len(refs) != len(outs):
            raise Violation('%s returned %d results, NumPy returns %d' % (what, len(outs), len(refs)))
        for k, (y, r) in enumerate(zip(outs, refs)):
            w = what if len(outs) == 1 else '%s output %d' % (what, k)
            if not isinstance(y, UTPM):
                raise Violation('%s returned %s instead of a UTPM' % (w, type(y).__name__))
            if y.data.ndim < 2 or y.data.shape[1] != P:
                raise Violation('%s: result data shape %s loses the (D,P) axes' % (w, y.data.shape))
            if p == 0:
                cmp_meta(y, r, w)
            if k in op.skip_outs:
                continue
            if case.get('dmode') == 'tiny':
                cmp_ulp(y.data[0, p], r, '%s direction %d' % (w, p), stats)
            else:
                cmp_value(y.data[0, p], r, tol, '%s direction %d' % (w, p), stats)


def prop_reg(case, stats):
    if case.get('steered'):
        stats.exclude(case['steered'])
    op = ops.REG[case['op']]
    what = describe(case)
    objs, P = _objects(case)
    res = guard(op.call, case.get('form'), case.get('params', {}), *objs)
    outs = as_tuple(res)
    check_reg(case, outs, objs, P, stats, what)
    if op.inplace:
        if outs[0] is not objs[0]:
            raise Violation('%s: the in-place operator did not return its left operand' % what)
        return
    # NumPy returns new arrays for all of these operations: no result may share memory with an argument, and an in-place
    # update of a result must leave the arguments untouched
    snaps = [np.array(o.data, copy=True) if isinstance(o, UTPM) else (np.array(o, copy=True) if isinstance(o, np.ndarray) else None) for o in objs]
    for y in outs:
        if not isinstance(y, UTPM):
            continue
        for o in objs:
            od = o.data if isinstance(o, UTPM) else o
            if isinstance(od, np.ndarray) and np.shares_memory(y.data, od):
                raise Violation('%s: the result shares memory with an argument (NumPy returns a new array)' % what)
        if y.data.size and y.data.flags.writeable:
            y.data[...] = 77
    for o, sn in zip(objs, snaps):
        od = o.data if isinstance(o, UTPM) else o
        if sn is not None and not sh._eq(od, sn):
            raise Violation('%s: an in-place update of the result changed an argument' % what)


def _arrs(case):
    return [a['v'] for a in case['args'] if a['k'] == 'U']


def cls_reg(case):
    us = _arrs(case)
    c = ['D=%d' % us[0].shape[0], 'P=%d' % us[0].shape[1], 'form=%s' % case.get('form'),
         'rank=%d' % max(u.ndim - 2 for u in us), 'kinds=' + ''.join(a['k'] for a in case['args'])]
    if any(gen.distinct_bases(u) for u in us):
        c.append('distinct-bases')
    if case.get('steered'):
        c.append('steered:' + case['steered'])
    for a in case['args']:
        v = a['v']
        dt = np.asarray(v).dtype
        if dt != np.float64 or isinstance(v, (bool, int, complex)) and not isinstance(v, float):
            c.append('dtype:%s=%s' % (a['k'], type(v).__name__ if a['k'] == 'S' else dt))
        if a.get('lay'):
            c.append('layout=' + a['lay'])
    if 'sub' in case:
        c.append('sub=' + case['sub'])
    if case.get('dmode') == 'tiny':
        c.append('base-point:tiny-magnitude')
        x0 = case['args'][0]['v'][0]
        if np.any(x0 == 0):
            c.append('base-point:exact-zero')
        if np.any(np.abs(x0[x0 != 0]) < 1e-16):
            c.append('base-point:below-1e-16')
    if 'mkind' in case:
        c.append('matrix=' + case['mkind'])
    if 'ranks' in case:
        c.append('ranks=%d-%d' % tuple(case['ranks']))
    shapes = [np.shape(a['v'])[2:] if a['k'] == 'U' else np.shape(a['v']) for a in case['args']]
    if len(shapes) == 2 and shapes[0] != shapes[1] and case['args'][1]['k'] != 'S' and case['args'][0]['k'] != 'S':
        c.append('broadcast')
        if case['args'][0]['k'] != case['args'][1]['k']:
            a = [s for s, g in zip(shapes, case['args']) if g['k'] == 'A'][0]
            u = [s for s, g in zip(shapes, case['args']) if g['k'] == 'U'][0]
            if len(a) > len(u):
                c.append('constant-has-more-dims')
    return c


def nt_reg(case):
    us = _arrs(case)
    if any(gen.distinct_bases(u) for u in us):
        return True
    return any(np.ndim(a['v']) - (2 if a['k'] == 'U' else 0) >= 2 for a in case['args'])


# ---------------------------------------------------------------------------
# (a) class methods called with their out= argument: the RETURNED value must still follow NumPy
# ---------------------------------------------------------------------------

def _fft_out(name):
    return lambda x, q, o: getattr(UTPM, name)(x, out=(o,))


# registry op -> (call(objs..., out), number of outputs); the out buffers get the NumPy result shape and junk contents
OUT_METHODS = {
    'dot:UU': lambda a, b, o: UTPM.dot(a, b, out=o),
    'dot:UA': lambda a, b, o: UTPM.dot(a, b, out=o),
    'dot:AU': lambda a, b, o: UTPM.dot(a, b, out=o),
    'outer:UU': lambda a, b, o: UTPM.outer(a, b, out=o),
    'solve:UU': lambda a, b, o: UTPM.solve(a, b, out=o),
    'solve:AU': lambda a, b, o: UTPM.solve(a, b, out=o),
    'cholesky': lambda a, o: UTPM.cholesky(a, out=o),
    'qr': lambda a, o: UTPM.qr(a, out=o),
    'qr_full': lambda a, o: UTPM.qr_full(a, out=o),
    'eigh': lambda a, o: UTPM.eigh(a, out=o),
    'eig': lambda a, o: UTPM.eig(a, out=o),
    'lu': lambda a, o: UTPM.lu(a, out=o),
    'svd': lambda a, o: UTPM.svd(a, out=o),
    'add:UU': lambda a, b, o: UTPM.add(a, b, out=o),
    'sub:UU': lambda a, b, o: UTPM.sub(a, b, out=o),
    'mul:UU': lambda a, b, o: UTPM.mul(a, b, out=o),
    'truediv:UU': lambda a, b, o: UTPM.div(a, b, out=o),
    'negative': lambda a, o: UTPM.neg(a, out=o),
}
OUT_UNBOUND = ('lu', 'svd')        # open finding KF-out-arg-unbound (also UTPM.tile)


@st.composite
def out_cases(draw, name):
    case = draw(ops.REG[name].cases())
    case['out'] = True
    if name in OUT_UNBOUND and KF.is_open('KF-out-arg-unbound'):
        case['steered'] = 'KF-out-arg-unbound'
        case['out'] = False
    return case


def prop_out(case, stats):
    if case.get('steered'):
        stats.exclude(case['steered'])
    if not case.get('out'):
        return prop_reg(case, stats)
    op = ops.REG[case['op']]
    what = describe(case) + ' with out='
    objs, P = _objects(case)
    D = [a['v'].shape[0] for a in case['args'] if a['k'] == 'U'][0]
    plain = [a['v'][0, 0] if a['k'] == 'U' else a['v'] for a in case['args']]
    refs = as_tuple(op.ref(case.get('form'), case.get('params', {}), *plain))
    bufs = tuple(UTPM(np.full((D, P) + np.shape(r), 7.0, dtype=np.result_type(np.asarray(r).dtype, np.float64))) for r in refs)
    o = bufs[0] if len(bufs) == 1 else bufs
    res = guard(OUT_METHODS[case['op']], *(objs + [o]))
    outs = as_tuple(res)
    stats.event('out:' + ('returned-is-out' if all(a is b for a, b in zip(outs, bufs)) and len(outs) == len(bufs) else 'out-ignored'))
    check_reg(case, outs, objs, P, stats, what)


# ---------------------------------------------------------------------------
# (a) state kept between calls: several functions in sequence on same-shaped arrays, every result is held and
#     re-checked (bitwise unchanged, zeroth coefficient still NumPy's) after all later calls
# ---------------------------------------------------------------------------

SEQ_VECTOR = ['exp', 'log', 'sqrt', 'sin', 'cos', 'tan', 'arctan', 'tanh', 'square', 'reciprocal', 'absolute', 'sign', 'negative',
              'erf', 'gammaln', 'expit']
SEQ_MATRIX = ['inv', 'det', 'logdet', 'cholesky', 'lu', 'eigh', 'qr', 'qr_full', 'svd', 'expm']


@st.composite
def seq_cases(draw, family):
    D, P = draw(ops.dims())
    k = draw(st.integers(2, 4))
    steps = []
    if family == 'vector':
        shp = draw(ops.shapes(min_rank=1))
        names = draw(st.lists(st.sampled_from(SEQ_VECTOR), min_size=k, max_size=k))
        for n in names:
            dom, forms, _ = ops.ELEM[n]
            steps.append({'op': n, 'form': draw(st.sampled_from(sorted(forms))), 'params': {}, 'args': [draw(ops.poly(D, P, shp, dom, mag=0.5))]})
        if draw(st.booleans()):   # a binary operator between two same-shaped polynomials in between
            o = draw(st.sampled_from(['add', 'sub', 'mul', 'truediv']))
            steps.insert(draw(st.integers(0, len(steps))), {'op': o + ':UU', 'form': 'UU', 'params': {},
                         'args': [draw(ops.poly(D, P, shp, ops.ANY)), draw(ops.poly(D, P, shp, ops.NONZERO))]})
    else:
        n_ = draw(st.integers(1, 3))
        names = draw(st.lists(st.sampled_from(SEQ_MATRIX), min_size=k, max_size=k))
        kinds = {'inv': 'general', 'det': 'pivot', 'logdet': 'posdet', 'cholesky': 'spd', 'lu': 'pivot', 'eigh': 'symmetric',
                 'qr': 'general', 'qr_full': 'general', 'svd': 'general', 'expm': 'small'}
        for n in names:
            sym = n in ('cholesky', 'eigh')
            steps.append({'op': n, 'form': draw(st.sampled_from(['global', 'class'])) if n != 'expm' else 'global', 'params': {},
                          'args': [draw(ops.ulay(draw(ops.mats(D, P, n_, n_, kinds[n], sym))))]})
    return {'family': family, 'steps': steps}


def prop_seq(case, stats):
    held = []
    for st_ in case['steps']:
        op = ops.REG[st_['op']]
        objs, P = _objects(st_)
        outs = as_tuple(guard(op.call, st_.get('form'), st_.get('params', {}), *objs))
        held.append((st_, outs, objs, P, [np.array(y.data, copy=True) if isinstance(y, UTPM) else None for y in outs]))
    for i, (st_, outs, objs, P, snaps) in enumerate(held):
        what = 'step %d of %d, %s' % (i + 1, len(held), describe(st_))
        for y, snap in zip(outs, snaps):
            if isinstance(y, UTPM) and not np.array_equal(y.data, snap, equal_nan=True):
                raise Violation('%s: the held result changed while later functions (%s) were called'
                                % (what, ', '.join(t[0]['op'] for t in held[i + 1:])))
        check_reg(st_, outs, objs, P, stats, what + ' (re-checked after the later calls)')
        for a, o in zip(st_['args'], objs):
            if a['k'] == 'U' and not np.array_equal(o.data, a['v'], equal_nan=True):
                raise Violation('%s: its argument was modified during the sequence' % what)


def cls_seq(case):
    us = [a['v'] for st_ in case['steps'] for a in st_['args'] if a['k'] == 'U']
    c = ['D=%d' % us[0].shape[0], 'P=%d' % us[0].shape[1], 'family=' + case['family'], 'steps=%d' % len(case['steps'])]
    c += ['seq-op=' + st_['op'] for st_ in case['steps']]
    if len(set(st_['op'] for st_ in case['steps'])) > 1:
        c.append('different-functions')
    return c


def nt_seq(case):
    us = [a['v'] for st_ in case['steps'] for a in st_['args'] if a['k'] == 'U']
    return len(set(st_['op'] for st_ in case['steps'])) > 1 and (any(gen.distinct_bases(u) for u in us) or us[0].ndim - 2 >= 2)


def prop_argmax(case, stats):
    x = case['args'][0]['v']
    P = x.shape[1]
    what = describe(case)
    r = guard(UTPM.argmax, UTPM(ops.layout(x, case['args'][0].get('lay'))))
    r = np.asarray(r)
    if r.shape != (P,):
        raise Violation('%s: result shape %s, expected one index per direction (%d,)' % (what, r.shape, P))
    for p in range(P):
        ref = np.argmax(x[0, p])
        if int(r[p]) != int(ref):
            raise Violation('%s: direction %d gives %r, numpy.argmax of the zeroth coefficient gives %r' % (what, p, r[p], ref))


# ---------------------------------------------------------------------------
# (a) shape-manipulating operations: case generators and references shared with C13
# ---------------------------------------------------------------------------

def _shape_result(case, x):
    kind = case['c10kind']
    if kind == 'getitem':
        idx = case['idx']
        return guard(lambda: x[idx]), (lambda a: a[idx])
    if kind == 'op':
        calls, ref = sh.OPS[case['op']]
        q = case.get('params', {})
        return guard(calls[case['entry']], x, q), (lambda a: ref(a, q))
    if kind == 'construct':
        form, shp = case['form'], case['shape']
        y = guard(sh.CONSTRUCT[form], x, shp)
        if form.endswith('_like'):
            fn = np.ones_like if 'ones' in form else np.zeros_like
            return y, (lambda a: fn(a))
        fn = np.ones if 'ones' in form else np.zeros
        return y, (lambda a: fn(shp, dtype=a.dtype))
    raise KeyError(kind)


def prop_shape(case, stats):
    if case.get('steered'):
        stats.exclude(case['steered'])
    x, buf, m, mbuf = sh.build(case)
    what = '%s %s on coefficient shape %s %r' % (case['c10kind'], case.get('op') or case.get('form') or repr(case.get('idx')),
                                                  m.shape[2:], case.get('params', ''))
    y, reffn = _shape_result(case, x)
    if not isinstance(y, UTPM):
        raise Violation('%s returned %s instead of a UTPM' % (what, type(y).__name__))
    P = m.shape[1]
    if y.data.ndim < 2 or y.data.shape[1] != P:
        raise Violation('%s: result data shape %s loses the (D,P) axes' % (what, y.data.shape))
    for p in range(P):
        r = reffn(m[0, p, ...])
        if p == 0:
            cmp_meta(y, r, what)
        if case.get('nonfinite'):
            got, r_ = np.asarray(y.data[0, p]), np.asarray(r)
            if got.shape != r_.shape or not sh._eq(got, r_):
                raise Violation('%s direction %d: zeroth coefficient %r, NumPy gives %r (operand with inf / nan entries)'
                                % (what, p, got.ravel()[:6].tolist(), r_.ravel()[:6].tolist()))
            stats.event('value:bitwise-equal')
        else:
            cmp_value(y.data[0, p], r, ops.EXACT, '%s direction %d' % (what, p), stats)


# operand dtypes of the shape family: data movement keeps every dtype; reductions keep complex and integers exact
MOVE_DTYPES = ['complex128', 'int64', 'int32', 'uint8', 'bool', 'float32']
SHAPE_DTYPES = {'getitem': MOVE_DTYPES, 'reshape': MOVE_DTYPES, 'transpose': MOVE_DTYPES, 'tile': MOVE_DTYPES, 'diag': MOVE_DTYPES,
                'triu': MOVE_DTYPES, 'tril': MOVE_DTYPES, 'conj': MOVE_DTYPES[:-2] + ['float32'], 'real': MOVE_DTYPES, 'imag': MOVE_DTYPES,
                'construct': ['complex128', 'int64', 'float32'], 'neg': ['complex128', 'int64', 'float32'],
                'sum': ['complex128', 'int64'], 'trace': ['complex128', 'int64'], 'fft': ['int64'], 'ifft': ['int64'],
                'symvec': ['complex128'], 'vecsym': ['complex128']}


# operations that only move entries (no arithmetic on them): inf / nan entries must arrive like in NumPy
PURE_MOVEMENT = {'getitem', 'reshape', 'transpose', 'tile', 'diag', 'triu', 'tril', 'symvec', 'vecsym', 'neg', 'conj', 'real', 'imag',
                 'construct'}


def _cast(x, dt):
    if np.iscomplexobj(x):
        return x
    if dt == 'complex128':
        n = x.size
        return x + 1j * ((np.arange(n, dtype=float)[::-1] - 3) * 0.5).reshape(x.shape)
    if dt == 'bool':
        return (np.round(x * 8).astype(np.int64) % 3) == 0
    if dt == 'uint8':
        return (np.round(np.abs(x) * 8).astype(np.int64) % 251).astype(np.uint8)
    if dt in ('int64', 'int32'):
        return np.round(x * 8).astype(dt)
    return x.astype(dt)


def _shape_cases(strategy, kind, name=None):
    dts = SHAPE_DTYPES.get(name or kind, [])

    def f(t):
        case, k = t
        case = dict(case)
        case.pop('write', None)
        case['c10kind'] = kind
        if dts and k < 2 * len(dts) and k % 2 == 0 and not case.get('nonfinite'):
            case['x'] = _cast(case['x'], dts[k // 2])
        return case
    if (name or kind) in PURE_MOVEMENT:
        strategy = sh.with_nonfinite(strategy, also_value=False)
    return st.tuples(strategy, st.integers(0, max(1, 3 * len(dts)))).map(f)


def cls_shape(case):
    c = sh._common_classes(case)
    if case['c10kind'] == 'getitem':
        c += sh.idx_classes(case['idx'])
    elif case['c10kind'] == 'op':
        c.append('entry=' + case['entry'])
    else:
        c.append('form=' + case['form'])
    if gen.distinct_bases(sh._apply_src(case['x'], case.get('src'))):
        c.append('distinct-bases')
    if case['x'].dtype != np.float64:
        c.append('dtype:U=%s' % case['x'].dtype)
    return c


def nt_shape(case):
    v = sh._apply_src(case['x'], case.get('src'))
    return gen.distinct_bases(v) or v.ndim - 2 >= 2


# ---------------------------------------------------------------------------
# (b) comparisons
# ---------------------------------------------------------------------------

CMP = {'lt': operator.lt, 'le': operator.le, 'gt': operator.gt, 'ge': operator.ge, 'eq': operator.eq}


def _kf_cmp_rank(kinds, xs, ys):
    """open finding KF-compare-rank-broadcast: the other operand's rank is not aligned behind the direction axis"""
    if kinds in ('UU',):
        return len(xs) != len(ys)
    if kinds in ('UA', 'AU'):
        return len(ys) > len(xs)
    return False


@st.composite
def cmp_cases(draw, opname, kinds):
    """x is the polynomial on the side given by kinds; the other operand y is U / S / A"""
    D, P = draw(ops.dims())
    other = kinds.replace('U', '', 1) or 'U'
    xs = draw(ops.shapes())
    ys = xs
    mode = draw(st.sampled_from(['same', 'same', 'same', 'bcast']))
    if other == 'S':
        ys = ()
    elif mode == 'bcast':
        bs = draw(hnp.mutually_broadcastable_shapes(num_shapes=1, base_shape=tuple(xs), min_dims=0, max_dims=3, max_side=3))
        ys = bs.input_shapes[0]
    steered = None
    if other != 'S' and _kf_cmp_rank(kinds, xs, ys) and KF.is_open('KF-compare-rank-broadcast'):
        steered = 'KF-compare-rank-broadcast'
        if len(ys) > len(xs):
            ys = ys[len(ys) - len(xs):]
        elif kinds == 'UU':
            ys = (1,) * (len(xs) - len(ys)) + tuple(ys)
    full = np.broadcast_shapes(xs, ys)
    # the other operand's zeroth coefficient: small grid values (ties are likely)
    grid = st.sampled_from([-1.0, 0.0, 0.5, 1.0, 2.0])
    if other == 'U':
        y0 = draw(hnp.arrays(np.float64, (P,) + tuple(ys), elements=grid))
    elif other == 'A':
        y0 = draw(hnp.arrays(np.float64, tuple(ys), elements=grid))
        if draw(st.integers(0, 4)) == 0:
            y0 = np.round(y0).astype(np.int64)
    else:
        y0 = draw(st.one_of(grid, grid.map(np.float64), st.sampled_from([0, 1, 2])))
    # x0 = y0 (broadcast) + delta with a drawn outcome pattern
    pattern = draw(st.sampled_from(['all-less', 'all-greater', 'all-equal', 'mixed', 'one-off', 'one-off', 'le-mixed', 'ge-mixed',
                                    'near-ulp', 'near-ulp', 'near-rel', 'near-rel', 'tiny-vs-zero']))
    if pattern == 'tiny-vs-zero':
        y0 = np.zeros_like(np.asarray(y0, dtype=float)) if other != 'S' else draw(st.sampled_from([0.0, 0, np.float64(0.0)]))
    if other == 'U':
        yb = np.broadcast_to(y0.reshape((P,) + (1,) * (len(full) - len(ys)) + tuple(ys)), (P,) + tuple(full))
    else:
        yb = np.broadcast_to(np.asarray(y0, dtype=float), (P,) + tuple(full))
    # x cannot follow y along axes where x itself is broadcast: reduce y over those axes first
    xfull = (P,) + (1,) * (len(full) - len(xs)) + tuple(xs)
    red = tuple(i for i in range(1, len(xfull)) if xfull[i] == 1 and ((P,) + tuple(full))[i] != 1)
    ymax = yb.max(axis=red, keepdims=True) if red else yb
    ymin = yb.min(axis=red, keepdims=True) if red else yb
    n = int(np.prod(xfull))
    if pattern == 'all-less':
        x0 = ymin - draw(st.sampled_from([0.5, 1.0, 0.25]))
    elif pattern == 'all-greater':
        x0 = ymax + draw(st.sampled_from([0.5, 1.0, 0.25]))
    elif pattern == 'all-equal':
        x0 = ymin + 0.0
    elif pattern in ('near-ulp', 'near-rel', 'tiny-vs-zero'):
        # NEAR ties: 1 ulp apart, a relative 1e-9 .. 1e-6 apart, tiny values against 0 - exact comparison semantics
        base = np.array(np.broadcast_to(ymin, xfull), dtype=float)
        which = np.array(draw(st.lists(st.sampled_from([-1, 0, 1]), min_size=n, max_size=n)), dtype=float).reshape(xfull)
        if pattern == 'near-ulp':
            x0 = np.where(which == 0, base, np.nextafter(base, base + which))
        else:
            eps = np.array(draw(st.lists(st.sampled_from([1e-9, 1e-8, 1e-7, 1e-6, 1e-12]), min_size=n, max_size=n))).reshape(xfull)
            tiny = np.array(draw(st.lists(st.sampled_from([1e-9, 1e-300, 1e-12, 5e-324]), min_size=n, max_size=n))).reshape(xfull)
            x0 = np.where(base == 0, which * tiny, base * (1 + which * eps))
    else:
        choice = {'mixed': [-0.5, 0.0, 0.5], 'le-mixed': [-0.5, 0.0], 'ge-mixed': [0.0, 0.5],
                  'one-off': [draw(st.sampled_from([-0.5, 0.5, 0.0]))]}[pattern]
        delta = np.array(draw(st.lists(st.sampled_from(choice), min_size=n, max_size=n))).reshape(xfull)
        base = ymin if (np.all(delta <= 0)) else ymax if np.all(delta >= 0) else ymin
        x0 = base + delta
        if pattern == 'one-off':
            k = draw(st.integers(0, n - 1))
            flat = x0.reshape(-1).copy()
            flat[k] += draw(st.sampled_from([-1.0, 1.0, 0.5, -0.5]))
            x0 = flat.reshape(xfull)
    x0 = np.broadcast_to(x0, xfull).reshape((P,) + tuple(xs))
    x = draw(gen.utpm_data(D, P, xs, gen.nice_floats(0, 0), mag=4.0))
    x[0] = x0
    if D > 1 and draw(st.booleans()):
        x[1:] = -x[0][None] * 3 + 7      # higher coefficients that would give another answer
    case = {'op': opname, 'kinds': kinds, 'x': x, 'pattern': pattern}
    if other == 'U':
        y = draw(gen.utpm_data(D, P, ys, gen.nice_floats(0, 0), mag=4.0))
        y[0] = y0
        case['y'] = {'k': 'U', 'v': y}
    elif other == 'A':
        case['y'] = {'k': 'A', 'v': y0}
    else:
        case['y'] = {'k': 'S', 'v': y0}
    if steered:
        case['steered'] = steered
    # operand dtypes and memory layouts: all grid values and offsets are multiples of 1/4, so 4*x is integral
    dt = draw(st.sampled_from([None, None, None, 'int64', 'int32', 'float32', 'complex128']))
    if pattern in ('near-ulp', 'near-rel', 'tiny-vs-zero'):
        dt = None
    if dt in ('int64', 'int32'):
        case['x'] = np.round(case['x'] * 4).astype(dt)
        v = case['y']['v']
        if case['y']['k'] == 'S':
            case['y']['v'] = int(round(float(v) * 4)) if not isinstance(v, np.generic) else np.int64(round(float(v) * 4))
        else:
            case['y']['v'] = np.round(np.asarray(v, dtype=float) * 4).astype(np.int64 if case['y']['k'] == 'A' else dt)
    elif dt == 'float32':
        case['x'] = case['x'].astype(np.float32)
        if case['y']['k'] == 'U':
            case['y']['v'] = case['y']['v'].astype(np.float32)
    elif dt == 'complex128' and opname == 'eq':
        # equality of complex polynomials: equal imaginary parts, optionally one deviating element
        im = float(draw(st.sampled_from([0.5, -1.0, 2.0])))
        case['x'] = case['x'] + 1j * im
        if case['y']['k'] == 'S':
            case['y']['v'] = complex(float(case['y']['v']), im)
        else:
            case['y']['v'] = case['y']['v'] + 1j * im
        if case['x'][0].size and draw(st.booleans()):
            k = draw(st.integers(0, case['x'][0].size - 1))
            flat = case['x'][0].reshape(-1)
            flat[k] = flat[k] + 1j
    else:
        dt = None
    if dt:
        case['dt'] = dt
    for key in ('xlay', 'ylay'):
        lay = draw(st.sampled_from(ops.LAYOUTS))
        if lay:
            case[key] = lay
    return case


def _cmp_outcomes(case):
    """element-wise outcomes per direction (list of boolean arrays), the specification of the truth value"""
    op = CMP[case['op']]
    x, y = case['x'], case['y']
    P = x.shape[1]
    out = []
    for p in range(P):
        a = x[0, p]
        b = y['v'][0, p] if y['k'] == 'U' else y['v']
        out.append(np.asarray(op(a, b) if case['kinds'][0] == 'U' else op(b, a)))
    return out


def prop_cmp(case, stats):
    if case.get('steered'):
        stats.exclude(case['steered'])
    op = CMP[case['op']]
    x = UTPM(ops.layout(case['x'], case.get('xlay')))
    yk = case['y']
    y = UTPM(ops.layout(yk['v'], case.get('ylay'))) if yk['k'] == 'U' else (yk['v'].copy() if yk['k'] == 'A' else yk['v'])
    outcomes = _cmp_outcomes(case)
    expected = bool(all(bool(np.all(o)) for o in outcomes))
    anyt = any(bool(np.any(o)) for o in outcomes)
    stats.event('outcome:' + ('all-true' if expected else 'mixed' if anyt else 'all-false'))
    what = '%s(%s) with x shape %s, other %s %s, pattern %s' % (case['op'], case['kinds'], case['x'].shape[2:], yk['k'],
                                                              np.shape(yk['v'])[2:] if yk['k'] == 'U' else np.shape(yk['v']), case['pattern'])
    if case['kinds'][0] == 'U':
        r = guard(op, x, y)
    else:
        r = guard(op, y, x)
    if isinstance(r, np.ndarray) and r.ndim > 0:
        raise Violation('%s returned an array of shape %s, not a truth value' % (what, r.shape))
    if isinstance(r, UTPM):
        raise Violation('%s returned a UTPM' % what)
    got = guard(bool, r)
    if got != expected:
        raise Violation('%s: truth value %r, numpy.all(op(x0, y0)) over all directions and elements is %r' % (what, got, expected))


def cls_cmp(case):
    x = case['x']
    c = ['D=%d' % x.shape[0], 'P=%d' % x.shape[1], 'rank=%d' % (x.ndim - 2), 'pattern=' + case['pattern'], 'kinds=' + case['kinds']]
    o = _cmp_outcomes(case)
    t = any(bool(np.any(a)) for a in o)
    f = any(not bool(np.all(a)) for a in o)
    if t and f:
        c.append('mixed-outcomes')
        per = [bool(np.all(a)) for a in o]
        if any(per) and not all(per):
            c.append('mixed-across-directions-only-some-directions-true')
    ys = np.shape(case['y']['v'])[2:] if case['y']['k'] == 'U' else np.shape(case['y']['v'])
    if case['y']['k'] != 'S' and tuple(ys) != tuple(x.shape[2:]):
        c.append('broadcast')
    if case.get('steered'):
        c.append('steered:' + case['steered'])
    if case.get('dt'):
        c.append('dtype:U=' + case['dt'])
    for key in ('xlay', 'ylay'):
        if case.get(key):
            c.append('layout=' + case[key])
    return c


def nt_cmp(case):
    o = _cmp_outcomes(case)
    mixed = any(bool(np.any(a)) for a in o) and any(not bool(np.all(a)) for a in o)
    return mixed or gen.distinct_bases(case['x']) or case['x'].ndim - 2 >= 2


# ---------------------------------------------------------------------------
# (c) plain-argument dispatch
# ---------------------------------------------------------------------------

MODULES = [('algopy', algopy), ('algopy.special', algopy.special), ('algopy.fft', algopy.fft)]
try:
    import importlib
    MODULES.append(('algopy.linalg', importlib.import_module('algopy.linalg')))
except Exception:   # pragma: no cover
    pass
REFSPACES = [('numpy', np), ('numpy.linalg', np.linalg), ('scipy.linalg', scipy.linalg), ('scipy.special', scipy.special), ('numpy.fft', np.fft)]
NOT_FUNCTIONS = {'test'}
# names whose docstring / dispatcher names a differently called reference (reported separately, also checked)
DOCUMENTED_ALIAS = {
    'logdet': lambda x: np.linalg.slogdet(x)[1],
    'qr_full': lambda x: scipy.linalg.qr(x),
    'botched_clip': lambda lo, hi, x: np.clip(x, lo, hi),
}


def name_table():
    """public callables of the algopy modules -> reference function (or None)"""
    table = {}
    for mname, mod in MODULES:
        for n in sorted(dir(mod)):
            if n.startswith('_') or n in NOT_FUNCTIONS:
                continue
            o = getattr(mod, n)
            if not isinstance(o, types.FunctionType):
                continue
            if not str(getattr(o, '__module__', '')).startswith('algopy'):
                continue
            ref = None
            for rname, rmod in REFSPACES:
                if hasattr(rmod, n) and callable(getattr(rmod, n)):
                    ref = (rname, getattr(rmod, n))
                    break
            key = n
            if key in table and table[key]['fn'] is not o:
                key = mname + '.' + n
            table.setdefault(key, {'name': n, 'module': mname, 'fn': o, 'ref': ref, 'also': []})
            if table[key]['module'] != mname:
                table[key]['also'].append(mname)
    return table


TABLE = name_table()

_DOM = {  # argument domains of the element-wise names (values where NumPy/SciPy are finite)
    'log': (0.2, 4), 'sqrt': (0.0, 4), 'log1p': (-0.7, 3), 'arcsin': (-1, 1), 'arccos': (-1, 1), 'tan': (-1.2, 1.2),
    'reciprocal': (0.25, 4), 'logit': (0.1, 0.9), 'gammaln': (0.3, 5), 'psi': (0.3, 5),
}
ELEMWISE1 = ['exp', 'expm1', 'log', 'log1p', 'sqrt', 'sin', 'cos', 'tan', 'arcsin', 'arccos', 'arctan', 'sinh', 'cosh', 'tanh',
             'sign', 'absolute', 'square', 'negative', 'reciprocal', 'conjugate', 'real', 'imag',
             'erf', 'erfi', 'dawsn', 'logit', 'expit', 'gammaln', 'psi']


@st.composite
def plain_value(draw, lo=-3.0, hi=3.0, kinds=None, min_rank=0, max_rank=3, allow_int=True, shape=None):
    """an ndarray (float64 / float32 / int64 / 0-d) or a Python / NumPy scalar with values in [lo, hi]"""
    kinds = kinds or ['f64', 'f64', 'f64', 'f32', 'i64', '0d', 'pyfloat', 'pyint', 'npfloat']
    k = draw(st.sampled_from(kinds))
    el = gen.nice_floats(lo, hi)
    ilo, ihi = int(np.ceil(lo)), int(np.floor(hi))
    if k in ('i64', 'pyint') and (not allow_int or ilo > ihi):
        k = 'f64' if k == 'i64' else 'pyfloat'
    s = shape if shape is not None else draw(hnp.array_shapes(min_dims=max(min_rank, 0), max_dims=max_rank, min_side=1, max_side=3))
    if k == 'f64':
        return draw(hnp.arrays(np.float64, s, elements=el))
    if k == 'f32':
        return draw(hnp.arrays(np.float64, s, elements=el)).astype(np.float32)
    if k == 'i64':
        return draw(hnp.arrays(np.int64, s, elements=st.integers(ilo, ihi)))
    if k == '0d':
        return np.array(draw(el))
    if k == 'pyfloat':
        return draw(el)
    if k == 'pyint':
        return draw(st.integers(ilo, ihi))
    return np.float64(draw(el))


def _is_py_scalar(v):
    return isinstance(v, (int, float, complex)) and not isinstance(v, np.generic)


def _kf_plain(name, args):
    """open findings of the plain-argument dispatch: -> id or None"""
    a0 = args[0] if args else None
    if name == 'conjugate' and (_is_py_scalar(a0) or (isinstance(a0, np.ndarray) and a0.ndim == 0)):
        return 'KF-dispatch-conjugate-scalar'
    if name == 'transpose' and (_is_py_scalar(a0) or isinstance(a0, np.generic)):
        return 'KF-dispatch-transpose-scalar'
    if name in ('zeros_like', 'ones_like') and _is_py_scalar(a0):
        return 'KF-dispatch-like-scalar'
    if name == 'polygamma' and np.asarray(args[1]).dtype != np.float64:
        return 'KF-polygamma-plain-dtype'
    if name in ('hyp1f1', 'hyp0f1'):
        return 'KF-special-hyp-removed'
    return None


@st.composite
def plain_cases(draw, key):
    name = TABLE[key]['name']
    kw = {}
    if name in ELEMWISE1:
        lo, hi = _DOM.get(name, (-3.0, 3.0))
        args = [draw(plain_value(lo, hi))]
        if name in ('conjugate', 'real', 'imag') and draw(st.integers(0, 2)) == 0:
            a = draw(plain_value(-3, 3, kinds=['f64', 'pyfloat', '0d']))
            b = draw(plain_value(-3, 3, kinds=['pyfloat']))
            args = [a + 1j * b]
    elif name in ('minimum', 'maximum', 'pow'):
        lo, hi = (0.25, 3.0) if name == 'pow' else (-3.0, 3.0)
        a = draw(plain_value(lo, hi, allow_int=name != 'pow'))
        sh_ = np.shape(a)
        b = draw(st.one_of(plain_value(-2, 2, shape=sh_), plain_value(-2, 2, kinds=['pyfloat', 'pyint', 'npfloat']),
                           plain_value(-2, 2, shape=sh_[1:]) if len(sh_) >= 1 else plain_value(-2, 2, kinds=['pyfloat'])))
        args = [a, b]
    elif name == 'polygamma':
        args = [draw(st.integers(0, 3)), draw(plain_value(0.5, 5.0))]
    elif name == 'hyperu':
        args = [draw(st.sampled_from([0.5, 1.0, 1.5])), draw(st.sampled_from([0.5, 1.5, 0.75])), draw(plain_value(0.5, 4.0))]
    elif name == 'hyp1f1':
        args = [draw(st.sampled_from([0.5, 1.0, 1.5])), draw(st.sampled_from([0.5, 1.5, 0.75])), draw(plain_value(-2, 2.0))]
    elif name == 'hyp0f1':
        args = [draw(st.sampled_from([0.5, 1.5, 0.75])), draw(plain_value(-2, 2.0))]
    elif name in ('sum', 'prod'):
        a = draw(plain_value(-3, 3))
        args = [a]
        if name == 'sum' and isinstance(a, np.ndarray) and a.ndim >= 1 and draw(st.booleans()):
            kw['axis'] = draw(st.integers(-a.ndim, a.ndim - 1))
    elif name in ('trace', 'triu', 'tril'):
        args = [draw(plain_value(-3, 3, kinds=['f64', 'f64', 'i64', 'f32'], min_rank=2, max_rank=3))]
        if name != 'trace' and draw(st.booleans()):
            args.append(draw(st.integers(-2, 2)))
    elif name == 'diag':
        args = [draw(plain_value(-3, 3, kinds=['f64', 'f64', 'i64'], min_rank=1, max_rank=2))]
        if draw(st.booleans()):
            args.append(draw(st.integers(-2, 2)))
    elif name == 'transpose':
        args = [draw(plain_value(-3, 3))]
    elif name == 'reshape':
        a = draw(plain_value(-3, 3, kinds=['f64', 'f64', 'i64', '0d']))
        n = int(np.size(a))
        args = [a, draw(st.sampled_from([n, -1, (n,), (1, n), (n, 1), (-1, 1)]))]
    elif name == 'tile':
        args = [draw(plain_value(-3, 3, max_rank=2)), draw(st.sampled_from([1, 2, (2,), (1, 2), (2, 1, 2)]))]
    elif name in ('zeros', 'ones'):
        shp = draw(st.sampled_from([0, 1, 3, (2,), (2, 3), (), (1, 2, 2), np.int64(2)]))
        args = [shp]
        form = draw(st.sampled_from(['default', 'type', 'type', 'example-array', 'example-scalar']))
        if form == 'type':
            kw['dtype'] = {'__type__': draw(st.sampled_from(sorted(TYPES)))}
        elif form == 'example-array':
            kw['dtype'] = draw(plain_value(-3, 3, kinds=['f64', 'f32', 'i64', '0d']))
        elif form == 'example-scalar':
            kw['dtype'] = draw(st.sampled_from([1.0, 2, 1j, np.float64(0.5), np.float32(2), np.int64(3)]))
    elif name in ('zeros_like', 'ones_like'):
        args = [draw(plain_value(-3, 3))]
    elif name in ('dot',):
        r1, r2 = draw(st.sampled_from([(1, 1), (2, 1), (1, 2), (2, 2), (3, 2), (0, 2), (2, 0)]))
        k = draw(st.integers(1, 3))
        s1 = () if r1 == 0 else tuple(draw(st.integers(1, 3)) for _ in range(r1 - 1)) + (k,)
        s2 = () if r2 == 0 else ((k,) if r2 == 1 else (k, draw(st.integers(1, 3))))
        mk = lambda s: draw(plain_value(-3, 3, kinds=['pyfloat', 'pyint'])) if s == () else draw(plain_value(-3, 3, kinds=['f64', 'f64', 'i64'], shape=s))
        args = [mk(s1), mk(s2)]
    elif name == 'outer':
        args = [draw(plain_value(-3, 3, kinds=['f64', 'i64', 'pyfloat'], shape=(draw(st.integers(1, 4)),))),
                draw(plain_value(-3, 3, kinds=['f64', 'i64', 'pyfloat'], shape=(draw(st.integers(1, 4)),)))]
    elif name in ('inv', 'det', 'eig', 'lu', 'logdet'):
        n = draw(st.integers(1, 4))
        args = [draw(gen.well_conditioned(n, n))]
        if name == 'logdet' and np.linalg.det(args[0]) < 0:
            args[0][0] *= -1
    elif name in ('eigh', 'cholesky'):
        n = draw(st.integers(1, 4))
        args = [draw(gen.spd(n) if name == 'cholesky' else gen.symmetric_distinct(n))]
    elif name in ('qr', 'svd', 'qr_full'):
        m, n = draw(st.integers(1, 4)), draw(st.integers(1, 4))
        if name == 'qr_full' and m < n:
            m, n = n, m
        args = [draw(gen.well_conditioned(m, n))]
    elif name == 'solve':
        n = draw(st.integers(1, 4))
        b = draw(plain_value(-3, 3, kinds=['f64'], shape=draw(st.sampled_from([(n,), (n, 1), (n, 3)]))))
        args = [draw(gen.well_conditioned(n, n)), b]
    elif name == 'expm':
        n = draw(st.integers(1, 4))
        args = [draw(gen.float_array((n, n), gen.nice_floats(-0.5 / n, 0.5 / n), sparse=False))]
    elif name in ('fft', 'ifft'):
        a = draw(plain_value(-3, 3, kinds=['f64', 'f64', 'i64', 'f32'], min_rank=1))
        if draw(st.booleans()):
            a = a + 1j * draw(plain_value(-3, 3, kinds=['f64'], shape=a.shape))
        args = [a]
        if draw(st.booleans()):
            kw['axis'] = draw(st.integers(-a.ndim, a.ndim - 1))
        if draw(st.booleans()):
            kw['n'] = draw(st.integers(1, 5))
    elif name == 'botched_clip':
        lo = draw(gen.nice_floats(-2, 1))
        args = [lo, lo + draw(gen.nice_floats(0.5, 3)), draw(plain_value(-4, 4))]
    else:
        raise KeyError(name)
    case = {'name': key, 'args': args, 'kw': kw}
    kf = _kf_plain(name, args)
    if kf and KF.is_open(kf):
        # steer around exactly the failing argument form
        case['steered'] = kf
        if kf == 'KF-dispatch-conjugate-scalar':
            case['args'] = [np.atleast_1d(np.asarray(args[0]))]
        elif kf == 'KF-dispatch-transpose-scalar':
            case['args'] = [np.asarray(args[0])]
        elif kf == 'KF-dispatch-like-scalar':
            case['args'] = [np.asarray(args[0])]
        elif kf == 'KF-polygamma-plain-dtype':
            case['args'] = [args[0], np.asarray(args[1], dtype=float) if isinstance(args[1], np.ndarray) else float(args[1])]
        elif kf == 'KF-special-hyp-removed':
            case['skip'] = True
    return case


TYPES = {'float': float, 'int': int, 'complex': complex, 'bool': bool, 'numpy.float64': np.float64, 'numpy.float32': np.float32,
         'numpy.int64': np.int64, 'numpy.complex128': np.complex128}


def _kwval(v):
    return TYPES[v['__type__']] if isinstance(v, dict) and '__type__' in v else v


HAS_GENERATOR = set(ELEMWISE1) | {'minimum', 'maximum', 'pow', 'polygamma', 'hyperu', 'hyp1f1', 'hyp0f1', 'sum', 'prod', 'trace',
                                  'triu', 'tril', 'diag', 'transpose', 'reshape', 'tile', 'zeros', 'ones', 'zeros_like', 'ones_like',
                                  'dot', 'outer', 'inv', 'det', 'eig', 'lu', 'logdet', 'eigh', 'cholesky', 'qr', 'svd', 'qr_full',
                                  'solve', 'expm', 'fft', 'ifft', 'botched_clip'}
COMPOUND_TOL = {'expm': 1e-12}


def _same_plain(got, ref, what, tol=None):
    if isinstance(ref, (tuple, list)) or type(ref).__name__.endswith('Result'):
        if not isinstance(got, (tuple, list)) and not type(got).__name__.endswith('Result'):
            raise Violation('%s returned %s, reference returns a %s of %d' % (what, type(got).__name__, type(ref).__name__, len(ref)))
        if type(got) is not type(ref):
            raise Violation('%s returned %s, reference returns %s' % (what, type(got).__name__, type(ref).__name__))
        if len(got) != len(ref):
            raise Violation('%s returned %d results, reference %d' % (what, len(got), len(ref)))
        for k, (g, r) in enumerate(zip(got, ref)):
            _same_plain(g, r, '%s output %d' % (what, k), tol)
        return
    if type(got) is not type(ref):
        raise Violation('%s returned %s %r, the reference returns %s %r' % (what, type(got).__name__, got, type(ref).__name__, ref))
    gd, rd = getattr(got, 'dtype', None), getattr(ref, 'dtype', None)
    if gd != rd:
        raise Violation('%s returned dtype %s, the reference returns dtype %s' % (what, gd, rd))
    if np.shape(got) != np.shape(ref):
        raise Violation('%s returned shape %s, the reference returns %s' % (what, np.shape(got), np.shape(ref)))
    if tol is not None:
        e = float(np.max(np.abs(np.asarray(got) - np.asarray(ref)))) / max(1.0, float(np.max(np.abs(ref)))) if np.size(ref) else 0.0
        if e > tol:
            raise Violation('%s differs from the reference by %.2e (> %g)' % (what, e, tol))
        return
    if not np.array_equal(got, ref, equal_nan=True):
        raise Violation('%s returned %r, the reference returns %r' % (what, got, ref))


def _fmt_arg(a):
    if isinstance(a, np.ndarray):
        return 'ndarray(%s,%s)' % (a.shape, a.dtype)
    return '%s(%r)' % (type(a).__name__, a)


def prop_plain(case, stats):
    if case.get('steered'):
        stats.exclude(case['steered'])
    if case.get('skip'):
        return
    ent = TABLE[case['name']]
    fn = ent['fn']
    name = ent['name']
    if ent['ref'] is not None:
        ref = ent['ref'][1]
    else:
        ref = DOCUMENTED_ALIAS[name]
    args = [np.array(a, copy=True) if isinstance(a, np.ndarray) else a for a in case['args']]
    rargs = [np.array(a, copy=True) if isinstance(a, np.ndarray) else a for a in case['args']]
    kw = {k: _kwval(v) for k, v in case.get('kw', {}).items()}
    what = '%s.%s(%s%s)' % (ent['module'], name, ', '.join(_fmt_arg(a) for a in args),
                            ''.join(', %s=%s' % (k, _fmt_arg(v) if not isinstance(v, type) else v.__name__) for k, v in sorted(kw.items())))
    rkw = dict(kw)
    if name in ('zeros', 'ones') and 'dtype' in rkw and not isinstance(rkw['dtype'], type):
        # an example value stands for its type: the documented extension of the dtype argument
        rkw['dtype'] = np.asarray(rkw['dtype']).dtype
    expected = ref(*rargs, **rkw)
    got = guard(fn, *args, **kw)
    _same_plain(got, expected, what, COMPOUND_TOL.get(name))
    for a, b in zip(args, case['args']):
        if isinstance(a, np.ndarray) and not np.array_equal(a, b, equal_nan=True):
            raise Violation('%s modified its argument' % what)


def cls_plain(case):
    c = []
    for a in case['args']:
        if isinstance(a, np.ndarray):
            c.append('arg=ndarray:%s:rank%d' % (a.dtype, a.ndim))
        else:
            c.append('arg=' + type(a).__name__)
    for k, v in case.get('kw', {}).items():
        c.append('kw=%s:%s' % (k, 'type' if isinstance(v, dict) else type(v).__name__))
    if case.get('steered'):
        c.append('steered:' + case['steered'])
    return c


def nt_plain(case):
    return any(isinstance(a, np.ndarray) and a.ndim >= 2 for a in case['args'])


def covered_names():
    cov, unc = [], []
    for key, ent in sorted(TABLE.items()):
        n = ent['name']
        if ent['ref'] is not None and n in HAS_GENERATOR:
            cov.append(key)
        elif ent['ref'] is None and n in DOCUMENTED_ALIAS and n in HAS_GENERATOR:
            cov.append(key)
        else:
            unc.append(key)
    return cov, unc


def extra_evidence(tier):
    cov, unc = covered_names()
    return {
        'plain_dispatch_names_checked': {k: (TABLE[k]['ref'][0] + '.' + TABLE[k]['name']) if TABLE[k]['ref'] else 'documented alias'
                                         for k in cov},
        'plain_dispatch_names_uncovered': {k: ('no NumPy/SciPy function of that name' if TABLE[k]['ref'] is None
                                               else 'reference exists but no argument generator') for k in unc},
        'registry_operations': sorted(ops.REG),
    }


# ---------------------------------------------------------------------------

def buckets(tier):
    B = []

    def add(name, strat, prop, q, t, nt, cl, weight=1.0, shards=1):
        B.append(sh.packed_bucket(name, strat, prop, {'quick': q, 'thorough': t}, nt, cl, weight=weight,
                                  shards={'quick': 1, 'thorough': shards}))

    # (a) registry
    for name, op in ops.REG.items():
        heavy = op.family == 'linalg'
        add('a:' + name, op.cases, prop_reg, op.n[0], op.n[1], nt_reg, cls_reg, 3.0 if heavy else 1.0)
        if name in ops.ELEM:
            # complex data and tiny magnitude base points get their own buckets (guaranteed volume per function)
            if name in ops.CELEM:
                add('a:%s:complex' % name, (lambda name=name: ops.elem_cases(name, 'complex')), prop_reg, 40, 300, nt_reg, cls_reg)
            add('a:%s:tiny' % name, (lambda name=name: ops.elem_cases(name, 'tiny')), prop_reg, 40, 300, nt_reg, cls_reg)
    add('a:argmax', ops.ARGMAX_CASES, prop_argmax, 80, 600, nt_reg, cls_reg)
    for name in OUT_METHODS:
        add('a:out:' + name, (lambda name=name: out_cases(name)), prop_out, 40, 300, nt_reg, cls_reg, 2.0)
    add('a:seq:vector', lambda: seq_cases('vector'), prop_seq, 150, 1500, nt_seq, cls_seq, 3.0)
    add('a:seq:matrix', lambda: seq_cases('matrix'), prop_seq, 100, 1000, nt_seq, cls_seq, 5.0)
    # (a) shape-manipulating operations (generators shared with C13)
    add('a:getitem', lambda: _shape_cases(st.one_of(sh.getitem_cases('tuple'), sh.getitem_cases('bare')), 'getitem'),
        prop_shape, 240, 2000, nt_shape, cls_shape, 2.0)
    shape_ops = [('reshape', sh.reshape_cases), ('transpose', sh.transpose_cases), ('sum', sh.sum_cases), ('tile', sh.tile_cases),
                 ('diag', sh.diag_cases), ('triu', lambda: sh.tri_cases('triu')), ('tril', lambda: sh.tri_cases('tril')),
                 ('trace', sh.trace_cases), ('symvec', sh.symvec_cases), ('vecsym', sh.vecsym_cases),
                 ('neg', lambda: sh.unary_cases('neg')), ('conj', lambda: sh.unary_cases('conj')),
                 ('real', lambda: sh.unary_cases('real')), ('imag', lambda: sh.unary_cases('imag')),
                 ('fft', lambda: sh.fft_cases('fft')), ('ifft', lambda: sh.fft_cases('ifft'))]
    for name, cases in shape_ops:
        add('a:' + name, (lambda cases=cases, name=name: _shape_cases(cases(), 'op', name)), prop_shape, 80, 600, nt_shape, cls_shape, 1.5)
    for fam in ('zeros', 'ones', 'like'):
        add('a:construct-' + fam, (lambda fam=fam: _shape_cases(sh.construct_cases(fam), 'construct')), prop_shape, 80, 500,
            nt_shape, cls_shape)
    # (b) comparisons
    for o in CMP:
        for kinds in ('UU', 'US', 'SU', 'UA', 'AU'):
            add('b:%s:%s' % (o, kinds), (lambda o=o, kinds=kinds: cmp_cases(o, kinds)), prop_cmp, 120, 1000, nt_cmp, cls_cmp)
    # (c) plain-argument dispatch
    cov, _ = covered_names()
    for key in cov:
        add('c:' + key, (lambda key=key: plain_cases(key)), prop_plain, 80, 500, nt_plain, cls_plain)
    return B
