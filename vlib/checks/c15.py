"""C15 - exact-interpolation coefficients reconstruct mixed partial derivatives.

Part 1 (exhaustive): every (N, d) with C(N+d-1, d) <= bound and d <= 8 is its own bucket (one case, executed in
every run): the multi-index list is compared with an independent enumeration of the compositions of d into N parts,
and Gamma * V = I (V[j, alpha] = ray_j ** alpha) is evaluated in exact rational arithmetic for every pair (i, alpha).

Part 2 (generated): integer-coefficient polynomials and smooth ridge functions g(a . x) pushed through the consumers
UTPM.init_tensor / UTPM.extract_tensor and compared with exact / arbitrary precision partial derivatives divided by
the multi-index factorial.
"""
import math
import functools
from fractions import Fraction

import numpy as np
import mpmath
from mpmath import mp, mpf
from hypothesis import strategies as st

import algopy
from algopy import UTPM
import algopy.exact_interpolation as exint

from ..runner import Bucket, Violation, Inconclusive, guard
from ..oracles import ExactPoly, compositions

PID = 'C15'
EXHAUSTIVE = True          # every (N, d) pair within BOUND[tier] is a bucket of its own and is executed in every run

BOUND = {'quick': 40, 'thorough': 130}
NMAX, DMAX = 11, 8
TOL = 1e-9
TOL_INV = 10 ** 9          # integer form of 1/TOL for the exact comparison

# degrees above the exhaustive bound: formula 13.13 is evaluated in binary64 and its residual (relative to
# sum_j |Gamma_ij||V_j,alpha|) grows with d only (measured, identical for N = 1, 2, 3): d = 9: 2.8e-12, d = 10: 7.2e-12,
# d = 11: 3.9e-11, d = 12: 8.8e-11.  These pairs get a d-dependent tolerance that keeps three orders of magnitude of margin.
HIGH_DEGREE_PAIRS = {
    'quick': [(N, d) for N in (1, 2) for d in (9, 10, 11, 12)],
    'thorough': [(N, d) for N in (1, 2) for d in (9, 10, 11, 12)] + [(3, 9), (3, 10)],
}


def _tol_inv(d):
    return 10 ** 9 if d <= 8 else (10 ** 8 if d <= 10 else 10 ** 7)


def _tol(d):
    return 1.0 / _tol_inv(d)

RULE = ('part 1, exhaustive: every (N, d), 1 <= N <= 11, 1 <= d <= 8 with C(N+d-1, d) <= bound (quick 40: 39 pairs, '
        'thorough 130: 52 pairs) is one bucket with exactly one case that is executed in every run; for each pair the '
        'multi-index list is compared with an independent enumeration and ALL C(N+d-1,d)^2 identities '
        'sum_j Gamma[i,j]*ray_j^alpha = delta(i,alpha) are evaluated in exact rational arithmetic.  part 2, generated: '
        'integer-coefficient polynomials (monomials of degree < d, = d and > d) at integer/dyadic points and ridge '
        'functions g(a.x) through UTPM.init_tensor/extract_tensor.  non-trivial = N >= 2 and d >= 2 (for part 2 '
        'additionally: the function has a non-vanishing mixed d-th partial); distinct by descriptor hash')
ASSUMPTIONS = [
    'Gamma entries are binary64 numbers; they are converted exactly (Fraction(float)) and the identity is evaluated in '
    'exact integer/rational arithmetic; accepted residual: |(Gamma V - I)[i,alpha]| <= 1e-9 * sum_j |Gamma[i,j]| |V[j,alpha]| '
    '(rounding of formula 13.13 in binary64; measured <= 1e-13 for d <= 8)',
    'the exhaustive part is capped at d = 8: formula 13.13 is an alternating sum whose binary64 evaluation loses accuracy '
    'for larger d (conditioning, not enumeration logic); N <= 11.  In addition the degrees d = 9..12 are executed for '
    'N = 1, 2 (thorough: also (3,9), (3,10)) in every run with the tolerance 1e-8 (d = 9, 10) resp. 1e-7 (d = 11, 12): the '
    'measured residual there is 2.8e-12 ... 8.8e-11 and depends on d only',
    'rays are generated with the default seed matrix S = I (the only form the consumers init_tensor/extract_tensor use)',
    'consumer check: tolerance 1e-9 relative to sum_j |Gamma[i,j]| * (sum of absolute Taylor terms along ray j); '
    'reference = exact polynomial differentiation (oracles.ExactPoly, Fractions) resp. mpmath.diff at 40 digits',
    'extract_tensor(as_full_matrix=True) is only asserted for d = 2 (its docstring: "extracts the Hessian of shape (N,N)")',
    'one third of the ridge cases stacks 2-3 outputs g_m(a_m.x) into a vector valued y (algopy.zeros(M, dtype=x), y[m] = ...): '
    'extract_tensor(as_full_matrix=False) must return one column of partials per output',
    'base points of the consumer checks are passed to init_tensor as float64, int64, int32, float32 ndarrays, as lists of '
    'Python ints and as non-contiguous float64 views; the reference uses the float64 value of the point; the argument must '
    'be left unchanged',
]


def all_pairs(tier):
    out = []
    for N in range(1, NMAX + 1):
        for d in range(1, DMAX + 1):
            if math.comb(N + d - 1, d) <= BOUND[tier]:
                out.append((N, d))
    return out


# ---------------------------------------------------------------------------
# part 1: one (N, d) pair
# ---------------------------------------------------------------------------

def _check_multi_indices(J, N, d, what):
    J = np.asarray(J)
    want = sorted(compositions(d, N))
    cnt = math.comb(N + d - 1, d)
    assert len(want) == cnt == len(set(want))          # harness self-check of the independent enumeration
    if J.ndim != 2 or J.shape[1] != N:
        raise Violation('%s: multi-index array has shape %s, expected (%d, %d)' % (what, J.shape, cnt, N))
    if J.dtype.kind not in 'iu':
        raise Violation('%s: multi-index array has dtype %s' % (what, J.dtype))
    rows = [tuple(int(v) for v in r) for r in J]
    if len(rows) != len(set(rows)):
        dup = sorted(r for r in set(rows) if rows.count(r) > 1)[0]
        raise Violation('%s: multi-index %s listed more than once' % (what, dup))
    if len(rows) != cnt:
        missing = sorted(set(want) - set(rows))
        raise Violation('%s: %d multi-indices, expected C(%d,%d) = %d; e.g. missing %s'
                        % (what, len(rows), N + d - 1, d, cnt, missing[:1]))
    if sorted(rows) != want:
        missing = sorted(set(want) - set(rows))
        extra = sorted(set(rows) - set(want))
        raise Violation('%s: not the set of monomials of degree %d: missing %s, unexpected %s' % (what, d, missing[:2], extra[:2]))
    return rows


def _exact_int_matrix(G):
    """float matrix -> (object matrix of ints M, int L) with G == M / L exactly"""
    fr = [[Fraction(float(v)) for v in row] for row in G]
    L = 1
    for row in fr:
        for f in row:
            if f.denominator > L:
                L = f.denominator      # denominators are powers of two: the largest is the common one
    M = np.empty(G.shape, dtype=object)
    for a, row in enumerate(fr):
        for b, f in enumerate(row):
            assert L % f.denominator == 0
            M[a, b] = f.numerator * (L // f.denominator)
    return M, L


def prop_pair(case, stats):
    N, d = int(case['N']), int(case['d'])
    what = '(N=%d,d=%d)' % (N, d)
    J = guard(exint.generate_multi_indices, N, d)
    rows = _check_multi_indices(J, N, d, what + ' generate_multi_indices')
    G, rays = guard(exint.generate_Gamma_and_rays, N, d)
    G = np.asarray(G)
    rays = np.asarray(rays)
    NJ = len(rows)
    if G.shape != (NJ, NJ):
        raise Violation('%s: Gamma has shape %s, expected %s' % (what, G.shape, (NJ, NJ)))
    if rays.shape != (NJ, N):
        raise Violation('%s: rays have shape %s, expected %s' % (what, rays.shape, (NJ, N)))
    if not np.all(np.isfinite(G)):
        raise Violation('%s: Gamma has non-finite entries' % what)
    if not np.all(np.isfinite(rays)) or not np.all(rays == np.round(rays)):
        raise Violation('%s: rays are not integer vectors' % what)
    R = [[int(v) for v in r] for r in rays]
    # the rows of Gamma are labelled by the multi-index list; the statement needs delta(i, alpha) for ALL monomials
    # alpha of degree d: take them from the independent enumeration
    alphas = sorted(compositions(d, N))
    V = np.empty((NJ, NJ), dtype=object)
    for j, r in enumerate(R):
        for a, al in enumerate(alphas):
            p = 1
            for rn, e in zip(r, al):
                if e:
                    p *= rn ** e
            V[j, a] = p
    M, L = _exact_int_matrix(G)
    absM = np.empty_like(M)
    absV = np.empty_like(V)
    for idx in np.ndindex(*M.shape):
        absM[idx] = abs(M[idx])
        absV[idx] = abs(V[idx])
    prod = M.dot(V)             # python ints: exact;  (Gamma V)[i,a] = prod[i,a] / L
    scale = absM.dot(absV)      # sum_j |Gamma_ij| |V_ja| * L
    worst = Fraction(0)
    for i in range(NJ):
        for a in range(NJ):
            delta = 1 if rows[i] == alphas[a] else 0
            res = abs(prod[i, a] - delta * L)          # |residual| * L
            s = scale[i, a]
            if res * _tol_inv(d) > s:
                raise Violation('%s: sum_j Gamma[i,j]*ray_j^alpha = %.17g for i=%s alpha=%s, expected %d '
                                '(residual %.3e, term magnitude %.3e)'
                                % (what, float(Fraction(prod[i, a], L)), rows[i], alphas[a], delta,
                                   float(Fraction(res, L)), float(Fraction(s, L))))
            if s:
                q = Fraction(res, s)
                if q > worst:
                    worst = q
    stats.err(float(worst))
    stats.event('identities=%d' % (NJ * NJ))
    if NJ <= 40:
        # history / argument-type independence (cheap pairs only): the same call again after another pair was generated,
        # and with NumPy integer arguments, must reproduce the first result bit for bit, and the arrays returned by the
        # first call must not have been touched by the later calls
        snap = (G.tobytes(), rays.tobytes(), np.asarray(J).tobytes())
        guard(exint.generate_Gamma_and_rays, 2, 3)
        G2, rays2 = guard(exint.generate_Gamma_and_rays, np.int64(N), np.int32(d))
        J2 = guard(exint.generate_multi_indices, np.int32(N), np.int64(d))
        G3, rays3 = guard(exint.generate_Gamma_and_rays, N, d)
        if (G.tobytes(), rays.tobytes(), np.asarray(J).tobytes()) != snap:
            raise Violation('%s: arrays returned by the first call were modified by later calls' % what)
        for lbl, a, b in (('Gamma (NumPy integer arguments)', G, G2), ('rays (NumPy integer arguments)', rays, rays2),
                          ('multi-indices (NumPy integer arguments)', J, J2), ('Gamma (second call)', G, G3),
                          ('rays (second call)', rays, rays3)):
            a = np.asarray(a)
            b = np.asarray(b)
            if a.shape != b.shape or not np.array_equal(a, b):
                raise Violation('%s: %s differ from the first call' % (what, lbl))
        stats.event('repeat-call-checked')


def _pair_classes(case):
    N, d = case['N'], case['d']
    return ['N=%d' % N, 'd=%d' % d, 'pairs', 'NJ<=%d' % (10 * ((math.comb(N + d - 1, d) + 9) // 10))]


def _pair_nontrivial(case):
    return case['N'] >= 2 and case['d'] >= 2


# ---------------------------------------------------------------------------
# part 2: consumers init_tensor / extract_tensor
# ---------------------------------------------------------------------------

CONSUMER_PAIRS = {
    'quick': [(N, d) for N in range(1, 7) for d in range(1, 7) if math.comb(N + d - 1, d) <= 15],
    'thorough': [(N, d) for N in range(1, 7) for d in range(1, 8) if math.comb(N + d - 1, d) <= 21],
}


def _weighted_pairs(tier):
    """sampling pool: the non-trivial pairs (N >= 2 and d >= 2) four times, the trivial ones once"""
    pool = []
    for p in CONSUMER_PAIRS[tier]:
        pool.extend([p] * (4 if p[0] >= 2 and p[1] >= 2 else 1))
    # high degrees (small ray sets only): d = 9..12 for N = 1, d = 9, 10 for N = 2
    pool.extend([(2, 9), (2, 10), (2, 9), (1, 9), (1, 10), (1, 11), (1, 12)])
    # non-trivial pairs first: Hypothesis favours the front of a sampled_from list
    pool.sort(key=lambda p: (not (p[0] >= 2 and p[1] >= 2), p))
    return pool


# ---- forms of the base point handed to UTPM.init_tensor -----------------------------------------------------------
X0_FORMS = ['f64', 'f64', 'f64', 'int64', 'int32', 'pylist', 'f32', 'strided']


def _x0_arg(case):
    """the object passed as base point: float64 / int64 / int32 / float32 ndarray, a list of Python ints, or a
    non-contiguous float64 view; the reference always uses the float64 VALUE of the point"""
    x0 = case['x0']
    form = case.get('x0_form', 'f64')
    if form == 'pylist':
        return [int(v) for v in x0]
    if form == 'strided':
        big = np.zeros(2 * len(x0))
        big[::2] = np.asarray(x0, dtype=float)
        return big[::2]
    return np.array(x0, copy=True)


def _x0_unchanged(what, arg, case):
    want = np.asarray(case['x0'], dtype=float)
    got = np.asarray(arg, dtype=float)
    if got.shape != want.shape or not np.array_equal(got, want):
        raise Violation('%s: init_tensor modified its base point argument: %r' % (what, np.asarray(arg).tolist()))


def _x0_build(form, ints=None, vals=None):
    if form in ('int64', 'int32', 'pylist'):
        return np.array(ints, dtype={'int64': np.int64, 'int32': np.int32, 'pylist': np.int64}[form])
    if form == 'f32':
        return np.array(vals, dtype=np.float32)
    return np.array(vals, dtype=float)



def _fact(al):
    p = 1
    for a in al:
        p *= math.factorial(a)
    return p


def _labels(N, d, what):
    """labels of the entries of the extracted vector = the code's multi-index list (validated as a set first)"""
    J = guard(exint.generate_multi_indices, N, d)
    return _check_multi_indices(J, N, d, what)


@functools.lru_cache(maxsize=None)
def _gamma_abs(N, d):
    """|Gamma| and the rays, used only for the error SCALE of the consumer checks (cached per (N, d))"""
    G, rays = guard(exint.generate_Gamma_and_rays, N, d)
    return np.abs(np.asarray(G, dtype=float)), np.asarray(rays, dtype=float)


def _upow(x, e):
    """x**e by repeated multiplication (only UTPM * UTPM is involved)"""
    r = x
    for _ in range(e - 1):
        r = r * x
    return r


def _poly_from_terms(N, terms):
    return ExactPoly(N, {tuple(int(e) for e in k): int(c) for k, c in terms})


def prop_poly(case, stats):
    N, d = int(case['N']), int(case['d'])
    x0 = np.asarray(case['x0'], dtype=float)
    terms = [(tuple(k), c) for k, c in case['terms']]
    what = 'poly(N=%d,d=%d,base point passed as %s)' % (N, d, case.get('x0_form', 'f64'))
    labels = _labels(N, d, what)
    p = _poly_from_terms(N, terms)
    pabs = ExactPoly(N, {k: abs(v) for k, v in p.t.items()})
    xf = [Fraction(float(v)) for v in x0]
    xa = [abs(v) for v in xf]

    arg = _x0_arg(case)

    def run():
        x = UTPM.init_tensor(d, arg)
        y = None
        for k, c in terms:
            m = None
            for i, e in enumerate(k):
                if e:
                    f = _upow(x[i], e)
                    m = f if m is None else m * f
            m = (float(c) * m) if m is not None else float(c)
            y = m if y is None else y + m
        if not isinstance(y, UTPM):       # constant polynomial: promote
            y = x[0] * 0.0 + y
        vec = UTPM.extract_tensor(N, y, as_full_matrix=False)
        full = UTPM.extract_tensor(N, y) if d == 2 else None
        return vec, full
    vec, full = guard(run)
    _x0_unchanged(what, arg, case)
    vec = np.asarray(vec, dtype=float)
    NJ = len(labels)
    if vec.shape != (NJ,):
        raise Violation('%s: extract_tensor(as_full_matrix=False) has shape %s, expected (%d,)' % (what, vec.shape, NJ))
    # exact reference and the magnitude of the terms entering entry i
    Gabs, rays = _gamma_abs(N, d)
    # sum of absolute Taylor terms of degree d along each ray: sum_beta |f|_beta(|x0|) * |ray^beta|
    tay_abs = {al: pabs.diff_multi(al).eval(xa) / _fact(al) for al in labels}
    yabs = np.zeros(NJ)
    for j in range(NJ):
        s = Fraction(0)
        for al, v in tay_abs.items():
            if v:
                m = v
                for rn, e in zip(rays[j], al):
                    if e:
                        m = m * Fraction(int(rn)) ** e
                s += abs(m)
        yabs[j] = float(s)
    scale = Gabs.dot(yabs)
    worst = 0.0
    refs = []
    for i, al in enumerate(labels):
        ref = p.diff_multi(al).eval(xf) / _fact(al)
        refs.append(ref)
        sc = max(float(scale[i]), abs(float(ref)), 1e-300)
        if not np.isfinite(vec[i]):
            raise Violation('%s: entry for multi-index %s is %r, exact value %s' % (what, al, vec[i], ref))
        err = abs(Fraction(float(vec[i])) - ref)
        rel = float(err) / sc
        worst = max(worst, rel)
        if rel > _tol(d):
            raise Violation('%s at x0=%s, terms=%s: Gamma.y_d entry for multi-index %s is %.17g, exact partial/factorial is %s '
                            '(error %.3e, term magnitude %.3e)' % (what, x0.tolist(), terms, al, vec[i], ref, float(err), sc))
    stats.err(worst)
    if full is not None:
        full = np.asarray(full, dtype=float)
        if full.shape != (N, N):
            raise Violation('%s: extract_tensor full matrix has shape %s' % (what, full.shape))
        for a in range(N):
            for b in range(N):
                al = [0] * N
                al[a] += 1
                al[b] += 1
                ref = p.diff_multi(tuple(al)).eval(xf)
                i = labels.index(tuple(al))
                sc = max(2 * float(scale[i]), abs(float(ref)), 1e-300)
                if not np.isfinite(full[a, b]) or abs(float(Fraction(float(full[a, b])) - ref)) > _tol(d) * sc:
                    raise Violation('%s at x0=%s, terms=%s: Hessian entry [%d,%d] from extract_tensor is %.17g, exact %s'
                                    % (what, x0.tolist(), terms, a, b, full[a, b], ref))


def _poly_has_mixed(case):
    d = case['d']
    for k, c in case['terms']:
        if c and sum(k) >= d and sum(1 for e in k if e) >= 2:
            return True
    return False


def _poly_nontrivial(case):
    return case['N'] >= 2 and case['d'] >= 2 and _poly_has_mixed(case)


def _poly_classes(case):
    d = case['d']
    degs = [sum(k) for k, c in case['terms']]
    c = ['N=%d' % case['N'], 'd=%d' % d, 'consumer:poly', 'terms=%d' % len(degs), 'x0-form=' + case.get('x0_form', 'f64')]
    if any(g < d for g in degs):
        c.append('has-degree<d')
    if any(g == d for g in degs):
        c.append('has-degree=d')
    if any(g > d for g in degs):
        c.append('has-degree>d')
    if _poly_has_mixed(case):
        c.append('mixed-monomial')
    if all(float(v) == round(float(v)) for v in case['x0']):
        c.append('x0-integer')
    if not np.any(np.asarray(case['x0'])):
        c.append('x0-zero')
    return c


@st.composite
def _exponent(draw, N, total):
    """composition of ``total`` into N parts, built by distributing units (construction, no rejection)"""
    e = [0] * N
    for _ in range(total):
        e[draw(st.integers(0, N - 1))] += 1
    return tuple(e)


@st.composite
def poly_cases(draw, tier):
    N, d = draw(st.sampled_from(_weighted_pairs(tier)))
    nt = draw(st.integers(1, 6))
    terms = {}
    for t in range(nt):
        # the first term has degree exactly d (so that the d-th derivative tensor is not identically zero)
        if t == 0:
            deg = d
        else:
            deg = draw(st.sampled_from([d, d, d + 1, d + 2, max(d - 1, 0), max(d - 2, 0), 0]))
        k = draw(_exponent(N, deg))
        c = draw(st.integers(-9, 9).map(lambda v: v if v else 1))
        terms[k] = c
    form = draw(st.sampled_from(X0_FORMS))
    if form in ('int64', 'int32', 'pylist'):
        x0 = _x0_build(form, ints=draw(st.lists(st.integers(-3, 3), min_size=N, max_size=N)))
    else:
        pt = st.one_of(st.integers(-3, 3).map(float), st.integers(-12, 12).map(lambda v: v / 4.0))
        x0 = _x0_build(form, vals=draw(st.lists(pt, min_size=N, max_size=N)))
    return {'N': N, 'd': d, 'x0': x0, 'x0_form': form, 'terms': [(k, terms[k]) for k in sorted(terms)]}


# ridge functions g(a . x): D^alpha f (x0) / alpha! = a^alpha / alpha! * g^(d)(a . x0)
RIDGE = {
    'exp': (algopy.exp, mpmath.exp),
    'sin': (algopy.sin, mpmath.sin),
    'cos': (algopy.cos, mpmath.cos),
    'recip1p': (lambda u: 1.0 / (1.0 + u * u), lambda u: 1 / (1 + u * u)),
}


def prop_ridge(case, stats):
    """one output g(a.x) (scalar valued y) or, with case['more'], M = 2..3 outputs g_m(a_m.x) stacked into a vector
    valued y (y.data of shape (d+1, P, M)): extract_tensor(as_full_matrix=False) then returns one column per output"""
    N, d = int(case['N']), int(case['d'])
    outs = [(case['g'], np.asarray(case['a'], dtype=float))] + [(g, np.asarray(a, dtype=float)) for g, a in case.get('more', [])]
    M = len(outs)
    x0 = np.asarray(case['x0'], dtype=float)
    what = 'ridge:%s(N=%d,d=%d,base point passed as %s)' % ('+'.join(g for g, _ in outs), N, d, case.get('x0_form', 'f64'))
    labels = _labels(N, d, what)

    arg = _x0_arg(case)

    def one(x, g, a):
        u = None
        for i in range(N):
            t = x[i] if a[i] == 1.0 else float(a[i]) * x[i]     # a_i = 1: the traced value keeps the dtype of the data
            u = t if u is None else u + t
        return RIDGE[g][0](u)

    def run():
        x = UTPM.init_tensor(d, arg)
        if M == 1:
            y = one(x, *outs[0])
        else:
            y = algopy.zeros(M, dtype=x)
            for m, (g, a) in enumerate(outs):
                y[m] = one(x, g, a)
        return UTPM.extract_tensor(N, y, as_full_matrix=False)
    vec = np.asarray(guard(run), dtype=float)
    _x0_unchanged(what, arg, case)
    want_shape = (len(labels),) if M == 1 else (len(labels), M)
    if vec.shape != want_shape:
        raise Violation('%s: extract_tensor has shape %s, expected %s' % (what, vec.shape, want_shape))
    old = mp.dps
    mp.dps = 45
    try:
        Gabs, rays = _gamma_abs(N, d)
        worst = 0.0
        for m, (g, a) in enumerate(outs):
            g_mp = RIDGE[g][1]
            col = vec if M == 1 else vec[:, m]
            u0 = mpmath.fsum([mpf(float(ai)) * mpf(float(xi)) for ai, xi in zip(a, x0)])
            gd = mpmath.diff(g_mp, u0, d) / mpmath.factorial(d)     # d-th Taylor coefficient of g at u0
            # d-th Taylor coefficient along ray j is gd * (a . ray_j)^d;  term magnitude with absolute values
            # (for sin/cos the recurrences mix both functions: the magnitude is that of the neighbouring derivatives)
            gmag = max(abs(mpmath.diff(g_mp, u0, k)) for k in (max(d - 1, 0), d, d + 1)) / mpmath.factorial(d)
            yabs = np.array([float(gmag) * float(np.abs(a).dot(np.abs(r))) ** d for r in rays])
            scale = Gabs.dot(yabs)
            for i, al in enumerate(labels):
                apow = mpf(1)
                for ai, e in zip(a, al):
                    if e:
                        apow *= mpf(float(ai)) ** e
                ref = gd * mpmath.factorial(d) / _fact(al) * apow
                if not mpmath.isfinite(ref):
                    raise Inconclusive('non-finite reference')
                sc = max(float(scale[i]), float(abs(ref)), 1e-300)
                if not np.isfinite(col[i]):
                    raise Violation('%s: entry for multi-index %s%s is %r, reference %s'
                                    % (what, al, '' if M == 1 else ' of output %d' % m, col[i], mpmath.nstr(ref, 17)))
                rel = float(abs(mpf(float(col[i])) - ref)) / sc
                worst = max(worst, rel)
                if rel > _tol(d):
                    raise Violation('%s with a=%s at x0=%s: Gamma.y_d entry for multi-index %s%s is %.17g, reference '
                                    'a^alpha/alpha! g^(d)(a.x0) = %s (term magnitude %.3e)'
                                    % (what, a.tolist(), x0.tolist(), al, '' if M == 1 else ' of output %d (%s)' % (m, g),
                                       col[i], mpmath.nstr(ref, 17), sc))
        stats.err(worst)
    finally:
        mp.dps = old


def _ridge_nontrivial(case):
    return case['N'] >= 2 and case['d'] >= 2 and sum(1 for v in case['a'] if v != 0) >= 2


def _ridge_classes(case):
    return ['N=%d' % case['N'], 'd=%d' % case['d'], 'consumer:ridge:' + case['g'], 'x0-form=' + case.get('x0_form', 'f64'),
            'ridge-outputs=%d' % (1 + len(case.get('more', [])))]


@st.composite
def ridge_cases(draw, tier):
    N, d = draw(st.sampled_from(_weighted_pairs(tier)))
    g = draw(st.sampled_from(sorted(RIDGE)))
    coef = st.one_of(st.sampled_from([1.0, -1.0, 0.5, 2.0, -0.5]), st.integers(-8, 8).map(lambda v: v / 4.0))
    a = draw(st.lists(coef, min_size=N, max_size=N))
    if not any(a):
        a[0] = 1.0
    form = draw(st.sampled_from(X0_FORMS))
    if form in ('int64', 'int32', 'pylist'):
        x0 = _x0_build(form, ints=draw(st.lists(st.integers(-2, 2), min_size=N, max_size=N)))
    else:
        x0 = _x0_build(form, vals=draw(st.lists(st.integers(-8, 8).map(lambda v: v / 8.0), min_size=N, max_size=N)))
    case = {'N': N, 'd': d, 'g': g, 'a': np.array(a, dtype=float), 'x0': x0, 'x0_form': form}
    if draw(st.integers(0, 2)) == 0:
        # vector valued y: one or two more outputs with their own g and a
        more = []
        for _ in range(draw(st.integers(1, 2))):
            a2 = draw(st.lists(coef, min_size=N, max_size=N))
            if not any(a2):
                a2[-1] = 1.0
            more.append((draw(st.sampled_from(sorted(RIDGE))), np.array(a2, dtype=float)))
        case['more'] = more
    return case


# ---------------------------------------------------------------------------

def _pair_cost(N, d):
    nj = math.comb(N + d - 1, d)
    return float(nj * nj) * float(np.prod([1.0 + d / float(N)] * N))


def buckets(tier):
    bl = []
    # the replay tier addresses pair buckets by name: register every pair of the larger bound under --replay
    for (N, d) in all_pairs(tier):
        bl.append(Bucket('pair:N=%d,d=%d' % (N, d), (lambda N=N, d=d: st.just({'N': N, 'd': d})), prop_pair,
                         {'quick': 1, 'thorough': 1}, nontrivial=_pair_nontrivial, classes=_pair_classes,
                         weight=_pair_cost(N, d)))
    for (N, d) in HIGH_DEGREE_PAIRS[tier]:
        bl.append(Bucket('pair:N=%d,d=%d' % (N, d), (lambda N=N, d=d: st.just({'N': N, 'd': d})), prop_pair,
                         {'quick': 1, 'thorough': 1}, nontrivial=_pair_nontrivial, classes=_pair_classes,
                         weight=_pair_cost(N, d)))
    bl.append(Bucket('consumer:poly', (lambda: poly_cases(tier)), prop_poly, {'quick': 60, 'thorough': 250},
                     nontrivial=_poly_nontrivial, classes=_poly_classes, shards={'quick': 4, 'thorough': 8}, weight=1.0))
    bl.append(Bucket('consumer:ridge', (lambda: ridge_cases(tier)), prop_ridge, {'quick': 40, 'thorough': 150},
                     nontrivial=_ridge_nontrivial, classes=_ridge_classes, shards={'quick': 2, 'thorough': 6}, weight=1.0))
    return bl


def extra_evidence(tier):
    pairs = all_pairs(tier)
    return {
        'bound_C(N+d-1,d)': BOUND[tier],
        'N_max': NMAX, 'd_max': DMAX,
        'pairs_enumerated': ['(%d,%d)' % p for p in pairs],
        'pairs_count': len(pairs),
        'identities_checked_exactly': sum(math.comb(N + d - 1, d) ** 2 for N, d in pairs),
        'exhaustive_scope': 'all (N,d) with 1<=N<=%d, 1<=d<=%d, C(N+d-1,d)<=%d; for each, all pairs (i, alpha) of '
                            'multi-indices of degree d; every pair is executed in every run (one bucket each)'
                            % (NMAX, DMAX, BOUND[tier]),
        'consumer_pairs': ['(%d,%d)' % p for p in sorted(set(_weighted_pairs(tier)))],
        'high_degree_pairs_beyond_the_exhaustive_bound': ['(%d,%d)' % p for p in HIGH_DEGREE_PAIRS[tier]],
        'tolerance': {'d<=8': 1e-9, 'd=9,10': 1e-8, 'd=11,12': 1e-7},
    }
