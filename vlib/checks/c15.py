"""C15 - exact-interpolation coefficients reconstruct mixed partial derivatives.

Part 1 (exhaustive): every (N, d) with C(N+d-1, d) <= bound and d <= 8 is its own bucket (one case, executed in
every run): the multi-index list is compared with an independent enumeration of the compositions of d into N parts,
and Gamma * V = I (V[j, alpha] = ray_j ** alpha) is evaluated in exact rational arithmetic for every pair (i, alpha).

Part 2 (generated): integer-coefficient polynomials and smooth ridge functions g(a . x) pushed through the consumers
UTPM.init_tensor / UTPM.extract_tensor and compared with exact / arbitrary precision partial derivatives divided by
the multi-index factorial.
"""
import math
import functools
from fractions import Fraction

import numpy as np
import mpmath
from mpmath import mp, mpf
from hypothesis import strategies as st

import algopy
from algopy import UTPM
import algopy.exact_interpolation as exint

from ..runner import Bucket, Violation, Inconclusive, guard
from ..oracles import ExactPoly, compositions

PID = 'C15'
EXHAUSTIVE = True          # every (N, d) pair within BOUND[tier] is a bucket of its own and is executed in every run

BOUND = {'quick': 40, 'thorough': 130}
NMAX, DMAX = 11, 8
TOL = 1e-9
TOL_INV = 10 ** 9          # integer form of 1/TOL for the exact comparison

# degrees above the exhaustive bound: formula 13.13 is evaluated in binary64 and its residual (relative to
# sum_j |Gamma_ij||V_j,alpha|) grows with d only (measured, identical for N = 1, 2, 3): d = 9: 2.8e-12, d = 10: 7.2e-12,
# d = 11: 3.9e-11, d = 12: 8.8e-11.  These pairs get a d-dependent tolerance that keeps three orders of magnitude of margin.
HIGH_DEGREE_PAIRS = {
    'quick': [(N, d) for N in (1, 2) for d in (9, 10, 11, 12)],
    'thorough': [(N, d) for N in (1, 2) for d in (9, 10, 11, 12)] + [(3, 9), (3, 10)],
}


def _tol_inv(d):
    return 10 ** 9 if d <= 8 else (10 ** 8 if d <= 10 else 10 ** 7)


def _tol(d):
    return 1.0 / _tol_inv(d)

RULE = ('part 1, exhaustive: every (N, d), 1 <= N <= 11, 1 <= d <= 8 with C(N+d-1, d) <= bound (quick 40: 39 pairs, '
        'thorough 130: 52 pairs) is one bucket with exactly one case that is executed in every run; for each pair the '
        'multi-index list is compared with an independent enumeration and ALL C(N+d-1,d)^2 identities '
        'sum_j Gamma[i,j]*ray_j^alpha = delta(i,alpha) are evaluated in exact rational arithmetic.  part 2, generated: '
        'integer-coefficient polynomials (monomials of degree < d, = d and > d) at integer/dyadic points and ridge '
        'functions g(a.x) through UTPM.init_tensor/extract_tensor.  non-trivial = N >= 2 and d >= 2 (for part 2 '
        'additionally: the function has a non-vanishing mixed d-th partial); distinct by descriptor hash')
ASSUMPTIONS = [
    'Gamma entries are binary64 numbers; they are converted exactly (Fraction(float)) and the identity is evaluated in '
    'exact integer/rational arithmetic; accepted residual: |(Gamma V - I)[i,alpha]| <= 1e-9 * sum_j |Gamma[i,j]| |V[j,alpha]| '
    '(rounding of formula 13.13 in binary64; measured <= 1e-13 for d <= 8)',
    'the exhaustive part is capped at d = 8: formula 13.13 is an alternating sum whose binary64 evaluation loses accuracy '
    'for larger d (conditioning, not enumeration logic); N <= 11.  In addition the degrees d = 9..12 are executed for '
    'N = 1, 2 (thorough: also (3,9), (3,10)) in every run with the tolerance 1e-8 (d = 9, 10) resp. 1e-7 (d = 11, 12): the '
    'measured residual there is 2.8e-12 ... 8.8e-11 and depends on d only',
    'pair buckets use the default seed matrix S = I (the only form the consumers init_tensor/extract_tensor use); the '
    'seed-matrix bucket passes S explicitly (identity, symmetric, non-symmetric, triangular, rotation, rectangular (N, N+1) '
    'and (N, N-1); float64, int64, nested list): rays must be J S exactly (row j = sum_k j_k S[k,:], what the code computes '
    'and the only reading for which rectangular seeds work; the docstring says "shape (M,N)", which numpy.dot(J, S) rejects '
    'unless M = N), Gamma must not depend on S, and Gamma y_d must be the tensor of g(z) = f(x0 + z S); the delta identity '
    'itself refers to the multi-indices (z space) and is checked by the pair buckets',
    'consumer:poly seeds a second input for the same (d, N) before using the first (both must give their own tensor, no '
    'shared memory), and re-seeds after the caller modified its input in place (data must be base point, rays, zeros)',
    'consumer check: tolerance 1e-9 relative to sum_j |Gamma[i,j]| * (sum of absolute Taylor terms along ray j); '
    'reference = exact polynomial differentiation (oracles.ExactPoly, Fractions) resp. mpmath.diff at 40 digits',
    'extract_tensor(as_full_matrix=True) is only asserted for d = 2 (its docstring: "extracts the Hessian of shape (N,N)")',
    'one third of the ridge cases stacks 2-3 outputs g_m(a_m.x) into a vector valued y (algopy.zeros(M, dtype=x), y[m] = ...): '
    'extract_tensor(as_full_matrix=False) must return one column of partials per output',
    'base points of the consumer checks are passed to init_tensor as float64, int64, int32, float32 ndarrays, as lists of '
    'Python ints and as non-contiguous float64 views; the reference uses the float64 value of the point; the argument must '
    'be left unchanged',
]


def all_pairs(tier):
    out = []
    for N in range(1, NMAX + 1):
        for d in range(1, DMAX + 1):
            if math.comb(N + d - 1, d) <= BOUND[tier]:
                out.append((N, d))
    return out


# ---------------------------------------------------------------------------
# part 1: one (N, d) pair
# ---------------------------------------------------------------------------

def _check_multi_indices(J, N, d, what):
    J = np.asarray(J)
    want = sorted(compositions(d, N))
    cnt = math.comb(N + d - 1, d)
    assert len(want) == cnt == len(set(want))          # harness self-check of the independent enumeration
    if J.ndim != 2 or J.shape[1] != N:
        raise Violation('%s: multi-index array has shape %s, expected (%d, %d)' % (what, J.shape, cnt, N))
    if J.dtype.kind not in 'iu':
        raise Violation('%s: multi-index array has dtype %s' % (what, J.dtype))
    rows = [tuple(int(v) for v in r) for r in J]
    if len(rows) != len(set(rows)):
        dup = sorted(r for r in set(rows) if rows.count(r) > 1)[0]
        raise Violation('%s: multi-index %s listed more than once' % (what, dup))
    if len(rows) != cnt:
        missing = sorted(set(want) - set(rows))
        raise Violation('%s: %d multi-indices, expected C(%d,%d) = %d; e.g. missing %s'
                        % (what, len(rows), N + d - 1, d, cnt, missing[:1]))
    if sorted(rows) != want:
        missing = sorted(set(want) - set(rows))
        extra = sorted(set(rows) - set(want))
        raise Violation('%s: not the set of monomials of degree %d: missing %s, unexpected %s' % (what, d, missing[:2], extra[:2]))
    return rows


def _exact_int_matrix(G):
    """float matrix -> (object matrix of ints M, int L) with G == M / L exactly"""
    fr = [[Fraction(float(v)) for v in row] for row in G]
    L = 1
    for row in fr:
        for f in row:
            if f.denominator > L:
                L = f.denominator      # denominators are powers of two: the largest is the common one
    M = np.empty(G.shape, dtype=object)
    for a, row in enumerate(fr):
        for b, f in enumerate(row):
            assert L % f.denominator == 0
            M[a, b] = f.numerator * (L // f.denominator)
    return M, L


def prop_pair(case, stats):
    N, d = int(case['N']), int(case['d'])
    what = '(N=%d,d=%d)' % (N, d)
    J = guard(exint.generate_multi_indices, N, d)
    rows = _check_multi_indices(J, N, d, what + ' generate_multi_indices')
    G, rays = guard(exint.generate_Gamma_and_rays, N, d)
    G = np.asarray(G)
    rays = np.asarray(rays)
    NJ = len(rows)
    if G.shape != (NJ, NJ):
        raise Violation('%s: Gamma has shape %s, expected %s' % (what, G.shape, (NJ, NJ)))
    if rays.shape != (NJ, N):
        raise Violation('%s: rays have shape %s, expected %s' % (what, rays.shape, (NJ, N)))
    if not np.all(np.isfinite(G)):
        raise Violation('%s: Gamma has non-finite entries' % what)
    if not np.all(np.isfinite(rays)) or not np.all(rays == np.round(rays)):
        raise Violation('%s: rays are not integer vectors' % what)
    R = [[int(v) for v in r] for r in rays]
    # the rows of Gamma are labelled by the multi-index list; the statement needs delta(i, alpha) for ALL monomials
    # alpha of degree d: take them from the independent enumeration
    alphas = sorted(compositions(d, N))
    V = np.empty((NJ, NJ), dtype=object)
    for j, r in enumerate(R):
        for a, al in enumerate(alphas):
            p = 1
            for rn, e in zip(r, al):
                if e:
                    p *= rn ** e
            V[j, a] = p
    M, L = _exact_int_matrix(G)
    absM = np.empty_like(M)
    absV = np.empty_like(V)
    for idx in np.ndindex(*M.shape):
        absM[idx] = abs(M[idx])
        absV[idx] = abs(V[idx])
    prod = M.dot(V)             # python ints: exact;  (Gamma V)[i,a] = prod[i,a] / L
    scale = absM.dot(absV)      # sum_j |Gamma_ij| |V_ja| * L
    worst = Fraction(0)
    for i in range(NJ):
        for a in range(NJ):
            delta = 1 if rows[i] == alphas[a] else 0
            res = abs(prod[i, a] - delta * L)          # |residual| * L
            s = scale[i, a]
            if res * _tol_inv(d) > s:
                raise Violation('%s: sum_j Gamma[i,j]*ray_j^alpha = %.17g for i=%s alpha=%s, expected %d '
                                '(residual %.3e, term magnitude %.3e)'
                                % (what, float(Fraction(prod[i, a], L)), rows[i], alphas[a], delta,
                                   float(Fraction(res, L)), float(Fraction(s, L))))
            if s:
                q = Fraction(res, s)
                if q > worst:
                    worst = q
    stats.err(float(worst))
    stats.event('identities=%d' % (NJ * NJ))
    if NJ <= 40:
        # history / argument-type independence (cheap pairs only): the same call again after another pair was generated,
        # and with NumPy integer arguments, must reproduce the first result bit for bit, and the arrays returned by the
        # first call must not have been touched by the later calls
        snap = (G.tobytes(), rays.tobytes(), np.asarray(J).tobytes())
        guard(exint.generate_Gamma_and_rays, 2, 3)
        G2, rays2 = guard(exint.generate_Gamma_and_rays, np.int64(N), np.int32(d))
        J2 = guard(exint.generate_multi_indices, np.int32(N), np.int64(d))
        G3, rays3 = guard(exint.generate_Gamma_and_rays, N, d)
        if (G.tobytes(), rays.tobytes(), np.asarray(J).tobytes()) != snap:
            raise Violation('%s: arrays returned by the first call were modified by later calls' % what)
        for lbl, a, b in (('Gamma (NumPy integer arguments)', G, G2), ('rays (NumPy integer arguments)', rays, rays2),
                          ('multi-indices (NumPy integer arguments)', J, J2), ('Gamma (second call)', G, G3),
                          ('rays (second call)', rays, rays3)):
            a = np.asarray(a)
            b = np.asarray(b)
            if a.shape != b.shape or not np.array_equal(a, b):
                raise Violation('%s: %s differ from the first call' % (what, lbl))
        stats.event('repeat-call-checked')


def _pair_classes(case):
    N, d = case['N'], case['d']
    return ['N=%d' % N, 'd=%d' % d, 'pairs', 'NJ<=%d' % (10 * ((math.comb(N + d - 1, d) + 9) // 10))]


def _pair_nontrivial(case):
    return case['N'] >= 2 and case['d'] >= 2


# ---------------------------------------------------------------------------
# part 2: consumers init_tensor / extract_tensor
# ---------------------------------------------------------------------------

CONSUMER_PAIRS = {
    'quick': [(N, d) for N in range(1, 7) for d in range(1, 7) if math.comb(N + d - 1, d) <= 15],
    'thorough': [(N, d) for N in range(1, 7) for d in range(1, 8) if math.comb(N + d - 1, d) <= 21],
}


def _weighted_pairs(tier):
    """sampling pool: the non-trivial pairs (N >= 2 and d >= 2) four times, the trivial ones once"""
    pool = []
    for p in CONSUMER_PAIRS[tier]:
        pool.extend([p] * (4 if p[0] >= 2 and p[1] >= 2 else 1))
    # high degrees (small ray sets only): d = 9..12 for N = 1, d = 9, 10 for N = 2
    pool.extend([(2, 9), (2, 10), (2, 9), (1, 9), (1, 10), (1, 11), (1, 12)])
    # non-trivial pairs first: Hypothesis favours the front of a sampled_from list
    pool.sort(key=lambda p: (not (p[0] >= 2 and p[1] >= 2), p))
    return pool


# ---- forms of the base point handed to UTPM.init_tensor -----------------------------------------------------------
X0_FORMS = ['f64', 'f64', 'f64', 'int64', 'int32', 'pylist', 'f32', 'strided']


def _x0_arg(case):
    """the object passed as base point: float64 / int64 / int32 / float32 ndarray, a list of Python ints, or a
    non-contiguous float64 view; the reference always uses the float64 VALUE of the point"""
    x0 = case['x0']
    form = case.get('x0_form', 'f64')
    if form == 'pylist':
        return [int(v) for v in x0]
    if form == 'strided':
        big = np.zeros(2 * len(x0))
        big[::2] = np.asarray(x0, dtype=float)
        return big[::2]
    return np.array(x0, copy=True)


def _x0_unchanged(what, arg, case):
    want = np.asarray(case['x0'], dtype=float)
    got = np.asarray(arg, dtype=float)
    if got.shape != want.shape or not np.array_equal(got, want):
        raise Violation('%s: init_tensor modified its base point argument: %r' % (what, np.asarray(arg).tolist()))


def _x0_build(form, ints=None, vals=None):
    if form in ('int64', 'int32', 'pylist'):
        return np.array(ints, dtype={'int64': np.int64, 'int32': np.int32, 'pylist': np.int64}[form])
    if form == 'f32':
        return np.array(vals, dtype=np.float32)
    return np.array(vals, dtype=float)



def _fact(al):
    p = 1
    for a in al:
        p *= math.factorial(a)
    return p


def _labels(N, d, what):
    """labels of the entries of the extracted vector = the code's multi-index list (validated as a set first)"""
    J = guard(exint.generate_multi_indices, N, d)
    return _check_multi_indices(J, N, d, what)


@functools.lru_cache(maxsize=None)
def _gamma_abs(N, d):
    """|Gamma| and the rays, used only for the error SCALE of the consumer checks (cached per (N, d))"""
    G, rays = guard(exint.generate_Gamma_and_rays, N, d)
    return np.abs(np.asarray(G, dtype=float)), np.asarray(rays, dtype=float)


def _upow(x, e):
    """x**e by repeated multiplication (only UTPM * UTPM is involved)"""
    r = x
    for _ in range(e - 1):
        r = r * x
    return r


def _poly_from_terms(N, terms):
    return ExactPoly(N, {tuple(int(e) for e in k): int(c) for k, c in terms})


def _eval_poly_utpm(x, terms):
    y = None
    for k, c in terms:
        m = None
        for i, e in enumerate(k):
            if e:
                f = _upow(x[i], e)
                m = f if m is None else m * f
        m = (float(c) * m) if m is not None else float(c)
        y = m if y is None else y + m
    if not isinstance(y, UTPM):       # constant polynomial: promote
        y = x[0] * 0.0 + y
    return y


def prop_poly(case, stats):
    N, d = int(case['N']), int(case['d'])
    x0 = np.asarray(case['x0'], dtype=float)
    x0b = None if case.get('x0b') is None else np.asarray(case['x0b'], dtype=float)
    terms = [(tuple(k), c) for k, c in case['terms']]
    what = 'poly(N=%d,d=%d,base point passed as %s)' % (N, d, case.get('x0_form', 'f64'))
    labels = _labels(N, d, what)
    p = _poly_from_terms(N, terms)
    pabs = ExactPoly(N, {k: abs(v) for k, v in p.t.items()})
    arg = _x0_arg(case)

    def run():
        # two inputs for the same (d, N) are seeded BEFORE either is used: each must keep its own base point
        x = UTPM.init_tensor(d, arg)
        xb = UTPM.init_tensor(d, x0b.copy()) if x0b is not None else None
        if xb is not None and np.shares_memory(x.data, xb.data):
            raise Violation('%s: two results of init_tensor(%d, .) share memory' % (what, d))
        snap = x.data.copy()
        y = _eval_poly_utpm(x, terms)
        yb = _eval_poly_utpm(xb, terms) if xb is not None else None
        if not np.array_equal(x.data, snap):
            raise Violation('%s: the input returned by init_tensor changed while it was in use' % what)
        vec = UTPM.extract_tensor(N, y, as_full_matrix=False)
        full = UTPM.extract_tensor(N, y) if d == 2 else None
        vecb = UTPM.extract_tensor(N, yb, as_full_matrix=False) if yb is not None else None
        # the caller scribbles on ITS input; a fresh init_tensor must be unaffected
        x.data[1] *= 0.5
        x.data[0] += 1.0
        xc = UTPM.init_tensor(d, arg)
        return vec, full, vecb, xc
    vec, full, vecb, xc = guard(run)
    _x0_unchanged(what, arg, case)
    NJ = len(labels)
    Gabs, rays = _gamma_abs(N, d)
    want = np.zeros((d + 1, NJ, N))
    want[0] = x0
    if d >= 1:
        want[1] = rays
    if not isinstance(xc, UTPM) or xc.data.shape != want.shape or not np.array_equal(np.asarray(xc.data, dtype=float), want):
        raise Violation('%s: init_tensor after the caller modified an earlier input in place does not return the base '
                        'point and the rays: data[0][0]=%r data[1][:2]=%r'
                        % (what, np.asarray(xc.data)[0][0].tolist(), np.asarray(xc.data)[min(1, d)][:2].tolist()))

    def check(vec, full, xpt, tag):
        xf = [Fraction(float(v)) for v in xpt]
        xa = [abs(v) for v in xf]
        vec = np.asarray(vec, dtype=float)
        if vec.shape != (NJ,):
            raise Violation('%s%s: extract_tensor(as_full_matrix=False) has shape %s, expected (%d,)' % (what, tag, vec.shape, NJ))
        # sum of absolute Taylor terms of degree d along each ray: sum_beta |f|_beta(|x0|) * |ray^beta|
        tay_abs = {al: pabs.diff_multi(al).eval(xa) / _fact(al) for al in labels}
        yabs = np.zeros(NJ)
        for j in range(NJ):
            sm = Fraction(0)
            for al, v in tay_abs.items():
                if v:
                    m = v
                    for rn, e in zip(rays[j], al):
                        if e:
                            m = m * Fraction(int(rn)) ** e
                    sm += abs(m)
            yabs[j] = float(sm)
        scale = Gabs.dot(yabs)
        worst = 0.0
        for i, al in enumerate(labels):
            ref = p.diff_multi(al).eval(xf) / _fact(al)
            sc = max(float(scale[i]), abs(float(ref)), 1e-300)
            if not np.isfinite(vec[i]):
                raise Violation('%s%s: entry for multi-index %s is %r, exact value %s' % (what, tag, al, vec[i], ref))
            err = abs(Fraction(float(vec[i])) - ref)
            rel = float(err) / sc
            worst = max(worst, rel)
            if rel > _tol(d):
                raise Violation('%s%s at x0=%s, terms=%s: Gamma.y_d entry for multi-index %s is %.17g, exact partial/factorial is %s '
                                '(error %.3e, term magnitude %.3e)' % (what, tag, list(map(float, xpt)), terms, al, vec[i], ref, float(err), sc))
        stats.err(worst)
        if full is not None:
            full = np.asarray(full, dtype=float)
            if full.shape != (N, N):
                raise Violation('%s: extract_tensor full matrix has shape %s' % (what, full.shape))
            for a_ in range(N):
                for b_ in range(N):
                    al = [0] * N
                    al[a_] += 1
                    al[b_] += 1
                    ref = p.diff_multi(tuple(al)).eval(xf)
                    i = labels.index(tuple(al))
                    sc = max(2 * float(scale[i]), abs(float(ref)), 1e-300)
                    if not np.isfinite(full[a_, b_]) or abs(float(Fraction(float(full[a_, b_])) - ref)) > _tol(d) * sc:
                        raise Violation('%s at x0=%s, terms=%s: Hessian entry [%d,%d] from extract_tensor is %.17g, exact %s'
                                        % (what, list(map(float, xpt)), terms, a_, b_, full[a_, b_], ref))

    check(vec, full, x0, '')
    if vecb is not None:
        check(vecb, None, x0b, ' [second input seeded before the first was used, x0b]')


# ---------------------------------------------------------------------------
# part 3: the seed matrix S of generate_Gamma_and_rays
# ---------------------------------------------------------------------------

@functools.lru_cache(maxsize=None)
def _gamma_default(N, d):
    G, rays = guard(exint.generate_Gamma_and_rays, N, d)
    return np.asarray(G).copy(), np.asarray(rays).copy()


def prop_seed(case, stats):
    """generate_Gamma_and_rays(N, d, S): rays_j = sum_k j_k S[k, :] (the rows of S are the directions attached to the
    components of the multi-index: rays = J S, S of shape (N, M)); Gamma does not depend on S; Gamma y_d is the tensor
    of g(z) = f(x0 + z S) with respect to z"""
    N, d = int(case['N']), int(case['d'])
    S = np.asarray(case['S'])
    M = S.shape[1]
    what = 'generate_Gamma_and_rays(%d, %d, S=%s %s)' % (N, d, case['kind'], S.tolist())
    labels = _labels(N, d, what)
    NJ = len(labels)
    G0, _ = _gamma_default(N, d)
    Sarg = S.tolist() if case.get('as_list') else S.copy()
    G, rays = guard(exint.generate_Gamma_and_rays, N, d, Sarg)
    G = np.asarray(G)
    rays = np.asarray(rays)
    if not case.get('as_list') and not np.array_equal(Sarg, S):
        raise Violation('%s: the seed matrix argument was modified' % what)
    if G.shape != G0.shape or not np.array_equal(G, G0):
        raise Violation('%s: Gamma differs from Gamma for S=None' % what)
    # independent: row j of the rays is sum_k j_k * S[k, :]   (exact: small integers)
    want = [[sum(int(al[k]) * Fraction(float(S[k, m])) for k in range(N)) for m in range(M)] for al in labels]
    if rays.shape != (NJ, M):
        raise Violation('%s: rays have shape %s, expected %s' % (what, rays.shape, (NJ, M)))
    for j, al in enumerate(labels):
        for m in range(M):
            if Fraction(float(rays[j, m])) != want[j][m]:
                raise Violation('%s: ray of multi-index %s is %s, expected sum_k j_k S[k,:] = %s'
                                % (what, al, rays[j].tolist(), [float(v) for v in want[j]]))
    # semantics: f polynomial on R^M, x(t) = x0 + t ray_j; Gamma y_d = partials of g(z) = f(x0 + z S) / alpha!
    terms = [(tuple(k), c) for k, c in case['terms']]
    x0 = np.asarray(case['x0'], dtype=float)

    def run():
        data = np.zeros((d + 1, NJ, M))
        data[0] = x0
        if d >= 1:
            data[1] = rays
        y = _eval_poly_utpm(UTPM(data), terms)
        return np.dot(G, y.data[d])
    vec = np.asarray(guard(run), dtype=float)
    # exact g(z): substitute x_m = x0_m + sum_k S[k,m] z_k
    xs = []
    for m in range(M):
        q = ExactPoly.const(N, Fraction(float(x0[m])))
        for k in range(N):
            q = q + ExactPoly.var(N, k) * Fraction(float(S[k, m]))
        xs.append(q)
    gpoly = ExactPoly.const(N, 0)
    gabs = ExactPoly.const(N, 0)
    xs_abs = [ExactPoly(N, {kk: abs(v) for kk, v in q.t.items()}) for q in xs]
    for k, c in terms:
        mono = ExactPoly.const(N, 1)
        mabs = ExactPoly.const(N, 1)
        for m, e in enumerate(k):
            if e:
                mono = mono * xs[m] ** e
                mabs = mabs * xs_abs[m] ** e
        gpoly = gpoly + mono * c
        gabs = gabs + mabs * abs(c)
    zero = [Fraction(0)] * N
    Gabs = np.abs(G0)
    # magnitude of the d-th Taylor coefficient along ray j, with absolute values: sum_beta |g|_beta |j^beta|
    tay_abs = {al: gabs.diff_multi(al).eval(zero) / _fact(al) for al in labels}
    yabs = np.zeros(NJ)
    for j, jl in enumerate(labels):
        sm = Fraction(0)
        for al, v in tay_abs.items():
            if v:
                mm = v
                for jn, e in zip(jl, al):
                    if e:
                        mm = mm * Fraction(int(jn)) ** e
                sm += mm
        yabs[j] = float(sm)
    scale = Gabs.dot(yabs)
    worst = 0.0
    for i, al in enumerate(labels):
        ref = gpoly.diff_multi(al).eval(zero) / _fact(al)
        sc = max(float(scale[i]), abs(float(ref)), 1e-300)
        if not np.isfinite(vec[i]):
            raise Violation('%s: Gamma.y_d entry %s is %r' % (what, al, vec[i]))
        rel = float(abs(Fraction(float(vec[i])) - ref)) / sc
        worst = max(worst, rel)
        if rel > _tol(d):
            raise Violation('%s, f terms=%s at x0=%s: Gamma.y_d entry for multi-index %s is %.17g, the partial of '
                            'g(z) = f(x0 + z S) / alpha! is %s (term magnitude %.3e)'
                            % (what, terms, x0.tolist(), al, vec[i], ref, sc))
    stats.err(worst)


def _seed_classes(case):
    S = np.asarray(case['S'])
    return ['N=%d' % case['N'], 'd=%d' % case['d'], 'seed-matrix:' + case['kind'], 'seed-matrix:M=%s' % ('N' if S.shape[1] == case['N'] else
            ('N+1' if S.shape[1] > case['N'] else 'N-1')), 'seed-matrix:passed-as-' + ('list' if case.get('as_list') else str(S.dtype))]


def _seed_nontrivial(case):
    S = np.asarray(case['S'])
    return case['N'] >= 2 and case['d'] >= 2 and not (S.shape[0] == S.shape[1] and np.array_equal(S, S.T))


SEED_PAIRS = [(2, 2), (2, 3), (3, 2), (2, 2), (2, 3), (3, 2), (3, 3), (2, 4), (4, 2), (1, 3), (2, 1), (3, 1)]


@st.composite
def seed_cases(draw, tier):
    N, d = draw(st.sampled_from(SEED_PAIRS))
    kind = draw(st.sampled_from(['nonsymmetric', 'wide', 'triangular', 'tall', 'rotation', 'symmetric', 'identity', 'nonsymmetric', 'wide']))
    ent = st.integers(-3, 3)
    if kind == 'identity':
        S = np.eye(N)
    elif kind == 'symmetric':
        A = np.array(draw(st.lists(st.lists(ent, min_size=N, max_size=N), min_size=N, max_size=N)))
        S = A + A.T
    elif kind == 'triangular':
        A = np.array(draw(st.lists(st.lists(ent.map(lambda v: v if v else 1), min_size=N, max_size=N), min_size=N, max_size=N)))
        S = np.triu(A)
        if N >= 2 and S[0, N - 1] == 0:
            S[0, N - 1] = 2
    elif kind == 'rotation':
        # a quarter turn in the plane of the first two variables (integer entries: exact)
        S = np.eye(N)
        if N >= 2:
            S[0, 0], S[0, 1], S[1, 0], S[1, 1] = 0, -1, 1, 0
    else:
        M = N + 1 if kind == 'wide' else (max(N - 1, 1) if kind == 'tall' else N)
        S = np.array(draw(st.lists(st.lists(ent, min_size=M, max_size=M), min_size=N, max_size=N)))
        if kind == 'nonsymmetric' and N >= 2 and np.array_equal(S, S.T):
            S[0, 1] += 1
    dt = draw(st.sampled_from(['float64', 'int64', 'list']))
    S = np.asarray(S, dtype=np.int64 if dt == 'int64' else float)
    M = S.shape[1]
    terms = {}
    for t in range(draw(st.integers(1, 3))):
        deg = d if t == 0 else draw(st.sampled_from([d, d + 1, max(d - 1, 0)]))
        terms[draw(_exponent(M, deg))] = draw(st.integers(-5, 5).map(lambda v: v if v else 1))
    x0 = np.array(draw(st.lists(st.integers(-2, 2), min_size=M, max_size=M)), dtype=float)
    return {'N': N, 'd': d, 'S': S, 'kind': kind, 'as_list': dt == 'list', 'x0': x0, 'terms': [(k, terms[k]) for k in sorted(terms)]}


def _poly_has_mixed(case):
    d = case['d']
    for k, c in case['terms']:
        if c and sum(k) >= d and sum(1 for e in k if e) >= 2:
            return True
    return False


def _poly_nontrivial(case):
    return case['N'] >= 2 and case['d'] >= 2 and _poly_has_mixed(case)


def _poly_classes(case):
    d = case['d']
    degs = [sum(k) for k, c in case['terms']]
    c = ['N=%d' % case['N'], 'd=%d' % d, 'consumer:poly', 'terms=%d' % len(degs), 'x0-form=' + case.get('x0_form', 'f64')]
    if case.get('x0b') is not None:
        c.append('two-inputs-seeded-before-use')
    if any(g < d for g in degs):
        c.append('has-degree<d')
    if any(g == d for g in degs):
        c.append('has-degree=d')
    if any(g > d for g in degs):
        c.append('has-degree>d')
    if _poly_has_mixed(case):
        c.append('mixed-monomial')
    if all(float(v) == round(float(v)) for v in case['x0']):
        c.append('x0-integer')
    if not np.any(np.asarray(case['x0'])):
        c.append('x0-zero')
    return c


@st.composite
def _exponent(draw, N, total):
    """composition of ``total`` into N parts, built by distributing units (construction, no rejection)"""
    e = [0] * N
    for _ in range(total):
        e[draw(st.integers(0, N - 1))] += 1
    return tuple(e)


@st.composite
def poly_cases(draw, tier):
    N, d = draw(st.sampled_from(_weighted_pairs(tier)))
    nt = draw(st.integers(1, 6))
    terms = {}
    for t in range(nt):
        # the first term has degree exactly d (so that the d-th derivative tensor is not identically zero)
        if t == 0:
            deg = d
        else:
            deg = draw(st.sampled_from([d, d, d + 1, d + 2, max(d - 1, 0), max(d - 2, 0), 0]))
        k = draw(_exponent(N, deg))
        c = draw(st.integers(-9, 9).map(lambda v: v if v else 1))
        terms[k] = c
    form = draw(st.sampled_from(X0_FORMS))
    if form in ('int64', 'int32', 'pylist'):
        x0 = _x0_build(form, ints=draw(st.lists(st.integers(-3, 3), min_size=N, max_size=N)))
    else:
        pt = st.one_of(st.integers(-3, 3).map(float), st.integers(-12, 12).map(lambda v: v / 4.0))
        x0 = _x0_build(form, vals=draw(st.lists(pt, min_size=N, max_size=N)))
    case = {'N': N, 'd': d, 'x0': x0, 'x0_form': form, 'terms': [(k, terms[k]) for k in sorted(terms)]}
    if draw(st.booleans()):
        # a second base point for the same (d, N), seeded before the first input is used
        case['x0b'] = np.array(draw(st.lists(st.integers(-12, 12).map(lambda v: v / 4.0), min_size=N, max_size=N)), dtype=float)
    return case


# ridge functions g(a . x): D^alpha f (x0) / alpha! = a^alpha / alpha! * g^(d)(a . x0)
RIDGE = {
    'exp': (algopy.exp, mpmath.exp),
    'sin': (algopy.sin, mpmath.sin),
    'cos': (algopy.cos, mpmath.cos),
    'recip1p': (lambda u: 1.0 / (1.0 + u * u), lambda u: 1 / (1 + u * u)),
}


def prop_ridge(case, stats):
    """one output g(a.x) (scalar valued y) or, with case['more'], M = 2..3 outputs g_m(a_m.x) stacked into a vector
    valued y (y.data of shape (d+1, P, M)): extract_tensor(as_full_matrix=False) then returns one column per output"""
    N, d = int(case['N']), int(case['d'])
    outs = [(case['g'], np.asarray(case['a'], dtype=float))] + [(g, np.asarray(a, dtype=float)) for g, a in case.get('more', [])]
    M = len(outs)
    x0 = np.asarray(case['x0'], dtype=float)
    what = 'ridge:%s(N=%d,d=%d,base point passed as %s)' % ('+'.join(g for g, _ in outs), N, d, case.get('x0_form', 'f64'))
    labels = _labels(N, d, what)

    arg = _x0_arg(case)

    def one(x, g, a):
        u = None
        for i in range(N):
            t = x[i] if a[i] == 1.0 else float(a[i]) * x[i]     # a_i = 1: the traced value keeps the dtype of the data
            u = t if u is None else u + t
        return RIDGE[g][0](u)

    def run():
        x = UTPM.init_tensor(d, arg)
        if M == 1:
            y = one(x, *outs[0])
        else:
            y = algopy.zeros(M, dtype=x)
            for m, (g, a) in enumerate(outs):
                y[m] = one(x, g, a)
        return UTPM.extract_tensor(N, y, as_full_matrix=False)
    vec = np.asarray(guard(run), dtype=float)
    _x0_unchanged(what, arg, case)
    want_shape = (len(labels),) if M == 1 else (len(labels), M)
    if vec.shape != want_shape:
        raise Violation('%s: extract_tensor has shape %s, expected %s' % (what, vec.shape, want_shape))
    old = mp.dps
    mp.dps = 45
    try:
        Gabs, rays = _gamma_abs(N, d)
        worst = 0.0
        for m, (g, a) in enumerate(outs):
            g_mp = RIDGE[g][1]
            col = vec if M == 1 else vec[:, m]
            u0 = mpmath.fsum([mpf(float(ai)) * mpf(float(xi)) for ai, xi in zip(a, x0)])
            gd = mpmath.diff(g_mp, u0, d) / mpmath.factorial(d)     # d-th Taylor coefficient of g at u0
            # d-th Taylor coefficient along ray j is gd * (a . ray_j)^d;  term magnitude with absolute values
            # (for sin/cos the recurrences mix both functions: the magnitude is that of the neighbouring derivatives)
            gmag = max(abs(mpmath.diff(g_mp, u0, k)) for k in (max(d - 1, 0), d, d + 1)) / mpmath.factorial(d)
            yabs = np.array([float(gmag) * float(np.abs(a).dot(np.abs(r))) ** d for r in rays])
            scale = Gabs.dot(yabs)
            for i, al in enumerate(labels):
                apow = mpf(1)
                for ai, e in zip(a, al):
                    if e:
                        apow *= mpf(float(ai)) ** e
                ref = gd * mpmath.factorial(d) / _fact(al) * apow
                if not mpmath.isfinite(ref):
                    raise Inconclusive('non-finite reference')
                sc = max(float(scale[i]), float(abs(ref)), 1e-300)
                if not np.isfinite(col[i]):
                    raise Violation('%s: entry for multi-index %s%s is %r, reference %s'
                                    % (what, al, '' if M == 1 else ' of output %d' % m, col[i], mpmath.nstr(ref, 17)))
                rel = float(abs(mpf(float(col[i])) - ref)) / sc
                worst = max(worst, rel)
                if rel > _tol(d):
                    raise Violation('%s with a=%s at x0=%s: Gamma.y_d entry for multi-index %s%s is %.17g, reference '
                                    'a^alpha/alpha! g^(d)(a.x0) = %s (term magnitude %.3e)'
                                    % (what, a.tolist(), x0.tolist(), al, '' if M == 1 else ' of output %d (%s)' % (m, g),
                                       col[i], mpmath.nstr(ref, 17), sc))
        stats.err(worst)
    finally:
        mp.dps = old


def _ridge_nontrivial(case):
    return case['N'] >= 2 and case['d'] >= 2 and sum(1 for v in case['a'] if v != 0) >= 2


def _ridge_classes(case):
    return ['N=%d' % case['N'], 'd=%d' % case['d'], 'consumer:ridge:' + case['g'], 'x0-form=' + case.get('x0_form', 'f64'),
            'ridge-outputs=%d' % (1 + len(case.get('more', [])))]


@st.composite
def ridge_cases(draw, tier):
    N, d = draw(st.sampled_from(_weighted_pairs(tier)))
    g = draw(st.sampled_from(sorted(RIDGE)))
    coef = st.one_of(st.sampled_from([1.0, -1.0, 0.5, 2.0, -0.5]), st.integers(-8, 8).map(lambda v: v / 4.0))
    a = draw(st.lists(coef, min_size=N, max_size=N))
    if not any(a):
        a[0] = 1.0
    form = draw(st.sampled_from(X0_FORMS))
    if form in ('int64', 'int32', 'pylist'):
        x0 = _x0_build(form, ints=draw(st.lists(st.integers(-2, 2), min_size=N, max_size=N)))
    else:
        x0 = _x0_build(form, vals=draw(st.lists(st.integers(-8, 8).map(lambda v: v / 8.0), min_size=N, max_size=N)))
    case = {'N': N, 'd': d, 'g': g, 'a': np.array(a, dtype=float), 'x0': x0, 'x0_form': form}
    if draw(st.integers(0, 2)) == 0:
        # vector valued y: one or two more outputs with their own g and a
        more = []
        for _ in range(draw(st.integers(1, 2))):
            a2 = draw(st.lists(coef, min_size=N, max_size=N))
            if not any(a2):
                a2[-1] = 1.0
            more.append((draw(st.sampled_from(sorted(RIDGE))), np.array(a2, dtype=float)))
        case['more'] = more
    return case


# ---------------------------------------------------------------------------

def _pair_cost(N, d):
    nj = math.comb(N + d - 1, d)
    return float(nj * nj) * float(np.prod([1.0 + d / float(N)] * N))


def buckets(tier):
    bl = []
    # the replay tier addresses pair buckets by name: register every pair of the larger bound under --replay
    for (N, d) in all_pairs(tier):
        bl.append(Bucket('pair:N=%d,d=%d' % (N, d), (lambda N=N, d=d: st.just({'N': N, 'd': d})), prop_pair,
                         {'quick': 1, 'thorough': 1}, nontrivial=_pair_nontrivial, classes=_pair_classes,
                         weight=_pair_cost(N, d)))
    for (N, d) in HIGH_DEGREE_PAIRS[tier]:
        bl.append(Bucket('pair:N=%d,d=%d' % (N, d), (lambda N=N, d=d: st.just({'N': N, 'd': d})), prop_pair,
                         {'quick': 1, 'thorough': 1}, nontrivial=_pair_nontrivial, classes=_pair_classes,
                         weight=_pair_cost(N, d)))
    bl.append(Bucket('consumer:poly', (lambda: poly_cases(tier)), prop_poly, {'quick': 60, 'thorough': 250},
                     nontrivial=_poly_nontrivial, classes=_poly_classes, shards={'quick': 4, 'thorough': 8}, weight=1.0))
    bl.append(Bucket('seed-matrix', (lambda: seed_cases(tier)), prop_seed, {'quick': 40, 'thorough': 300},
                     nontrivial=_seed_nontrivial, classes=_seed_classes, shards={'quick': 2, 'thorough': 4}, weight=1.0))
    bl.append(Bucket('consumer:ridge', (lambda: ridge_cases(tier)), prop_ridge, {'quick': 40, 'thorough': 150},
                     nontrivial=_ridge_nontrivial, classes=_ridge_classes, shards={'quick': 2, 'thorough': 6}, weight=1.0))
    return bl


def extra_evidence(tier):
    pairs = all_pairs(tier)
    return {
        'bound_C(N+d-1,d)': BOUND[tier],
        'N_max': NMAX, 'd_max': DMAX,
        'pairs_enumerated': ['(%d,%d)' % p for p in pairs],
        'pairs_count': len(pairs),
        'identities_checked_exactly': sum(math.comb(N + d - 1, d) ** 2 for N, d in pairs),
        'exhaustive_scope': 'all (N,d) with 1<=N<=%d, 1<=d<=%d, C(N+d-1,d)<=%d; for each, all pairs (i, alpha) of '
                            'multi-indices of degree d; every pair is executed in every run (one bucket each)'
                            % (NMAX, DMAX, BOUND[tier]),
        'consumer_pairs': ['(%d,%d)' % p for p in sorted(set(_weighted_pairs(tier)))],
        'high_degree_pairs_beyond_the_exhaustive_bound': ['(%d,%d)' % p for p in HIGH_DEGREE_PAIRS[tier]],
        'tolerance': {'d<=8': 1e-9, 'd=9,10': 1e-8, 'd=11,12': 1e-7},
    }
