"""C03 - reverse mode agrees with forward mode at every Taylor order.

Oracle: the duality pairing  sum_k <xbar_k, v_{d-k}> = sum_k <ybar_k, w_{d-k}>  for every d < D and every
direction, with w = F'(x(t)) v(t) obtained from FORWARD propagation alone (the 2D-shift: run the program directly
on x(t) + t^D v(t) with 2D coefficients; coefficients D..2D-1 minus those of x(t) padded are F'(x)v mod t^D).
"""
import numpy as np
from hypothesis import strategies as st

import algopy
from algopy import UTPM, CGraph, Function

from ..runner import Bucket, Violation, Inconclusive, Rejected, guard, KF
from .. import gen
from .. import prog as PG

PID = 'C03'
RULE = ('programs drawn by the concolic generator (vlib/prog.py) at K=4 probe points: single-operation buckets (one per '
        'differentiable operation family, the operation first, followed by up to 2 element-wise/arithmetic instructions) and '
        'composition buckets (2..10 instructions over all families); per case D in 1..5, P in 1..3 with a different base '
        'point per direction, dense higher coefficients, dense adjoint seed and direction polynomials; graph recorded with '
        'ndarray or UTPM inputs at a further point.  Non-trivial = D >= 2 and the program contains a non-linear operation '
        'and the seed has >= 2 non-zero orders; distinct by descriptor hash.  Further buckets: nopullback:* (operations without a pullback: '
        'raise or return a correct adjoint), op:eig (D = 1), two dependents, mixed-plain-input (one of two inputs evaluated as a plain array, '
        'P = 1: raise or correct)')
ASSUMPTIONS = [
    'F\'(x(t))v(t) comes from algopy forward mode at degree 2D (validated independently by C01/C02/C07/C08/C12)',
    'tolerance 1e-8 relative to max(1, sum of absolute values of the terms of both pairings, 1e-5 * largest intermediate Taylor coefficient of the forward reference) - the last term is the rounding floor eps*mag of the reference itself',
    'inputs satisfy the operations\' preconditions with margin at every probe point (by construction)',
    'cholesky/eigh are applied to symmetric-by-construction expressions; eig is outside the program domain (D <= 2 assert)',
]

TOL = 1e-8


def _inputs(case, D, P, pad=0, extra=None):
    """UTPM inputs: direction p has base point pts[1+p]; higher coefficients case['hi'][i]; optionally padded /
    shifted by v at orders D..2D-1"""
    out = []
    for i, p in enumerate(case['pts']):
        shape = p.shape[1:]
        data = np.zeros((D + pad, P) + shape)
        data[0] = p[1:1 + P]
        if D > 1:
            data[1:D] = case['hi'][i]
        if extra is not None:
            data[D:] = extra[i]
        out.append(data)
    return out


def _args(case, datas):
    """evaluation arguments: UTPM per input, except case['plain'] = i: input i is handed over as a plain array (a constant;
    P is 1 then, so that all inputs sit at the same probe point)"""
    pl = case.get('plain')
    return [np.array(case['pts'][i][1], dtype=float) if i == pl else UTPM(d) for i, d in enumerate(datas)]


def record(case):
    kind = case.get('rec', 'nd')
    cg = CGraph()
    fins = []
    try:
        for p in case['pts']:
            x0 = np.array(p[0], dtype=float)
            if kind == 'nd':
                fins.append(Function(x0))
            else:
                Dr, Pr = (1, 1) if kind == 'utpm11' else (2, 2)
                d = np.zeros((Dr, Pr) + x0.shape)
                d[0] = x0
                if Dr > 1:
                    d[1] = 0.5
                fins.append(Function(UTPM(d)))
        regs = PG.run(case['prog'], fins)
    finally:
        cg.trace_off()
    cg.independentFunctionList = fins
    cg.dependentFunctionList = [regs[o] for o in _outs(case)]
    return cg, fins, regs


def _outs(case):
    """output registers: one, or two dependents (the second one drawn among the other registers)"""
    return [case['out']] + ([case['out2']] if case.get('out2') is not None else [])


def forward_reference(case, D, P):
    """w = F'(x)v mod t^D by forward mode only; data array (D,P)+outshape"""
    V = case['v']
    Z = _args(case, _inputs(case, D, P, pad=D, extra=V))
    Z0 = _args(case, _inputs(case, D, P, pad=D, extra=[np.zeros_like(v) for v in V]))
    rz = PG.run(case['prog'], Z)
    r0 = PG.run(case['prog'], Z0)
    outs = _outs(case)
    # largest intermediate coefficient: the rounding error of this reference is about eps * mag, whatever the size of the result
    mag = 1.0
    for r in rz + r0:
        if isinstance(r, UTPM) and r.data.size:
            m = float(np.max(np.abs(r.data)))
            if np.isfinite(m):
                mag = max(mag, m)
    case['_mag'] = mag
    return [rz[o].data[D:] - r0[o].data[D:] for o in outs], [r0[o].data[:D] for o in outs]


def pairing(xbars, V, ybar, W, D, P, mag=1.0):
    """returns (max relative discrepancy, details)"""
    worst = (0.0, None)
    for p in range(P):
        for d in range(D):
            lhs = 0.0
            rhs = 0.0
            sc = 0.0
            for k in range(d + 1):
                for xb, v in zip(xbars, V):
                    t = xb[k, p] * v[d - k, p]
                    lhs += np.sum(t)
                    sc += np.sum(np.abs(t))
                for yb, w in zip(ybar, W):
                    t = yb[k, p] * w[d - k, p]
                    rhs += np.sum(t)
                    sc += np.sum(np.abs(t))
            if not (np.isfinite(lhs) and np.isfinite(rhs)):
                return float('inf'), (p, d, float(lhs), float(rhs))
            e = abs(lhs - rhs) / max(sc, 1.0, 1e-5 * mag)
            if e > worst[0]:
                worst = (e, (p, d, float(lhs), float(rhs)))
    return worst


def prop_pairing(case, stats):
    D, P = case['D'], case['P']
    # forward reference first (pure forward mode, direct execution); a failure here is a forward-mode matter (C01..C12)
    try:
        W, Y0 = forward_reference(case, D, P)
    except NotImplementedError as e:
        raise Rejected(str(e))
    except Exception as e:
        raise Inconclusive('forward reference failed: %s: %s' % (type(e).__name__, str(e)[:200]))
    if any(np.iscomplexobj(w) or not np.all(np.isfinite(w)) for w in W):
        raise Inconclusive('forward reference not real/finite')
    cg, fins, regs = guard(record, case)
    X = _args(case, _inputs(case, D, P))
    guard(cg.pushforward, X)
    ybar = [case['ybar']] + ([case['ybar2']] if case.get('out2') is not None else [])
    for o, y0, yb in zip(_outs(case), Y0, ybar):
        Y = regs[o].x
        if not isinstance(Y, UTPM):
            raise Violation('graph output after pushforward is %s, not a UTPM' % type(Y).__name__)
        if Y.data.shape != y0.shape:
            raise Violation('replayed output has data shape %s, direct execution %s' % (Y.data.shape, y0.shape))
        if yb.shape != Y.data.shape:
            raise Inconclusive('seed shape does not match output')
    try:
        guard(cg.pullback, [UTPM(yb.copy()) for yb in ybar])
    except Violation as v:
        if "has no attribute 'pb_" in str(v):
            # the library provides no pullback for a recorded operation and says so by raising
            raise Rejected(str(v)[:200])
        raise
    xbars = []
    for f, x in zip(fins, X):
        if not isinstance(x, UTPM):
            continue         # the plain (constant) input has no adjoint
        xb = f.xbar
        if not isinstance(xb, UTPM) or xb.data.shape != x.data.shape:
            raise Violation('input adjoint has type/shape %s %s' % (type(xb).__name__, getattr(getattr(xb, 'data', None), 'shape', None)))
        if np.iscomplexobj(xb.data):
            if np.max(np.abs(xb.data.imag)) > 1e-9 * max(1.0, np.max(np.abs(xb.data.real))):
                raise Violation('input adjoint of a real program has a non-zero imaginary part')
            xbars.append(np.array(xb.data.real))
        else:
            xbars.append(np.array(xb.data))
    V = [v for i, v in enumerate(case['v']) if i != case.get('plain')]
    e, det = pairing(xbars, V, ybar, W, D, P, mag=case.pop('_mag', 1.0))
    stats.err(e if np.isfinite(e) else 1.0)
    if e > TOL:
        p, d, lhs, rhs = det
        raise Violation('duality pairing fails at order %d, direction %d: <xbar,v> = %.12g, <ybar,F\'(x)v> = %.12g (rel. %.2e); program %s'
                        % (d, p, lhs, rhs, e, _short(case['prog'])))


def prop_no_pullback(case, stats):
    """operations without a pullback (triu, tril, minimum, maximum, ones, abs(), arcsin..tanh): recording or the sweep may
    raise (any exception is a refusal), but if adjoints ARE returned they must satisfy the pairing"""
    try:
        prop_pairing(case, stats)
    except Rejected:
        stats.event('refused:declared')
        raise
    except Violation as v:
        if str(v).startswith('raised '):
            stats.event('refused:raised')
            raise Rejected(str(v)[:200])
        raise
    stats.event('completed-with-correct-adjoint')


def _short(prog):
    s = []
    for ins in prog:
        s.append('(' + ' '.join(_fmt(a) for a in ins) + ')')
    return ' '.join(s)[:400]


def _fmt(a):
    if isinstance(a, np.ndarray):
        return 'nd%s' % (a.shape,)
    return repr(a) if not isinstance(a, str) else a


# ---------------------------------------------------------------------------

OPEN_SET_BCAST = 'KF-setitem-broadcast-reverse'
OPEN_DOT_ND = 'KF-dot-nd-reverse'

CHEAP_TAIL = ['un', 'bin', 'binc', 'neg', 'get']

SINGLE = ['un', 'kink', 'special', 'unp', 'bin', 'bcast', 'binc', 'pow', 'neg', 'get', 'T', 'reshape', 'buf', 'set', 'rmw', 'sum', 'prod', 'trace',
          'dot', 'dotc', 'outer', 'inv', 'solve', 'det', 'logdet', 'qr', 'chol', 'eigh', 'svd', 'lu', 'fft', 'tile', 'diag',
          'symvec', 'vecsym', 'cplx', 'bufdet']


@st.composite
def pairing_cases(draw, tier, first=None, families=None, max_len=8, min_len=1, allow_ones=False, Dforce=None, n_inputs=(1, 2), Pforce=None):
    allow_bcast = not KF.is_open(OPEN_SET_BCAST)
    pr = draw(PG.programs(n_inputs=n_inputs, max_len=max_len, min_len=min_len, families=families, out='any', K=4,
                          allow_set_broadcast=allow_bcast, first=first, allow_ones=allow_ones))
    Dmax = 4 if tier == 'quick' else 5
    D = draw(st.sampled_from([3, 2, 4, 3, 2] + ([5, 5] if Dmax >= 5 else []) + [1]))
    if Dforce is not None:
        D = Dforce
    P = draw(st.sampled_from([2, 1, 2, 3]))
    if Pforce is not None:
        P = Pforce
    case = dict(pr)
    case['D'], case['P'] = D, P
    dense = gen.nice_floats(-1.0, 1.0)
    case['hi'] = [draw(gen.higher_coeffs((D - 1, P) + p.shape[1:], gen.coeff_elements(1.0))) for p in pr['pts']]
    case['v'] = [draw(gen.float_array((D, P) + p.shape[1:], dense, sparse=False)) for p in pr['pts']]
    outshape = np.shape(PG.run(pr['prog'], [np.array(p[0], dtype=float) for p in pr['pts']])[pr['out']])
    case['ybar'] = draw(gen.float_array((D, P) + tuple(outshape), dense, sparse=False))
    case['rec'] = draw(st.sampled_from(['nd', 'nd', 'utpm11', 'utpm22']))
    case['out2'] = None
    if draw(st.integers(0, 3)) == 0:
        # a second dependent (documented usage: cg.dependentFunctionList = [y1, y2], cg.pullback([y1bar, y2bar]))
        regs0 = PG.run(pr['prog'], [np.array(p[0], dtype=float) for p in pr['pts']])
        nin = len(pr['pts'])
        # (dependents that alias each other - the same buffer node twice, or a view of the other dependent - are not generated:
        #  seeding assigns f.xbar[...] = seed per dependent, which is only meaningful for distinct storage)
        ru = PG.run(pr['prog'], [UTPM(np.array(p[0], dtype=float).reshape((1, 1) + p.shape[1:])) for p in pr['pts']])
        main = ru[pr['out']]
        c = [q for q in range(nin, len(regs0)) if q != pr['out'] and not np.iscomplexobj(regs0[q]) and pr['prog'][q - nin][0] not in ('set', 'setc')
             and isinstance(ru[q], UTPM) and isinstance(main, UTPM) and not np.shares_memory(ru[q].data, main.data)]
        if c:
            o2 = draw(st.sampled_from(c))
            case['out2'] = o2
            case['ybar2'] = draw(gen.float_array((D, P) + tuple(np.shape(regs0[o2])), dense, sparse=False))
    return case


@st.composite
def mixed_cases(draw, tier):
    """two inputs, one of them evaluated as a plain array (a parameter held constant) - the pullbacks then see plain operands
    on either side of every binary operation"""
    fams = [f for f in PG.FAMILIES_ALL if f not in ('buf', 'set', 'rmw')]      # (a buffer typed after the plain input cannot hold polynomials)
    case = draw(pairing_cases(tier, families=fams, max_len=6, min_len=1, n_inputs=(2, 2), Pforce=1))
    case['out2'] = None
    for i in draw(st.permutations([0, 1])):
        case['plain'] = i
        try:
            y = PG.run(case['prog'], _args(case, _inputs(case, case['D'], 1)))[case['out']]
        except Exception:
            y = None
        if isinstance(y, UTPM):
            return case
    case['plain'] = None
    return case


def _nontrivial(case):
    if case['D'] < 2:
        return False
    if 'nonlinear' not in PG.features(case):
        return False
    yb = case['ybar']
    return sum(1 for k in range(yb.shape[0]) if np.any(yb[k] != 0)) >= 2


def _classes(case):
    c = ['D=%d' % case['D'], 'P=%d' % case['P'], 'rec=' + case['rec']] + (['two-dependents'] if case.get('out2') is not None else [])
    if case.get('plain') is not None:
        c.append('plain-input=%d' % case['plain'])
    c += [f for f in PG.features(case)]
    return c


def buckets(tier):
    bl = []
    # dot with operands of rank > 2 in reverse mode is an open known finding: generated only once it is fixed
    single = SINGLE + ([] if KF.is_open(OPEN_DOT_ND) else ['dotnd'])
    for fam in single:
        bl.append(Bucket('op:' + fam,
                         (lambda fam=fam: pairing_cases(tier, first=fam, families=CHEAP_TAIL, max_len=3, min_len=1)),
                         prop_pairing, {'quick': 300 if fam in ('fft', 'set', 'rmw', 'reshape', 'bcast', 'pow') else 150, 'thorough': 800},
                         nontrivial=_nontrivial, classes=_classes,
                         weight=3.0 if fam in ('special', 'unp', 'eigh', 'svd', 'fft') else 1.0))
    # (minimum/maximum of tracer nodes fall through to numpy.minimum on objects, which *selects one operand at recording time*:
    #  data-dependent control flow, outside the property's domain of straight-line programs)
    for fam in [f for f in PG.FAMILIES_FWD_ONLY if f != 'minmax'] + ['ones']:
        if fam == 'ones':
            strat = (lambda: pairing_cases(tier, first='buf', families=CHEAP_TAIL, max_len=3, allow_ones=True))
        else:
            strat = (lambda fam=fam: pairing_cases(tier, first=fam, families=CHEAP_TAIL, max_len=3))
        bl.append(Bucket('nopullback:' + fam, strat, prop_no_pullback, {'quick': 15, 'thorough': 200},
                         nontrivial=_nontrivial, classes=_classes))
    # eig: algopy supports first-order polynomials only (assert D <= 2) and the forward reference needs 2D coefficients: D = 1
    bl.append(Bucket('op:eig', (lambda: pairing_cases(tier, first='eig', families=CHEAP_TAIL, max_len=3, Dforce=1)), prop_pairing,
                     {'quick': 30, 'thorough': 300}, nontrivial=(lambda case: 'nonlinear' in PG.features(case) and case['P'] >= 2),
                     classes=_classes))
    # (C03 quantifies over Taylor curves for EVERY input; an evaluation with a plain array among the inputs is an extension in which
    #  several pullbacks have no branch for a plain operand and say so by raising - asserted: raises, or returns correct adjoints)
    bl.append(Bucket('mixed-plain-input', (lambda: mixed_cases(tier)), prop_no_pullback, {'quick': 200, 'thorough': 1500},
                     nontrivial=(lambda case: case.get('plain') is not None and _nontrivial(case)), classes=_classes,
                     shards={'quick': 4, 'thorough': 8}, weight=3.0))
    bl.append(Bucket('compose', (lambda: pairing_cases(tier, max_len=10, min_len=2)), prop_pairing,
                     {'quick': 150, 'thorough': 2000}, nontrivial=_nontrivial, classes=_classes,
                     shards={'quick': 16, 'thorough': 16}, weight=4.0))
    return bl
