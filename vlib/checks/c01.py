"""C01 - elementary functions return the Taylor coefficients of f(x(t)).

Oracle: arbitrary-precision numerical differentiation (mpmath.taylor) of the
composed scalar function t -> f(x(t)); no series recurrences.
"""
import operator
import numpy as np
import mpmath
from hypothesis import strategies as st

import algopy
from algopy import UTPM

from ..runner import Bucket, Violation, Inconclusive, Rejected, guard
from .. import gen
from ..oracles import mp_taylor, mp_taylor_multi

PID = 'C01'
RULE = ('one bucket per overloaded function (and entry point family); cases = (function, entry point, D, P, shape, '
        'coefficient array) drawn by Hypothesis with zeroth coefficients inside the domain of smoothness (independent per '
        'direction/element) and dense or sparse higher coefficients; non-trivial = D >= 3 and some x_1 != 0 and some '
        'x_k != 0 for k >= 2 (convolution terms contribute); distinct by descriptor hash.  Further bucket kinds: pow:* (integer, '
        'negative, real, reflected, polynomial exponents), kink:* (abs/sign/min/max/clip away from the kink), largeD:* (D up to 28), memory '
        'layouts C/F/transposed view, tiny:* (|x_0| = 1e-5..1e-100, zeroth coefficient relative to its own size), recall:* (same object '
        'evaluated again after an in-place update; non-trivial there = D >= 2 and the update changes the coefficients)')
ASSUMPTIONS = [
    'mpmath numerical differentiation at >= 50 digits is the reference for d^d/dt^d f(x(t))',
    'tolerance 1e-9 (hyperu 1e-6) relative to max(1, max_{k<=d}|ref_k|); inputs keep a margin from singularities/kinks',
    'numpy.<f>(UTPM) raises ValueError on this NumPy for every ufunc; not part of the statement, not asserted',
    'up to 6 scalar positions (p, element) per case are compared against the oracle; D <= 6 quick, <= 10 thorough',
    'largeD buckets: D in {12,...,28} on scalar series with |x_1| = 0.5..0.9 of the distance to the nearest singularity; reference = mpmath scaled derivatives of f at x_0 (numerical differentiation of f, or mpmath psi/hyperu at shifted parameters) composed with exact truncated powers of x(t)-x_0 in multiprecision',
]

pi = mpmath.pi


def _dawsn(x):
    return mpmath.sqrt(mpmath.pi) / 2 * mpmath.exp(-x * x) * mpmath.erfi(x)


# name -> (algopy callable on UTPM, mp function, real domain strategy, complex (re, im) domain or None, tol)
R = gen.interval_union
UNARY = {
    'exp': (lambda x: algopy.exp(x), mpmath.exp, R((-3, 3)), (R((-2, 2)), R((-2, 2))), 1e-9),
    'expm1': (lambda x: algopy.expm1(x), mpmath.expm1, R((-3, 3)), (R((-2, 2)), R((-2, 2))), 1e-9),
    'log': (lambda x: algopy.log(x), mpmath.log, R((0.2, 4)), (R((0.3, 3)), R((-1, 1))), 1e-9),
    'log1p': (lambda x: algopy.log1p(x), mpmath.log1p, R((-0.7, 3)), (R((-0.5, 3)), R((-1, 1))), 1e-9),
    'sqrt': (lambda x: algopy.sqrt(x), mpmath.sqrt, R((0.2, 4)), (R((0.3, 3)), R((-1, 1))), 1e-9),
    'sin': (lambda x: algopy.sin(x), mpmath.sin, R((-3, 3)), (R((-2, 2)), R((-1, 1))), 1e-9),
    'cos': (lambda x: algopy.cos(x), mpmath.cos, R((-3, 3)), (R((-2, 2)), R((-1, 1))), 1e-9),
    'tan': (lambda x: algopy.tan(x), mpmath.tan, R((-1.2, 1.2)), (R((-1, 1)), R((-1, 1))), 1e-9),
    'arcsin': (lambda x: algopy.arcsin(x), mpmath.asin, R((-0.8, 0.8)), (R((-0.6, 0.6)), R((-0.5, 0.5))), 1e-9),
    'arccos': (lambda x: algopy.arccos(x), mpmath.acos, R((-0.8, 0.8)), (R((-0.6, 0.6)), R((-0.5, 0.5))), 1e-9),
    'arctan': (lambda x: algopy.arctan(x), mpmath.atan, R((-3, 3)), (R((-2, 2)), R((-0.5, 0.5))), 1e-9),
    'sinh': (lambda x: algopy.sinh(x), mpmath.sinh, R((-2, 2)), (R((-2, 2)), R((-1, 1))), 1e-9),
    'cosh': (lambda x: algopy.cosh(x), mpmath.cosh, R((-2, 2)), (R((-2, 2)), R((-1, 1))), 1e-9),
    'tanh': (lambda x: algopy.tanh(x), mpmath.tanh, R((-2, 2)), (R((-2, 2)), R((-0.8, 0.8))), 1e-9),
    'reciprocal': (lambda x: algopy.reciprocal(x), lambda x: 1 / x, R((0.25, 4), (-4, -0.25)), (R((0.3, 3), (-3, -0.3)), R((-1, 1))), 1e-9),
    'square': (lambda x: algopy.square(x), lambda x: x * x, R((-3, 3)), (R((-2, 2)), R((-2, 2))), 1e-9),
    'erf': (lambda x: algopy.special.erf(x), mpmath.erf, R((-2, 2)), (R((-1.5, 1.5)), R((-1, 1))), 1e-9),
    'erfi': (lambda x: algopy.special.erfi(x), mpmath.erfi, R((-2, 2)), (R((-1.5, 1.5)), R((-1, 1))), 1e-9),
    'dawsn': (lambda x: algopy.special.dawsn(x), _dawsn, R((-2, 2)), (R((-1.5, 1.5)), R((-1, 1))), 1e-9),
    'logit': (lambda x: algopy.special.logit(x), lambda x: mpmath.log(x / (1 - x)), R((0.1, 0.9)), None, 1e-9),
    'expit': (lambda x: algopy.special.expit(x), lambda x: 1 / (1 + mpmath.exp(-x)), R((-3, 3)), None, 1e-9),
    'gammaln': (lambda x: algopy.special.gammaln(x), mpmath.loggamma, R((0.3, 5)), None, 1e-9),
    'psi': (lambda x: algopy.special.psi(x), lambda x: mpmath.psi(0, x), R((0.3, 5)), None, 1e-9),
}

# the same functions reached through the UTPM class / instance instead of the module level dispatcher
METHOD = {
    'exp': lambda x: x.exp(), 'expm1': lambda x: x.expm1(), 'log': lambda x: x.log(), 'log1p': lambda x: x.log1p(),
    'sqrt': lambda x: x.sqrt(), 'sin': lambda x: x.sin(), 'cos': lambda x: x.cos(), 'tan': lambda x: x.tan(),
    'arcsin': lambda x: x.arcsin(), 'arccos': lambda x: x.arccos(), 'arctan': lambda x: x.arctan(),
    'sinh': lambda x: x.sinh(), 'cosh': lambda x: x.cosh(), 'tanh': lambda x: x.tanh(),
    'reciprocal': lambda x: UTPM.reciprocal(x), 'square': lambda x: UTPM.square(x),
    'erf': lambda x: UTPM.erf(x), 'erfi': lambda x: UTPM.erfi(x), 'dawsn': lambda x: UTPM.dawsn(x),
    'logit': lambda x: UTPM.logit(x), 'expit': lambda x: UTPM.expit(x), 'gammaln': lambda x: UTPM.gammaln(x),
    'psi': lambda x: UTPM.psi(x),
}

SLOW = {'gammaln', 'psi', 'polygamma', 'hyperu', 'erf', 'erfi', 'dawsn'}


def _positions(case, x):
    """(p, idx) pairs compared against the oracle"""
    P = x.shape[1]
    shape = x.shape[2:]
    allpos = [(p,) + idx for p in range(P) for idx in np.ndindex(*shape)]
    sel = case.get('pos')
    if sel is None or len(allpos) <= 6:
        return allpos[:6] if len(allpos) <= 6 else allpos[:6]
    return [allpos[i % len(allpos)] for i in sel]


def _compare(got, ref, tol, stats, what):
    got = np.asarray(got)
    ref = np.asarray(ref)
    if not np.all(np.isfinite(ref)):
        raise Inconclusive('non-finite reference')
    run = np.maximum.accumulate(np.abs(ref))
    scale = np.maximum(1.0, run)
    if got.shape != ref.shape:
        raise Violation('%s: shape %s != %s' % (what, got.shape, ref.shape))
    err = np.abs(got - ref) / scale
    if not np.all(np.isfinite(got)):
        raise Violation('%s: non-finite result %r, reference %r' % (what, got.tolist(), ref.tolist()))
    e = float(err.max()) if err.size else 0.0
    stats.err(e)
    if e > tol:
        d = int(np.argmax(err))
        raise Violation('%s: coefficient %d is %r, reference %r (rel. err %.2e > %.0e)' % (what, d, got[d].item(), ref[d].item(), e, tol))


def _operand(case, x):
    """the UTPM operand in the memory layout the case asks for: C-contiguous copy, Fortran-ordered copy, or a transposed view
    x.T of a polynomial whose coefficients are stored transposed (same values, other strides)"""
    lay = case.get('layout', 'C')
    if lay == 'F':
        return UTPM(np.asfortranarray(x.copy()))
    if lay == 'T' and x.ndim >= 4:
        axes = (0, 1) + tuple(range(x.ndim - 1, 1, -1))
        y = UTPM(np.ascontiguousarray(x.transpose(axes)))     # coefficients stored transposed
        return y.T                                             # a view with the values and shape of x
    return UTPM(x.copy())


def prop_unary(case, stats):
    name = case['f']
    call, fmp, _, _, tol = UNARY[name]
    if case['entry'] == 'method':
        call = METHOD[name]
    x = case['x']
    y = guard(call, _operand(case, x))
    if not isinstance(y, UTPM):
        raise Violation('%s returned %s' % (name, type(y).__name__))
    if y.data.shape != x.shape:
        raise Violation('%s: result data shape %s, input %s' % (name, y.data.shape, x.shape))
    for pos in _positions(case, x):
        sl = (slice(None),) + pos
        ref = mp_taylor(fmp, list(x[sl]))
        _compare(y.data[sl], ref, tol, stats, '%s(%s)[p=%d,idx=%s]' % (name, case['entry'], pos[0], pos[1:]))


def _classes(case):
    x = case['x']
    if case.get('f') == 'botched_clip':
        inside = (x[0] > case['lo']) & (x[0] < case['hi'])
        extra = ['clip:all-inside' if inside.all() else ('clip:all-outside' if not inside.any() else 'clip:mixed')]
    else:
        extra = []
    return extra + _classes0(case)


def _classes0(case):
    x = case['x']
    c = ['D=%d' % x.shape[0], 'P=%d' % x.shape[1], 'rank=%d' % (x.ndim - 2), 'pattern=' + gen.pattern_class(x)]
    if np.iscomplexobj(x):
        c.append('complex')
    if gen.distinct_bases(x):
        c.append('distinct-bases')
    c.append('entry=' + str(case.get('entry')))
    c.append('layout=' + str(case.get('layout', 'C')))
    return c


def _nontrivial(case):
    x = case['x']
    return x.shape[0] >= 3 and np.any(x[1] != 0) and np.any(x[2:] != 0)


def _Dmax(tier, name):
    if tier == 'quick':
        return 5 if name in SLOW else 6
    return 8 if name in SLOW else 10


@st.composite
def unary_cases(draw, name, tier):
    _, _, dom, cdom, _ = UNARY[name]
    D, P = draw(gen.dims(Dmax=_Dmax(tier, name), Pmax=4))
    shape = draw(gen.shapes(max_rank=3, max_side=3))
    cplx = cdom is not None and draw(st.integers(0, 3)) == 0
    if cplx:
        x = draw(gen.utpm_data(D, P, shape, cdom[0], cplx=True, base_im=cdom[1]))
    else:
        x = draw(gen.utpm_data(D, P, shape, dom))
    if P > 1 and draw(st.integers(0, 4)) == 0:
        # neighbouring base points: the directions differ by a relative 1e-7 .. 1e-12 only (still different points)
        eps = draw(st.sampled_from([1e-6, 1e-7, 1e-9, 1e-12]))
        for p in range(1, P):
            x[0, p] = x[0, 0] * (1.0 + eps * p) + (eps * p if not cplx else 0.0) * (x[0, 0] == 0)
    entry = draw(st.sampled_from(['global', 'global', 'method']))
    n = P * int(np.prod(shape, dtype=int))
    pos = None
    if n > 6:
        pos = draw(st.lists(st.integers(0, n - 1), min_size=4, max_size=4, unique=True))
    return {'f': name, 'entry': entry, 'x': x, 'pos': pos, 'layout': draw(st.sampled_from(['C', 'C', 'F', 'T']))}


# ---------------------------------------------------------------------------
# functions with parameters
# ---------------------------------------------------------------------------

def prop_param(case, stats):
    """polygamma(m, x), hyperu(a, b, x)"""
    name = case['f']
    x = case['x']
    if name == 'polygamma':
        m = case['m']
        call = (lambda X: algopy.special.polygamma(m, X)) if case['entry'] == 'global' else (lambda X: UTPM.polygamma(m, X))
        fmp = lambda t: mpmath.psi(m, t)
        tol = 1e-9
    elif name == 'hyperu':
        a, b = case['a'], case['b']
        call = (lambda X: algopy.special.hyperu(a, b, X)) if case['entry'] == 'global' else (lambda X: UTPM.hyperu(a, b, X))
        fmp = lambda t: mpmath.hyperu(a, b, t)
        tol = 1e-6
    else:
        raise KeyError(name)
    y = guard(call, UTPM(x.copy()))
    if y.data.shape != x.shape:
        raise Violation('%s: result data shape %s, input %s' % (name, y.data.shape, x.shape))
    for pos in _positions(case, x)[:3]:
        sl = (slice(None),) + pos
        ref = mp_taylor(fmp, list(x[sl]))
        _compare(y.data[sl], ref, tol, stats, '%s[p=%d,idx=%s]' % (name, pos[0], pos[1:]))


@st.composite
def param_cases(draw, name, tier):
    D, P = draw(gen.dims(Dmax=5 if tier == 'quick' else 7, Pmax=3))
    shape = draw(gen.shapes(max_rank=2, max_side=2))
    entry = draw(st.sampled_from(['global', 'method']))
    case = {'f': name, 'entry': entry, 'pos': None}
    if name == 'polygamma':
        case['m'] = draw(st.integers(0, 3))
        case['x'] = draw(gen.utpm_data(D, P, shape, R((0.4, 5)), mag=0.5))
    else:
        case['a'] = draw(st.sampled_from([0.5, 1.0, 1.5, 2.0, 2.5, -0.5, -1.5]))      # (negative non-integer a: the rising factorial (a)_n changes sign)
        case['b'] = draw(st.sampled_from([0.5, 1.5, 2.5, 0.75, 3.25]))
        case['x'] = draw(gen.utpm_data(D, P, shape, R((0.5, 4)), mag=0.5))
    if P > 1 and draw(st.integers(0, 3)) == 0:
        eps = draw(st.sampled_from([1e-6, 1e-7, 1e-9]))       # neighbouring (still different) base points per direction
        for p in range(1, P):
            case['x'][0, p] = case['x'][0, 0] * (1.0 + eps * p)
    return case


# ---------------------------------------------------------------------------
# powers
# ---------------------------------------------------------------------------

def prop_pow(case, stats):
    kind = case['kind']
    x = case['x']
    X = _operand(case, x)
    if kind in ('int', 'negint', 'real'):
        r = case['r']
        via = case['entry']
        if via == 'operator':
            y = guard(operator.pow, X, r)
        else:
            y = guard(lambda a, b: a.__pow__(b), X, r)
        fmp = lambda t: t ** r
        series = lambda sl: mp_taylor(fmp, list(x[sl]))
    elif kind == 'rpow':
        r = case['r']
        y = guard(operator.pow, r, X)
        series = lambda sl: mp_taylor(lambda t: mpmath.mpf(r) ** t, list(x[sl]))
    elif kind == 'xy':
        yd = case['y']
        y = guard(operator.pow, X, UTPM(yd.copy()))
        series = lambda sl: mp_taylor_multi(lambda s, t: s ** t, [list(x[sl]), list(yd[sl])], x.shape[0])
    else:
        raise KeyError(kind)
    if not isinstance(y, UTPM):
        raise Violation('pow returned %s' % type(y).__name__)
    if y.data.shape != x.shape:
        raise Violation('pow(%s): result data shape %s, input %s' % (kind, y.data.shape, x.shape))
    for pos in _positions(case, x):
        sl = (slice(None),) + pos
        _compare(y.data[sl], series(sl), 1e-9, stats, 'pow[%s r=%r][p=%d,idx=%s]' % (kind, case.get('r'), pos[0], pos[1:]))


@st.composite
def pow_cases(draw, kind, tier):
    D, P = draw(gen.dims(Dmax=6 if tier == 'quick' else 10, Pmax=4))
    shape = draw(gen.shapes(max_rank=2, max_side=3))
    case = {'kind': kind, 'pos': None, 'entry': draw(st.sampled_from(['operator', 'method'])), 'layout': draw(st.sampled_from(['C', 'C', 'F', 'T']))}
    if kind == 'int':
        case['r'] = draw(st.sampled_from([2, 3, 4, 5, 6, 7, 8, 10, 12, 0, 1, 9, 11]))
        base = st.one_of(R((-1.5, 1.5)), st.sampled_from([0.0, 1.0, -1.0, 1.5]))
        case['x'] = draw(gen.utpm_data(D, P, shape, base))
    elif kind == 'negint':
        case['r'] = draw(st.integers(-4, -1))
        case['x'] = draw(gen.utpm_data(D, P, shape, R((0.3, 3), (-3, -0.3))))
    elif kind == 'real':
        case['r'] = draw(st.one_of(st.sampled_from([0.5, -0.5, 1.5, 2.0, 3.0, -1.0, 0.25]), gen.nice_floats(-3, 3)))
        case['x'] = draw(gen.utpm_data(D, P, shape, R((0.3, 3))))
    elif kind == 'rpow':
        case['r'] = draw(st.one_of(st.sampled_from([2.0, 0.5, 3, 2]), gen.nice_floats(0.2, 4)))
        case['x'] = draw(gen.utpm_data(D, P, shape, R((-2, 2))))
    elif kind == 'xy':
        case['x'] = draw(gen.utpm_data(D, P, shape, R((0.3, 3))))
        case['y'] = draw(gen.utpm_data(D, P, shape, R((-2, 2))))
    n = P * int(np.prod(shape, dtype=int))
    if n > 6:
        case['pos'] = draw(st.lists(st.integers(0, n - 1), min_size=4, max_size=4, unique=True))
    return case


# ---------------------------------------------------------------------------
# kink functions away from their kinks: the reference is the selected smooth branch
# ---------------------------------------------------------------------------

def prop_kink(case, stats):
    name = case['f']
    x = case['x']
    X = UTPM(x.copy())
    if name in ('absolute', 'abs', 'fabs'):
        if name == 'absolute':
            y = guard(algopy.absolute, X)
        elif name == 'abs':
            y = guard(abs, X)
        else:
            y = guard(lambda a: a.fabs(), X)
        ref = x * np.sign(x[0])[None]
    elif name == 'sign':
        y = guard(algopy.sign, X)
        ref = np.zeros_like(x)
        ref[0] = np.sign(x[0])
    elif name in ('minimum', 'maximum'):
        yd = case['y']
        y = guard(getattr(algopy, name), X, UTPM(yd.copy()))
        pick_x = (x[0] < yd[0]) if name == 'minimum' else (x[0] > yd[0])
        ref = np.where(pick_x[None], x, yd)
    elif name == 'botched_clip':
        lo, hi = case['lo'], case['hi']
        y = guard(algopy.special.botched_clip, lo, hi, X)
        inside = (x[0] > lo) & (x[0] < hi)
        ref = np.where(inside[None], x, 0.0)
        ref[0] = np.clip(x[0], lo, hi)
    else:
        raise KeyError(name)
    if not isinstance(y, UTPM):
        raise Violation('%s returned %s' % (name, type(y).__name__))
    if y.data.shape != ref.shape:
        raise Violation('%s: result data shape %s, expected %s' % (name, y.data.shape, ref.shape))
    if not np.array_equal(y.data, ref):
        bad = np.argwhere(y.data != ref)[0]
        raise Violation('%s: coefficient at %s is %r, smooth branch gives %r' % (name, tuple(bad), y.data[tuple(bad)].item(), ref[tuple(bad)].item()))


@st.composite
def kink_cases(draw, name, tier):
    D, P = draw(gen.dims(Dmax=6 if tier == 'quick' else 10, Pmax=4))
    shape = draw(gen.shapes(max_rank=3, max_side=3))
    case = {'f': name}
    away = R((0.05, 3), (-3, -0.05))
    if name in ('absolute', 'abs', 'fabs', 'sign'):
        case['x'] = draw(gen.utpm_data(D, P, shape, away))
        if draw(st.integers(0, 3)) == 0:
            # tiny but non-zero base points are NOT the kink: |x| has slope +-1 there, whatever the magnitude
            case['x'][0] *= draw(st.sampled_from([1e-6, 1e-9, 1e-12, 1e-30]))
    elif name in ('minimum', 'maximum'):
        x = draw(gen.utpm_data(D, P, shape, R((-3, 3))))
        delta = draw(gen.float_array((1, P) + tuple(shape), away, sparse=False))
        y = draw(gen.utpm_data(D, P, shape, R((0, 0))))
        y[0] = x[0] + delta[0]
        case['x'], case['y'] = x, y
    else:
        lo = draw(gen.nice_floats(-2, 1))
        hi = lo + draw(gen.nice_floats(0.5, 3))
        case['lo'], case['hi'] = lo, hi
        # base points at distance >= 0.05 from both bounds; the region (below / inside / above) is drawn explicitly per element
        # (mapping one float interval onto the three regions would sit at the interval's ends almost always)
        def place(region, u):
            if region == 0:
                return lo - 0.05 - 2 * u
            if region == 1:
                return lo + 0.05 + u * (hi - lo - 0.1)
            return hi + 0.05 + 2 * u
        base = st.tuples(st.sampled_from([1, 0, 2, 1]), gen.nice_floats(0.0, 1.0)).map(lambda t: place(*t))
        x = draw(gen.utpm_data(D, P, shape, base))
        case['x'] = x
    return case


# ---------------------------------------------------------------------------
# large numbers of coefficients (the statement says "any number of coefficients D")
# ---------------------------------------------------------------------------

def _seq_generic(fmp):
    return lambda x0, D: mpmath.taylor(fmp, x0, D - 1)


LARGE = {
    'exp': (UNARY['exp'][0], _seq_generic(mpmath.exp), R((-1, 1))),
    'log': (UNARY['log'][0], _seq_generic(mpmath.log), R((0.8, 3))),
    'sqrt': (UNARY['sqrt'][0], _seq_generic(mpmath.sqrt), R((0.8, 3))),
    'sin': (UNARY['sin'][0], _seq_generic(mpmath.sin), R((-2, 2))),
    'cos': (UNARY['cos'][0], _seq_generic(mpmath.cos), R((-2, 2))),
    'tan': (UNARY['tan'][0], _seq_generic(mpmath.tan), R((-0.5, 0.5))),
    'arctan': (UNARY['arctan'][0], _seq_generic(mpmath.atan), R((-0.4, 0.4))),
    'tanh': (UNARY['tanh'][0], _seq_generic(mpmath.tanh), R((-0.5, 0.5))),
    'reciprocal': (UNARY['reciprocal'][0], _seq_generic(lambda x: 1 / x), R((0.8, 3))),
    'expm1': (UNARY['expm1'][0], _seq_generic(mpmath.expm1), R((-1, 1))),
    'log1p': (UNARY['log1p'][0], _seq_generic(mpmath.log1p), R((0.0, 2))),
    'logit': (UNARY['logit'][0], _seq_generic(lambda x: mpmath.log(x / (1 - x))), R((0.35, 0.65))),
    'expit': (UNARY['expit'][0], _seq_generic(lambda x: 1 / (1 + mpmath.exp(-x))), R((-1, 1))),
    'pow3': (lambda x: x ** 3, _seq_generic(lambda x: x ** 3), R((-1.5, 1.5))),
    'pow7': (lambda x: x ** 7, _seq_generic(lambda x: x ** 7), R((-1.2, 1.2))),
    'pow-2': (lambda x: x ** -2, _seq_generic(lambda x: x ** -2), R((0.8, 3))),
    'pow1.5': (lambda x: x ** 1.5, _seq_generic(lambda x: x ** mpmath.mpf('1.5')), R((0.8, 3))),
    'square': (UNARY['square'][0], _seq_generic(lambda x: x * x), R((-1.5, 1.5))),
    'gammaln': (UNARY['gammaln'][0],
                lambda x0, D: [mpmath.loggamma(x0)] + [mpmath.psi(k - 1, x0) / mpmath.factorial(k) for k in range(1, D)], R((1.0, 4))),
    'psi': (UNARY['psi'][0], lambda x0, D: [mpmath.psi(k, x0) / mpmath.factorial(k) for k in range(D)], R((1.0, 4))),
    'polygamma1': (lambda x: algopy.special.polygamma(1, x),
                   lambda x0, D: [mpmath.psi(1 + k, x0) / mpmath.factorial(k) for k in range(D)], R((1.0, 4))),
    'hyperu': (lambda x: algopy.special.hyperu(1.5, 0.5, x),
               lambda x0, D: [(-1) ** k * mpmath.rf(1.5, k) * mpmath.hyperu(1.5 + k, 0.5 + k, x0) / mpmath.factorial(k) for k in range(D)],
               R((1.5, 4))),
}


# distance from x_0 to the nearest singularity of f (entire functions: a nominal 1.5): x_1 is drawn as a fraction 0.5..0.9 of it,
# so that the contribution of the k-th derivative to coefficient k decays only like 0.9^k and stays visible at k > 20
RADIUS = {
    'exp': lambda x0: 1.5,
    'log': lambda x0: abs(x0),
    'sqrt': lambda x0: abs(x0),
    'sin': lambda x0: 1.5,
    'cos': lambda x0: 1.5,
    'tan': lambda x0: np.pi / 2 - abs(x0),
    'arctan': lambda x0: np.sqrt(1 + x0 * x0),
    'tanh': lambda x0: np.pi / 2,
    'reciprocal': lambda x0: abs(x0),
    'expm1': lambda x0: 1.5,
    'log1p': lambda x0: 1 + x0,
    'logit': lambda x0: min(x0, 1 - x0),
    'expit': lambda x0: np.pi,
    'gammaln': lambda x0: x0,
    'psi': lambda x0: x0,
    'polygamma1': lambda x0: x0,
    'hyperu': lambda x0: x0,
    'pow3': lambda x0: 1.0, 'pow7': lambda x0: 1.0, 'square': lambda x0: 1.0, 'pow-2': lambda x0: abs(x0), 'pow1.5': lambda x0: abs(x0),
}


def prop_large(case, stats):
    from ..oracles import mp_compose
    name = case['f']
    call, seq, _ = LARGE[name]
    x = case['x']
    y = guard(call, UTPM(x.copy()))
    if not isinstance(y, UTPM) or y.data.shape != x.shape:
        raise Violation('%s: result type/shape' % name)
    for p in range(x.shape[1]):
        ref = mp_compose(seq, list(x[:, p]))
        _compare(y.data[:, p], ref, 1e-6 if name == 'hyperu' else 1e-9, stats, '%s[D=%d, p=%d]' % (name, x.shape[0], p))


@st.composite
def large_cases(draw, name, tier):
    D = draw(st.sampled_from([24, 16, 28, 12, 20] if tier == 'thorough' else [24, 16, 12]))
    P = draw(st.sampled_from([1, 2]))
    dom = LARGE[name][2]
    x = np.zeros((D, P))
    x[0] = draw(gen.float_array((P,), dom, sparse=False))
    ratio = draw(gen.float_array((P,), gen.interval_union((0.5, 0.9), (-0.9, -0.5)), sparse=False))
    x[1] = ratio * np.array([RADIUS[name](v) for v in x[0]])
    for k in draw(st.lists(st.integers(2, D - 1), max_size=2, unique=True)):
        x[k] = draw(gen.float_array((P,), gen.nice_floats(-0.05, 0.05), sparse=False))
    return {'f': name, 'x': x, 'entry': 'global', 'pos': None}


# ---------------------------------------------------------------------------
# tiny base points: the zeroth coefficient must be accurate RELATIVE to its own size (f(x0) ~ x0 for these functions;
# the max(1, .) scale of the other buckets would hide a zeroth coefficient computed by a cancelling formula)
# ---------------------------------------------------------------------------

TINY = ['expm1', 'log1p', 'sin', 'tan', 'arcsin', 'arctan', 'sinh', 'tanh', 'erf', 'erfi', 'dawsn', 'square']
TOL_TINY = 1e-13


def prop_tiny(case, stats):
    name = case['f']
    call, fmp, _, _, tol = UNARY[name]
    if case['entry'] == 'method':
        call = METHOD[name]
    x = case['x']
    y = guard(call, UTPM(x.copy()))
    if not isinstance(y, UTPM) or y.data.shape != x.shape:
        raise Violation('%s: result type/shape' % name)
    for pos in _positions(case, x):
        sl = (slice(None),) + pos
        ref = mp_taylor(fmp, list(x[sl]))
        got = y.data[sl]
        r0 = float(ref[0])
        if r0 != 0.0 and np.isfinite(r0):
            e = abs(float(got[0]) - r0) / abs(r0)
            stats.err(min(e, 1.0))
            if e > TOL_TINY:
                raise Violation('%s at the tiny base point %r: zeroth coefficient %r, reference %r (error %.2e relative to the value itself)'
                                % (name, float(x[sl][0]), float(got[0]), r0, e))
        _compare(got, ref, tol, stats, '%s(tiny base point)[p=%d,idx=%s]' % (name, pos[0], pos[1:]))


@st.composite
def tiny_cases(draw, name, tier):
    D, P = draw(gen.dims(Dmax=4, Pmax=3))
    shape = draw(st.sampled_from([(), (2,), (3,)]))
    x = draw(gen.utpm_data(D, P, shape, gen.nice_floats(-1.0, 1.0)))
    mant = draw(gen.float_array((P,) + shape, gen.interval_union((1.0, 9.99), (-9.99, -1.0)), sparse=False))
    expo = draw(gen.float_array((P,) + shape, st.sampled_from([-5.0, -7.0, -9.0, -12.0, -16.0, -17.0, -20.0, -40.0, -100.0]), sparse=False))
    x[0] = mant * 10.0 ** expo
    return {'f': name, 'entry': draw(st.sampled_from(['global', 'method'])), 'x': x, 'pos': None}


# ---------------------------------------------------------------------------
# the same polynomial object evaluated again after it has been updated in place: f(x) is a function of the current
# coefficients of x only (nothing may be remembered per object), and a result handed out earlier stays what it was
# ---------------------------------------------------------------------------

def prop_recall(case, stats):
    name = case['f']
    call = UNARY[name][0] if case['entry'] == 'global' else METHOD[name]
    x1, x2 = case['x'], case['x2']
    x = UTPM(x1.copy())
    y1 = guard(call, x)
    snap = y1.data.tobytes()
    how = case['update']
    if how == 'data':
        x.data[...] = x2
    elif how == 'setitem':
        x[...] = UTPM(x2.copy())
    else:
        x += UTPM(x2 - x1)
        x2 = x.data.copy()
    y2 = guard(call, x)
    ref = guard(call, UTPM(x2.copy()))
    if y1.data.tobytes() != snap:
        raise Violation('%s: the result of the first call changed when the operand was updated in place and the function called again' % name)
    if not isinstance(y2, UTPM) or y2.data.shape != ref.data.shape:
        raise Violation('%s: result type/shape' % name)
    scale = max(1.0, float(np.max(np.abs(ref.data)))) if np.all(np.isfinite(ref.data)) else None
    if scale is None:
        raise Inconclusive('non-finite')
    e = float(np.max(np.abs(y2.data - ref.data))) / scale if np.all(np.isfinite(y2.data)) else float('inf')
    stats.err(min(e, 1.0))
    if e > 1e-13:
        raise Violation('%s(x) after updating the same object x in place (%s) differs from %s of a fresh polynomial with the same coefficients by %.2e'
                        % (name, how, name, e))


@st.composite
def recall_cases(draw, name, tier):
    _, _, dom, cdom, _ = UNARY[name]
    D, P = draw(gen.dims(Dmax=4, Pmax=3))
    shape = draw(gen.shapes(max_rank=2, max_side=3))
    x = draw(gen.utpm_data(D, P, shape, dom))
    x2 = draw(gen.utpm_data(D, P, shape, dom))
    return {'f': name, 'entry': draw(st.sampled_from(['global', 'method'])), 'x': x, 'x2': x2,
            'update': draw(st.sampled_from(['data', 'setitem', 'iadd']))}


def _n(tier, name):
    if tier == 'quick':
        return 30 if name in SLOW else 150
    return 250 if name in SLOW else 1500


def buckets(tier):
    bl = []
    for name in UNARY:
        bl.append(Bucket('unary:' + name, (lambda name=name: unary_cases(name, tier)), prop_unary,
                         {'quick': _n('quick', name), 'thorough': _n('thorough', name)},
                         nontrivial=_nontrivial, classes=_classes,
                         shards={'quick': 1, 'thorough': 2 if name in SLOW else 1},
                         weight=8.0 if name in SLOW else 1.0))
    for name in ('polygamma', 'hyperu'):
        bl.append(Bucket('param:' + name, (lambda name=name: param_cases(name, tier)), prop_param,
                         {'quick': 25, 'thorough': 150}, nontrivial=_nontrivial, classes=_classes,
                         shards={'quick': 1, 'thorough': 3}, weight=30.0))
    for kind in ('int', 'negint', 'real', 'rpow', 'xy'):
        bl.append(Bucket('pow:' + kind, (lambda kind=kind: pow_cases(kind, tier)), prop_pow,
                         {'quick': 150, 'thorough': 1500}, nontrivial=_nontrivial, classes=_classes))
    for name in LARGE:
        bl.append(Bucket('largeD:' + name, (lambda name=name: large_cases(name, tier)), prop_large,
                         {'quick': 8, 'thorough': 60}, nontrivial=_nontrivial, classes=_classes, weight=40.0))
    for name in ('absolute', 'abs', 'fabs', 'sign', 'minimum', 'maximum', 'botched_clip'):
        bl.append(Bucket('kink:' + name, (lambda name=name: kink_cases(name, tier)), prop_kink,
                         {'quick': 150, 'thorough': 1500}, nontrivial=_nontrivial, classes=_classes))
    for name in TINY:
        bl.append(Bucket('tiny:' + name, (lambda name=name: tiny_cases(name, tier)), prop_tiny,
                         {'quick': 20 if name in SLOW else 40, 'thorough': 300}, nontrivial=(lambda case: case['x'].shape[0] >= 2),
                         classes=_classes0, weight=6.0 if name in SLOW else 1.0))
    for name in UNARY:
        bl.append(Bucket('recall:' + name, (lambda name=name: recall_cases(name, tier)), prop_recall,
                         {'quick': 40, 'thorough': 300}, nontrivial=(lambda case: case['x'].shape[0] >= 2 and not np.array_equal(case['x'], case['x2'])),
                         classes=(lambda case: _classes0(case) + ['update=' + case['update']])))
    return bl
