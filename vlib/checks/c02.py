"""C02 - arithmetic is exact truncated power-series arithmetic for every operand mix.

Oracle: exact truncated power series over Gaussian rationals (oracles.FracSeries on NumPy object arrays), run per
direction so that NumPy itself supplies the broadcasting of the reference; powers with non-integer exponent / scalar
base / polynomial exponent: mpmath numerical differentiation (oracles.mp_taylor[_multi]).
"""
import operator

import numpy as np
import mpmath
from hypothesis import strategies as st
from hypothesis.extra import numpy as hnp

from algopy import UTPM

from ..runner import Bucket, Violation, Inconclusive, guard, KF
from .. import gen
from ..oracles import mp_taylor, mp_taylor_multi
from . import _c02_ref as ref

PID = 'C02'
RULE = ('one bucket per operator x left operand kind x right operand kind (kinds: UTPM, Python int/float/complex, NumPy '
        'float64/float32/int64/complex128 scalar, float/int/complex ndarray; at least one side a UTPM; constant on the left = '
        'reflected form), per in-place operator x right operand family (incl. right operand aliasing the left), and per power '
        'form; cases = (operand values, D <= 8, P <= 3, NumPy-broadcastable shape pair incl. the traps "constant with more '
        'dimensions", "leading constant axis == P or == D", "size-1 axes on either side", value regime exact-dyadic or float) '
        'drawn by Hypothesis; non-trivial = D >= 2 with both operands non-constant polynomials, or the result shape differs '
        'from an array operand\'s shape (broadcast changes the shape), or a mixed real/complex pair; powers: D >= 2 with a '
        'non-constant base (and exponent, if polynomial) or a mixed real/complex pair; distinct by descriptor hash')
ASSUMPTIONS = [
    'reference = exact arithmetic in Q(i)[t]/(t^D) on the binary64 input values, per direction; NumPy object-array broadcasting '
    'defines the element-wise pairing; result shape must be numpy.broadcast_shapes of the operand shapes',
    'regime "exact" (integers and dyadics k/4, |k| <= 12): float64 +,-,* and integer powers are exact, results compared with ==; '
    'regime "float": tolerance 1e-12 x (sum of |terms| of the coefficient, >= 1); quotients 1e-11 x majorant recurrence; '
    'in-place / reflected vs the binary expression on constant-promoted operands 1e-13',
    'powers: int >= 0 and negative int exponents against exact rational series (tol 1e-11 x max(1, running max |ref|)), '
    'real/complex exponent, scalar base against mpmath.taylor at >= 50 digits (same tolerance), polynomial exponent 1e-10; real and '
    'complex exponents / polynomial exponents only for bases with Re x_0 >= 0.3; divisor zeroth coefficients |.| >= 0.25',
    'in-place forms only where the binary result has the left operand\'s shape and a dtype castable (same_kind) into the left '
    'operand\'s dtype, as the statement restricts them',
    'result dtype is asserted only as "complex whenever the reference has a non-zero imaginary part" (non-in-place results)',
    'not asserted: numpy.<ufunc>(UTPM), floor division, comparisons, ndarray exponents / ndarray bases of **, object arrays',
]

OPS = {'add': operator.add, 'sub': operator.sub, 'mul': operator.mul, 'truediv': operator.truediv}
IOPS = {'add': operator.iadd, 'sub': operator.isub, 'mul': operator.imul, 'truediv': operator.itruediv}
DUNDER = {'add': '__add__', 'sub': '__sub__', 'mul': '__mul__', 'truediv': '__truediv__'}
RDUNDER = {'add': '__radd__', 'sub': '__rsub__', 'mul': '__rmul__', 'truediv': '__rtruediv__'}
SYM = {'add': '+', 'sub': '-', 'mul': '*', 'truediv': '/'}

TOL = {'add': 1e-12, 'sub': 1e-12, 'mul': 1e-12, 'truediv': 1e-11}
TOL_SAME = 1e-13
TOL_POW = 1e-11
TOL_POW_XY = 1e-10     # x**y = exp(log(x)*y): three chained recurrences; worst measured error 1.4e-14 in 2.4e5 cases

# ids of the known findings this check steers around while they are open
KF_IMUL = 'KF-imul-alias'
KF_RTRUEDIV = 'KF-rtruediv'
KF_POWC = 'KF-pow-complex-exponent'
KF_IDIV = 'KF-itruediv-lower-rank-rhs'
KF_POWNPINT = 'KF-pow-npint-zero-base'
KF_RPOW32 = 'KF-rpow-float32-base'


# ---------------------------------------------------------------------------
# live objects from descriptors
# ---------------------------------------------------------------------------

def live(o, left=None):
    """descriptor -> object handed to algopy (fresh copies, so nothing is shared between calls)"""
    k = o['kind']
    if k == 'utpm':
        return UTPM(ref.relayout(o['data'], o.get('lay')))
    if k == 'alias':
        how = o['how']
        if how == 'self':
            return left
        return UTPM(ref.alias_view(left.data, how))
    return ref.const_value(o)


def typed(kind, v):
    """scalar of exactly the type the kind names (descriptors store plain Python numbers; the kind string fixes the type)"""
    return ref._TYPES[kind](v)


def unalias(o, Ldata):
    """the independent operand with the values an alias operand has before the operation"""
    if o['kind'] != 'alias':
        return o
    return {'kind': 'utpm', 'data': np.array(ref.alias_view(Ldata, o['how']))}


def promote(o, D, P, cplx):
    """constant operand -> the degree-zero polynomial it stands for (same shape), as a UTPM"""
    c = np.asarray(ref.const_value(o))
    dt = np.complex128 if (cplx or c.dtype.kind == 'c') else np.float64
    data = np.zeros((D, P) + c.shape, dtype=dt)
    data[0] = c.astype(dt)
    return UTPM(data)


def _desc(o):
    if o['kind'] == 'utpm':
        return 'UTPM%s%s%s' % (tuple(o['data'].shape[2:]), 'c' if np.iscomplexobj(o['data']) else '',
                               ('/' + o['lay']) if o.get('lay') not in (None, 'C') else '')
    if o['kind'] == 'alias':
        return 'alias:' + o['how']
    lay = ('/' + o['lay']) if o.get('lay') not in (None, 'C') else ''
    if o['kind'].startswith('ndx.'):
        return 'ndarray[%s]%s%s' % (o['dt'], tuple(np.shape(o['v'])), lay)
    if o['kind'].startswith('npx.'):
        return '%s(%r)' % (o['dt'], ref.const_value(o))
    if ref.is_array_kind(o['kind']):
        return '%s%s%s' % (o['kind'], tuple(o['v'].shape), lay)
    return '%s(%r)' % (o['kind'], o['v'])


# ---------------------------------------------------------------------------
# properties
# ---------------------------------------------------------------------------

def prop(case, stats):
    for k in case.get('steered', ()):
        stats.exclude(k)
    form = case['form']
    if form == 'binary':
        return prop_binary(case, stats)
    if form == 'inplace':
        return prop_inplace(case, stats)
    if form == 'pow':
        return prop_pow(case, stats)
    if form == 'multi':
        msgs = []
        for sub in case['cases']:
            try:
                prop(sub, stats)
            except Violation as v:
                msgs.append(str(v))
        if msgs:
            raise Violation('%d of %d forms fail: ' % (len(msgs), len(case['cases'])) + ' || '.join(m[:150] for m in msgs))
        return
    raise KeyError(form)


def _DP(case):
    for o in (case['L'], case['R']):
        if o['kind'] == 'utpm':
            return o['data'].shape[0], o['data'].shape[1]
    raise KeyError('no UTPM operand')


def prop_binary(case, stats):
    op, L, R = case['op'], case['L'], case['R']
    D, P = _DP(case)
    exact = case['regime'] == 'exact' and op != 'truediv'
    what = '%s %s %s' % (_desc(L), SYM[op], _desc(R))
    l, r = live(L), live(R)
    if case.get('entry') == 'dunder':
        if isinstance(l, UTPM):
            got = guard(getattr(l, DUNDER[op]), r)
        else:
            got = guard(getattr(r, RDUNDER[op]), l)
    else:
        got = guard(OPS[op], l, r)
    if not isinstance(got, UTPM):
        raise Violation('%s returned %s' % (what, type(got).__name__))
    rf, scale = ref.reference(op, L, R, D, P)
    ref.compare(got.data, rf, scale, TOL[op], exact, what, stats)
    # operands unchanged by a non-in-place operation is C14's business; here: constants act as degree-zero polynomials
    if not (ref.is_utpm(L) and ref.is_utpm(R)):
        cplx = ref.opd_is_complex(L) or ref.opd_is_complex(R)
        l2 = live(L) if ref.is_utpm(L) else promote(L, D, P, cplx)
        r2 = live(R) if ref.is_utpm(R) else promote(R, D, P, cplx)
        both = guard(OPS[op], l2, r2)
        ref.compare_same(got.data, both.data, scale, TOL_SAME if op != 'truediv' else 1e-12,
                         '%s vs the same expression with the constant promoted to a polynomial' % what, stats)


def prop_inplace(case, stats):
    op, L, R = case['op'], case['L'], case['R']
    D, P = L['data'].shape[:2]
    exact = case['regime'] == 'exact' and op != 'truediv'
    what = '%s %s= %s' % (_desc(L), SYM[op], _desc(R))
    Rind = unalias(R, L['data'])
    X = live(L)
    r = live(R, left=X)
    got = guard(IOPS[op], X, r)
    if not isinstance(got, UTPM):
        raise Violation('%s returned %s' % (what, type(got).__name__))
    rf, scale = ref.reference(op, L, Rind, D, P)
    if rf.shape != L['data'].shape:
        raise Inconclusive('in-place form outside the statement: binary result shape differs from the left operand')
    ref.compare(got.data, rf, scale, TOL[op], exact, what, stats)
    both = guard(OPS[op], live(L), live(Rind))
    ref.compare_same(got.data, both.data, scale, TOL_SAME if op != 'truediv' else 1e-12,
                     '%s vs the binary expression' % what, stats)


def _mp_exponent(r):
    if isinstance(r, (complex, np.complexfloating)):
        return mpmath.mpc(float(r.real), float(r.imag))
    return mpmath.mpf(float(r))


def _positions(case, P, shape):
    allpos = [(p,) + idx for p in range(P) for idx in np.ndindex(*shape)]
    sel = case.get('pos')
    if sel is None or len(allpos) <= 4:
        return allpos[:4]
    return [allpos[i % len(allpos)] for i in sel]


def _cmp_series(got, rf, tol, what, stats, need_complex):
    rf = np.asarray(rf)
    got = np.asarray(got)
    if not np.all(np.isfinite(rf)):
        raise Inconclusive('non-finite reference')
    if need_complex and np.any(np.asarray(rf, dtype=complex).imag != 0) and got.dtype.kind != 'c':
        raise Violation('%s: imaginary part dropped: result dtype %s, reference %r' % (what, got.dtype, rf.tolist()))
    if not np.all(np.isfinite(got)):
        raise Violation('%s: non-finite coefficients %r, reference %r' % (what, got.tolist(), rf.tolist()))
    scale = np.maximum(1.0, np.maximum.accumulate(np.abs(rf)))
    err = np.abs(got - rf) / scale
    e = float(err.max())
    stats.err(e)
    if e > tol:
        d = int(np.argmax(err))
        raise Violation('%s: coefficient %d is %r, reference %r (rel. err %.2e > %.0e)' % (what, d, got[d].item(), rf[d].item(), e, tol))


def prop_pow(case, stats):
    kind = case['kind']
    if kind in ('int', 'negint', 'npint'):
        return _pow_rational(case, stats)
    if kind in ('real', 'complex'):
        x, r = case['x'], typed(case['rk'], case['r'])
        D, P = x.shape[:2]
        what = 'UTPM%s%s ** %s(%r)' % (x.shape[2:], 'c' if np.iscomplexobj(x) else '', type(r).__name__, r)
        y = guard(operator.pow, UTPM(ref.relayout(x, case.get('lay'))), r)
        _chk_utpm(y, x.shape, what)
        rm = _mp_exponent(r)
        for pos in _positions(case, P, x.shape[2:]):
            sl = (slice(None),) + pos
            rf = mp_taylor(lambda t: t ** rm, list(x[sl]))
            _cmp_series(y.data[sl], rf, TOL_POW, '%s [p=%d, idx=%s]' % (what, pos[0], pos[1:]), stats, True)
        return
    if kind == 'rpow':
        x, r = case['x'], typed(case['rk'], case['r'])
        D, P = x.shape[:2]
        what = '%s(%r) ** UTPM%s%s' % (type(r).__name__, r, x.shape[2:], 'c' if np.iscomplexobj(x) else '')
        y = guard(operator.pow, r, UTPM(ref.relayout(x, case.get('lay'))))
        _chk_utpm(y, x.shape, what)
        rm = mpmath.mpf(float(r))
        for pos in _positions(case, P, x.shape[2:]):
            sl = (slice(None),) + pos
            rf = mp_taylor(lambda t: rm ** t, list(x[sl]))
            _cmp_series(y.data[sl], rf, TOL_POW, '%s [p=%d, idx=%s]' % (what, pos[0], pos[1:]), stats, True)
        return
    if kind == 'utpm':
        x, e = case['x'], case['y']
        D, P = x.shape[:2]
        S = tuple(np.broadcast_shapes(x.shape[2:], e.shape[2:]))
        what = 'UTPM%s%s ** UTPM%s%s' % (x.shape[2:], 'c' if np.iscomplexobj(x) else '', e.shape[2:], 'c' if np.iscomplexobj(e) else '')
        y = guard(operator.pow, UTPM(ref.relayout(x, case.get('lay'))), UTPM(e.copy()))
        _chk_utpm(y, (D, P) + S, what)
        xb = np.broadcast_to(_bshape(x, S), (D, P) + S)
        eb = np.broadcast_to(_bshape(e, S), (D, P) + S)
        for pos in _positions(case, P, S):
            sl = (slice(None),) + pos
            rf = mp_taylor_multi(lambda s, t: s ** t, [list(xb[sl]), list(eb[sl])], D)
            _cmp_series(y.data[sl], rf, TOL_POW_XY, '%s [p=%d, idx=%s]' % (what, pos[0], pos[1:]), stats, True)
        return
    raise KeyError(kind)


def _bshape(data, S):
    """insert size-1 axes after (D,P) so that data broadcasts against (D,P)+S the way NumPy aligns shape[2:] with S"""
    pad = len(S) - (data.ndim - 2)
    return data.reshape(data.shape[:2] + (1,) * pad + data.shape[2:])


def _chk_utpm(y, shape, what):
    if not isinstance(y, UTPM):
        raise Violation('%s returned %s' % (what, type(y).__name__))
    if tuple(y.data.shape) != tuple(shape):
        raise Violation('%s: result data shape %s, expected %s' % (what, y.data.shape, tuple(shape)))


def _pow_rational(case, stats):
    """integer exponents: exact rational reference x**n = x*...*x, x**-n = 1/(x*...*x)"""
    x, n = case['x'], typed(case['rk'], case['r'])
    D, P = x.shape[:2]
    what = 'UTPM%s%s ** %s(%r)' % (x.shape[2:], 'c' if np.iscomplexobj(x) else '', type(n).__name__, n)
    y = guard(operator.pow, UTPM(ref.relayout(x, case.get('lay'))), n)
    _chk_utpm(y, x.shape, what)
    refs = []
    for p in range(P):
        s = ref.frac_series({'kind': 'utpm', 'data': x}, p, D)
        r = s.ipow(abs(int(n)))
        if n < 0:
            one = ref.frac_series({'kind': 'nd.int', 'v': np.ones(x.shape[2:], dtype=np.int64)}, p, D)
            r = one / r
        refs.append(ref.frac_to_complex(r))
    rf = np.stack(refs, axis=1)
    exact = case['regime'] == 'exact' and case['kind'] == 'int'
    if exact:
        scale = np.ones(rf.shape)
    else:
        scale = np.maximum(1.0, np.maximum.accumulate(np.abs(rf), axis=0))
    ref.compare(y.data, rf, scale, TOL_POW, exact, what, stats)


# ---------------------------------------------------------------------------
# generators
# ---------------------------------------------------------------------------

# value specs for zeroth coefficients: ('iv', lo, hi[, specials]) = floats in [lo, hi]; ('abs', lo, hi) = +-[lo, hi]
DIVBASE = ('abs', 0.25, 4.0)
ANYBASE = ('iv', -4.0, 4.0, (0.0, 1.0, -1.0))
POSBASE = ('iv', 0.3, 3.0)
AWAYBASE = ('abs', 0.3, 3.0)


def _floats(lo, hi):
    return st.floats(lo, hi, allow_nan=False, allow_infinity=False, allow_subnormal=False, width=64)


def _snap(a):
    """|v| < 1e-6 -> 0 (keeps the exact rational reference small; never leaves an interval used here)"""
    a = np.array(a, dtype=np.float64)
    a[np.abs(a) < 1e-6] = 0.0
    return a


@st.composite
def _sparse_mask(draw, shape):
    """0/1 mask: all ones (dense) in 3 of 4 draws, otherwise about a quarter of the entries kept.
    (hnp.arrays(fill=just(0)) is not used: measured, it collapses to all-zero arrays in over half of the draws)"""
    if draw(st.sampled_from(['dense', 'dense', 'dense', 'sparse'])) == 'dense' or not int(np.prod(shape, dtype=int)):
        return np.ones(shape, dtype=np.int64)
    m1 = draw(hnp.arrays(np.bool_, shape, elements=st.booleans(), fill=st.nothing()))
    m2 = draw(hnp.arrays(np.bool_, shape, elements=st.booleans(), fill=st.nothing()))
    return (m1 & m2).astype(np.int64)


def _order_pattern(draw, hi):
    """patterns along the order axis of the higher coefficients (D-1,P)+shape: dense / only one order non-zero /
    x_1 = 0 with higher ones present / constant polynomial"""
    n = hi.shape[0]
    if n == 0:
        return hi
    mode = draw(st.sampled_from(['asis'] * 7 + ['single', 'skip1', 'const']))
    if mode == 'single':
        k = draw(st.integers(0, n - 1))
        out = np.zeros_like(hi)
        out[k] = hi[k]
        return out
    if mode == 'skip1':
        hi = hi.copy()
        hi[0] = 0
        return hi
    if mode == 'const':
        return np.zeros_like(hi)
    return hi


@st.composite
def _farr(draw, shape, lo, hi, sparse=True):
    """float64 array with full-mantissa elements in [lo, hi]; one third of the draws sparse (mostly zero)"""
    shape = tuple(shape)
    a = _snap(draw(hnp.arrays(np.float64, shape, elements=_floats(lo, hi), fill=st.nothing())))
    if sparse and lo <= 0.0 <= hi:
        a = a * draw(_sparse_mask(shape))
    return a


@st.composite
def _iarr(draw, shape, lo, hi, sparse=True):
    shape = tuple(shape)
    a = draw(hnp.arrays(np.int64, shape, elements=st.integers(lo, hi), fill=st.nothing()))
    if sparse and lo <= 0 <= hi:
        a = a * draw(_sparse_mask(shape))
    return a


@st.composite
def _signs(draw, shape):
    return draw(hnp.arrays(np.int64, tuple(shape), elements=st.sampled_from([1, -1]), fill=st.nothing())).astype(np.float64)


@st.composite
def _dyarr(draw, shape, kmax=12, nonzero=False, sparse=True):
    """dyadics k/4, |k| <= kmax (exact regime)"""
    if nonzero:
        return draw(_iarr(shape, 1, kmax, sparse=False)) * draw(_signs(shape)) / 4.0
    return draw(_iarr(shape, -kmax, kmax, sparse=sparse)) / 4.0


@st.composite
def _spec_arr(draw, shape, spec):
    shape = tuple(shape)
    a = draw(_farr(shape, spec[1], spec[2], sparse=False))
    if spec[0] == 'abs':
        a = a * draw(_signs(shape))
    if len(spec) > 3:
        sp = np.array(spec[3], dtype=np.float64)
        pick = draw(hnp.arrays(np.int64, shape, elements=st.integers(0, 4 * len(sp) - 1), fill=st.nothing()))
        a = np.where(pick < len(sp), sp[np.minimum(pick, len(sp) - 1)], a)
    return a


def _spec_scalar(spec):
    if spec[0] == 'abs':
        s = st.builds(lambda sg, v: sg * v, st.sampled_from([1.0, -1.0]), _floats(spec[1], spec[2]))
    else:
        s = _floats(spec[1], spec[2]).map(lambda v: 0.0 if abs(v) < 1e-6 else v)
    if len(spec) > 3:
        s = st.one_of(s, s, st.sampled_from(list(spec[3])))
    return s


@st.composite
def utpm_data(draw, D, P, shape, regime, cplx, divisor=False, base=None, base_im=None, mag=2.0):
    """(D,P)+shape coefficients; divisor: zeroth coefficients with |.| >= 0.25 (real part, for complex data);
    zeroth coefficients are drawn independently per direction and element"""
    shape = tuple(shape)
    if regime == 'exact':
        x0 = draw(_dyarr((1, P) + shape, 12, nonzero=divisor, sparse=False))
        hi = _order_pattern(draw, draw(_dyarr((D - 1, P) + shape, 8))) if D > 1 else np.zeros((0, P) + shape)
        x = np.concatenate([x0, hi], axis=0)
        if cplx:
            x = x + 1j * draw(_dyarr((D, P) + shape, 8))
        return x
    b = base if base is not None else (DIVBASE if divisor else ANYBASE)
    x0 = draw(_spec_arr((1, P) + shape, b))
    hi = _order_pattern(draw, draw(_farr((D - 1, P) + shape, -mag, mag))) if D > 1 else np.zeros((0, P) + shape)
    x = np.concatenate([x0, hi], axis=0)
    if cplx:
        im0 = draw(_spec_arr((1, P) + shape, base_im if base_im is not None else ('iv', -2.0, 2.0)))
        imh = draw(_farr((D - 1, P) + shape, -mag, mag)) if D > 1 else np.zeros((0, P) + shape)
        x = x + 1j * np.concatenate([im0, imh], axis=0)
    return x


@st.composite
def const_operand(draw, kind, shape, regime, divisor=False):
    """constant operand descriptor of the given kind (shape only for ndarray kinds); scalars are stored as plain
    Python numbers, the kind fixes the type handed to algopy"""
    ex = regime == 'exact'
    shape = tuple(shape)
    if kind in ref.SCALAR_KINDS:
        if divisor:
            it = st.builds(lambda s, k: s * k, st.sampled_from([1, -1]), st.integers(1, 6))
            fl = it.map(lambda k: k / 4.0) if ex else _spec_scalar(DIVBASE)
        else:
            it = st.integers(-6, 6)
            fl = st.integers(-12, 12).map(lambda k: k / 4.0) if ex else _spec_scalar(('iv', -4.0, 4.0, (0.0, 1.0, -1.0, 2.0)))
        im = st.integers(-8, 8).map(lambda k: k / 4.0) if ex else _spec_scalar(('iv', -2.0, 2.0, (0.0,)))
        if kind in ('pyint', 'np.int64'):
            return {'kind': kind, 'v': int(draw(it))}
        if kind in ('pyfloat', 'np.float64'):
            return {'kind': kind, 'v': float(draw(fl))}
        if kind == 'np.float32':
            return {'kind': kind, 'v': float(np.float32(draw(fl)))}
        return {'kind': kind, 'v': complex(draw(fl), draw(im))}
    if kind == 'nd.int':
        if divisor:
            return {'kind': kind, 'v': (draw(_iarr(shape, 1, 6, sparse=False)) * draw(_signs(shape))).astype(np.int64)}
        return {'kind': kind, 'v': draw(_iarr(shape, -6, 6))}
    if ex:
        re = draw(_dyarr(shape, 12, nonzero=divisor))
    else:
        re = draw(_spec_arr(shape, DIVBASE)) if divisor else draw(_farr(shape, -4.0, 4.0))
    if kind == 'nd.float':
        return {'kind': kind, 'v': np.asarray(re, dtype=np.float64)}
    if kind == 'nd.complex':
        imv = draw(_dyarr(shape, 8)) if ex else draw(_farr(shape, -2.0, 2.0))
        return {'kind': kind, 'v': np.asarray(re + 1j * imv, dtype=np.complex128)}
    raise KeyError(kind)


def _weaken(draw, shape, prob=3):
    """some axes -> 1, possibly leading axes dropped: a shape that broadcasts against ``shape``"""
    s = [1 if draw(st.integers(0, prob - 1)) == 0 else n for n in shape]
    drop = draw(st.integers(0, len(s))) if draw(st.integers(0, 2)) == 0 else 0
    return tuple(s[drop:])


@st.composite
def shape_pair(draw, D, P):
    """(shape of the polynomial, shape of the other operand, label): mutually broadcastable, traps boosted"""
    mode = draw(st.sampled_from(['mb', 'mb', 'mb', 'same', 'more', 'leadP', 'leadD', 'ones']))
    if mode == 'mb':
        r = draw(hnp.mutually_broadcastable_shapes(num_shapes=2, min_dims=0, max_dims=3, min_side=1, max_side=3))
        a, b = r.input_shapes
        return tuple(a), tuple(b), mode
    if mode == 'same':
        a = draw(gen.shapes(max_rank=3, max_side=3))
        return tuple(a), tuple(a), mode
    if mode == 'ones':
        full = draw(gen.shapes(max_rank=3, max_side=3, min_rank=1))
        pick = [draw(st.integers(0, 2)) for _ in full]
        a = tuple(1 if k == 0 else n for k, n in zip(pick, full))
        b = tuple(1 if k == 1 else n for k, n in zip(pick, full))
        return a, b, mode
    tail = tuple(draw(gen.shapes(max_rank=2, max_side=3)))
    if mode == 'more':
        extra = tuple(draw(st.lists(st.integers(1, 3), min_size=1, max_size=2)))
        return _keep_rank(draw, tail), extra + _keep_rank(draw, tail), mode
    n = P if mode == 'leadP' else D
    if n > 4:
        tail = tail[-1:]
    v = draw(st.integers(0, 3))
    if v == 0:      # constant has one more axis, of length n
        return tail, (n,) + _keep_rank(draw, tail), mode
    if v == 1:      # polynomial has a size-1 leading axis against n
        return (1,) + tail, (n,) + _keep_rank(draw, tail), mode
    if v == 2:      # both lead with n
        return (n,) + tail, (n,) + _keep_rank(draw, tail), mode
    return (n,) + tail, _weaken(draw, (n,) + tail, 3), mode   # polynomial leads with n, other side weaker


def _keep_rank(draw, shape):
    return tuple(1 if draw(st.integers(0, 3)) == 0 else n for n in shape)


BIG_D = (12, 16, 24)


def _dims(draw, tier, Dmax=8, big=False):
    if big:
        # long series: exercises kernels that switch algorithm with D (exact regime only, small shapes)
        return draw(st.sampled_from(BIG_D)), draw(st.sampled_from([1, 2]))
    return draw(gen.dims(Dmax=Dmax, Pmax=3))


LAYOUTS = ['C', 'C', 'C', 'F', 'T', 'strided', 'rev']


def _set_layout(draw, o):
    """memory layout of the live array of a UTPM / ndarray operand (values are unaffected)"""
    if o['kind'] == 'utpm' or ref.is_array_kind(o['kind']):
        lay = draw(st.sampled_from(LAYOUTS))
        if lay != 'C':
            o['lay'] = lay
    return o


@st.composite
def _small_pair(draw):
    a = tuple(draw(gen.shapes(max_rank=2, max_side=2)))
    how = draw(st.sampled_from(['same', 'same', 'scalar', 'weak']))
    if how == 'same':
        return a, a, 'same'
    if how == 'scalar':
        return a, (), 'mb'
    return a, tuple(1 if draw(st.booleans()) else n for n in a), 'ones'


_ILIM = {dt: (int(np.iinfo(dt).min), int(np.iinfo(dt).max)) for dt in ('uint8', 'uint16', 'uint32', 'uint64', 'int8', 'int16', 'int32')}


@st.composite
def xconst_operand(draw, kind, shape, regime, divisor=False):
    """constant of an unusual NumPy dtype (unsigned / small signed integers with values at the limits of the type, bool,
    float16, longdouble / clongdouble), scalar ('npx.*') or ndarray ('ndx.*')"""
    cls = kind.split('.')[1]
    arr = kind.startswith('ndx.')
    shape = tuple(shape)
    dts = list(ref.XDTYPES[cls]) + (['pybool'] if (cls == 'bool' and not arr) else [])
    dt = draw(st.sampled_from(dts))
    o = {'kind': kind, 'dt': dt}
    ex = regime == 'exact'
    if cls in ('uint', 'sint'):
        lo, hi = _ILIM[dt]
        sp = [hi, hi, hi - 1, lo, lo + 1, (hi + 1) // 2, (hi + 1) // 2 - 1, 0, 1, 2, 3, -1, -2, 100, -100]
        sp = [v for v in sp if lo <= v <= hi and not (divisor and v == 0)]
        rnd = st.integers(max(lo, -100), min(hi, 300)).map(lambda v: 1 if (divisor and v == 0) else v)
        el = st.one_of(st.sampled_from(sp), rnd)
        if arr:
            o['v'] = draw(hnp.arrays(np.dtype(dt), shape, elements=el, fill=st.nothing()))
        else:
            o['v'] = int(draw(el))
    elif cls == 'bool':
        el = st.just(True) if divisor else st.booleans()
        if arr:
            o['v'] = draw(hnp.arrays(np.bool_, shape, elements=el, fill=st.nothing()))
        else:
            o['v'] = bool(draw(el))
    elif cls == 'float16':
        if arr:
            if ex:
                a = draw(_dyarr(shape, 12, nonzero=divisor))
            else:
                a = draw(_spec_arr(shape, DIVBASE)) if divisor else draw(_spec_arr(shape, ('iv', -4.0, 4.0, (0.0, 1.0, 65504.0, -65504.0, 2.0 ** -14))))
            o['v'] = np.asarray(a).astype(np.float16)
        else:
            if ex:
                v = draw(st.integers(1, 12)) * draw(st.sampled_from([1, -1])) / 4.0 if divisor else draw(st.integers(-12, 12)) / 4.0
            else:
                v = draw(_spec_scalar(DIVBASE if divisor else ('iv', -4.0, 4.0, (0.0, 1.0, 65504.0, -65504.0, 2.0 ** -14))))
            o['v'] = float(np.float16(v))
    elif cls == 'longdouble':
        cplx = dt == 'clongdouble'
        if arr:
            re = draw(_dyarr(shape, 12, nonzero=divisor)) if ex else (draw(_spec_arr(shape, DIVBASE)) if divisor else draw(_farr(shape, -4.0, 4.0)))
            v = np.asarray(re, dtype=np.float64)
            if cplx:
                im = draw(_dyarr(shape, 8)) if ex else draw(_farr(shape, -2.0, 2.0))
                v = np.asarray(v + 1j * im, dtype=np.complex128)
            o['v'] = v
            if not ex:
                j = draw(hnp.arrays(np.int64, shape, elements=st.integers(-127, 127), fill=st.nothing()))
                e = np.frexp(np.asarray(v.real, dtype=np.float64))[1]
                o['lo'] = np.where(v.real != 0, np.ldexp(j.astype(np.float64), e - 60), 0.0)
        else:
            if ex:
                re = draw(st.integers(1, 12)) * draw(st.sampled_from([1, -1])) / 4.0 if divisor else draw(st.integers(-12, 12)) / 4.0
                im = draw(st.integers(-8, 8)) / 4.0
            else:
                re = draw(_spec_scalar(DIVBASE if divisor else ('iv', -4.0, 4.0, (0.0, 1.0, -1.0))))
                im = draw(_spec_scalar(('iv', -2.0, 2.0, (0.0,))))
            o['v'] = complex(re, im) if cplx else float(re)
            if not ex and re != 0:
                o['lo'] = float(np.ldexp(float(draw(st.integers(-127, 127))), int(np.frexp(re)[1]) - 60))
    else:
        raise KeyError(kind)
    return o


def _const(draw, kind, shape, regime, divisor=False):
    if kind in ref.XSCALAR_KINDS or kind in ref.XARRAY_KINDS:
        return draw(xconst_operand(kind, shape, regime, divisor=divisor))
    return draw(const_operand(kind, shape, regime, divisor=divisor))


def _regime(draw):
    return draw(st.sampled_from(['exact', 'float']))


def _entry(draw):
    return draw(st.sampled_from(['operator', 'operator', 'dunder']))


@st.composite
def binary_cases(draw, op, lk, rk, tier, big=False):
    """lk, rk: operand kinds; at least one is 'utpm'"""
    D, P = _dims(draw, tier, big=big)
    regime = draw(st.sampled_from(['exact', 'exact', 'float'])) if big else _regime(draw)
    steered = []
    case = {'form': 'binary', 'op': op, 'regime': regime, 'entry': _entry(draw)}
    if lk == 'utpm' and rk == 'utpm':
        sa, sb, lab = draw(_small_pair()) if big else draw(shape_pair(D, P))
        if draw(st.booleans()):
            sa, sb = sb, sa
        ca = draw(st.integers(0, 2)) == 0
        cb = draw(st.integers(0, 2)) == 0
        case['L'] = _set_layout(draw, {'kind': 'utpm', 'data': draw(utpm_data(D, P, sa, regime, ca))})
        case['R'] = _set_layout(draw, {'kind': 'utpm', 'data': draw(utpm_data(D, P, sb, regime, cb, divisor=(op == 'truediv')))})
        case['shapes'] = lab
        return case
    ck = rk if lk == 'utpm' else lk
    const_left = lk != 'utpm'
    if ref.is_array_kind(ck):
        sx, sc, lab = draw(shape_pair(D, P))
    else:
        sx, sc, lab = tuple(draw(gen.shapes(max_rank=3, max_side=3))), (), 'scalar'
    cplx_const = ck in ref.COMPLEX_KINDS
    xc = draw(st.integers(0, 2 if cplx_const else 1)) == 0
    if ck.endswith('.longdouble'):
        xc = draw(st.integers(0, 2)) == 0
    if const_left and op == 'truediv' and KF.is_open(KF_RTRUEDIV):
        # open finding: constant / polynomial (__rtruediv__) fails for a complex-typed constant over a real polynomial and
        # for an array that does not broadcast INTO the polynomial's shape: steer to the neighbouring supported form
        if cplx_const and not xc:
            xc = True
            steered.append(KF_RTRUEDIV)
        if tuple(np.broadcast_shapes(sx, sc)) != tuple(sx):
            sx = tuple(np.broadcast_shapes(sx, sc))
            lab += '>into'
            if KF_RTRUEDIV not in steered:
                steered.append(KF_RTRUEDIV)
    x = _set_layout(draw, {'kind': 'utpm', 'data': draw(utpm_data(D, P, sx, regime, xc, divisor=(op == 'truediv' and const_left)))})
    c = _set_layout(draw, _const(draw, ck, sc, regime, divisor=(op == 'truediv' and not const_left)))
    if ref.const_big(c):
        case['regime'] = 'float'     # e.g. uint64 max: float64 arithmetic on it rounds, compare with the tolerance
    case['L'], case['R'] = (c, x) if const_left else (x, c)
    case['shapes'] = lab
    if steered:
        case['steered'] = steered
    return case


INPLACE_FAMILY = {
    'utpm': ['utpm'],
    'pyscalar': ['pyint', 'pyfloat', 'pycomplex'],
    'npscalar': ['np.float64', 'np.float32', 'np.int64', 'np.complex128'],
    'ndarray': ['nd.float', 'nd.int', 'nd.complex'],
    'xscalar': list(ref.XSCALAR_KINDS),
    'xndarray': list(ref.XARRAY_KINDS),
}


@st.composite
def inplace_cases(draw, op, fam, tier, big=False):
    D, P = _dims(draw, tier, big=big)
    regime = draw(st.sampled_from(['exact', 'exact', 'float'])) if big else _regime(draw)
    steered = []
    case = {'form': 'inplace', 'op': op, 'regime': regime}
    if fam == 'alias':
        how = draw(st.sampled_from(['self', 'self', 'full', 'T', 'rev', 'row', 'row0']))
        if how == 'T':
            n = draw(st.integers(1, 3))
            sx = (n, n)
        elif how in ('rev', 'row'):
            sx = tuple(draw(gen.shapes(min_rank=1, max_rank=3, max_side=3)))
        elif how == 'row0':
            sx = tuple(draw(gen.shapes(min_rank=2, max_rank=3, max_side=3)))
        else:
            sx = tuple(draw(gen.shapes(max_rank=3, max_side=3)))
        if how == 'row0' and op == 'truediv' and KF.is_open(KF_IDIV):
            how = 'row'
            steered.append(KF_IDIV)
        xc = draw(st.integers(0, 2)) == 0
        x = draw(utpm_data(D, P, sx, regime, xc, divisor=(op == 'truediv')))
        case['L'] = _set_layout(draw, {'kind': 'utpm', 'data': x})
        R = {'kind': 'alias', 'how': how}
        if op == 'mul' and D >= 2 and KF.is_open(KF_IMUL):
            # open finding: x *= (x or a view of x).  Neighbouring form: an independent operand with the same values
            R = unalias(R, x)
            steered.append(KF_IMUL)
        case['R'] = R
        if steered:
            case['steered'] = steered
        return case
    rk = draw(st.sampled_from(INPLACE_FAMILY[fam]))
    if rk == 'utpm' or ref.is_array_kind(rk):
        sa, sb, lab = draw(_small_pair()) if big else draw(shape_pair(D, P))
        sx = tuple(np.broadcast_shapes(sa, sb))      # the right operand broadcasts INTO the left one
        sr = sb
        if rk == 'utpm' and op == 'truediv' and len(sr) < len(sx) and KF.is_open(KF_IDIV):
            sr = (1,) * (len(sx) - len(sr)) + tuple(sr)
            steered.append(KF_IDIV)
    else:
        sx, sr, lab = tuple(draw(gen.shapes(max_rank=3, max_side=3))), (), 'scalar'
    rc = (rk in ref.COMPLEX_KINDS) or (rk == 'utpm' and draw(st.integers(0, 2)) == 0)
    if rk == 'utpm':
        R = {'kind': 'utpm', 'data': draw(utpm_data(D, P, sr, regime, rc, divisor=(op == 'truediv')))}
    else:
        R = _const(draw, rk, sr, regime, divisor=(op == 'truediv'))
        rc = ref.opd_is_complex(R)
        if ref.const_big(R):
            case['regime'] = 'float'
    # the result must be castable into the left operand: complex right operand => complex left operand
    xc = True if rc else draw(st.integers(0, 1)) == 0
    case['L'] = _set_layout(draw, {'kind': 'utpm', 'data': draw(utpm_data(D, P, sx, regime, xc))})
    case['R'] = _set_layout(draw, R)
    case['shapes'] = lab
    if steered:
        case['steered'] = steered
    return case




@st.composite
def pow_cases(draw, kind, tier, big=False):
    D, P = _dims(draw, tier, big=big)
    shape = tuple(draw(gen.shapes(max_rank=2, max_side=2 if big else 3)))
    case = {'form': 'pow', 'kind': kind, 'pos': None}
    lay = draw(st.sampled_from(LAYOUTS))
    if lay != 'C':
        case['lay'] = lay
    steered = []
    xc = draw(st.integers(0, 2)) == 0
    if kind == 'int':
        regime = draw(st.sampled_from(['exact', 'exact', 'float'])) if big else _regime(draw)
        case['regime'] = regime
        case['r'] = draw(st.sampled_from([0, 1, 2, 2, 3, 3, 4, 5]))
        case['rk'] = 'pyint'
        if regime == 'exact':
            case['x'] = draw(utpm_data(D, P, shape, 'exact', xc))
        else:
            case['x'] = draw(utpm_data(D, P, shape, 'float', xc, base=('iv', -3.0, 3.0, (0.0, 1.0, -1.0, 2.0)), mag=1.0))
    elif kind in ('negint', 'npint'):
        case['regime'] = 'float'
        if kind == 'negint':
            case['r'] = draw(st.sampled_from([-1, -2, -3, -4]))
            case['rk'] = 'pyint'
            zero_ok = False
        else:
            case['r'] = draw(st.sampled_from([-3, -2, -1, 0, 1, 2, 3, 4, 5]))
            case['rk'] = 'np.int64'
            zero_ok = case['r'] >= 0
            if zero_ok and KF.is_open(KF_POWNPINT):
                zero_ok = False
                steered.append(KF_POWNPINT)
        base = ('abs', 0.3, 3.0, (0.0, 1.0)) if zero_ok else AWAYBASE
        case['x'] = draw(utpm_data(D, P, shape, 'float', xc, base=base, base_im=('iv', -1.0, 1.0), mag=1.0))
    elif kind in ('real', 'complex'):
        fl = _spec_scalar(('iv', -3.0, 3.0, (0.5, -0.5, 1.5, 2.0, 3.0, -1.0, 0.25, 0.0, 1.0)))
        if kind == 'real':
            t = draw(st.sampled_from(['pyfloat', 'pyfloat', 'np.float64', 'np.float32']))
            v = draw(fl)
            case['r'] = float(np.float32(v)) if t == 'np.float32' else float(v)
        else:
            t = draw(st.sampled_from(['pycomplex', 'np.complex128']))
            v = complex(draw(fl), draw(_spec_scalar(('iv', -2.0, 2.0, (0.0, 1.0)))))
            case['r'] = v
            if v.imag != 0 and not xc and KF.is_open(KF_POWC):
                xc = True
                steered.append(KF_POWC)
        case['rk'] = t
        case['x'] = draw(utpm_data(D, P, shape, 'float', xc, base=POSBASE, base_im=('iv', -1.0, 1.0), mag=1.0))
    elif kind == 'rpow':
        kinds = ['pyint', 'pyfloat', 'np.float32', 'np.float64', 'np.int64', 'np.float32']
        t = draw(st.sampled_from(kinds))
        if t == 'np.float32' and KF.is_open(KF_RPOW32):
            t = 'np.float64'
            steered.append(KF_RPOW32)
        if t in ('pyint', 'np.int64'):
            case['r'] = draw(st.integers(1, 4))
        else:
            v = draw(_spec_scalar(('iv', 0.2, 4.0, (2.0, 0.5, 1.0, 3.0))))
            case['r'] = float(np.float32(v)) if t == 'np.float32' else float(v)
        case['rk'] = t
        case['x'] = draw(utpm_data(D, P, shape, 'float', xc, base=('iv', -2.0, 2.0), base_im=('iv', -1.0, 1.0), mag=1.0))
    elif kind == 'utpm':
        sa, sb, lab = draw(shape_pair(min(D, 4), P))
        case['shapes'] = lab
        yc = draw(st.integers(0, 3)) == 0
        case['x'] = draw(utpm_data(D, P, sa, 'float', xc, base=POSBASE, base_im=('iv', -1.0, 1.0), mag=1.0))
        case['y'] = draw(utpm_data(D, P, sb, 'float', yc, base=('iv', -2.0, 2.0), base_im=('iv', -1.0, 1.0), mag=1.0))
        shape = tuple(np.broadcast_shapes(sa, sb))
    else:
        raise KeyError(kind)
    n = P * int(np.prod(shape, dtype=int))
    if n > 4 and kind in ('real', 'complex', 'rpow', 'utpm'):
        case['pos'] = draw(st.lists(st.integers(0, n - 1), min_size=3, max_size=3, unique=True))
    if steered:
        case['steered'] = steered
    return case


# ---------------------------------------------------------------------------
# non-triviality and classes
# ---------------------------------------------------------------------------

def _nontrivial(case):
    f = case['form']
    if f == 'pow':
        x = case['x']
        nc = x.shape[0] >= 2 and bool(np.any(x[1:] != 0))
        if case['kind'] == 'utpm':
            y = case['y']
            nc = nc and bool(np.any(y[1:] != 0))
            mixed = np.iscomplexobj(x) != np.iscomplexobj(y)
        else:
            mixed = np.iscomplexobj(x) != (case['rk'] in ref.COMPLEX_KINDS)
        return nc or mixed
    if f == 'multi':
        return any(_nontrivial(c) for c in case['cases'])
    L, R = case['L'], case['R']
    if f == 'inplace':
        R = unalias(R, L['data'])
    if ref.opd_nonconstant(L) and ref.opd_nonconstant(R):
        return True
    if ref.opd_is_complex(L) != ref.opd_is_complex(R):
        return True
    S = ref.result_shape(L, R)
    for o in (L, R):
        if (o['kind'] == 'utpm' or ref.is_array_kind(o['kind'])) and ref.opd_shape(o) != S:
            return True
    return False


def _classes(case):
    f = case['form']
    c = ['form=' + f]
    if f == 'multi':
        return c
    if f == 'pow':
        x = case['x']
        c += ['D=%d' % x.shape[0], 'P=%d' % x.shape[1], 'rank=%d' % (x.ndim - 2), 'pow=' + case['kind'],
              'base=' + ('complex' if np.iscomplexobj(x) else 'real'), 'pattern=' + gen.pattern_class(x)]
        if case.get('lay'):
            c.append('layout=%s(utpm)' % case['lay'])
        if 'r' in case:
            c.append(('base-type=' if case['kind'] == 'rpow' else 'exponent-type=') + case['rk'])
            if case['kind'] in ('int', 'npint'):
                c.append('int-exponent=%d' % int(case['r']))
                if np.any(x[0] == 0):
                    c.append('zero-base-coefficient')
        if 'regime' in case:
            c.append('regime=' + case['regime'])
        return c
    L, R = case['L'], case['R']
    x = L['data'] if L['kind'] == 'utpm' else R['data']
    c += ['D=%d' % x.shape[0], 'P=%d' % x.shape[1], 'regime=' + case['regime'], 'op=' + case['op']]
    if 'shapes' in case:
        c.append('shapes=' + case['shapes'])
    if f == 'inplace':
        Ri = unalias(R, L['data'])
        if R['kind'] == 'alias':
            c.append('alias=' + R['how'])
    else:
        Ri = R
        c.append('entry=' + case.get('entry', 'operator'))
        if L['kind'] != 'utpm':
            c.append('reflected')
    S = ref.result_shape(L, Ri)
    c.append('result-rank=%d' % len(S))
    sl, sr = ref.opd_shape(L), ref.opd_shape(Ri)
    arrays = [o for o in (L, Ri) if o['kind'] == 'utpm' or ref.is_array_kind(o['kind'])]
    if len(arrays) == 2:
        if sl == sr:
            c.append('bcast=none')
        else:
            c.append('bcast=changes-shape' if (sl != S and sr != S) else 'bcast=one-sided')
        xs, cs = (sl, sr) if L['kind'] == 'utpm' else (sr, sl)
        other = Ri if L['kind'] == 'utpm' else L
        if other['kind'] != 'utpm':
            if len(cs) > len(xs):
                c.append('trap=const-more-dims')
            if cs and cs[0] == x.shape[1] and (len(cs) == len(xs) + 1 or (len(cs) == len(xs) and xs[0] == 1)):
                c.append('trap=const-lead-axis==P')
            if cs and cs[0] == x.shape[0] and (len(cs) == len(xs) + 1 or (len(cs) == len(xs) and xs[0] == 1)):
                c.append('trap=const-lead-axis==D')
        if any(a == 1 and b > 1 for a, b in zip(sl[::-1], sr[::-1])):
            c.append('size1-axis-left')
        if any(b == 1 and a > 1 for a, b in zip(sl[::-1], sr[::-1])):
            c.append('size1-axis-right')
    lc, rc = ref.opd_is_complex(L), ref.opd_is_complex(Ri)
    c.append('values=' + ('complex' if lc and rc else 'mixed-real-complex' if lc != rc else 'real'))
    if ref.opd_nonconstant(L) and ref.opd_nonconstant(Ri):
        c.append('both-nonconstant')
    for o in (L, R):
        if o['kind'] == 'utpm':
            c.append('pattern=' + gen.pattern_class(o['data']))
        if o.get('lay'):
            c.append('layout=%s(%s)' % (o['lay'], 'utpm' if o['kind'] == 'utpm' else 'const'))
        if 'dt' in o:
            c.append('const-dtype=' + o['dt'])
            if o['dt'] in _ILIM:
                a = np.asarray(o['v'])
                lo_, hi_ = _ILIM[o['dt']]
                if np.any(a == hi_) or (lo_ < 0 and np.any(a == lo_)):
                    c.append('const-at-dtype-limit')
            if 'lo' in o and np.any(np.asarray(o['lo']) != 0):
                c.append('const-beyond-float64-resolution')
    return c


# ---------------------------------------------------------------------------
# buckets
# ---------------------------------------------------------------------------

KINDS = ('utpm',) + ref.CONST_KINDS


def _heavy(lk, rk):
    return 2.0 if (lk == 'utpm' and rk == 'utpm') else 1.0


def buckets(tier):
    bl = []
    for op in OPS:
        for lk in KINDS:
            for rk in KINDS:
                if lk != 'utpm' and rk != 'utpm':
                    continue
                heavy = (op in ('mul', 'truediv'))
                bl.append(Bucket('%s:%s:%s' % (op, lk, rk),
                                 (lambda op=op, lk=lk, rk=rk: binary_cases(op, lk, rk, tier)), prop,
                                 {'quick': 80, 'thorough': 1000}, nontrivial=_nontrivial, classes=_classes,
                                 weight=(3.0 if heavy else 1.0) * _heavy(lk, rk)))
    for op in OPS:
        for fam in ('utpm', 'pyscalar', 'npscalar', 'ndarray', 'alias'):
            bl.append(Bucket('i%s:%s' % (op, fam), (lambda op=op, fam=fam: inplace_cases(op, fam, tier)), prop,
                             {'quick': 110, 'thorough': 650}, nontrivial=_nontrivial, classes=_classes,
                             shards={'quick': 1, 'thorough': 2}, weight=3.0 if fam in ('utpm', 'alias') else 1.5))
    # constants of unusual NumPy dtypes (values at the limits of the type), scalar and ndarray, on either side
    for op in OPS:
        for xk in ref.XSCALAR_KINDS + ref.XARRAY_KINDS:
            for lk, rk in (('utpm', xk), (xk, 'utpm')):
                bl.append(Bucket('%s:%s:%s' % (op, lk, rk),
                                 (lambda op=op, lk=lk, rk=rk: binary_cases(op, lk, rk, tier)), prop,
                                 {'quick': 50, 'thorough': 500}, nontrivial=_nontrivial, classes=_classes,
                                 weight=2.0 if op in ('mul', 'truediv') else 1.0))
        for fam in ('xscalar', 'xndarray'):
            bl.append(Bucket('i%s:%s' % (op, fam), (lambda op=op, fam=fam: inplace_cases(op, fam, tier)), prop,
                             {'quick': 110, 'thorough': 650}, nontrivial=_nontrivial, classes=_classes,
                             shards={'quick': 1, 'thorough': 2}, weight=1.5))
    # long series, D in {12, 16, 24}, exact regime (kernels that change algorithm with D)
    for op in ('mul', 'truediv'):
        bl.append(Bucket('bigD:%s' % op, (lambda op=op: binary_cases(op, 'utpm', 'utpm', tier, big=True)), prop,
                         {'quick': 40, 'thorough': 300}, nontrivial=_nontrivial, classes=_classes, weight=20.0))
        bl.append(Bucket('bigD:i%s' % op, (lambda op=op: inplace_cases(op, 'utpm', tier, big=True)), prop,
                         {'quick': 40, 'thorough': 300}, nontrivial=_nontrivial, classes=_classes, weight=20.0))
    bl.append(Bucket('bigD:pow:int', (lambda: pow_cases('int', tier, big=True)), prop,
                     {'quick': 40, 'thorough': 300}, nontrivial=_nontrivial, classes=_classes, weight=20.0))
    for kind in ('int', 'negint', 'npint', 'real', 'complex', 'rpow', 'utpm'):
        slow = kind in ('real', 'complex', 'rpow', 'utpm')
        bl.append(Bucket('pow:' + kind, (lambda kind=kind: pow_cases(kind, tier)), prop,
                         {'quick': 70 if slow else 120, 'thorough': 350 if slow else 1200},
                         nontrivial=_nontrivial, classes=_classes,
                         shards={'quick': 1, 'thorough': 3 if slow else 1}, weight=12.0 if slow else 4.0))
    return bl
