"""C05 - replaying a recorded graph reproduces the program.

Oracles: (a) while recording every node value equals the register of the direct (untraced) execution; (b) every
replay (cg.function / cg.pushforward with new independent values of any kind, D, P) equals direct execution of the
program on those values; (c) the recorded trace equals the expected trace derived from the instruction list
(every executed operation once, in execution order, constants as identity nodes, arguments recorded earlier);
(d) nothing is recorded while recording is off, a second graph records only its own operations.
"""
import numpy as np
from hypothesis import strategies as st

import algopy
from algopy import UTPM, CGraph, Function

from ..runner import Bucket, Violation, Inconclusive, Rejected, guard, KF
from .. import gen
from .. import prog as PG

PID = 'C05'
RULE = ('programs from the concolic generator (all instruction families incl. buffers, views, rewrites, constants on both '
        'sides) recorded with ndarray or UTPM(D1,P1) inputs at probe point 0, then replayed 1..4 times with unrelated inputs '
        '(ndarray or UTPM with drawn D2,P2, base points = other probe points) through cg.function / cg.pushforward. '
        'Non-trivial = >= 3 instructions and at least one replay whose kind or (D,P) differs from the recording input; '
        'distinct by descriptor hash.  A replay may re-use the input containers of the previous one refilled in place, may be complex valued '
        '(programs of entire functions / linear algebra / indexing), and the recording may happen while an older graph is still open')
ASSUMPTIONS = [
    'direct execution of the same instruction list through the generic algopy API on the unwrapped operands is the reference',
    'values compared with tolerance 1e-13 relative to max(1,|ref|) (the two paths run the same kernels); shapes and UTPM-vs-plain kind exactly',
    'the expected trace (node names per instruction) encodes: each executed operation once, in order, constants as Id nodes',
    'thorough tier: bucket "atheris" runs the compose property for 180 s under atheris/libFuzzer (Hypothesis fuzz_one_input, algopy instrumented); inconclusive if atheris is unavailable',
]

TOL = 1e-13


def _mk_input(case, spec):
    """inputs for one evaluation: spec = {'kind': 'nd'|'utpm', 'idx': [probe index per direction], 'hi': [...]}"""
    out = []
    cplx = spec.get('cplx')          # complex values: base point p[k] + 0.5j p[k'], higher coefficients (1 + 0.5j) hi
    for i, p in enumerate(case['pts']):
        if spec['kind'] == 'utpm' and spec.get('plain') and spec['plain'][i]:
            # mixed evaluation: this input is handed over as a plain array (a constant) next to Taylor polynomial inputs
            out.append(np.array(p[spec['idx'][0]], dtype=float))
            continue
        if spec['kind'] == 'nd':
            if cplx:
                out.append(np.array(p[spec['idx'][0]] + 0.5j * p[spec['im'][0]]))
            else:
                out.append(np.array(p[spec['idx'][0]], dtype=spec.get('dtype', 'float64')))
        else:
            D, P = spec['D'], len(spec['idx'])
            data = np.zeros((D, P) + p.shape[1:], dtype=complex if cplx else float)
            for q, k in enumerate(spec['idx']):
                data[0, q] = p[k] + (0.5j * p[spec['im'][q]] if cplx else 0.0)
            if D > 1:
                data[1:] = spec['hi'][i] * ((1 + 0.5j) if cplx else 1.0)
            out.append(UTPM(data))
    return out


# operations that are defined alike for real and complex values (entire functions, linear algebra without pivoting decisions,
# indexing): programs made of them only are also replayed with COMPLEX inputs
CPLX_UN = ('sin', 'cos', 'exp', 'square', 'negative')


def complex_safe(prog):
    for ins in prog:
        op = ins[0]
        if op == 'un' and ins[1] in CPLX_UN:
            continue
        if op == 'bin' and ins[1] in ('add', 'sub', 'mul'):
            continue
        if op == 'binc' and (ins[1] in ('add', 'sub', 'mul') or ins[4] == 'r'):
            continue
        if op == 'pow' and isinstance(ins[2], int) and ins[2] >= 0:
            continue
        if op in ('neg', 'get', 'T', 'reshape', 'sum', 'trace', 'dot', 'dotc', 'outer', 'real', 'imag', 'conj', 'tile', 'diag',
                  'zeros', 'set', 'setc'):
            continue
        return False
    return True


def refill(objs, new):
    """the caller keeps its input containers and writes the next point into them in place; returns the (same) objects,
    or None if the containers do not match the new values (then fresh objects are used)"""
    if objs is None or len(objs) != len(new):
        return None
    for o, n in zip(objs, new):
        if type(o) is not type(n):
            return None
        a, b = (o.data, n.data) if isinstance(o, UTPM) else (o, n)
        if a.shape != b.shape or a.dtype != b.dtype or a.ndim == 0:
            return None
    for o, n in zip(objs, new):
        if isinstance(o, UTPM):
            o.data[...] = n.data
        else:
            o[...] = n
    return objs


def _val(v):
    if isinstance(v, Function):
        v = v.x
    return v


def _same(got, ref, what):
    got, ref = _val(got), _val(ref)
    if isinstance(ref, UTPM):
        if not isinstance(got, UTPM):
            raise Violation('%s: replay gives %s, direct execution a UTPM' % (what, type(got).__name__))
        g, r = got.data, ref.data
    else:
        if isinstance(got, UTPM):
            raise Violation('%s: replay gives a UTPM, direct execution %s' % (what, type(ref).__name__))
        if isinstance(ref, tuple) or ref is None:
            return 0.0
        g, r = np.asarray(got), np.asarray(ref)
    if g.shape != r.shape:
        raise Violation('%s: shape %s, direct execution %s' % (what, g.shape, r.shape))
    if g.size == 0:
        return 0.0
    if not np.all(np.isfinite(r)):
        raise Inconclusive('non-finite reference')
    if g.dtype.kind != r.dtype.kind and 'c' in (g.dtype.kind, r.dtype.kind):
        raise Violation('%s: dtype %s, direct execution %s' % (what, g.dtype, r.dtype))
    err = np.abs(g - r) / np.maximum(1.0, np.abs(r))
    e = float(np.max(err)) if np.all(np.isfinite(g)) else float('inf')
    if g.dtype != r.dtype and 'float32' in (str(g.dtype), str(r.dtype)):
        raise Violation('%s: dtype %s, direct execution %s' % (what, g.dtype, r.dtype))
    if e > (TOL if r.dtype != np.float32 else 1e-5):
        i = np.unravel_index(int(np.argmax(np.where(np.isfinite(err), err, np.inf))), err.shape)
        raise Violation('%s: value at %s is %r, direct execution gives %r (rel. %.2e)' % (what, i, g[i].item(), r[i].item(), e))
    return e


# expected trace --------------------------------------------------------------------------------

BIN_NAME = {'add': 'add', 'sub': 'sub', 'mul': 'mul', 'div': 'truediv'}


def expected_trace(case):
    names = ['Id'] * len(case['pts'])
    for ins in case['prog']:
        op = ins[0]
        if op == 'un':
            names.append(ins[1])
        elif op == 'unp':
            names.append(ins[1])
        elif op == 'bin':
            names.append(BIN_NAME[ins[1]])
        elif op == 'binc':
            if ins[4] == 'l' and ins[1] == 'sub':
                names += ['neg', 'Id', 'add']
            else:
                names += ['Id', BIN_NAME[ins[1]]]
        elif op in ('pow', 'powreg'):
            names.append('pow')
        elif op == 'neg':
            names.append('neg')
        elif op == 'get':
            names.append('getitem')
        elif op == 'T':
            names.append('transpose')
        elif op in ('reshape', 'zeros', 'ones', 'sum', 'prod', 'trace', 'dot', 'outer', 'inv', 'solve', 'det', 'logdet',
                    'fft', 'ifft', 'real', 'imag', 'tile', 'diag', 'vecsym'):
            names.append(op)
        elif op == 'conj':
            names.append('conjugate')
        elif op == 'set':
            names.append('setitem')
        elif op == 'setc':
            names += ['Id', 'setitem']
        elif op == 'dotc':
            names += ['Id', 'dot']
        elif op == 'qr':
            names += ['qr', 'getitem']
        elif op == 'qr_twice':
            names += ['qr', 'getitem', 'Id', 'mul', 'getitem', 'add']
        elif op == 'qr_full':
            names += ['qr_full', 'getitem'] + (['getitem'] if ins[2] == 0 else [])
        elif op == 'chol_spd':
            names += ['transpose', 'dot', 'Id', 'add', 'cholesky']
        elif op == 'eigh_sym':
            names += ['transpose', 'add', 'eigh', 'getitem']
        elif op == 'eigh_fun':
            names += ['transpose', 'add', 'eigh', 'getitem', 'getitem', 'sin', 'mul', 'transpose', 'dot']
        elif op == 'eig_val':
            names += ['eig', 'getitem', 'real']
        elif op == 'svd_s':
            names += ['svd', 'getitem']
        elif op == 'lu':
            names += ['lu', 'getitem']
        elif op == 'symvec':
            names += ['transpose', 'add', 'symvec']
        elif op == 'symvec_raw':
            names.append('symvec')
        else:
            raise KeyError(op)
    return names


def check_trace(cg, case):
    fl = cg.functionList
    if cg.functionCount != len(fl):
        raise Violation('functionCount = %d but %d nodes recorded' % (cg.functionCount, len(fl)))
    for pos, f in enumerate(fl):
        if getattr(f, 'ID', None) != pos:
            raise Violation('node at position %d has ID %r' % (pos, getattr(f, 'ID', None)))
        for a in f.args:
            if isinstance(a, Function) and a is not f:
                aid = getattr(a, 'ID', None)
                if aid is None or aid >= pos or fl[aid] is not a:
                    raise Violation('node %d (%s) has an argument that was not recorded earlier in this graph (ID %r)' % (pos, f.func.__name__, aid))
    names = [f.func.__name__ for f in fl]
    exp = expected_trace(case)
    if names != exp:
        k = next((i for i, (a, b) in enumerate(zip(names, exp)) if a != b), min(len(names), len(exp)))
        raise Violation('recorded trace differs from the executed operations at node %d: recorded %s, executed %s (lengths %d/%d)'
                        % (k, names[k:k + 4], exp[k:k + 4], len(names), len(exp)))


def prop_replay(case, stats):
    prog, out = case['prog'], case['out']
    # reference for the recording input
    rec_in = _mk_input(case, case['rec'])
    try:
        direct = PG.run(prog, _mk_input(case, case['rec']))
    except NotImplementedError as e:
        raise Rejected(str(e))
    except Exception as e:
        raise Inconclusive('direct execution failed: %s %s' % (type(e).__name__, str(e)[:100]))
    # (a) recording  (case['nest']: another graph has been created before and was never switched off)
    outer = None
    if case.get('nest'):
        outer = CGraph()
        oa = Function(np.array([1.0, 2.0]))
        ob = algopy.sin(oa)
    cg = CGraph()
    try:
        fins = [Function(x) for x in rec_in]
        regs = guard(PG.run, prog, fins)
    finally:
        cg.trace_off()
    for i, (t, d) in enumerate(zip(regs, direct)):
        if not isinstance(t, Function):
            raise Violation('register %d of the traced run is %s, not a tracer node' % (i, type(t).__name__))
        stats.err(_same(t, d, 'while recording, register %d (%s)' % (i, 'input' if i < len(fins) else prog[i - len(fins)][0])))
    # (c) trace structure
    check_trace(cg, case)
    # (d) nothing recorded while off / by another graph
    n0 = len(cg.functionList)
    guard(lambda: (regs[out] * 2.0, 1.0 + regs[0], -regs[0]))
    if len(cg.functionList) != n0 or cg.functionCount != n0:
        raise Violation('operations executed after trace_off() were recorded (%d -> %d nodes)' % (n0, len(cg.functionList)))
    if Function.cgraph is not None:
        raise Violation('Function.cgraph is still set after trace_off()')
    if outer is not None and [f.func.__name__ for f in outer.functionList] != ['Id', 'sin']:
        raise Violation('a graph created earlier (and never switched off) recorded operations of the program or operations executed '
                        'while recording was off: %s' % [f.func.__name__ for f in outer.functionList][:8])
    cg2 = CGraph()
    try:
        g = Function(np.array([1.0, 2.0]))
        h = guard(lambda: algopy.sin(g) * g)
    finally:
        cg2.trace_off()
    if len(cg.functionList) != n0:
        raise Violation('recording a second graph changed the first graph (%d -> %d nodes)' % (n0, len(cg.functionList)))
    if [f.func.__name__ for f in cg2.functionList] != ['Id', 'sin', 'mul']:
        raise Violation('second graph recorded %s' % [f.func.__name__ for f in cg2.functionList])
    cg.independentFunctionList = fins
    cg.dependentFunctionList = [regs[out]]
    # (b) replays
    prev_in = None
    for n, rp in enumerate(case['replays']):
        try:
            ref = PG.run(prog, _mk_input(case, rp))
        except NotImplementedError as e:
            raise Rejected(str(e))
        except Exception as e:
            raise Inconclusive('direct execution failed: %s %s' % (type(e).__name__, str(e)[:100]))
        xin = _mk_input(case, rp)
        what = 'replay %d (%s%s via %s)' % (n, rp['kind'], '' if rp['kind'] == 'nd' else ' D=%d P=%d' % (rp['D'], len(rp['idx'])), rp['via'])
        if rp.get('reuse'):
            # the caller refills the containers of the previous evaluation in place and passes the same objects again
            same = refill(prev_in, xin)
            if same is not None:
                xin = same
                what += ' [same input objects, refilled in place]'
                stats.event('replay:containers-reused')
        prev_in = xin
        if rp['via'] == 'function':
            res = guard(cg.function, xin)
            if not isinstance(res, list) or len(res) != 1:
                raise Violation('%s: cg.function returned %r' % (what, type(res)))
            stats.err(_same(res[0], ref[out], what + ' output'))
        else:
            guard(cg.pushforward, xin)
            stats.err(_same(cg.dependentFunctionList[0].x, ref[out], what + ' output'))
        # every node value, not only the output (buffers hold their final state in both runs)
        for i, (t, d) in enumerate(zip(regs, ref)):
            stats.err(_same(t, d, what + ' register %d (%s)' % (i, 'input' if i < len(fins) else prog[i - len(fins)][0])))
        if len(cg.functionList) != n0:
            raise Violation('%s changed the number of recorded nodes' % what)


@st.composite
def eval_spec(draw, pts, K, kinds=('nd', 'utpm'), Dmax=4, plain_dtypes=False, like=None):
    """like = an earlier spec: same kind, dtype, D and P (so that the caller's containers can be refilled in place)"""
    kind = draw(st.sampled_from(list(kinds))) if like is None else like['kind']
    if kind == 'nd':
        dt = (draw(st.sampled_from(['float64', 'float64', 'float32'])) if plain_dtypes else 'float64') if like is None else like.get('dtype', 'float64')
        return {'kind': 'nd', 'idx': [draw(st.integers(0, K - 1))], 'dtype': dt}
    D = draw(st.sampled_from([2, 3, 1, Dmax])) if like is None else like['D']
    P = draw(st.sampled_from([2, 1, 3])) if like is None else len(like['idx'])
    idx = [draw(st.integers(0, K - 1)) for _ in range(P)]
    hi = [draw(gen.higher_coeffs((D - 1, P) + p.shape[1:], gen.coeff_elements(1.0))) for p in pts]
    return {'kind': 'utpm', 'D': D, 'idx': idx, 'hi': hi}


@st.composite
def replay_cases(draw, tier, first=None, families=None, max_len=8, min_len=1):
    K = 4
    pr = draw(PG.programs(n_inputs=(1, 2), max_len=max_len, min_len=min_len, families=families, out='any', K=K, first=first, list_index=True))
    case = dict(pr)
    rec = draw(eval_spec(pr['pts'], K, Dmax=2))
    rec['idx'] = [0] * len(rec['idx'])
    case['rec'] = rec
    nrep = draw(st.integers(1, 4))
    csafe = complex_safe(pr['prog'])
    case['replays'] = []
    for _ in range(nrep):
        if case['replays'] and draw(st.integers(0, 2)) == 0:
            rp = draw(eval_spec(pr['pts'], K, plain_dtypes=True, like=case['replays'][-1]))
            rp['reuse'] = True
        else:
            rp = draw(eval_spec(pr['pts'], K, plain_dtypes=True))
        rp['via'] = draw(st.sampled_from(['function', 'pushforward']))
        if csafe and draw(st.integers(0, 2)) == 0 and not rp.get('reuse'):
            rp['cplx'] = True
            rp['im'] = [draw(st.integers(0, K - 1)) for _ in rp['idx']]
            rp.pop('dtype', None)
        case['replays'].append(rp)
    case['nest'] = draw(st.integers(0, 3)) == 0
    return case


def _sig(spec):
    return (spec['kind'], spec.get('D'), len(spec['idx']))


def _nontrivial(case):
    if len(case['prog']) < 3:
        return False
    return any(_sig(r) != _sig(case['rec']) for r in case['replays'])


def _classes(case):
    c = ['rec=' + case['rec']['kind'], 'replays=%d' % len(case['replays'])] + (['replay:float32-ndarray'] if any(r.get('dtype') == 'float32' for r in case['replays']) else [])
    for r in case['replays']:
        c.append('replay:%s->%s' % (case['rec']['kind'], r['kind']))
    if any(r['kind'] == 'utpm' and case['rec']['kind'] == 'utpm' and _sig(r) != _sig(case['rec']) for r in case['replays']):
        c.append('replay:other-D-P')
    if any(r.get('cplx') for r in case['replays']):
        c.append('replay:complex-values')
    if any(r.get('reuse') for r in case['replays']):
        c.append('replay:same-spec-as-previous')
    if case.get('nest'):
        c.append('nested-open-graph')
    c += PG.features(case)
    return c


SINGLE = ['un', 'kink', 'special', 'unp', 'bin', 'bcast', 'binc', 'pow', 'powreg', 'neg', 'get', 'T', 'reshape', 'buf', 'set', 'rmw', 'sum', 'prod', 'trace',
          'dot', 'dotc', 'dotnd', 'outer', 'inv', 'solve', 'det', 'logdet', 'qr', 'chol', 'eigh', 'svd', 'lu', 'fft', 'tile', 'diag',
          'symvec', 'vecsym', 'cplx', 'bufdet']
CHEAP_TAIL = ['un', 'bin', 'binc', 'neg', 'get', 'set']


def prop_atheris(case, stats):
    """thorough tier: the compose property under coverage-guided mutation (vlib/checks/_c05_fuzz.py); inconclusive when
    atheris is unavailable or the time budget ends without a verdict"""
    import glob, json, os, shutil, subprocess, sys, tempfile
    from .. import env
    dirs = [d for d in (os.path.join(env.VERIF, '.deps', 'early'), os.environ.get('VERIF_ATHERIS_DIR', '')) if d and os.path.isdir(d)]
    probe = subprocess.run([sys.executable, '-B', '-c', 'import sys; sys.path[1:1] = %r; import atheris' % (dirs,)], capture_output=True)
    if probe.returncode != 0:
        stats.event('atheris:not-installed')
        raise Inconclusive('atheris is not installed; stage skipped')
    art = tempfile.mkdtemp(prefix='c05-atheris-')
    try:
        cmd = [sys.executable, '-B', '-m', 'vlib.checks._c05_fuzz', art, '-max_total_time=%d' % case['seconds'], '-seed=%d' % case['seed']]
        try:
            r = subprocess.run(cmd, cwd=env.VERIF, env=dict(os.environ, PYTHONHASHSEED='0'), capture_output=True, timeout=case['seconds'] + 600)
        except subprocess.TimeoutExpired:
            raise Inconclusive('atheris stage timed out')
        vio = os.path.join(art, 'violation.json')
        tail = r.stderr.decode('utf-8', 'replace')
        if os.path.exists(vio):
            doc = json.load(open(vio))
            d = os.path.join(env.OUT, 'replays', PID, 'found')
            os.makedirs(d, exist_ok=True)
            path = os.path.join(d, 'compose-atheris-%d.json' % case['seed'])
            shutil.copy(vio, path)
            raise Violation('%s (case saved as %s)' % (doc['msg'][:400], path))
        if r.returncode != 0 and not glob.glob(os.path.join(art, 'crash-*')):
            raise Inconclusive('atheris driver failed: ' + tail[-300:])
        if glob.glob(os.path.join(art, 'crash-*')):
            raise Inconclusive('atheris target crashed without a property violation (harness problem): ' + tail[-300:])
        import re
        m = re.search(r'stat::number_of_executed_units:\s*(\d+)', tail)
        stats.event('atheris:executed-units=%s' % (m.group(1) if m else '?'))
    finally:
        shutil.rmtree(art, ignore_errors=True)


def buckets(tier):
    bl = []
    for fam in SINGLE:
        bl.append(Bucket('op:' + fam,
                         (lambda fam=fam: replay_cases(tier, first=fam, families=CHEAP_TAIL, max_len=4, min_len=1)),
                         prop_replay, {'quick': 100, 'thorough': 500}, nontrivial=_nontrivial, classes=_classes))
    bl.append(Bucket('compose', (lambda: replay_cases(tier, max_len=12, min_len=3)), prop_replay,
                     {'quick': 150, 'thorough': 2000}, nontrivial=_nontrivial, classes=_classes,
                     shards={'quick': 16, 'thorough': 16}, weight=4.0))
    if tier == 'thorough':
        import os
        bl.append(Bucket('atheris', (lambda: st.just({'stage': 'atheris', 'seconds': 180, 'seed': int(os.environ.get('VERIF_SEED', '1'))})),
                         prop_atheris, {'quick': 1, 'thorough': 1}, nontrivial=(lambda case: False), classes=(lambda case: ['stage=atheris']),
                         weight=1e6))
    return bl
