"""C12 - low-order coefficients do not depend on the truncation degree.

Metamorphic oracle: for every D' < D, op(X[:D']).data == op(X).data[:D'] (tolerance 1e-12: same recurrences, the
kernels may vectorise differently); D' = 1 equals the plain NumPy value of the program at the base point.  Reverse
sweep: adjoint coefficients of order < D' computed from inputs and seeds truncated to D' equal those of the full sweep.
"""
import numpy as np
from hypothesis import strategies as st

from algopy import UTPM

from ..runner import Bucket, Violation, Inconclusive, Rejected, guard
from .. import prog as PG
from . import _meta as M
from .. import gen

PID = 'C12'
RULE = ('single-operation buckets (each public operation family first, then up to 2 cheap instructions) and composition buckets from the '
        'concolic program generator; D in 2..10 (reverse 2..6), fwd-largeD buckets D in {12,...,24}, every D\' in 1..D-1 is checked for each case; P in 1..3 with different base '
        'points.  Non-trivial = D >= 4 (so that some 2 <= D\' < D exists) and some input coefficient of order >= D\'=2 is non-zero; '
        'distinct by descriptor hash.  drivers-padded: init_* rays carried with 1..3 extra arbitrary coefficients, extract_* must return what it '
        'returns for exactly D = 2 / 3 (non-trivial = non-linear program and non-zero padding)')
ASSUMPTIONS = [
    'tolerance 1e-12 relative to max(1, max|coefficient layer of that order|) - per order, so that a vanishing low-order layer is seen next to huge high-order ones; D\' = 1 vs plain NumPy execution 1e-12',
    'forward buckets admit kink points (abs/sign/clip at the kink, ties of minimum/maximum): truncation invariance does not need smoothness; fwd-growth buckets scale coefficient k by g^k (g up to 100, D up to 10) for bilinear operations',
    'raw eigenvectors are excluded (sign convention may depend on the sign of a zero); eigenvalues and sign-invariant expressions are included',
]
TOL = 1e-12


def prop_forward(case, stats):
    D, P = case['D'], case['P']
    X = M.utpm_inputs(case)
    regs = guard(M.run_direct, case, X)
    datas = [M.reg_data(r) for r in regs]
    for Dp in range(1, D):
        rt = guard(M.run_direct, case, M.utpm_inputs(case, D=Dp))
        for i, (a, b) in enumerate(zip(datas, rt)):
            if a is None:
                continue
            b = M.reg_data(b)
            if b is None or b.shape != (Dp,) + a.shape[1:]:
                raise Violation('register %d (%s): data shape %s with D=%d but %s with D=%d' % (i, M.opname(case, i), a.shape, D, getattr(b, 'shape', None), Dp))
            M.close(b, a[:Dp], TOL, 'register %d (%s): coefficients computed with D\'=%d vs the first %d of D=%d' % (i, M.opname(case, i), Dp, Dp, D), stats, per_order=True)
    # D = 1 reproduces the plain function value.  (Not compared for programs that rewrite a buffer entry they have read:
    # NumPy hands out a scalar COPY for a full integer index where UTPM hands out a view, so the registers legitimately differ.)
    if 'rewrite-after-read' in PG.features(case):
        return
    for p in range(P):
        plain = PG.run(case['prog'], [np.array(pt[1 + p], dtype=float) for pt in case['pts']])
        for i, (a, v) in enumerate(zip(datas, plain)):
            if a is None or isinstance(v, tuple) or v is None:
                continue
            v = np.asarray(v)
            if v.shape != a.shape[2:]:
                raise Violation('register %d (%s): coefficient shape %s, plain NumPy execution gives %s' % (i, M.opname(case, i), a.shape[2:], v.shape))
            M.close(a[0, p], v, TOL, 'register %d (%s): zeroth coefficient of direction %d vs plain NumPy execution' % (i, M.opname(case, i), p), stats)


def prop_reverse(case, stats):
    D = case['D']
    cg, fins, regs = guard(M.record_nd, case)
    xbar = M._guard_reverse(case, cg, fins, M.utpm_inputs(case), case['ybar'])
    for Dp in range(1, D):
        xb = M._guard_reverse(case, cg, fins, M.utpm_inputs(case, D=Dp), case['ybar'][:Dp])
        for i, (a, b) in enumerate(zip(xbar, xb)):
            M.close(b, a[:Dp], TOL, 'adjoint of input %d: coefficients from a sweep with D\'=%d vs the first %d of D=%d' % (i, Dp, Dp, D), stats)


def prop_drivers_padded(case, stats):
    """the forward drivers read the coefficient that DEFINES the derivative (order 1: Jacobian, order 2: Hessian): propagating
    the init_* rays with extra, arbitrary higher coefficients must not change what extract_* returns"""
    x0 = np.array(case['pts'][0][1], dtype=float)
    N = x0.size
    v = case['v']
    drv = case['driver']
    X = {'jacobian': lambda: UTPM.init_jacobian(x0), 'jac_vec': lambda: UTPM.init_jac_vec(x0, v),
         'hessian': lambda: UTPM.init_hessian(x0), 'hess_vec': lambda: UTPM.init_hess_vec(x0, v)}[drv]()
    ex = {'jacobian': lambda y: UTPM.extract_jacobian(y), 'jac_vec': lambda y: UTPM.extract_jac_vec(y),
          'hessian': lambda y: UTPM.extract_hessian(N, y), 'hess_vec': lambda y: UTPM.extract_hess_vec(N, y)}[drv]
    D0, P = X.data.shape[:2]
    pad = np.resize(case['pad'], (case['k'], P, N))
    Xp = UTPM(np.concatenate([X.data, pad]))
    y = guard(lambda: PG.run(case['prog'], [UTPM(X.data.copy())])[case['out']])
    yp = guard(lambda: PG.run(case['prog'], [Xp])[case['out']])
    if not isinstance(y, UTPM) or not isinstance(yp, UTPM):
        raise Inconclusive('output is not a UTPM')
    ref = np.asarray(guard(ex, y), dtype=float)
    got = np.asarray(guard(ex, yp), dtype=float)
    M.close(got, ref, TOL, '%s extracted from the rays carried with %d extra coefficients vs with exactly D=%d' % (drv, case['k'], D0), stats)


@st.composite
def padded_cases(draw, tier):
    drv = draw(st.sampled_from(['hessian', 'hess_vec', 'jacobian', 'jac_vec', 'hessian']))
    pr = draw(PG.programs(n_inputs=(1, 1), in_rank=(1,), max_side=3, max_len=6, min_len=1,
                          out='scalar' if drv in ('hessian', 'hess_vec') else 'any', K=4, allow_ones=False))
    case = dict(pr)
    N = pr['pts'][0].shape[1]
    case['driver'] = drv
    case['v'] = draw(gen.float_array((N,), gen.nice_floats(-1.0, 1.0), sparse=False))
    case['k'] = draw(st.integers(1, 3))
    case['pad'] = draw(gen.float_array((3, 2, N), gen.coeff_elements(1.0), sparse=False))
    case['D'], case['P'] = 3 + case['k'], 1
    return case


@st.composite
def gap_cases(draw, tier, fam):
    """arguments whose first m-1 coefficient layers vanish identically (x = x0 + x_m t^m + ..., all elements, all directions):
    kernels that derive a needed derivative order from the first non-vanishing layer and from D must do so for every D"""
    case = draw(M.meta_cases(tier, first=fam, families=M.CHEAP_TAIL, max_len=2, Dlist=[5, 3, 7, 4, 8, 5]))
    m = draw(st.sampled_from([2, 2, 3]))
    for h in case['hi'] + case['althi']:
        h[:m - 1] = 0.0
    case['gap'] = m
    return case


def _nontrivial(case):
    if case['D'] < 4:
        return False
    return any(np.any(h[1:] != 0) for h in case['hi'])


def buckets(tier):
    bl = []
    for fam in ('dot', 'dotc', 'outer', 'bin', 'bcast'):
        bl.append(Bucket('fwd-growth:' + fam,
                         (lambda fam=fam: M.meta_cases(tier, first=fam, families=['bin', 'neg', 'get', 'dot'], max_len=2, Dmin=3, Dmax=10, growth=True)),
                         prop_forward, {'quick': 40, 'thorough': 300}, nontrivial=_nontrivial, classes=M.base_classes))
    # many coefficients: kernels may switch algorithm with D (blocked / FFT convolutions, cached tables)
    for fam in ('bin', 'dot', 'pow', 'bcast', 'iop', 'un', 'inv', 'solve', 'shift'):
        bl.append(Bucket('fwd-largeD:' + fam,
                         (lambda fam=fam: M.meta_cases(tier, first=fam, families=['bin', 'neg', 'get'], max_len=2, Dlist=[12, 16, 24, 13, 20])),
                         prop_forward, {'quick': 12, 'thorough': 120}, nontrivial=_nontrivial, classes=M.base_classes, weight=6.0))
    for fam in M.FWD_SINGLE:
        bl.append(Bucket('fwd:' + fam, (lambda fam=fam: M.meta_cases(tier, first=fam, families=M.CHEAP_TAIL, max_len=3, Dmin=2)),
                         prop_forward, {'quick': 100 if fam in ('special', 'unp') else 40, 'thorough': 600}, nontrivial=_nontrivial,
                         classes=M.base_classes))
    bl.append(Bucket('fwd:compose', (lambda: M.meta_cases(tier, max_len=8, Dmin=2)), prop_forward,
                     {'quick': 40, 'thorough': 600}, nontrivial=_nontrivial, classes=M.base_classes,
                     shards={'quick': 6, 'thorough': 12}, weight=4.0))
    for fam in ('special', 'unp', 'un', 'pow'):
        bl.append(Bucket('fwd-gap:' + fam, (lambda fam=fam: gap_cases(tier, fam)), prop_forward, {'quick': 40, 'thorough': 400},
                         nontrivial=(lambda case: case['D'] % case['gap'] != 0 and any(np.any(h[case['gap'] - 1:] != 0) for h in case['hi'])),
                         classes=(lambda case: M.base_classes(case) + ['first-nonzero-order=%d' % case['gap']]), weight=3.0))
    bl.append(Bucket('drivers-padded', (lambda: padded_cases(tier)), prop_drivers_padded, {'quick': 150, 'thorough': 1500},
                     nontrivial=(lambda case: 'nonlinear' in PG.features(case) and np.any(case['pad'] != 0)),
                     classes=(lambda case: ['driver=' + case['driver'], 'extra=%d' % case['k']] + PG.features(case)),
                     shards={'quick': 3, 'thorough': 8}, weight=3.0))
    for fam in M.REV_SINGLE:
        bl.append(Bucket('rev:' + fam, (lambda fam=fam: M.meta_cases(tier, first=fam, families=M.CHEAP_TAIL, max_len=3, Dmin=2, reverse_mode=True)),
                         prop_reverse, {'quick': 25, 'thorough': 250}, nontrivial=_nontrivial, classes=M.base_classes, weight=2.0))
    bl.append(Bucket('rev:compose', (lambda: M.meta_cases(tier, max_len=8, Dmin=2, reverse_mode=True)), prop_reverse,
                     {'quick': 30, 'thorough': 400}, nontrivial=_nontrivial, classes=M.base_classes,
                     shards={'quick': 6, 'thorough': 12}, weight=6.0))
    return bl
