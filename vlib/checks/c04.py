"""C04 - graph derivative drivers return the derivatives at the requested point.

Oracle: derivatives of the *direct* program obtained from forward-mode Taylor propagation only (first order:
coefficient 1 along e_j; second order: polarization of coefficient 2 along e_i, e_i + e_j; Taylor expansion of the
Jacobian along a curve: 2D-shift with v = e_j).  Independence of the recording: the same driver call on graphs
recorded at different points / with different input kinds must agree.
"""
import numpy as np
from hypothesis import strategies as st

import algopy
from algopy import UTPM, CGraph, Function

from ..runner import Bucket, Violation, Inconclusive, Rejected, guard, KF
from .. import gen
from .. import prog as PG

PID = 'C04'
RULE = ('programs R^N -> R (gradient, hessian, hess_vec) or R^N -> R^M (jacobian, jac_vec, vec_jac, vec_hess, vec_hess_vec, '
        'jacobian of a UTPM argument) from the concolic generator, N in 1..4; two graphs recorded at probe point 0 (ndarray) and at '
        'probe point 3 (UTPM with drawn D,P); every driver evaluated at probe point 1 (different from both recording points) '
        'and at the recording point, with generated v, w.  Non-trivial = N >= 2, evaluation point != recording point and the '
        'program is non-linear; distinct by descriptor hash.  Further buckets: drivers-poly (exact analytic reference), drivers-buffers, '
        'drivers-intpoint (integer-valued points typed int64/int32/list of ints), gradient-list; hess_vec / vec_hess_vec repeated at the '
        'same point with another direction; every returned object is kept uncopied and re-checked after all later calls')
ASSUMPTIONS = [
    'reference derivatives come from algopy forward mode on the direct program (validated by C01/C02/C07/C08/C09/C12), not from the tracer',
    'drivers-poly buckets: polynomial programs with integer/dyadic constants, reference = exact analytic derivatives (sparse multivariate polynomials over Fractions), also cross-checked against the forward-mode reference',
    'tolerance 1e-9 relative to max(1, max|reference|); graphs recorded differently must agree to 1e-11 (same scale)',
    'vec_hess_vec requires len(w) == len(x) (the code checks x.shape == w.shape): only M == N programs are used for it',
]

TOL = 1e-9
TOL_REC = 1e-11


def _f(case, X):
    return PG.run(case['prog'], [X])[case['out']]


def fwd_jacobian(case, x):
    """(M, N) or (N,) Jacobian of the direct program by forward mode: coefficient 1 along e_j"""
    N = x.size
    data = np.zeros((2, N, N))
    data[0] = x
    data[1] = np.eye(N)
    y = _f(case, UTPM(data))
    J = y.data[1]                       # (N,) + outshape
    return np.moveaxis(J, 0, -1)        # outshape + (N,)


def fwd_hessian_of(case, x, w=None):
    """Hessian of the scalar program (or of <w, F>) by polarization of second order coefficients"""
    N = x.size
    dirs = [np.eye(N)[i] for i in range(N)]
    pairs = [(i, j) for i in range(N) for j in range(i + 1, N)]
    dirs += [np.eye(N)[i] + np.eye(N)[j] for i, j in pairs]
    P = len(dirs)
    data = np.zeros((3, P, N))
    data[0] = x
    data[1] = np.array(dirs)
    y = _f(case, UTPM(data))
    c2 = y.data[2]                      # (P,) + outshape
    if w is not None:
        c2 = np.tensordot(c2, w, axes=([1], [0]))
    H = np.zeros((N, N))
    for i in range(N):
        H[i, i] = 2 * c2[i]
    for k, (i, j) in enumerate(pairs):
        H[i, j] = H[j, i] = c2[N + k] - c2[i] - c2[j]
    return H


def fwd_jacobian_series(case, X):
    """Taylor expansion of every Jacobian entry along the curve X (UTPM (D,P,N)): data (D,P,M,N), by the 2D-shift"""
    D, P, N = X.data.shape
    cols = []
    pad0 = np.concatenate([X.data, np.zeros_like(X.data)])
    y0 = _f(case, UTPM(pad0))
    for j in range(N):
        z = pad0.copy()
        z[D, :, j] = 1.0
        yz = _f(case, UTPM(z))
        cols.append(yz.data[D:] - y0.data[D:])   # (D,P,M)
    return np.stack(cols, axis=-1)


def exact_refs(case, x):
    """exact analytic Jacobian and Hessians of a polynomial program (integer/dyadic constants) at x, in Fractions"""
    from fractions import Fraction
    from ..oracles import ExactPoly
    N = x.size
    xp = np.array([ExactPoly.var(N, i) for i in range(N)], dtype=object)
    y = PG.run(case['prog'], [xp])[case['out']]
    xs = [Fraction(float(v)) for v in x]
    ys = [e if isinstance(e, ExactPoly) else ExactPoly.const(N, Fraction(e)) for e in np.ravel(y)]
    J = np.array([[float(e.diff(j).eval(xs)) for j in range(N)] for e in ys])
    Hs = np.array([[[float(e.diff(i).diff(j).eval(xs)) for j in range(N)] for i in range(N)] for e in ys])
    deg = max(e.degree() for e in ys)
    return J, Hs, deg


def record(case, which):
    """which = 'nd' (probe point 0) or 'utpm' (probe point 3, UTPM of the drawn degree)"""
    p = case['pts'][0]
    cg = CGraph()
    try:
        if which == 'nd':
            fx = Function(np.array(p[0], dtype=float))
        else:
            Dr, Pr = case['recDP']
            d = np.zeros((Dr, Pr) + p.shape[1:])
            d[0] = p[3]
            if Dr > 1:
                d[1] = 0.25
            fx = Function(UTPM(d))
        regs = PG.run(case['prog'], [fx])
    finally:
        cg.trace_off()
    cg.independentFunctionList = [fx]
    cg.dependentFunctionList = [regs[case['out']]]
    return cg


def _cmp(got, ref, what, stats, tol=TOL):
    got = np.asarray(got)
    ref = np.asarray(ref)
    if not np.all(np.isfinite(ref)):
        raise Inconclusive('non-finite reference')
    if got.shape != ref.shape:
        # drivers may return (1,N) for M == 1 or squeeze; the statement fixes values, compare after squeezing size-1 axes
        if got.size == ref.size and np.squeeze(got).shape == np.squeeze(ref).shape:
            got, ref = np.squeeze(got), np.squeeze(ref)
        else:
            raise Violation('%s: result shape %s, reference %s' % (what, got.shape, ref.shape))
    scale = max(1.0, float(np.max(np.abs(ref))) if ref.size else 1.0)
    if not np.all(np.isfinite(got)):
        raise Violation('%s: non-finite result' % what)
    e = float(np.max(np.abs(got - ref))) / scale if ref.size else 0.0
    stats.err(e)
    if e > tol:
        i = np.unravel_index(int(np.argmax(np.abs(got - ref))), ref.shape) if ref.ndim else ()
        raise Violation('%s: entry %s is %.12g, reference %.12g (rel. %.2e)' % (what, tuple(int(k) for k in i), float(got[i]), float(ref[i]), e))


class _Snap(dict):
    """dict of driver results that records a byte snapshot of every value when it is stored"""

    def __init__(self, rec, snaps):
        dict.__init__(self)
        self._rec, self._snaps = rec, snaps

    def __setitem__(self, key, val):
        dict.__setitem__(self, key, val)
        if isinstance(val, np.ndarray):
            self._snaps[(self._rec, key)] = val.tobytes()


def _xarg(case, x, allow_list=True):
    """the evaluation point in the form the case asks for: float64 array (default), integer typed array, list of Python ints
    (integer valued points only; the derivatives do not depend on how the point is typed)"""
    form = case.get('xform', 'float64')
    if form == 'float64':
        return np.array(x, dtype=float)
    if form == 'list-int' and allow_list:
        return [int(v) for v in x]
    return np.array(x, dtype='int32' if form == 'int32' else 'int64')


def prop_drivers(case, stats):
    kind = case['kind']           # 'scalar' or 'vector'
    pts = case['pts'][0]
    N = pts.shape[1]
    evals = [('other', pts[1]), ('recpoint', pts[0])]
    try:
        refs = {}
        for tag, x in evals:
            J = fwd_jacobian(case, x)
            r = {'J': J}
            if kind == 'scalar':
                r['H'] = fwd_hessian_of(case, x)
            else:
                r['wH'] = fwd_hessian_of(case, x, case['w'])
            refs[tag] = r
        if case.get('X') is not None:
            refs['Jseries'] = fwd_jacobian_series(case, UTPM(case['X']))
    except NotImplementedError as e:
        raise Rejected(str(e))
    except Exception as e:
        raise Inconclusive('forward reference failed: %s %s' % (type(e).__name__, str(e)[:120]))
    if case.get('poly') and 'rewrite-after-read' not in PG.features(case):
        # (programs that rewrite a buffer entry they have read are left to the forward-mode reference: an object array hands out
        #  the element itself for a full integer index, where UTPM hands out a view - the two executions legitimately differ)
        # polynomial programs: replace the forward-mode reference by the exact analytic derivatives (and cross-check the two)
        for tag, x in evals:
            J, Hs, deg = exact_refs(case, np.array(x, dtype=float))
            stats.event('poly-degree=%d' % min(deg, 8))
            r = refs[tag]
            if kind == 'scalar':
                _cmp(r['J'], J[0], 'forward-mode gradient vs exact analytic gradient', stats)
                _cmp(r['H'], Hs[0], 'forward-mode hessian vs exact analytic hessian', stats)
                r['J'], r['H'] = J[0], Hs[0]
            else:
                _cmp(r['J'], J, 'forward-mode jacobian vs exact analytic jacobian', stats)
                wH = np.tensordot(case['w'], Hs, axes=([0], [0]))
                _cmp(r['wH'], wH, 'forward-mode vec_hess vs exact analytic', stats)
                r['J'], r['wH'] = J, wH
    v = case['v']
    w = case['w']
    results = {}
    snaps = {}
    for rec in ('nd', 'utpm'):
        cg = guard(record, case, rec)
        res = _Snap(rec, snaps)
        for tag, x in evals:
            x = np.array(x, dtype=float)
            r = refs[tag]
            if kind == 'scalar':
                res[tag, 'gradient'] = guard(cg.gradient, _xarg(case, x, allow_list=False))
                _cmp(res[tag, 'gradient'], r['J'], 'gradient at %s point (graph recorded with %s)' % (tag, rec), stats)
                res[tag, 'hessian'] = guard(cg.hessian, _xarg(case, x))
                _cmp(res[tag, 'hessian'], r['H'], 'hessian at %s point (graph recorded with %s)' % (tag, rec), stats)
                res[tag, 'hess_vec'] = guard(cg.hess_vec, _xarg(case, x), v.copy())
                _cmp(res[tag, 'hess_vec'], r['H'] @ v, 'hess_vec at %s point (graph recorded with %s)' % (tag, rec), stats)
                # the same driver again at the same point with another direction (nothing may be carried over from the first call)
                v2 = v[::-1] * 0.5 + 0.25
                res[tag, 'hess_vec2'] = guard(cg.hess_vec, _xarg(case, x), v2.copy())
                _cmp(res[tag, 'hess_vec2'], r['H'] @ v2, 'second hess_vec at %s point, other direction (graph recorded with %s)' % (tag, rec), stats)
                if case['listarg']:
                    g = guard(cg.gradient, [x.copy()])
                    if not isinstance(g, list) or len(g) != 1:
                        raise Violation('gradient([x]) returned %r' % type(g))
                    _cmp(g[0], r['J'], 'gradient([x]) at %s point (graph recorded with %s)' % (tag, rec), stats)
            else:
                J = r['J']
                M = J.shape[0]
                res[tag, 'jacobian'] = guard(cg.jacobian, _xarg(case, x))
                _cmp(res[tag, 'jacobian'], J, 'jacobian at %s point (graph recorded with %s)' % (tag, rec), stats)
                res[tag, 'jac_vec'] = guard(cg.jac_vec, _xarg(case, x), v.copy())
                _cmp(res[tag, 'jac_vec'], J @ v, 'jac_vec at %s point (graph recorded with %s)' % (tag, rec), stats)
                res[tag, 'vec_jac'] = guard(cg.vec_jac, w.copy(), _xarg(case, x))
                _cmp(res[tag, 'vec_jac'], w @ J, 'vec_jac at %s point (graph recorded with %s)' % (tag, rec), stats)
                res[tag, 'vec_hess'] = guard(cg.vec_hess, w.copy(), _xarg(case, x))
                _cmp(res[tag, 'vec_hess'], r['wH'], 'vec_hess at %s point (graph recorded with %s)' % (tag, rec), stats)
                if M == N:
                    res[tag, 'vec_hess_vec'] = guard(cg.vec_hess_vec, w.copy(), _xarg(case, x), v.copy())
                    _cmp(res[tag, 'vec_hess_vec'], r['wH'] @ v, 'vec_hess_vec at %s point (graph recorded with %s)' % (tag, rec), stats)
                    v2 = v[::-1] * 0.5 + 0.25
                    res[tag, 'vec_hess_vec2'] = guard(cg.vec_hess_vec, w.copy(), _xarg(case, x), v2.copy())
                    _cmp(res[tag, 'vec_hess_vec2'], r['wH'] @ v2, 'second vec_hess_vec at %s point, other direction (graph recorded with %s)' % (tag, rec), stats)
        if case.get('xform', 'float64') == 'float64':
            # the caller keeps ONE array for the point and updates it in place between calls (x -= step * g)
            xa = np.array(evals[0][1], dtype=float)
            drv = [('gradient', lambda: cg.gradient(xa), 'J'), ('hess_vec', lambda: cg.hess_vec(xa, v.copy()), None)] if kind == 'scalar' \
                else [('jacobian', lambda: cg.jacobian(xa), 'J'), ('jac_vec', lambda: cg.jac_vec(xa, v.copy()), None)]
            for name, call, key in drv:
                xa[...] = evals[0][1]
                r0 = guard(call)
                xa[...] = evals[1][1]
                r1 = guard(call)
                for tag, got in (('other', r0), ('recpoint', r1)):
                    r = refs[tag]
                    ref = r['J'] if key == 'J' else (r['H'] @ v if kind == 'scalar' else r['J'] @ v)
                    _cmp(got, ref, '%s with the caller\'s point array %s (graph recorded with %s)'
                         % (name, 'first filled' if tag == 'other' else 'refilled in place with another point', rec), stats)
        if kind == 'vector' and case.get('X') is not None:
            Jt = guard(cg.jacobian, UTPM(case['X'].copy()))
            if not isinstance(Jt, UTPM):
                raise Violation('jacobian(UTPM) returned %s' % type(Jt).__name__)
            res['Jseries'] = Jt.data
            _cmp(Jt.data, refs['Jseries'], 'jacobian(UTPM x) (graph recorded with %s)' % rec, stats)
        results[rec] = res
        # values returned by earlier driver calls (held without copying) must not have been changed by later calls
        for key, val in res.items():
            arr = np.asarray(val)
            snap = snaps.get((rec, key))
            if snap is not None and arr.tobytes() != snap:
                raise Violation('the value returned earlier by %s was changed by a later driver call on the same graph' % (key,))
    # independence of how the graph was recorded
    for key, a in results['nd'].items():
        b = results['utpm'][key]
        _cmp(np.asarray(a), np.asarray(b), 'result of %s depends on how the graph was recorded' % (key,), stats, tol=TOL_REC)


def prop_gradient_list(case, stats):
    """cg.gradient([x1, x2, ...]) for a program of several array-valued inputs returns the list of partial gradients"""
    pts = case['pts']
    nin = len(pts)
    for tag, k in (('other', 1), ('recpoint', 0)):
        xs = [np.array(p[k], dtype=float) for p in pts]
        # forward reference: one direction per input entry
        sizes = [x.size for x in xs]
        Ntot = sum(sizes)
        datas = []
        off = 0
        for x in xs:
            d = np.zeros((2, Ntot) + x.shape)
            d[0] = x
            d1 = d[1].reshape(Ntot, x.size)        # (a view: also right for 0-d inputs)
            for j in range(x.size):
                d1[off + j, j] = 1.0
            off += x.size
            datas.append(UTPM(d))
        try:
            y = PG.run(case['prog'], datas)[case['out']]
        except NotImplementedError as e:
            raise Rejected(str(e))
        except Exception as e:
            raise Inconclusive('forward reference failed: %s' % type(e).__name__)
        g = y.data[1]
        refs = []
        off = 0
        for x in xs:
            refs.append(g[off:off + x.size].reshape(x.shape))
            off += x.size
        # graph recorded at probe point 0 (ndarray inputs)
        cg = CGraph()
        try:
            fins = [Function(np.array(p[0], dtype=float)) for p in pts]
            regs = guard(PG.run, case['prog'], fins)
        finally:
            cg.trace_off()
        cg.independentFunctionList = fins
        cg.dependentFunctionList = [regs[case['out']]]
        got = guard(cg.gradient, [x.copy() for x in xs])
        if not isinstance(got, list) or len(got) != nin:
            raise Violation('gradient(list of %d arrays) returned %s of length %s' % (nin, type(got).__name__, getattr(got, '__len__', lambda: None)()))
        for i, (a, b) in enumerate(zip(got, refs)):
            _cmp(a, b, 'gradient([x1,..]) component %d at %s point' % (i, tag), stats)


@st.composite
def gradient_list_cases(draw, tier):
    allow_bcast = not KF.is_open('KF-setitem-broadcast-reverse')
    pr = draw(PG.programs(n_inputs=(2, 2), in_rank=(1, 2), max_side=3, max_len=6, min_len=1, out='scalar', K=4,
                          allow_set_broadcast=allow_bcast, allow_ones=False))
    case = dict(pr)
    case['kind'] = 'scalar-list'
    case['recDP'] = (1, 1)
    return case


@st.composite
def driver_cases(draw, tier, kind, first=None, families=None, max_len=8, poly=False, intpoint=False):
    allow_bcast = not KF.is_open('KF-setitem-broadcast-reverse')
    pr = draw(PG.programs(n_inputs=(1, 1), in_rank=(1,), max_side=4, max_len=max_len, min_len=1, families=families,
                          out=kind, K=4, allow_set_broadcast=allow_bcast, first=first, allow_ones=False, poly=poly))
    case = dict(pr)
    if intpoint:
        # integer valued probe points (polynomial programs have no value-dependent preconditions), handed to the drivers as
        # integer typed arrays / lists of Python ints; v and w keep their fractional parts
        case['pts'] = [np.rint(pr['pts'][0] * 2.0)]
        case['xform'] = draw(st.sampled_from(['int64', 'list-int', 'int32', 'int64']))
        pr = case
    case['kind'] = kind
    case['poly'] = poly
    N = pr['pts'][0].shape[1]
    y = PG.run(pr['prog'], [np.array(pr['pts'][0][0], dtype=float)])[pr['out']]
    M = int(np.size(y))
    dense = gen.nice_floats(-1.0, 1.0)
    case['v'] = draw(gen.float_array((N,), dense, sparse=False))
    case['w'] = draw(gen.float_array((M,), dense, sparse=False)) if kind == 'vector' else np.ones(1)
    case['recDP'] = draw(st.sampled_from([(1, 1), (2, 1), (3, 2), (1, 3)]))
    case['listarg'] = draw(st.booleans())
    case['X'] = None
    if kind == 'vector' and draw(st.booleans()):
        D = draw(st.sampled_from([2, 3, 1]))
        P = draw(st.sampled_from([2, 1]))
        X = np.zeros((D, P, N))
        X[0] = pr['pts'][0][1:1 + P]
        if D > 1:
            X[1:] = draw(gen.higher_coeffs((D - 1, P, N), gen.coeff_elements(1.0)))
        case['X'] = X
    return case


def _nontrivial(case):
    return case['pts'][0].shape[1] >= 2 and 'nonlinear' in PG.features(case)


def _classes(case):
    c = ['kind=' + case['kind'], 'N=%d' % case['pts'][0].shape[1], 'recDP=%s' % (tuple(case['recDP']),), 'point=' + case.get('xform', 'float64')]
    if case.get('X') is not None:
        c.append('jacobian-of-UTPM')
    c += PG.features(case)
    return c


FAMS = [f for f in PG.FAMILIES_ALL]


def buckets(tier):
    bl = []
    for kind in ('scalar', 'vector'):
        bl.append(Bucket('drivers:' + kind, (lambda kind=kind: driver_cases(tier, kind, max_len=8)), prop_drivers,
                         {'quick': 120, 'thorough': 1200}, nontrivial=_nontrivial, classes=_classes,
                         shards={'quick': 8, 'thorough': 16}, weight=5.0))
        bl.append(Bucket('drivers-buffers:' + kind,
                         (lambda kind=kind: driver_cases(tier, kind, first='rmw', families=['un', 'bin', 'binc', 'set', 'rmw', 'get', 'buf'], max_len=6)),
                         prop_drivers, {'quick': 120, 'thorough': 900}, nontrivial=_nontrivial, classes=_classes,
                         shards={'quick': 4, 'thorough': 8}, weight=5.0))
        bl.append(Bucket('drivers-poly:' + kind,
                         (lambda kind=kind: driver_cases(tier, kind, families=PG.FAMILIES_POLY, max_len=7, poly=True)),
                         prop_drivers, {'quick': 120, 'thorough': 900}, nontrivial=_nontrivial, classes=_classes,
                         shards={'quick': 4, 'thorough': 8}, weight=6.0))
    for kind in ('scalar', 'vector'):
        # views of views: reshape of transposed / strided / reversed data, whose adjoints are copies, not views
        bl.append(Bucket('drivers-views:' + kind,
                         (lambda kind=kind: driver_cases(tier, kind, families=['reshape', 'T', 'get', 'reshape', 'un', 'bin'], max_len=6)),
                         prop_drivers, {'quick': 80, 'thorough': 600}, nontrivial=_nontrivial, classes=_classes,
                         shards={'quick': 2, 'thorough': 6}, weight=5.0))
    for kind in ('scalar', 'vector'):
        bl.append(Bucket('drivers-intpoint:' + kind,
                         (lambda kind=kind: driver_cases(tier, kind, families=PG.FAMILIES_POLY, max_len=6, poly=True, intpoint=True)),
                         prop_drivers, {'quick': 80, 'thorough': 600}, nontrivial=_nontrivial, classes=_classes,
                         shards={'quick': 2, 'thorough': 6}, weight=6.0))
    bl.append(Bucket('gradient-list', (lambda: gradient_list_cases(tier)), prop_gradient_list, {'quick': 120, 'thorough': 800},
                     nontrivial=(lambda case: 'nonlinear' in PG.features(case)),
                     classes=(lambda case: ['kind=scalar-list'] + PG.features(case)), shards={'quick': 4, 'thorough': 8}, weight=4.0))
    return bl
