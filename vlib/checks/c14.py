"""C14 - operands are never modified; aliased and in-place forms are safe.

Oracles: (a) byte equality of every argument buffer before/after each operation of a generated program executed
directly on UTPM operands (an in-place write may only change registers sharing memory with its target); constants
unchanged; (b) recording, re-evaluation and the reverse sweep leave the user's input and seed objects byte-identical;
(c) x op x equals x op copy(x); x op= x and x op= view(x) equal x op= copy of that operand.
"""
import operator

import numpy as np
from hypothesis import strategies as st

import algopy
from algopy import UTPM, CGraph, Function

from ..runner import Bucket, Violation, Inconclusive, Rejected, guard, KF
from .. import gen
from .. import prog as PG
from . import _meta as M

PID = 'C14'
RULE = ('(a) programs from the concolic generator (single-operation buckets for every operation family + compositions) executed '
        'instruction by instruction on UTPM operands with byte snapshots of all registers and constants; (b) traced programs with UTPM '
        'recording inputs, re-evaluation inputs and seeds snapshotted; (c) aliasing buckets: binary operator/function with both operands '
        'the same object, in-place operators with the right operand the same object / a reversed view / the transpose / a broadcast row of '
        'the left operand; (d) results of arithmetic / functions / products must not share memory with an operand; (e) pb-direct:* pullbacks called '
        'directly with out=None leave seed, operands and forward result byte-identical; (f) recall:* an expression evaluated again after its '
        'operand object was updated in place.  Non-trivial = D >= 2 and rank >= 1 (loop order only matters then); distinct by descriptor hash')
ASSUMPTIONS = [
    'byte-wise comparison of .data buffers (and of ndarray constants) before/after',
    'aliased vs copied evaluation compared to 1e-13 relative (same arithmetic)',
]
TOL = 1e-13


def _bytes(v):
    if isinstance(v, UTPM):
        return v.data.tobytes()
    if isinstance(v, np.ndarray):
        return v.tobytes()
    return None


def _mem(v):
    if isinstance(v, UTPM):
        return v.data
    if isinstance(v, np.ndarray):
        return v
    return None


# operations whose result is a new polynomial by nature (arithmetic, elementary functions, products, factorizations): the
# result must not share memory with an operand - otherwise an in-place update of the result (term = x**k; term *= c) would
# silently modify the operand.  (get, T, reshape, real, diag, ... hand out views on purpose and are not listed.)
FRESH_RESULT = ('un', 'unp', 'bin', 'binc', 'pow', 'powreg', 'rpowc', 'neg', 'abs', 'minmax', 'dot', 'dotc', 'dotnd', 'outer', 'inv',
                'solve', 'solvec', 'det', 'logdet', 'expm', 'sum', 'prod', 'trace', 'umax', 'conj', 'imag')


def prop_operands(case, stats):
    X = [UTPM(d) for d in M.utpm_inputs(case)]
    regs = list(X)
    prog = case['prog']
    consts = [(n, k, a.tobytes()) for n, ins in enumerate(prog) for k, a in enumerate(ins) if isinstance(a, np.ndarray)]
    for n, ins in enumerate(prog):
        snaps = [_bytes(r) for r in regs]
        out = guard(PG.step, ins, regs)
        target = _mem(regs[ins[1]]) if ins[0] in ('set', 'setc') else None
        for i, (r, s0) in enumerate(zip(regs, snaps)):
            if s0 is None:
                continue
            m = _mem(r)
            if target is not None and np.shares_memory(m, target):
                continue
            if _bytes(r) != s0:
                raise Violation('instruction %d (%s) modified register %d (%s), which is only an operand/bystander'
                                % (n, ins[0] + (':' + str(ins[1]) if isinstance(ins[1], str) else ''), i, M.opname(case, i)))
        if ins[0] in FRESH_RESULT and isinstance(out, UTPM):
            for i, r in enumerate(regs):
                m = _mem(r)
                if m is not None and np.shares_memory(m, out.data):
                    raise Violation('instruction %d (%s): the result shares memory with register %d (%s): an in-place update of the '
                                    'result would modify the operand' % (n, ins[0] + (':' + str(ins[1]) if isinstance(ins[1], str) else ''), i, M.opname(case, i)))
            for k, a in enumerate(ins):
                if isinstance(a, np.ndarray) and np.shares_memory(a, out.data):
                    raise Violation('instruction %d (%s): the result shares memory with its ndarray constant operand' % (n, ins[0]))
        regs.append(out)
    for n, k, b in consts:
        if prog[n][k].tobytes() != b:
            raise Violation('instruction %d (%s) modified its ndarray constant operand' % (n, prog[n][0]))


def prop_tracer(case, stats):
    # (b) user objects handed to the tracer: recording inputs, evaluation inputs, seed
    rec_in = [UTPM(d[:min(2, case['D'])].copy()) for d in M.utpm_inputs(case)]
    rec_b = [x.data.tobytes() for x in rec_in]
    cg = CGraph()
    try:
        fins = [Function(x) for x in rec_in]
        regs = guard(PG.run, case['prog'], fins)
    finally:
        cg.trace_off()
    cg.independentFunctionList = fins
    cg.dependentFunctionList = [regs[case['out']]]
    if [x.data.tobytes() for x in rec_in] != rec_b:
        raise Violation('recording modified the user\'s input object')
    X = [UTPM(d) for d in M.utpm_inputs(case)]
    xb = [x.data.tobytes() for x in X]
    guard(cg.pushforward, X)
    if [x.data.tobytes() for x in X] != xb:
        raise Violation('re-evaluating the graph modified the user\'s input object')
    y = cg.dependentFunctionList[0].x
    if not isinstance(y, UTPM) or y.data.shape != case['ybar'].shape:
        raise Inconclusive('seed shape')
    seed = UTPM(case['ybar'].copy())
    sb = seed.data.tobytes()
    try:
        guard(cg.pullback, [seed])
    except Violation as v:
        if "has no attribute 'pb_" in str(v):
            raise Rejected(str(v)[:200])
        raise
    if seed.data.tobytes() != sb:
        raise Violation('the reverse sweep modified the user\'s seed object')
    if [x.data.tobytes() for x in X] != xb:
        raise Violation('the reverse sweep modified the user\'s input object')
    # drivers must not modify plain array arguments either
    x0 = np.array(case['pts'][0][1], dtype=float)
    if len(case['pts']) == 1 and x0.ndim == 1 and np.ndim(regs[case['out']].x.data[0, 0]) <= 1:
        b = x0.tobytes()
        if np.ndim(regs[case['out']].x.data[0, 0]) == 0:
            guard(cg.gradient, x0)
            guard(cg.hessian, x0)
        else:
            guard(cg.jacobian, x0)
        if x0.tobytes() != b:
            raise Violation('a driver modified its ndarray argument')


# ---------------------------------------------------------------------------
# aliasing
# ---------------------------------------------------------------------------

BINARY = {
    'add': operator.add, 'sub': operator.sub, 'mul': operator.mul, 'div': operator.truediv,
    'pow': operator.pow, 'dot': algopy.dot, 'outer': algopy.outer, 'solve': algopy.solve,
    'minimum': algopy.minimum, 'maximum': algopy.maximum,
}
INPLACE = {'iadd': operator.iadd, 'isub': operator.isub, 'imul': operator.imul, 'idiv': operator.itruediv}


def _cmp(a, b, what, stats):
    if not isinstance(a, UTPM) or not isinstance(b, UTPM):
        raise Violation('%s: result types %s / %s' % (what, type(a).__name__, type(b).__name__))
    M.close(a.data, b.data, TOL, what, stats)


def prop_alias_binary(case, stats):
    f = BINARY[case['op']]
    x = UTPM(case['x'].copy())
    xc = UTPM(case['x'].copy())
    b0 = x.data.tobytes()
    ref = guard(f, xc, UTPM(case['x'].copy()))
    got = guard(f, x, x)
    _cmp(got, ref, '%s(x, x) vs %s(x, copy of x)' % (case['op'], case['op']), stats)
    if x.data.tobytes() != b0:
        raise Violation('%s(x, x) modified x' % case['op'])


def _view(x, kind):
    if kind == 'self':
        return x
    if kind == 'reversed':
        return x[::-1]
    if kind == 'T':
        return x.T
    if kind == 'row0':
        return x[0]
    if kind == 'lastcol':
        return x[..., -1:]
    raise KeyError(kind)


def prop_alias_inplace(case, stats):
    f = INPLACE[case['op']]
    x = UTPM(case['x'].copy())
    rhs = _view(x, case['view'])
    if not np.shares_memory(rhs.data, x.data):
        raise Inconclusive('view does not alias')
    y = UTPM(case['x'].copy())
    rhs_copy = UTPM(_view(UTPM(case['x'].copy()), case['view']).data.copy())
    ref = guard(f, y, rhs_copy)
    got = guard(f, x, rhs)
    _cmp(got, ref, 'x %s= %s-view of x vs x %s= independent copy' % (case['op'][1:], case['view'], case['op'][1:]), stats)
    # the binary expression for comparison (C02 states in-place == binary)
    binop = {'iadd': operator.add, 'isub': operator.sub, 'imul': operator.mul, 'idiv': operator.truediv}[case['op']]
    z = UTPM(case['x'].copy())
    ref2 = guard(binop, z, UTPM(_view(z, case['view']).data.copy()))
    _cmp(got, ref2, 'x %s= %s-view of x vs the binary expression' % (case['op'][1:], case['view']), stats)


def prop_alias_setitem(case, stats):
    """x[dst] = x[src] with overlapping views of the same object equals the assignment of an independent copy"""
    x = UTPM(case['x'].copy())
    y = UTPM(case['x'].copy())
    dst, src = case['dst'], case['src']
    rhs = x[src]
    rhs_copy = UTPM(y[src].data.copy())
    guard(operator.setitem, y, dst, rhs_copy)
    guard(operator.setitem, x, dst, rhs)
    _cmp(x, y, 'x[%r] = x[%r] vs assigning an independent copy' % (dst, src), stats)


@st.composite
def alias_setitem_cases(draw, tier):
    D, P = draw(gen.dims(Dmax=4, Pmax=3))
    n = draw(st.integers(3, 6))
    rank2 = draw(st.booleans())
    shape = (n, draw(st.integers(1, 3))) if rank2 else (n,)
    x = draw(gen.utpm_data(D, P, shape, gen.nice_floats(-2, 2)))
    k = draw(st.integers(1, n - 1))
    form = draw(st.integers(0, 3))
    if form == 0:
        dst, src = slice(0, n - k), slice(k, n)          # shift down (overlapping)
    elif form == 1:
        dst, src = slice(k, n), slice(0, n - k)          # shift up (overlapping)
    elif form == 2:
        dst, src = slice(None), slice(None, None, -1)    # reverse in place
    else:
        dst, src = slice(None), draw(st.integers(0, n - 1))   # broadcast one entry/row over everything
    return {'x': x, 'dst': dst, 'src': src, 'view': 'setitem-form-%d' % form}


def prop_floordiv(case, stats):
    """x // y (algopy's division with removable singularities: entries with x_0 = y_0 = 0) must not touch its operands"""
    x = UTPM(case['x'].copy())
    y = UTPM(case['y'].copy())
    bx, by = x.data.tobytes(), y.data.tobytes()
    try:
        guard(operator.floordiv, x, y)
    except Violation:
        # the value of x // y is not the subject here (and // is not covered by any other property): only operand integrity
        pass
    if x.data.tobytes() != bx:
        raise Violation('x // y modified x')
    if y.data.tobytes() != by:
        raise Violation('x // y modified y')


@st.composite
def floordiv_cases(draw, tier):
    D, P = draw(gen.dims(Dmax=4, Pmax=2))
    D = max(D, 2)
    shape = draw(st.sampled_from([(), (2,), (3,)]))
    x = draw(gen.utpm_data(D, P, shape, gen.nice_floats(-2, 2)))
    y = draw(gen.utpm_data(D, P, shape, gen.interval_union((0.3, 2.0), (-2.0, -0.3))))
    # removable singularities: some entries with x_0 = y_0 = 0 and y_1 != 0
    mask = draw(gen.float_array((P,) + shape, st.sampled_from([0.0, 1.0, 0.0]), sparse=False)) == 0.0
    x[0][mask] = 0.0
    y[0][mask] = 0.0
    y[1][mask & (y[1] == 0)] = 1.0
    return {'x': x, 'y': y, 'view': 'floordiv:%s' % ('singular' if mask.any() else 'regular')}


@st.composite
def alias_binary_cases(draw, tier, op):
    D, P = draw(gen.dims(Dmax=5 if tier == 'quick' else 7, Pmax=3))
    away = gen.interval_union((0.3, 3.0))
    if op in ('dot', 'solve'):
        n = draw(st.integers(1, 3))
        x = np.zeros((D, P, n, n))
        for p in range(P):
            x[0, p] = draw(gen.well_conditioned(n))
        if D > 1:
            x[1:] = draw(gen.float_array((D - 1, P, n, n), gen.coeff_elements(1.0)))
    elif op == 'outer':
        n = draw(st.integers(1, 4))
        x = draw(gen.utpm_data(D, P, (n,), gen.nice_floats(-2, 2)))
    elif op in ('div', 'pow'):
        shape = draw(gen.shapes(max_rank=2, max_side=3))
        x = draw(gen.utpm_data(D, P, shape, away))
    else:
        shape = draw(gen.shapes(max_rank=2, max_side=3))
        x = draw(gen.utpm_data(D, P, shape, gen.nice_floats(-2, 2)))
    return {'op': op, 'x': x}


@st.composite
def alias_inplace_cases(draw, tier, op):
    D, P = draw(gen.dims(Dmax=5 if tier == 'quick' else 7, Pmax=3))
    views = ['self', 'reversed', 'T', 'row0', 'lastcol']
    if op == 'idiv' and KF.is_open('KF-itruediv-lower-rank-rhs'):
        views.remove('row0')        # open finding: x /= (lower rank y) raises whether or not y aliases x
    view = draw(st.sampled_from(views))
    base = gen.interval_union((0.3, 3.0)) if op == 'idiv' else gen.nice_floats(-2, 2)
    if view == 'T':
        n = draw(st.integers(1, 3))
        shape = (n, n)
    elif view in ('row0', 'lastcol'):
        shape = (draw(st.integers(1, 3)), draw(st.integers(1, 3)))
    elif view == 'reversed':
        shape = draw(gen.shapes(min_rank=1, max_rank=2, max_side=3))
    else:
        shape = draw(gen.shapes(max_rank=2, max_side=3))
    x = draw(gen.utpm_data(D, P, shape, base))
    return {'op': op, 'view': view, 'x': x}


# ---------------------------------------------------------------------------
# pullbacks called directly (UTPM.pb_<op> is public API, used by people who write their own reverse sweeps): with out=None
# a pullback returns new adjoints and must leave the seed, the operands and the forward result byte-identical
# ---------------------------------------------------------------------------

# (arcsin ... tanh have no pullback at all; pb_symvec takes an extra UPLO argument and is reached through the tracer buckets)
PB_UNARY = ['exp', 'expm1', 'log', 'log1p', 'sqrt', 'sin', 'cos', 'tan',
            'reciprocal', 'square', 'negative', 'absolute', 'erf', 'erfi', 'dawsn', 'logit', 'expit', 'gammaln', 'psi', 'sum', 'trace',
            'inv', 'det', 'logdet', 'transpose', 'real', 'imag', 'diag']
PB_BINARY = ['add', 'sub', 'mul', 'truediv', 'dot', 'outer', 'solve']


def prop_pb_direct(case, stats):
    name = case['op']
    pb = getattr(UTPM, 'pb_' + name, None)
    fwd = {'add': operator.add, 'sub': operator.sub, 'mul': operator.mul, 'truediv': operator.truediv}.get(name) \
        or getattr(UTPM, name, None) or getattr(algopy, name, None) or getattr(algopy.special, name, None)
    if pb is None or fwd is None:
        raise Inconclusive('no pb_%s / forward function' % name)
    x = UTPM(case['x'].copy())
    args = [x] + ([UTPM(case['y'].copy())] if case.get('y') is not None else [])
    z = guard(fwd, *args)
    if not isinstance(z, UTPM):
        raise Inconclusive('forward result is not a UTPM')
    zbar = UTPM(np.resize(case['zbar'], z.data.shape).astype(float) + 0.25)
    objs = [('the seed', zbar)] + [('operand %d' % i, a) for i, a in enumerate(args)] + [('the forward result', z)]
    snaps = [o.data.tobytes() for _, o in objs]
    try:
        guard(pb, zbar, *(args + [z]))
    except Violation as v:
        # pullbacks that insist on out= (NotImplementedError is already a declared rejection) or are not meant to be called this way
        if str(v).startswith('raised '):
            stats.event('pb-direct:raised:' + name)
            raise Rejected(str(v)[:160])
        raise
    for (what, o), b in zip(objs, snaps):
        if o.data.tobytes() != b:
            raise Violation('UTPM.pb_%s(...) called directly (out=None) modified %s' % (name, what))


@st.composite
def pb_direct_cases(draw, tier, name):
    D, P = draw(gen.dims(Dmax=4, Pmax=3))
    safe = gen.nice_floats(0.3, 0.8)          # inside the domain of every function of the list
    if name in ('inv', 'det', 'logdet', 'solve', 'dot', 'trace', 'transpose', 'symvec', 'diag'):
        n = draw(st.integers(1, 3))
        x = np.zeros((D, P, n, n))
        for p in range(P):
            m = draw(gen.well_conditioned(n))
            if name == 'logdet' and np.linalg.det(m) < 0:
                m[0] *= -1
            x[0, p] = m
        if D > 1:
            x[1:] = draw(gen.float_array((D - 1, P, n, n), gen.coeff_elements(1.0)))
        y = None
        if name in ('solve', 'dot'):
            k = draw(st.integers(1, 2))
            y = draw(gen.utpm_data(D, P, (n, k), gen.nice_floats(-2, 2)))
    elif name == 'outer':
        x = draw(gen.utpm_data(D, P, (draw(st.integers(1, 3)),), safe))
        y = draw(gen.utpm_data(D, P, (draw(st.integers(1, 3)),), safe))
    else:
        shape = draw(gen.shapes(max_rank=2, max_side=3))
        x = draw(gen.utpm_data(D, P, shape, safe))
        y = None
        if name in PB_BINARY:
            # same shape, or a lower-rank / size-1 operand on the right (the pullback then reduces over broadcast axes)
            yshape = draw(st.sampled_from([shape, shape[1:], tuple(1 for _ in shape)]))
            y = draw(gen.utpm_data(D, P, yshape, safe))
    zbar = draw(gen.float_array((D, P, 3), gen.nice_floats(-1.0, 1.0), sparse=False))
    return {'op': name, 'x': x, 'y': y, 'zbar': zbar, 'view': 'pb-direct'}


# ---------------------------------------------------------------------------
# the same polynomial object used again after it has been updated in place (operators; C01 does this for the elementary functions)
# ---------------------------------------------------------------------------

RECALL = {
    'c/x': lambda x, c: c / x, 'c-x': lambda x, c: c - x, 'c+x': lambda x, c: c + x, 'c*x': lambda x, c: c * x, 'c**x': lambda x, c: c ** x,
    'x/c': lambda x, c: x / c, 'x**2': lambda x, c: x ** 2, 'x**-1': lambda x, c: x ** -1, 'x**1.5': lambda x, c: x ** 1.5, '-x': lambda x, c: -x,
    'abs': lambda x, c: abs(x), 'x*x': lambda x, c: x * x, 'x/x': lambda x, c: x / x, 'x**x': lambda x, c: x ** x,
    'reciprocal': lambda x, c: UTPM.reciprocal(x), 'sqrt': lambda x, c: UTPM.sqrt(x), 'x.T': lambda x, c: x.T * 1.0,
    'sum': lambda x, c: UTPM.sum(x), 'dot': lambda x, c: algopy.dot(x, x.T) if x.ndim == 2 else algopy.dot(x, x) if x.ndim == 1 else x * x,
}


def prop_recall(case, stats):
    f = RECALL[case['op']]
    c = case['c']
    x = UTPM(case['x'].copy())
    y1 = guard(f, x, c)
    snap = y1.data.tobytes() if isinstance(y1, UTPM) else None
    how = case['update']
    x2 = case['x2']
    if how == 'data':
        x.data[...] = x2
    elif how == 'setitem':
        x[...] = UTPM(x2.copy())
    elif how == 'iadd':
        x += UTPM(x2 - case['x'])
    elif how == 'imul':
        x *= 2.0
    else:
        x /= 2.0
    now = x.data.copy()
    y2 = guard(f, x, c)
    ref = guard(f, UTPM(now.copy()), c)
    if snap is not None and y1.data.tobytes() != snap:
        raise Violation('%s: the result of the first evaluation changed when the operand was updated in place (%s) and the expression evaluated again' % (case['op'], how))
    _cmp(y2, ref, '%s after updating the same object in place (%s) vs the same expression on a fresh polynomial with these coefficients' % (case['op'], how), stats)


@st.composite
def recall_cases(draw, tier, op):
    D, P = draw(gen.dims(Dmax=4, Pmax=3))
    shape = draw(gen.shapes(max_rank=2, max_side=3))
    pos = gen.interval_union((0.5, 2.0))
    x = draw(gen.utpm_data(D, P, shape, pos))
    x2 = draw(gen.utpm_data(D, P, shape, pos))
    return {'op': op, 'x': x, 'x2': x2, 'c': draw(st.sampled_from([2.0, 0.5, 3.0, 1.5])),
            'update': draw(st.sampled_from(['data', 'setitem', 'iadd', 'imul', 'idiv'])), 'view': 'recall'}


def _nt_alias(case):
    return case['x'].shape[0] >= 2 and case['x'].ndim >= 3


def _cl_alias(case):
    x = case['x']
    return ['D=%d' % x.shape[0], 'P=%d' % x.shape[1], 'rank=%d' % (x.ndim - 2), 'view=' + str(case.get('view', 'same-object'))]


def _nt_prog(case):
    return case['D'] >= 2 and any(p.ndim >= 2 for p in case['pts'])


# mixed operand dtypes: a kernel that sizes its work arrays from ONE operand's dtype may fall back to working inside the other
# operand (seeded C14-16).  Binary operations on (real, complex), (complex, real), (float32, float64) ... UTPM pairs under byte
# snapshots; the call is made twice and must give the same result (an operand modified by the first call changes the second).
_MIXED = {
    'solve': (lambda a, b: UTPM.solve(a, b), 'mat', 'rhs'), 'dot': (lambda a, b: UTPM.dot(a, b), 'mat', 'rhs'),
    'dot-vec': (lambda a, b: UTPM.dot(a, b), 'mat', 'vec'), 'outer': (lambda a, b: UTPM.outer(a, b), 'vec', 'vec'),
    'add': operator.add, 'sub': operator.sub, 'mul': operator.mul, 'truediv': operator.truediv,
}
_MIXED = {k: (v if isinstance(v, tuple) else (v, 'mat', 'mat')) for k, v in _MIXED.items()}
_DT = {'f8': np.float64, 'c16': np.complex128, 'f4': np.float32, 'c8': np.complex64}


@st.composite
def mixed_dtype_cases(draw, tier, op):
    D = draw(st.sampled_from([3, 2, 4, 1]))
    P = draw(st.integers(1, 2))
    n = draw(st.integers(2, 3))
    k = draw(st.integers(1, 3))
    shapes = {'mat': (n, n), 'rhs': (n, k), 'vec': (n,)}
    _, ka, kb = _MIXED[op]
    def operand(kind, dt):
        shp = shapes[kind]
        re = draw(gen.float_array((D, P) + shp, gen.nice_floats(-1.0, 1.0), sparse=False))
        if kind == 'mat':
            re[0] += 3.0 * np.eye(n)          # base matrices diagonally dominant: solve / truediv stay regular
        if dt.startswith('c'):
            im = draw(gen.float_array((D, P) + shp, gen.nice_floats(-1.0, 1.0), sparse=False))
            return (re + 1j * im).astype(_DT[dt])
        return re.astype(_DT[dt])
    da, db = draw(st.sampled_from([('f8', 'c16'), ('c16', 'f8'), ('f4', 'f8'), ('f8', 'f4'), ('f4', 'c16'), ('c8', 'f8'), ('f8', 'c16')]))
    return {'op': op, 'a': operand(ka, da), 'b': operand(kb, db), 'dts': [da, db]}


def prop_mixed_dtype(case, stats):
    f = _MIXED[case['op']][0]
    a, b = UTPM(case['a'].copy()), UTPM(case['b'].copy())
    sa, sb = a.data.tobytes(), b.data.tobytes()
    with np.errstate(all='ignore'):
        y1 = guard(lambda: f(a, b))
    for nm, x, snap, orig in (('first', a, sa, case['a']), ('second', b, sb, case['b'])):
        if x.data.tobytes() != snap or x.data.dtype != orig.dtype:
            bad = np.argwhere(~((x.data == orig) | (np.isnan(x.data) & np.isnan(orig))))
            raise Violation('%s(%s, %s): the call modified its %s operand (first difference at %s)'
                            % (case['op'], case['dts'][0], case['dts'][1], nm, tuple(int(i) for i in bad[0]) if len(bad) else 'dtype/bytes'))
    with np.errstate(all='ignore'):
        y2 = guard(lambda: f(a, b))
    if not (isinstance(y1, UTPM) and isinstance(y2, UTPM)) or y1.data.shape != y2.data.shape or not np.array_equal(y1.data, y2.data, equal_nan=True):
        raise Violation('%s(%s, %s): the same call on the same operand objects gives a different result the second time'
                        % (case['op'], case['dts'][0], case['dts'][1]))


def buckets(tier):
    bl = []
    for fam in M.FWD_SINGLE:
        bl.append(Bucket('operands:' + fam, (lambda fam=fam: M.meta_cases(tier, first=fam, families=M.CHEAP_TAIL, max_len=3)),
                         prop_operands, {'quick': 40, 'thorough': 400}, nontrivial=_nt_prog, classes=M.base_classes))
    bl.append(Bucket('operands:compose', (lambda: M.meta_cases(tier, max_len=8)), prop_operands,
                     {'quick': 40, 'thorough': 500}, nontrivial=_nt_prog, classes=M.base_classes,
                     shards={'quick': 4, 'thorough': 8}, weight=3.0))
    for op in sorted(_MIXED):
        bl.append(Bucket('operands:mixed-dtype:' + op, (lambda op=op: mixed_dtype_cases(tier, op)), prop_mixed_dtype, {'quick': 40, 'thorough': 500},
                         nontrivial=(lambda case: case['a'].shape[0] >= 2),
                         classes=(lambda case: ['dtypes=%s,%s' % tuple(case['dts']), 'D=%d' % case['a'].shape[0], 'P=%d' % case['a'].shape[1]])))
    for op in RECALL:
        bl.append(Bucket('recall:' + op, (lambda op=op: recall_cases(tier, op)), prop_recall, {'quick': 25, 'thorough': 250},
                         nontrivial=_nt_alias, classes=(lambda case: _cl_alias(case) + ['update=' + case['update']])))
    for name in PB_UNARY + PB_BINARY:
        bl.append(Bucket('pb-direct:' + name, (lambda name=name: pb_direct_cases(tier, name)), prop_pb_direct,
                         {'quick': 25, 'thorough': 250}, nontrivial=_nt_alias, classes=_cl_alias))
    for fam in M.REV_SINGLE:
        bl.append(Bucket('tracer:' + fam, (lambda fam=fam: M.meta_cases(tier, first=fam, families=M.CHEAP_TAIL, max_len=3, reverse_mode=True)),
                         prop_tracer, {'quick': 20, 'thorough': 150}, nontrivial=_nt_prog, classes=M.base_classes, weight=2.0))
    bl.append(Bucket('tracer:compose', (lambda: M.meta_cases(tier, max_len=8, reverse_mode=True)), prop_tracer,
                     {'quick': 20, 'thorough': 300}, nontrivial=_nt_prog, classes=M.base_classes,
                     shards={'quick': 4, 'thorough': 8}, weight=5.0))
    for op in BINARY:
        bl.append(Bucket('alias:' + op, (lambda op=op: alias_binary_cases(tier, op)), prop_alias_binary,
                         {'quick': 40, 'thorough': 800}, nontrivial=_nt_alias, classes=_cl_alias))
    for op in INPLACE:
        bl.append(Bucket('alias-inplace:' + op, (lambda op=op: alias_inplace_cases(tier, op)), prop_alias_inplace,
                         {'quick': 60, 'thorough': 1200}, nontrivial=_nt_alias, classes=_cl_alias))
    bl.append(Bucket('operands:floordiv', (lambda: floordiv_cases(tier)), prop_floordiv, {'quick': 60, 'thorough': 800},
                     nontrivial=_nt_alias, classes=_cl_alias))
    bl.append(Bucket('alias-setitem', (lambda: alias_setitem_cases(tier)), prop_alias_setitem, {'quick': 60, 'thorough': 1200},
                     nontrivial=_nt_alias, classes=_cl_alias))
    return bl
