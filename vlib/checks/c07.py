"""C07 - linear-algebra functions propagate matrix Taylor polynomials correctly.

dot / outer / trace: the definition (convolution of NumPy's function over coefficient slices, per direction).
inv / solve: the defining equations A(t) inv(A)(t) = I, A(t) X(t) = B(t) modulo t^D, evaluated with a reference
convolution that does not call algopy, plus NumPy's value for the zeroth coefficient.
det: exact polynomial determinant (Leibniz formula over Fractions) and arbitrary-precision numerical
differentiation of t -> mpmath.det(A(t)).  logdet, expm: arbitrary-precision numerical differentiation of
t -> log|det A(t)| and t -> mpmath.expm(A(t)).
"""
import numpy as np
import scipy.linalg
import mpmath
from hypothesis import strategies as st

import algopy
from algopy import UTPM

from ..runner import Bucket, Violation, Inconclusive, Rejected, guard, KF
from .. import gen
from ..oracles import mp_taylor
from . import _c07_ref as R

PID = 'C07'
RULE = ('one bucket per operation x operand-rank pair x operand kind ({UTPM,UTPM}, {UTPM,ndarray}, {ndarray,UTPM}); cases = '
        '(D <= 6, P <= 3, sizes 1..5, coefficient arrays) drawn by Hypothesis; matrices that are inverted / factored have '
        'zeroth coefficients built constructively per direction (Q1 diag(s) Q2^T with sigma_min >= 0.3, or row-permuted '
        'diagonally dominant = pivoting required), drawn independently for every direction; higher coefficients dense, '
        'element-sparse or with whole coefficient layers zeroed (gen.higher_coeffs) in [-1,1]; dot/outer/trace operands also with '
        'a vanishing zeroth coefficient (all or some directions); (expm: ||A0||_1 <= 0.5, higher coefficients in [-0.5,0.5]); non-trivial = D >= 3 and some '
        'matrix/vector side >= 2 and some higher coefficient of a UTPM operand non-zero; distinct by descriptor hash')
ASSUMPTIONS = [
    'dot/outer: reference = sum_k numpy.dot/outer(x_k, y_{d-k}) per direction, tolerance 1e-12 * sum|terms| (re-association only); trace: exact',
    'inv/solve: residual of A*inv(A) = I, inv(A)*A = I, A*X = B modulo t^D <= 1e-9 * max over the matrix entries of sum|terms| (norm-wise: the backward error of LAPACK is relative to the norm of a factor, not to a single entry); zeroth coefficient equals numpy.linalg.inv/solve to 1e-12',
    'det: exact Leibniz determinant over Fractions truncated at t^D (tolerance 1e-9 * max_{k<=d} of the sum of |products| at order k), cross-checked per case with mpmath numerical differentiation of mpmath.det(A(t)); oracle disagreement = inconclusive',
    'logdet: domain det(A0) > 0 (log(det) is what the docstring promises; for det < 0 the code returns NaN = log of a negative number, not asserted); reference = mpmath numerical differentiation of log|det A(t)|, tolerance 1e-9 * max(1, max_{k<=d}|ref_k|)',
    'expm: algopy.expm is a fixed Pade-7 approximant without scaling: domain ||A0||_1 <= 0.5; reference mpmath.expm(A(t)) differentiated numerically at >= 150 digits, second opinion = defining power series; tolerance 1e-8 * max(1, max|ref|)',
    'solve with a 1-D right-hand side is outside the statement ("matrix and multi-column right-hand sides"); the code states its precondition x.data.shape=(D,P,M,K): counted as declared rejection, a returned value would be checked',
    'operands are handed over as fresh C-contiguous arrays or (1/3) as transposed views X.T; after the call the operand must be bit-identical to what was passed (the equations are statements about the curve the caller holds)',
    'out= of the class methods UTPM.dot/outer/inv/solve (1/4 of the cases): zeros, non-zero garbage, and solve(A, x, out=x); return value and buffer contents must satisfy the same oracle; UTPM.inv(out=...) raises NotImplementedError = declared rejection',
    'complex coefficient data only where the kernels of this tree handle it: dot, outer (the operand that fixes the result dtype complex), inv, solve with a UTPM right-hand side, trace, expm; det/logdet and solve(UTPM, ndarray) raise UFuncTypeError for complex data (float work arrays) -- documented in notes/C07.md, not asserted',
    'expm:small-base:high-order: D = 7..10 with ||A_0||_1 = 0, 1e-3..0.0149, ..0.2, ..0.5 (every direction in the same class) and a dense A_1: Pade-7 is accurate there for all d < 15, a lower-order approximant is not',
    'one third of the cases with a plain ndarray operand (dot, outer, solve) make a second call with the SAME ndarray object refilled in place; the second result must satisfy the oracle for the new contents',
    'extreme magnitude (1/5 of the logdet / inv / solve cases): A = 2^k B; logdet with n|k| > 1100 (det A_0 outside binary64, like numpy.linalg.det; algopy.det is NOT asserted there): zeroth coefficient vs numpy.linalg.slogdet to 1e-12 relative, series minus n k log 2 vs the mpmath reference of B; inv / solve with |k| = 200, 300: the relative predicates',
    'dot / outer with {UTPM,UTPM}: 1/5 of the cases pass the SAME object for both operands',
    'N-D trace, 0-d operands of dot are outside the domain',
    'mpmath, NumPy, SciPy/LAPACK are trusted',
]

TOL_CONV = 1e-12
TOL = 1e-9
TOL_EXPM = 1e-8
KINDS = ('UU', 'UN', 'NU')

VAL = gen.interval_union((-2.0, 2.0))


# ---------------------------------------------------------------------------
# generators
# ---------------------------------------------------------------------------

def _dims(tier):
    return gen.dims(Dmax=6, Pmax=3)


@st.composite
def const_array(draw, shape):
    """plain ndarray operand: floats, or small integers stored as int64 (NumPy promotes)"""
    if draw(st.integers(0, 3)) == 0:
        a = draw(gen.float_array(shape, st.integers(-3, 3).map(float), sparse=False))
        return a.astype(np.int64)
    return draw(gen.float_array(shape, VAL, sparse=False))


@st.composite
def zero_base(draw, x):
    """dot, outer, trace admit a vanishing zeroth coefficient (x(t) = x_1 t + ...): in all directions (the whole
    coefficient layer 0 is zero although higher layers are not), or in some directions only"""
    mode = draw(st.sampled_from(['keep', 'keep', 'keep', 'keep', 'all', 'all', 'some']))
    if mode == 'keep' or x.shape[0] < 2:
        return x
    x = x.copy()
    if mode == 'all':
        x[0] = 0.0
    else:
        for p in range(x.shape[1]):
            if draw(st.booleans()):
                x[0, p] = 0.0
    return x


@st.composite
def operand(draw, kind, D, P, shape, zero_ok=True):
    if kind == 'U':
        x = draw(gen.utpm_data(D, P, shape, VAL))      # higher coefficients: gen.higher_coeffs (zero layers included)
        return draw(zero_base(x)) if zero_ok else x
    return draw(const_array(shape))


@st.composite
def base_matrix(draw, n, cls=None):
    """well conditioned n x n zeroth coefficient; 'pivot' = LU needs row exchanges"""
    if cls is None:
        cls = draw(st.sampled_from(['wc', 'wc', 'pivot']))
    if cls == 'pivot':
        return draw(gen.pivot_forcing(n))
    return draw(gen.well_conditioned(n))


@st.composite
def regular_utpm(draw, D, P, n, mag=1.0, posdet=False):
    """(D,P,n,n): every direction has its own constructively regular base matrix; arbitrary higher coefficients"""
    A = np.zeros((D, P, n, n))
    for p in range(P):
        B = draw(base_matrix(n))
        if posdet and np.linalg.det(B) < 0:
            B = B.copy()
            B[0] = -B[0]
        A[0, p] = B
    if D > 1:
        A[1:] = draw(gen.higher_coeffs((D - 1, P, n, n), gen.coeff_elements(mag)))
    return A


@st.composite
def dot_cases(draw, rx, ry, kind, tier):
    D, P = draw(_dims(tier))
    big = 5 if max(rx, ry) < 3 else 3
    k = draw(st.integers(1, 5 if max(rx, ry) < 3 else 4))
    shx = tuple(draw(st.integers(1, big)) for _ in range(rx - 1)) + (k,)
    if ry == 1:
        shy = (k,)
    else:
        shy = tuple(draw(st.integers(1, big)) for _ in range(ry - 2)) + (k, draw(st.integers(1, big)))
    return {'op': 'dot', 'kind': kind, 'entry': draw(st.sampled_from(['global', 'class'])),
            'x': draw(operand(kind[0], D, P, shx)), 'y': draw(operand(kind[1], D, P, shy))}


@st.composite
def outer_cases(draw, kind, tier):
    D, P = draw(_dims(tier))
    n = draw(st.integers(1, 5))
    m = draw(st.integers(1, 5))
    steered = False
    if n != m and KF.is_open('KF-outer-shape'):
        # open known finding: the output is allocated (n,n); steer to equal lengths while it is open
        m = n
        steered = True
    return {'op': 'outer', 'kind': kind, 'entry': draw(st.sampled_from(['global', 'class'])), 'steered': steered,
            'x': draw(operand(kind[0], D, P, (n,))), 'y': draw(operand(kind[1], D, P, (m,)))}


@st.composite
def inv_cases(draw, tier):
    D, P = draw(_dims(tier))
    n = draw(st.integers(1, 5))
    return {'op': 'inv', 'entry': draw(st.sampled_from(['global', 'class'])), 'A': draw(regular_utpm(D, P, n))}


@st.composite
def solve_cases(draw, kind, tier, vec=False):
    D, P = draw(_dims(tier))
    n = draw(st.integers(1, 5))
    if kind[0] == 'U':
        A = draw(regular_utpm(D, P, n))
    else:
        A = draw(base_matrix(n))
    shb = (n,) if vec else (n, draw(st.integers(1, 4)))
    if kind[1] == 'U':
        B = draw(zero_base(draw(gen.utpm_data(D, P, shb, VAL))))      # a right-hand side may vanish at t = 0
    else:
        B = draw(gen.float_array(shb, VAL, sparse=False))
    return {'op': 'solve', 'kind': kind, 'entry': draw(st.sampled_from(['global', 'class'])), 'A': A, 'B': B}


@st.composite
def det_cases(draw, op, tier):
    D, P = draw(_dims(tier))
    n = draw(st.integers(1, 5))
    A = draw(regular_utpm(D, P, n, posdet=(op == 'logdet')))
    return {'op': op, 'entry': draw(st.sampled_from(['global', 'class'])), 'A': A, 'pm': draw(st.integers(0, P - 1))}


@st.composite
def trace_cases(draw, tier):
    D, P = draw(_dims(tier))
    n = draw(st.integers(1, 5))
    m = n if draw(st.booleans()) else draw(st.integers(1, 5))
    return {'op': 'trace', 'entry': draw(st.sampled_from(['global', 'class'])),
            'A': draw(zero_base(draw(gen.utpm_data(D, P, (n, m), VAL))))}


@st.composite
def expm_cases(draw, tier):
    D, P = draw(_dims(tier))
    n = draw(st.integers(1, 5 if tier == 'thorough' else 4))
    A = np.zeros((D, P, n, n))
    for p in range(P):
        raw = draw(gen.float_array((n, n), gen.interval_union((-1.0, 1.0)), sparse=False))
        r = draw(st.one_of(st.just(0.5), st.just(0.5), gen.nice_floats(0.0, 0.5), st.just(0.0)))
        nrm = np.abs(raw).sum(axis=0).max()
        A[0, p] = raw * (r / nrm) if nrm > 0 else raw
    if D > 1:
        A[1:] = draw(gen.higher_coeffs((D - 1, P, n, n), gen.coeff_elements(0.5)))
    return {'op': 'expm', 'A': A}


@st.composite
def expm_high_cases(draw, tier):
    """small base points (the zero matrix, ||A_0||_1 from 1e-3 to 0.2, and up to the 0.5 of the main bucket) together
    with MANY coefficients (D = 7..10): the accuracy of the high Taylor coefficients of a Pade approximant does not
    follow from the accuracy of its value at A_0 (the coefficient of t^d of r_m(A(t)) - exp(A(t)) has only 2m+1-d small
    factors)"""
    D = draw(st.integers(7, 10))
    P = draw(st.sampled_from([1, 1, 2]))
    n = draw(st.integers(1, 3))
    cls = draw(st.sampled_from(['zero', 'zero', '1e-3..0.0149', '1e-3..0.0149', '0.0149..0.2', '0.2..0.5']))
    A = np.zeros((D, P, n, n))
    for p in range(P):
        if cls == 'zero':
            continue
        raw = draw(gen.float_array((n, n), gen.interval_union((-1.0, 1.0)), sparse=False))
        lo, hi = {'1e-3..0.0149': (-3.0, np.log10(0.0149)), '0.0149..0.2': (np.log10(0.0149), np.log10(0.2)),
                  '0.2..0.5': (np.log10(0.2), np.log10(0.5))}[cls]
        r = float(10.0 ** draw(gen.nice_floats(lo, hi)))
        nrm = np.abs(raw).sum(axis=0).max()
        A[0, p] = raw * (r / nrm) if nrm > 0 else raw
    # dense first-order term (the error lives in products of the non-small coefficients), the rest as usual
    A[1] = draw(gen.float_array((P, n, n), gen.interval_union((-0.5, 0.5)), sparse=False))
    A[2:] = draw(gen.higher_coeffs((D - 2, P, n, n), gen.coeff_elements(0.5)))
    return {'op': 'expm', 'A': A, 'base_norm': cls}


# ---------------------------------------------------------------------------
# properties
# ---------------------------------------------------------------------------

def _DP(case):
    for k in ('x', 'y', 'A', 'B'):
        a = case.get(k)
        if a is None:
            continue
        kind = case.get('kind')
        if kind is not None:
            pos = {'x': 0, 'y': 1, 'A': 0, 'B': 1}[k]
            if kind[pos] != 'U':
                continue
        return a.shape[0], a.shape[1]
    raise KeyError('no UTPM operand')


def _live(case, keys):
    """the operands as handed to algopy (layout per operand from case['lay'], default C-contiguous copies)"""
    kind = case.get('kind') or 'U' * len(keys)
    lay = case.get('lay') or 'C' * len(keys)
    live = [R.live_operand(case[k], kind[i] == 'U', lay[i]) for i, k in enumerate(keys)]
    if case.get('same') and len(live) == 2:
        live[1] = live[0]                       # one object for both operands
    return live


def _same(case, keys, live, what):
    for k, obj in zip(keys, live):
        R.assert_unchanged(obj, case[k], '%s, operand %s' % (what, k))


@st.composite
def with_layout(draw, strat, nops):
    case = draw(strat)
    case['lay'] = ''.join(draw(st.sampled_from(['C', 'C', 'T'])) for _ in range(nops))
    # out= of the public class methods UTPM.dot / outer / inv / solve (1/4 of the cases; only the class methods take it)
    if case['op'] in ('dot', 'outer', 'inv', 'solve'):
        modes = [None] * 6 + ['zeros', 'garbage']
        if case['op'] == 'solve' and case['kind'][1] == 'U':
            modes += ['alias-rhs', 'garbage']        # solve(A, x, out=x): in-place solve
        m = draw(st.sampled_from(modes))
        if m is not None:
            case['out'] = m
            case['entry'] = 'class'
    # extreme magnitude: the whole matrix polynomial times 2^k.  logdet: n*|k| beyond the exponent range of binary64
    # (det A_0 under-/overflows although A_0 is well conditioned and log|det| is an ordinary number); inv, solve: |k| = 200, 300
    if case['op'] in ('logdet', 'inv', 'solve') and not case.get('cplx') and draw(st.integers(0, 4)) == 0:
        A = case['A']
        n = A.shape[-1]
        sgn = draw(st.sampled_from([1, -1]))
        if case['op'] == 'logdet':
            k = sgn * (-(-1100 // n) + draw(st.sampled_from([0, 20]))) if n >= 2 else 0
        else:
            k = sgn * draw(st.sampled_from([200, 300]))
        if k:
            case['A'] = A * 2.0 ** k
            case['ext_k'] = k
    # the SAME UTPM object passed for both operands (dot(x, x), outer(x, x)); matrices are cropped to square
    if case['op'] in ('dot', 'outer') and case.get('kind') == 'UU' and case['x'].ndim == case['y'].ndim \
            and case['x'].shape[:2] == case['y'].shape[:2] and draw(st.integers(0, 4)) == 0:
        x = case['x']
        if case['op'] == 'dot' and x.ndim >= 4:
            m = min(x.shape[-1], x.shape[-2])
            x = np.ascontiguousarray(x[..., :m, :m])
        if np.iscomplexobj(case['y']) and not np.iscomplexobj(x):
            x = x.astype(complex)
        case['x'] = x
        case['y'] = x.copy()
        case['same'] = True
        case['lay'] = case['lay'][0] * 2
        if case.get('cplx'):
            case['cplx'] = 'cc' if np.iscomplexobj(x) else 'rr'
    # the SAME constant ndarray object refilled in place and used in a second call (a preallocated step / Jacobian
    # matrix in a loop): the second result must be the one of a fresh array with the new contents
    kind = case.get('kind')
    if case['op'] in ('dot', 'outer', 'solve') and kind and 'N' in kind and not case.get('cplx') and draw(st.integers(0, 2)) == 0:
        key = (('A', 'B') if case['op'] == 'solve' else ('x', 'y'))[kind.index('N')]
        c1 = case[key]
        if case['op'] == 'solve' and key == 'A':
            c2 = draw(base_matrix(c1.shape[0]))
        elif c1.dtype.kind == 'i':
            c2 = draw(gen.float_array(c1.shape, st.integers(-3, 3).map(float), sparse=False)).astype(c1.dtype)
        else:
            c2 = draw(gen.float_array(c1.shape, VAL, sparse=False))
        case['refill'] = c2
    return case


ANGLE = gen.nice_floats(-3.1, 3.1)


@st.composite
def _imag_like(draw, a, is_utpm, mag=1.0):
    if is_utpm:
        D, P = a.shape[:2]
        return draw(gen.utpm_data(D, P, a.shape[2:], gen.interval_union((-2.0 * mag, 2.0 * mag)), mag=mag))
    return draw(gen.float_array(a.shape, gen.interval_union((-2.0 * mag, 2.0 * mag)), sparse=False))


@st.composite
def with_complex(draw, strat, keys, regular=(), must=None, expm=False):
    """complex coefficient data for the operations whose kernels handle it on this tree (dot, outer, inv, solve with a
    UTPM right-hand side, trace, expm).  ``regular`` operands keep their singular values: A_0 -> diag(e^{i a}) A_0 diag(e^{i b});
    other operands get an arbitrary imaginary part.  ``must``: operand that has to be complex (outer takes its result dtype
    from one operand only)."""
    case = draw(strat)
    kind = case.get('kind') or 'U' * len(keys)
    chosen = [k for k in keys if draw(st.booleans())]
    if must is not None and must not in chosen:
        chosen.append(must)
    if not chosen:
        chosen = [keys[0] if must is None else must]
    for k in chosen:
        a = np.asarray(case[k], dtype=float)
        is_u = kind[keys.index(k)] == 'U'
        if expm:
            ph = np.exp(1j * draw(gen.float_array(a.shape[1:], ANGLE, sparse=False)))
            z = a.astype(complex)
            z[0] = a[0] * ph                                   # |entries| and hence ||A_0||_1 unchanged
            if a.shape[0] > 1:
                z[1:] = 0.7 * (a[1:] + 1j * draw(_imag_like(a, True, mag=0.5))[1:])
        elif k in regular:
            n = a.shape[-1]
            z = a.astype(complex)
            if is_u:
                for p in range(a.shape[1]):
                    l = np.exp(1j * draw(gen.float_array((n,), ANGLE, sparse=False)))
                    r = np.exp(1j * draw(gen.float_array((n,), ANGLE, sparse=False)))
                    z[0, p] = l[:, None] * a[0, p] * r[None, :]
                if a.shape[0] > 1:
                    z[1:] = a[1:] + 1j * draw(_imag_like(a, True))[1:]
            else:
                l = np.exp(1j * draw(gen.float_array((n,), ANGLE, sparse=False)))
                r = np.exp(1j * draw(gen.float_array((n,), ANGLE, sparse=False)))
                z = l[:, None] * a * r[None, :]
        else:
            z = a + 1j * draw(_imag_like(a, is_u))
        case[k] = z
    case['cplx'] = ''.join('c' if k in chosen else 'r' for k in keys)
    return case


def _fn(case):
    name = case['op']
    if case.get('entry', 'global') == 'class':
        return getattr(UTPM, name)
    return getattr(algopy, name)


def _is_utpm(z, what):
    if not isinstance(z, UTPM):
        raise Violation('%s returned %s' % (what, type(z).__name__))


def prop_binary(case, stats):
    """dot, outer: definition"""
    if case.get('steered'):
        stats.exclude('KF-outer-shape')
    op = case['op']
    npop = np.dot if op == 'dot' else np.outer
    kind = case['kind']
    D, P = _DP(case)
    x, y = case['x'], case['y']
    what = '%s[%s %s.%s]' % (op, kind, x.shape[2:] if kind[0] == 'U' else x.shape, y.shape[2:] if kind[1] == 'U' else y.shape)
    live = _live(case, ('x', 'y'))
    ref, scale = R.conv_with_scale(R.as_series(x, kind[0], D, P), R.as_series(y, kind[1], D, P), npop)
    buf = None
    if case.get('out'):
        buf = UTPM(R.out_buffer(ref.shape, ref.dtype, case['out']))
        what += '[out=%s]' % case['out']
        z = guard(getattr(UTPM, op), *live, out=buf)
    else:
        z = guard(_fn(case), *live)
    _same(case, ('x', 'y'), live, what)
    _is_utpm(z, what)
    R.check_close(z.data, ref, scale, TOL_CONV, stats, what)
    if case.get('refill') is not None:
        i = kind.index('N')
        key = ('x', 'y')[i]
        live[i][...] = case['refill']                          # same object, new contents
        case2 = dict(case)
        case2[key] = case['refill']
        z2 = guard(_fn(case), *live)
        _same(case2, ('x', 'y'), live, what + '[second call, constant refilled in place]')
        _is_utpm(z2, what)
        ref2, scale2 = R.conv_with_scale(R.as_series(case2['x'], kind[0], D, P), R.as_series(case2['y'], kind[1], D, P), npop)
        R.check_close(z2.data, ref2, scale2, TOL_CONV, stats, what + '[second call, constant refilled in place]')
    if buf is not None and z is buf:
        pass      # (C07 is about the RETURNED coefficients; UTPM.dot/outer allocate a new result and leave out= alone -
        #            demanding filled buffer contents was oracle over-reach, see DESIGN 9a)


def prop_inv(case, stats):
    A = case['A']
    D, P, n, _ = A.shape
    live = _live(case, ('A',))
    if case.get('out'):
        # UTPM.inv raises NotImplementedError for out != None: declared rejection
        Y = guard(UTPM.inv, *live, out=UTPM(R.out_buffer(A.shape, A.dtype, case['out'])))
    else:
        Y = guard(_fn(case), *live)
    _same(case, ('A',), live, 'inv')
    _is_utpm(Y, 'inv')
    if Y.data.shape != A.shape:
        raise Violation('inv: data shape %s, expected %s' % (Y.data.shape, A.shape))
    Id = np.zeros_like(A)
    Id[0, :] = np.eye(n)
    z1, s1 = R.conv_with_scale(A, Y.data, np.dot)
    R.check_close(z1, Id, R.normwise(s1 + Id), TOL, stats, 'A*inv(A) = I')
    z2, s2 = R.conv_with_scale(Y.data, A, np.dot)
    R.check_close(z2, Id, R.normwise(s2 + Id), TOL, stats, 'inv(A)*A = I')
    ref0 = np.array([np.linalg.inv(A[0, p]) for p in range(P)])
    R.check_close(Y.data[0], ref0, float(np.abs(ref0).max()) or 1.0, 1e-12, stats, 'inv zeroth coefficient vs numpy.linalg.inv')


def _check_solve(case, X, stats, what):
    kind = case['kind']
    D, P = _DP(case)
    As = R.as_series(case['A'], kind[0], D, P)
    Bs = R.as_series(case['B'], kind[1], D, P)
    _is_utpm(X, what)
    if X.data.shape != Bs.shape:
        raise Violation('%s: data shape %s, expected %s' % (what, X.data.shape, Bs.shape))
    z, s = R.conv_with_scale(As, X.data, np.dot)
    R.check_close(z, Bs, R.normwise(s + np.abs(Bs)), TOL, stats, what + ': A*X = B')
    ref0 = np.array([np.linalg.solve(As[0, p], Bs[0, p]) for p in range(P)])
    R.check_close(X.data[0], ref0, float(np.abs(ref0).max()) or 1.0, 1e-12, stats, what + ': zeroth coefficient vs numpy.linalg.solve')


def prop_solve(case, stats):
    kind = case['kind']
    live = _live(case, ('A', 'B'))
    what = 'solve[%s]' % kind
    mode = case.get('out')
    buf = None
    if mode:
        D, P = _DP(case)
        shp = R.as_series(case['B'], kind[1], D, P).shape
        dt = np.result_type(case['A'].dtype, case['B'].dtype, np.float64)
        what += '[out=%s]' % mode
        if mode == 'alias-rhs' and live[1].data.dtype == dt:
            buf = live[1]                                     # in-place: the solution overwrites the right-hand side
        else:
            mode = 'garbage' if mode == 'alias-rhs' else mode
            buf = UTPM(R.out_buffer(shp, dt, mode))
        X = guard(UTPM.solve, *live, out=buf)
    else:
        X = guard(_fn(case), *live)
    if buf is live[1]:
        _same(case, ('A',), live[:1], what)
    else:
        _same(case, ('A', 'B'), live, what)
    if buf is not None and X is not buf:
        # the call allocated a new result (one plain operand): return value checked, buffer contents are a known finding
        _check_solve(case, X, stats, what)       # (only the returned value is the property's subject, DESIGN 9a)
    else:
        _check_solve(case, X, stats, what)
    if case.get('refill') is not None and buf is not live[1]:
        i = kind.index('N')
        key = ('A', 'B')[i]
        live[i][...] = case['refill']                          # same object, new contents
        case2 = dict(case)
        case2[key] = case['refill']
        what2 = 'solve[%s][second call, constant refilled in place]' % kind
        X2 = guard(_fn(case), *live)
        _same(case2, ('A', 'B'), live, what2)
        _check_solve(case2, X2, stats, what2)


SOLVE_DECLARED = ('require x.data.shape=(D,P,M,K)', 'not enough values to unpack')


def prop_solve_vec(case, stats):
    """1-D right-hand side: the code demands (D,P,M,K) / (M,K); a returned value is checked like any other"""
    kind = case['kind']
    live = _live(case, ('A', 'B'))
    X = R.guard_declared(_fn(case), *live, declared=SOLVE_DECLARED)
    _same(case, ('A', 'B'), live, 'solve[%s, 1-D rhs]' % kind)
    _check_solve(case, X, stats, 'solve[%s, 1-D rhs]' % kind)


def prop_det(case, stats):
    A = case['A']
    D, P, n, _ = A.shape
    live = _live(case, ('A',))
    y = guard(_fn(case), *live)
    _same(case, ('A',), live, 'det')
    _is_utpm(y, 'det')
    ref = np.zeros((D, P))
    scale = np.zeros((D, P))
    for p in range(P):
        ref[:, p], scale[:, p] = R.frac_det_series(A[:, p])
    # second oracle on one direction: arbitrary precision numerical differentiation of mpmath.det(A(t))
    p = case['pm']
    num = np.array(mp_taylor(lambda t: mpmath.det(R.mp_matrix(A[:, p], t)), [0.0, 1.0], D=D), dtype=float)
    if np.max(np.abs(num - ref[:, p]) / np.maximum.accumulate(scale[:, p])) > 1e-12:      # running scale: a whole order can vanish exactly
        raise Inconclusive('det oracles disagree')
    # the LU based evaluation of order d passes through all lower orders: running maximum of the term magnitudes
    R.check_close(y.data, ref, np.maximum.accumulate(scale, axis=0), TOL, stats, 'det')


def prop_logdet(case, stats):
    A = case['A']
    D, P, n, _ = A.shape
    live = _live(case, ('A',))
    y = guard(_fn(case), *live)
    _same(case, ('A',), live, 'logdet')
    _is_utpm(y, 'logdet')
    k = case.get('ext_k', 0)
    B = A * 2.0 ** -k if k else A               # exact
    ref = np.zeros((D, P))
    for p in range(P):
        ref[:, p] = mp_taylor(lambda t: mpmath.log(abs(mpmath.det(R.mp_matrix(B[:, p], t)))), [0.0, 1.0], D=D)
    if not k:
        R.check_close(y.data, ref, R.running_scale(ref), TOL, stats, 'logdet')
        return
    # extreme magnitude A = 2^k B: logdet A(t) = n k log 2 + logdet B(t); det A_0 itself is outside the binary64 range.
    # zeroth coefficient against numpy.linalg.slogdet (relative), the series against the reference of B (scale of B)
    shift = n * k * np.log(2.0)
    sl = np.array([np.linalg.slogdet(A[0, p])[1] for p in range(P)])
    R.check_close(y.data[0], sl, np.abs(sl), 1e-12, stats, 'logdet[2^%d * B]: zeroth coefficient vs numpy.linalg.slogdet' % k)
    got = y.data.copy()
    got[0] -= shift
    R.check_close(got, ref, R.running_scale(ref), TOL, stats,
                  'logdet[2^%d * B] - n k log 2 versus logdet B' % k)


def prop_trace(case, stats):
    A = case['A']
    D, P = A.shape[:2]
    live = _live(case, ('A',))
    y = guard(_fn(case), *live)
    _same(case, ('A',), live, 'trace')
    _is_utpm(y, 'trace')
    ref = np.array([[np.trace(A[d, p]) for p in range(P)] for d in range(D)])
    if y.data.shape != ref.shape:
        raise Violation('trace: data shape %s, expected %s' % (y.data.shape, ref.shape))
    if not np.array_equal(y.data, ref):
        bad = tuple(int(i) for i in np.argwhere(y.data != ref)[0])
        raise Violation('trace: coefficient (d,p)=%s is %r, numpy.trace of the slice gives %r' % (bad, y.data[bad].item(), ref[bad].item()))


def prop_expm(case, stats):
    A = case['A']
    D, P, n, _ = A.shape
    live = _live(case, ('A',))
    Y = guard(algopy.expm, *live)
    _same(case, ('A',), live, 'expm')
    _is_utpm(Y, 'expm')
    ref = np.zeros_like(A)
    for p in range(P):
        Ap = A[:, p]
        r = R.mp_curve_taylor(lambda t: list(mpmath.expm(R.mp_matrix(Ap, t))), D).reshape(D, n, n)
        r2 = R.series_expm(Ap)
        if np.max(np.abs(r - r2)) > 1e-10 * max(1.0, np.abs(r).max()):
            raise Inconclusive('expm oracles disagree')
        ref[:, p] = r
    scale = np.maximum(1.0, np.maximum.accumulate(np.abs(ref).max(axis=(2, 3)), axis=0))[:, :, None, None]
    R.check_close(Y.data, ref, scale, TOL_EXPM, stats, 'expm')


# ---------------------------------------------------------------------------
# classes / non-triviality
# ---------------------------------------------------------------------------

def _utpm_operands(case):
    kind = case.get('kind')
    out = []
    for pos, k in enumerate(('x', 'y')):
        if k in case and (kind is None or kind[pos] == 'U'):
            out.append(case[k])
    for pos, k in enumerate(('A', 'B')):
        if k in case and (kind is None or kind[pos] == 'U'):
            out.append(case[k])
    return out


def _sides(case):
    s = []
    kind = case.get('kind')
    for pos, k in enumerate(('x', 'y')):
        if k in case:
            s += list(case[k].shape[2:] if kind[pos] == 'U' else case[k].shape)
    for pos, k in enumerate(('A', 'B')):
        if k in case:
            u = kind is None or kind[pos] == 'U'
            s += list(case[k].shape[2:] if u else case[k].shape)
    return s


def _nontrivial(case):
    D, P = _DP(case)
    if D < 3 or max(_sides(case)) < 2:
        return False
    return any(np.any(a[1:] != 0) for a in _utpm_operands(case))


def _zero_layer_below_nonzero(a):
    D = a.shape[0]
    return any(not np.any(a[k]) and np.any(a[k + 1:]) for k in range(D - 1))


def _pivoted(B):
    if B.ndim != 2 or B.shape[0] != B.shape[1]:
        return False
    piv = scipy.linalg.lu_factor(B)[1]
    return bool(np.any(piv != np.arange(len(piv))))


def _classes(case):
    D, P = _DP(case)
    c = ['D=%d' % D, 'P=%d' % P, 'op=' + case['op']]
    if 'kind' in case:
        c.append('kinds=' + case['kind'])
    if 'entry' in case:
        c.append('entry=' + case['entry'])
    if 'T' in case.get('lay', ''):
        c.append('layout=transposed-view operand')
    if case.get('out'):
        c.append('out=' + case['out'])
        c.append('out=%s,op=%s' % (case['out'], case['op']))
    if case.get('ext_k'):
        c.append('extreme-magnitude,op=%s,2^%s' % (case['op'], '+' if case['ext_k'] > 0 else '-'))
    if case.get('same'):
        c.append('same-object-both-operands,op=' + case['op'])
    if case.get('refill') is not None:
        c.append('constant-refilled-in-place,op=%s,kinds=%s' % (case['op'], case['kind']))
    if case.get('base_norm'):
        c.append('expm-base-norm=' + case['base_norm'])
    if case.get('cplx'):
        c.append('complex-data')
        c.append('complex-data,op=%s,operands=%s' % (case['op'], case['cplx']))
    ops = _utpm_operands(case)
    c.append('pattern=' + gen.pattern_class(ops[0]))
    # an identically zero coefficient layer (all directions, all elements) below a non-zero one, layer 0 included
    if any(_zero_layer_below_nonzero(a) for a in ops):
        c.append('zero-layer-below-nonzero(any operand, layer 0 included)')
    if any(a.shape[0] > 1 and not np.any(a[0]) and np.any(a[1:]) for a in ops):
        c.append('zero-base(all directions)')
    elif any(a.shape[0] > 1 and any(not np.any(a[0, p]) and np.any(a[1:, p]) for p in range(a.shape[1])) for a in ops):
        c.append('zero-base(some directions)')
    if any(gen.distinct_bases(a) for a in ops):
        c.append('distinct-bases')
    c.append('maxside=%d' % max(_sides(case)))
    if case['op'] == 'dot':
        kind = case['kind']
        rx = case['x'].ndim - (2 if kind[0] == 'U' else 0)
        ry = case['y'].ndim - (2 if kind[1] == 'U' else 0)
        c.append('ranks=%d-%d' % (rx, ry))
    if case['op'] in ('dot', 'outer'):
        for k in ('x', 'y'):
            if case[k].dtype.kind == 'i':
                c.append('int-constant')
    if case['op'] in ('inv', 'solve', 'det', 'logdet'):
        A = case['A']
        if A.ndim == 4:
            pv = [_pivoted(A[0, p]) for p in range(A.shape[1])]
        else:
            pv = [_pivoted(A)]
        if all(pv):
            c.append('pivoted=all-directions')
        elif any(pv):
            c.append('pivoted=some-directions')
        else:
            c.append('pivoted=none')
        if case['op'] == 'det' and A.ndim == 4:
            sg = [np.linalg.det(A[0, p]) < 0 for p in range(A.shape[1])]
            if any(sg):
                c.append('negative-det0')
    if case['op'] == 'solve':
        c.append('rhs-columns=%s' % (case['B'].shape[-1] if case['B'].ndim - (2 if case['kind'][1] == 'U' else 0) == 2 else 'vector'))
    return c


# ---------------------------------------------------------------------------

RANKPAIRS = [(1, 1), (2, 1), (1, 2), (2, 2), (3, 1), (1, 3), (3, 2), (2, 3), (3, 3)]


def buckets(tier):
    bl = []
    for rx, ry in RANKPAIRS:
        for kind in KINDS:
            heavy = max(rx, ry) == 3
            bl.append(Bucket('dot:%d-%d:%s' % (rx, ry, kind),
                             (lambda rx=rx, ry=ry, kind=kind: with_layout(dot_cases(rx, ry, kind, tier), 2)), prop_binary,
                             {'quick': 100, 'thorough': 800 if heavy else 1000},
                             nontrivial=_nontrivial, classes=_classes, weight=2.0 if heavy else 1.0))
    for kind in KINDS:
        bl.append(Bucket('outer:' + kind, (lambda kind=kind: with_layout(outer_cases(kind, tier), 2)), prop_binary,
                         {'quick': 150, 'thorough': 1500}, nontrivial=_nontrivial, classes=_classes))
    bl.append(Bucket('inv', (lambda: with_layout(inv_cases(tier), 1)), prop_inv, {'quick': 250, 'thorough': 1500},
                     nontrivial=_nontrivial, classes=_classes, shards={'quick': 1, 'thorough': 2}, weight=2.0))
    for kind in KINDS:
        bl.append(Bucket('solve:' + kind, (lambda kind=kind: with_layout(solve_cases(kind, tier), 2)), prop_solve,
                         {'quick': 200, 'thorough': 2000}, nontrivial=_nontrivial, classes=_classes, weight=2.0))
    bl.append(Bucket('solve:vector-rhs', (lambda: st.sampled_from(KINDS).flatmap(lambda k: with_layout(solve_cases(k, tier, vec=True), 2))),
                     prop_solve_vec, {'quick': 30, 'thorough': 150}, nontrivial=_nontrivial, classes=_classes))
    bl.append(Bucket('det', (lambda: with_layout(det_cases('det', tier), 1)), prop_det, {'quick': 150, 'thorough': 1000},
                     nontrivial=_nontrivial, classes=_classes, shards={'quick': 2, 'thorough': 4}, weight=12.0))
    bl.append(Bucket('logdet', (lambda: with_layout(det_cases('logdet', tier), 1)), prop_logdet, {'quick': 150, 'thorough': 1000},
                     nontrivial=_nontrivial, classes=_classes, shards={'quick': 2, 'thorough': 4}, weight=10.0))
    bl.append(Bucket('trace', (lambda: with_layout(trace_cases(tier), 1)), prop_trace, {'quick': 150, 'thorough': 1500},
                     nontrivial=_nontrivial, classes=_classes))
    bl.append(Bucket('expm', (lambda: with_layout(expm_cases(tier), 1)), prop_expm, {'quick': 50, 'thorough': 300},
                     nontrivial=_nontrivial, classes=_classes, shards={'quick': 4, 'thorough': 8}, weight=40.0))
    bl.append(Bucket('expm:small-base:high-order', (lambda: with_layout(expm_high_cases(tier), 1)), prop_expm,
                     {'quick': 12, 'thorough': 100}, nontrivial=_nontrivial, classes=_classes,
                     shards={'quick': 4, 'thorough': 8}, weight=200.0))
    # complex coefficient data: the operations whose kernels handle it on this tree (see notes/C07.md for the others)
    for kind in KINDS:
        bl.append(Bucket('dot:complex:' + kind,
                         (lambda kind=kind: with_layout(with_complex(
                             st.sampled_from(RANKPAIRS).flatmap(lambda r: dot_cases(r[0], r[1], kind, tier)), ('x', 'y')), 2)),
                         prop_binary, {'quick': 100, 'thorough': 1500}, nontrivial=_nontrivial, classes=_classes))
        bl.append(Bucket('outer:complex:' + kind,
                         (lambda kind=kind: with_layout(with_complex(outer_cases(kind, tier), ('x', 'y'),
                                                                     must=('y' if kind == 'NU' else 'x')), 2)),
                         prop_binary, {'quick': 60, 'thorough': 800}, nontrivial=_nontrivial, classes=_classes))
    bl.append(Bucket('inv:complex', (lambda: with_layout(with_complex(inv_cases(tier), ('A',), regular=('A',)), 1)), prop_inv,
                     {'quick': 80, 'thorough': 1000}, nontrivial=_nontrivial, classes=_classes, weight=2.0))
    for kind in ('UU', 'NU'):
        bl.append(Bucket('solve:complex:' + kind,
                         (lambda kind=kind: with_layout(with_complex(solve_cases(kind, tier), ('A', 'B'), regular=('A',)), 2)),
                         prop_solve, {'quick': 80, 'thorough': 1000}, nontrivial=_nontrivial, classes=_classes, weight=2.0))
    bl.append(Bucket('trace:complex', (lambda: with_layout(with_complex(trace_cases(tier), ('A',)), 1)), prop_trace,
                     {'quick': 60, 'thorough': 600}, nontrivial=_nontrivial, classes=_classes))
    bl.append(Bucket('expm:complex', (lambda: with_layout(with_complex(expm_cases(tier), ('A',), expm=True), 1)), prop_expm,
                     {'quick': 30, 'thorough': 200}, nontrivial=_nontrivial, classes=_classes,
                     shards={'quick': 2, 'thorough': 4}, weight=60.0))
    return bl
