"""C02 helpers: operand descriptors -> live objects / exact reference series, comparison.

Operand descriptor (plain data):
    {'kind': 'utpm',  'data': ndarray (D,P)+shape}
    {'kind': 'pyint' | 'pyfloat' | 'pycomplex' | 'np.float64' | 'np.float32' | 'np.int64' | 'np.complex128', 'v': scalar}
    {'kind': 'nd.float' | 'nd.int' | 'nd.complex', 'v': ndarray}
    {'kind': 'alias', 'how': 'self' | 'full' | 'T' | 'rev' | 'row' | 'row0'}      (in-place right operand that shares
                                                                                   memory with the left operand)
    {'kind': 'npx.<class>', 'dt': dtype name, 'v': number[, 'lo': float]}           scalar of an "unusual" NumPy dtype
    {'kind': 'ndx.<class>', 'dt': dtype name, 'v': ndarray[, 'lo': ndarray]}        ndarray of such a dtype
        classes: uint (uint8/16/32/64), sint (int8/16/32), bool (bool; scalars also Python bool 'pybool'), float16,
        longdouble (longdouble / clongdouble; value = longdouble(v) + longdouble(lo), lo below the float64 resolution)
    optional 'lay' on UTPM and ndarray operands: memory layout of the live array ('C', 'F', 'T', 'strided', 'rev')
The reference is computed direction by direction: for direction p the UTPM operand contributes the series
data[:, p] of shape (D,)+shape and a constant contributes (c, 0, 0, ...); NumPy's object-array broadcasting combines
the two element-wise.  Nothing here knows about algopy's (D,P,...) layout tricks.
"""
import numpy as np

from ..runner import Violation, Inconclusive
from ..oracles import FracSeries

SCALAR_KINDS = ('pyint', 'pyfloat', 'pycomplex', 'np.float64', 'np.float32', 'np.int64', 'np.complex128')
ARRAY_KINDS = ('nd.float', 'nd.int', 'nd.complex')
CONST_KINDS = SCALAR_KINDS + ARRAY_KINDS
COMPLEX_KINDS = ('pycomplex', 'np.complex128', 'nd.complex')
XCLASSES = ('uint', 'sint', 'bool', 'float16', 'longdouble')
XSCALAR_KINDS = tuple('npx.' + c for c in XCLASSES)
XARRAY_KINDS = tuple('ndx.' + c for c in XCLASSES)
XDTYPES = {'uint': ('uint8', 'uint16', 'uint32', 'uint64'), 'sint': ('int8', 'int16', 'int32'), 'bool': ('bool',),
           'float16': ('float16',), 'longdouble': ('longdouble', 'clongdouble')}

_TYPES = {'pyint': int, 'pyfloat': float, 'pycomplex': complex, 'np.float64': np.float64, 'np.float32': np.float32,
          'np.int64': np.int64, 'np.complex128': np.complex128}


def is_array_kind(kind):
    return kind.startswith('nd')


def is_const_kind(kind):
    return kind not in ('utpm', 'alias')


def relayout(a, lay):
    """a fresh array with the values of ``a`` in the requested memory layout (never shares memory with ``a``)"""
    a = np.asarray(a)
    if lay in (None, 'C') or a.ndim == 0:
        return np.array(a)
    if lay == 'F':
        return np.asfortranarray(a).copy(order='F')
    if lay == 'T':
        # the buffer holds the axes in reversed order (for UTPM data: array axes first, then P, then D)
        buf = np.array(a.transpose(), order='C')      # always a copy
        return buf.transpose()
    if lay == 'strided':
        buf = np.zeros(a.shape[:-1] + (2 * a.shape[-1] + 1,), dtype=a.dtype)
        view = buf[..., 1::2]
        view[...] = a
        return view
    if lay == 'rev':
        buf = np.array(a[..., ::-1])
        return buf[..., ::-1]
    raise KeyError(lay)


def const_value(o):
    """the live constant handed to algopy: scalar of exactly the named type, or a fresh ndarray (layout 'lay')"""
    k = o['kind']
    if k in SCALAR_KINDS:
        # the kind string fixes the type (descriptors store plain Python numbers)
        return _TYPES[k](o['v'])
    if k in ARRAY_KINDS:
        return relayout(o['v'], o.get('lay'))
    dt = o['dt']
    if k.startswith('npx.'):
        if dt == 'pybool':
            return bool(o['v'])
        t = np.dtype(dt).type
        v = t(o['v'])
        if 'lo' in o:
            v = v + np.longdouble(o['lo'])
            v = t(v)
        return v
    if k.startswith('ndx.'):
        a = np.asarray(o['v']).astype(np.dtype(dt))
        if 'lo' in o:
            a = (a + np.asarray(o['lo']).astype(np.longdouble)).astype(np.dtype(dt))
        return relayout(a, o.get('lay'))
    raise KeyError(k)


def _frac(x):
    from fractions import Fraction
    if isinstance(x, (bool, np.bool_)):
        return Fraction(int(x))
    if isinstance(x, (int, np.integer)):
        return Fraction(int(x))
    n, d = x.as_integer_ratio()        # float, numpy.float16/32/64, numpy.longdouble: exact
    return Fraction(int(n), int(d))


def exact_gq(value):
    """object ndarray of GQ holding the mathematical value of every element (no rounding through float64)"""
    from ..oracles import GQ
    a = np.asarray(value)
    out = np.empty(a.shape, dtype=object)
    for idx in np.ndindex(*a.shape):
        el = a[idx]
        if a.dtype.kind == 'c':
            out[idx] = GQ(_frac(el.real), _frac(el.imag))
        else:
            out[idx] = GQ(_frac(el))
    return out


def const_big(o):
    """constant with an element beyond 2**33: float64 arithmetic on it is not exact even for dyadic polynomials"""
    a = np.asarray(const_value(o))
    if a.dtype.kind == 'b' or a.size == 0:
        return False
    return bool(np.max(np.abs(a.astype(np.clongdouble))) > 2.0 ** 33) or ('lo' in o and bool(np.any(np.asarray(o['lo']) != 0)))


def is_utpm(o):
    return o['kind'] == 'utpm'


def opd_shape(o):
    if o['kind'] == 'utpm':
        return tuple(o['data'].shape[2:])
    if is_array_kind(o['kind']):
        return tuple(np.shape(o['v']))
    return ()


def opd_is_complex(o):
    if o['kind'] == 'utpm':
        return np.iscomplexobj(o['data'])
    if o['kind'] in COMPLEX_KINDS:
        return True
    return o.get('dt') == 'clongdouble'


def opd_nonconstant(o):
    return o['kind'] == 'utpm' and o['data'].shape[0] >= 2 and bool(np.any(o['data'][1:] != 0))


def alias_view(data, how):
    """ndarray view (sharing memory with ``data`` (D,P)+shape) used as right operand of an aliased in-place form"""
    if how in ('self', 'full'):
        return data
    if how == 'T':
        return data.transpose((0, 1, 3, 2))
    if how == 'rev':
        return data[:, :, ::-1]
    if how == 'row':
        return data[:, :, 0:1]
    if how == 'row0':
        return data[:, :, 0]
    raise KeyError(how)


def series_data(o, p, D):
    """float/complex ndarray (D,)+shape: the series of operand o in direction p (constants: degree zero)"""
    if o['kind'] == 'utpm':
        return o['data'][:, p]
    c = np.asarray(const_value(o))
    dt = np.complex128 if c.dtype.kind == 'c' else np.float64
    out = np.zeros((D,) + c.shape, dtype=dt)
    out[0] = c.astype(dt)
    return out


def _lead1(s):
    # a leading size-1 axis never changes NumPy's pairing of elements; it keeps every coefficient a genuine ndarray
    # (arithmetic on 0-d object arrays returns bare scalars)
    return FracSeries([np.asarray(c, dtype=object)[None] for c in s.c])


def frac_series(o, p, D):
    """exact series of operand o in direction p; coefficient arrays carry one extra leading axis of size 1"""
    if o['kind'] == 'utpm':
        return _lead1(FracSeries.from_data(o['data'][:, p]))
    return _lead1(FracSeries.const(exact_gq(const_value(o)), D))


def frac_to_complex(r):
    return r.to_complex()[:, 0]


def _conv_abs(a, b):
    D = a.shape[0]
    out = []
    for d in range(D):
        s = a[0] * b[d]
        for k in range(1, d + 1):
            s = s + a[k] * b[d - k]
        out.append(s)
    return np.array(np.broadcast_arrays(*out))


def reference(op, L, R, D, P):
    """exact reference of L op R: (ref complex ndarray (D,P)+S, scale float ndarray (D,P)+S)

    scale = sum of the absolute values of the terms entering each coefficient (for the quotient: the majorant
    recurrence s_d = (|x_d| + sum_k s_k |y_{d-k}|) / |y_0|), at least 1.
    """
    refs, scales = [], []
    for p in range(P):
        a, b = frac_series(L, p, D), frac_series(R, p, D)
        fa, fb = np.abs(series_data(L, p, D)), np.abs(series_data(R, p, D))
        if op == 'add':
            r = a + b
            s = np.array([fa[d] + fb[d] for d in range(D)])
        elif op == 'sub':
            r = a - b
            s = np.array([fa[d] + fb[d] for d in range(D)])
        elif op == 'mul':
            r = a * b
            s = _conv_abs(fa, fb)
        elif op == 'truediv':
            r = a / b
            maj = []
            for d in range(D):
                t = fa[d] + 0.0 * fb[0]
                for k in range(1, d + 1):
                    t = t + fb[k] * maj[d - k]
                maj.append(t / fb[0])
            s = np.array(np.broadcast_arrays(*maj))
        else:
            raise KeyError(op)
        refs.append(frac_to_complex(r))
        scales.append(s)
    ref = np.stack(refs, axis=1)
    scale = np.maximum(1.0, np.stack(scales, axis=1))
    if not (np.all(np.isfinite(ref)) and np.all(np.isfinite(scale))):
        raise Inconclusive('non-finite reference')
    return ref, scale


def result_shape(L, R):
    return tuple(np.broadcast_shapes(opd_shape(L), opd_shape(R)))


def compare(got, ref, scale, tol, exact, what, stats):
    """got: ndarray from algopy; ref complex ndarray; raises Violation"""
    got = np.asarray(got)
    if got.shape != ref.shape:
        raise Violation('%s: result data shape %s, NumPy broadcasting gives %s' % (what, got.shape, ref.shape))
    if got.dtype.kind not in 'fc':
        raise Violation('%s: result dtype %s' % (what, got.dtype))
    if np.any(ref.imag != 0) and got.dtype.kind != 'c':
        i = tuple(np.argwhere(ref.imag != 0)[0])
        raise Violation('%s: imaginary part dropped: result dtype %s, reference coefficient at (d,p,idx)=%s is %r, got %r'
                        % (what, got.dtype, i, complex(ref[i]), got[i].item()))
    if not np.all(np.isfinite(got)):
        i = tuple(np.argwhere(~np.isfinite(got))[0])
        raise Violation('%s: non-finite coefficient %r at (d,p,idx)=%s, reference %r' % (what, got[i].item(), i, complex(ref[i])))
    if exact:
        bad = got != ref
        if np.any(bad):
            i = tuple(np.argwhere(bad)[0])
            raise Violation('%s: coefficient at (d,p,idx)=%s is %r, exact value %r (all inputs small dyadics: float64 arithmetic is exact)'
                            % (what, i, got[i].item(), complex(ref[i])))
        return
    err = np.abs(got - ref) / scale
    e = float(err.max()) if err.size else 0.0
    stats.err(e)
    if e > tol:
        i = tuple(np.unravel_index(int(np.argmax(err)), err.shape))
        raise Violation('%s: coefficient at (d,p,idx)=%s is %r, exact value %r (error %.2e of the term magnitude %.3g > %.0e)'
                        % (what, i, got[i].item(), complex(ref[i]), e, float(scale[i]), tol))


def compare_same(got, other, scale, tol, what, stats):
    """two algopy results that must carry the same coefficients (in-place/reflected vs binary expression)"""
    got = np.asarray(got)
    other = np.asarray(other)
    if got.shape != other.shape:
        raise Violation('%s: data shapes %s vs %s' % (what, got.shape, other.shape))
    err = np.abs(got - other) / scale
    if not np.all(np.isfinite(err)):
        raise Violation('%s: non-finite coefficients' % what)
    e = float(err.max()) if err.size else 0.0
    if e > tol:
        i = tuple(np.unravel_index(int(np.argmax(err)), err.shape))
        raise Violation('%s: coefficient at (d,p,idx)=%s is %r vs %r (difference %.2e of the term magnitude > %.0e)'
                        % (what, i, got[i].item(), other[i].item(), e, tol))
