"""C09 - forward-mode derivative drivers are exact.

Oracle for polynomial programs: the same plain-data program is executed on oracles.ExactPoly (exact sparse
polynomial algebra); gradient / Jacobian / Hessian / d-th partials are obtained by analytic differentiation of the
expanded polynomial and evaluated in Fractions at the (exactly converted) seed point.  Smooth programs: mpmath
numerical differentiation plus the metamorphic relations between the drivers.
"""
from fractions import Fraction

import numpy as np
import mpmath
from hypothesis import strategies as st

import algopy
from algopy import UTPM
import algopy.exact_interpolation as exint

from ..runner import Bucket, Violation, Inconclusive, guard, KF
from .. import gen
from ..oracles import compositions
from . import _c09_prog as P

PID = 'C09'
RULE = ('one bucket per driver pair (init_X / extract_X) and, for init_tensor, per order d = 1..5; cases = (plain-data program, '
        'N in 1..6, seed point, direction v, d) drawn by Hypothesis.  Polynomial programs: expression trees over +, -, *, '
        'integer powers, indexing/slicing, sum, dot (also with constant integer matrices), zeros(dtype=x)+setitem, reshape, '
        'integer constants, total degree <= 5 by construction; points: integers stored as int64, integers stored as float64, '
        'reals; outputs scalar / vector / matrix.  Smooth programs: sin, cos, exp, tanh, arctan, log, sqrt, sinh of polynomial '
        'sub-expressions, each function offered only where its argument lies inside its domain with margin at the drawn point.  '
        'Non-trivial: N >= 2 and the expanded output polynomial has a mixed monomial (two different variables, hence degree >= 2) '
        '[smooth: N >= 2 and a non-zero off-diagonal second derivative / a Jacobian row with two non-zero entries]; distinct by '
        'descriptor hash.  complex-point: polynomial programs with complex dyadic coefficients (1-4 monomials per output, degree <= 5, N in 1..4) at '
        'complex points through init/extract jacobian, jac_vec, hessian, hess_vec; non-trivial = N >= 2, a mixed monomial and a non-zero imaginary part')
ASSUMPTIONS = [
    'complex-point: reference = term-by-term differentiation of the monomials in complex128, tolerance 1e-10 x max(1, max|reference|)',
    'reference = analytic derivatives of the expanded polynomial (oracles.ExactPoly) evaluated in exact rational arithmetic; the '
    'float64/int64 seed point is converted exactly',
    'tolerance 1e-10 x max(1, M(|x| + h)) where M is the majorant of the program (all signs made positive) and h the largest step '
    'used by the driver (1; 1+|v| for the vector products; d for init_tensor rays): the magnitude of the terms entering the result',
    'smooth programs: tolerance 1e-9 x max(1, max|reference|) against mpmath numerical differentiation at 40 digits, and between drivers',
    'extract_tensor(N, y, as_full_matrix=True) is only defined for d = 2 and scalar outputs (docstring: "Hessian of shape (N,N)"); '
    'for every other (d, output) the check uses as_full_matrix=False and labels the rows with generate_multi_indices(N, d)',
    'extract_hessian / extract_hess_vec: scalar-valued programs only (their docstrings / index arithmetic)',
    'init_tensor: (N, d) restricted to C(N+d-1, d) <= 56 (quick) / <= 126 (thorough) - generate_Gamma_and_rays is recomputed by '
    'algopy in init_tensor and again in extract_tensor and costs up to 20 s for 126 rays',
    'integer programs keep all intermediate magnitudes below 2^53 (|x| <= 4, constants <= 7, degree <= 5)',
]

KF_JV = 'KF-extract_jac_vec-rank'
KF_HESS_INT = 'KF-init_hessian-integer-dtype'          # init_hessian keeps an integer seed dtype: non-polynomial programs are truncated
KF_INT32 = 'KF-init-drivers-small-integer-dtype'       # init_jacobian/jac_vec/hess_vec convert only the platform int (dtype == int)

BU = P.BackendUTPM(algopy)
_INFO = {}


def _note_steered(case, stats):
    for k in case.get('steered', ()) or ():
        stats.exclude(k)


# ---------------------------------------------------------------------------
# reference helpers (harness code)
# ---------------------------------------------------------------------------

_PCACHE = {}


def _polys(case):
    key = id(case['prog'])
    hit = _PCACHE.get(key)
    if hit is not None and hit[0] is case['prog']:
        return hit[1]
    polys = P.exact_outputs(case['prog'], case['N'])
    if len(_PCACHE) > 8:
        _PCACHE.clear()
    _PCACHE[key] = (case['prog'], polys)
    return polys


def _majorant(case, h, key='x'):
    """M(|x| + h): float, magnitude of the Taylor terms with steps up to h"""
    x = np.abs(np.asarray(case[key], dtype=float)) + np.asarray(h, dtype=float)
    B = P.BackendFloat()
    B.majorant = True
    B.const = lambda c: abs(c)
    B.mat = lambda A: np.abs(np.asarray(A))
    m = np.asarray(P.run(case['prog'], x, B), dtype=float)
    return max(1.0, float(np.max(np.abs(m))))


def _fl(arr_of_fractions, shape):
    return np.array([float(f) for f in arr_of_fractions], dtype=float).reshape(shape)


def _ref_partials(polys, xf, alpha):
    """float ndarray (output shape): d^alpha P (x) / alpha!"""
    fac = P.factorial_multi(alpha)
    return _fl([p.diff_multi(alpha).eval(xf) / fac for p in polys.ravel()], polys.shape)


def _ref_jacobian(polys, xf, N):
    cols = [_fl([p.diff(j).eval(xf) for p in polys.ravel()], polys.shape) for j in range(N)]
    return np.stack(cols, axis=-1)


def _ref_hessian(poly, xf, N):
    H = np.zeros((N, N))
    g = [poly.diff(i) for i in range(N)]
    for i in range(N):
        for j in range(i, N):
            H[i, j] = H[j, i] = float(g[i].diff(j).eval(xf))
    return H


def _compare(got, ref, scale, tol, stats, what):
    try:
        got = np.asarray(got)
        got = got.astype(float) if got.dtype.kind in 'iub' else got
    except Exception:
        raise Violation('%s: result %r is not numeric' % (what, type(got).__name__))
    if got.dtype == object:
        raise Violation('%s: result has dtype object' % what)
    ref = np.asarray(ref, dtype=float)
    if got.shape != ref.shape:
        raise Violation('%s: shape %s, expected %s' % (what, got.shape, ref.shape))
    if not np.all(np.isfinite(ref)):
        raise Inconclusive('non-finite reference')
    if got.size == 0:
        return
    if not np.all(np.isfinite(got)):
        raise Violation('%s: non-finite result' % what)
    err = np.abs(got - ref) / scale
    e = float(err.max())
    stats.err(e)
    if e > tol:
        pos = np.unravel_index(int(np.argmax(err)), err.shape)
        raise Violation('%s: entry %s is %r, analytic value %r (|diff| = %.3e > %.0e x %.3g)'
                        % (what, tuple(int(i) for i in pos), got[pos].item(), ref[pos].item(), abs(got[pos] - ref[pos]), tol, scale))


def _shape(case):
    return tuple(case.get('xshape') or (case['N'],))


def _seed(case, flat=False, key='x'):
    """the point as the caller passes it: ndarray of the drawn dtype, shape (vector, or rank >= 2 with N entries) and memory
    layout, or a nested list; flat: as a vector (drivers that only take vectors); key: 'x' or the second point 'x2'"""
    x = case[key] if flat else case[key].reshape(_shape(case))
    if case.get('as_list'):
        return x.tolist()
    lay = case.get('xlayout')
    if x.ndim < 2 and lay in ('F', 'T', 'perm'):
        lay = 'C'
    return P.lay(x, lay, case.get('xlayout_perm'))


def _vpass(case, v=None):
    """the direction as passed: full shape of x or a broadcastable form, in its own memory layout; 0-d -> Python scalar"""
    v = np.asarray(case['v'] if v is None else v)
    if v.ndim == 0:
        return v.item()
    return P.lay(v, case.get('vlayout'), case.get('vlayout_perm'))


def _veff(case):
    """the direction the call means: v broadcast to the shape of x, flattened in C order like the seed"""
    v = np.asarray(case['v'])
    if v.shape == (case['N'],):
        return v
    return np.broadcast_to(v, _shape(case)).reshape(-1)


def _kw(case):
    return {'dtype': float} if case.get('dtype_arg') == 'float' else {}


def _tol(case, driver, base):
    """float32 seeds: init_jacobian / init_jac_vec / init_hess_vec document 'dtype is inferred from x' and init_hessian does
    the same, so the arithmetic runs in single precision unless dtype=float is passed; init_tensor always computes in float64"""
    if case['x'].dtype == np.float32 and driver != 'tensor' and not (case.get('dtype_arg') == 'float' and driver != 'hessian'):
        return 1e-4
    return base


def _evaluate(case, X, flat=False):
    if not isinstance(X, UTPM):
        raise Violation('init_* returned %s' % type(X).__name__)
    if len(_shape(case)) != 1 and not flat:
        X = guard(lambda u: u.reshape((case['N'],)), X)          # the program works on the flattened (C order) seed
    Y = guard(P.run, case['prog'], X, BU)
    if not isinstance(Y, UTPM):
        raise Violation('the program returned %s for a UTPM argument' % type(Y).__name__)
    return Y


_FRESH = {'extract_hessian', 'extract_hess_vec', 'extract_tensor'}      # return newly allocated arrays on the unchanged tree;
# extract_jacobian / extract_jac_vec return (transposed) views of y.data[1] - legitimate, so no aliasing assertion there


def _extract(name, Y, *args, **kw):
    """y -> derivative array through UTPM.<name>; the extraction must be a pure function of y:
    y.data byte-identical before/after, a second extraction from the same y gives the identical result, and (for the
    drivers that build a new array) the result does not share memory with y.data"""
    fn = getattr(UTPM, name)
    pos = [Y if a is _Y else a for a in args]
    before = Y.data.tobytes()
    r1 = guard(fn, *pos, **kw)
    if Y.data.tobytes() != before:
        raise Violation('UTPM.%s modified the coefficients of its argument y' % name)
    keep = np.array(r1, copy=True)
    if name in _FRESH and isinstance(r1, np.ndarray) and np.shares_memory(r1, Y.data):
        raise Violation('UTPM.%s returns an array that shares memory with y.data' % name)
    r2 = guard(fn, *pos, **kw)
    if Y.data.tobytes() != before:
        raise Violation('the second UTPM.%s(y) modified the coefficients of its argument y' % name)
    r2 = np.asarray(r2)
    if r2.shape != keep.shape or r2.tobytes() != np.ascontiguousarray(keep).astype(r2.dtype).tobytes():
        raise Violation('a second UTPM.%s from the same y differs from the first: %r vs %r' % (name, r2.tolist(), keep.tolist()))
    # in-place change of a freshly built result must not reach y (belt and braces for the aliasing assertion)
    if name in _FRESH and isinstance(r1, np.ndarray) and r1.size and r1.flags.writeable:
        r1[...] = 0
        if Y.data.tobytes() != before:
            raise Violation('overwriting the array returned by UTPM.%s changed y.data' % name)
    return keep


class _YMarker:
    pass


_Y = _YMarker()


def _multi_seed(case, init, finish, second=True):
    """Seed ALL points first (the point x and, same N / dtype / shape / layout, a second point x2), evaluate afterwards:
    every result must be the derivative at ITS point.  The seeded inputs are independent objects: they share no memory, running the
    program on one and then overwriting it in place does not change the other, and a later init_* of the first point returns the
    same coefficients as the first one did.  init(key) -> seeded UTPM; finish(key, X) evaluates, extracts and compares."""
    keys = ['x'] + (['x2'] if second and 'x2' in case else [])
    Xs = [init(k) for k in keys]
    for X in Xs:
        if not isinstance(X, UTPM):
            raise Violation('init_* returned %s' % type(X).__name__)
    snaps = [np.ascontiguousarray(X.data).tobytes() for X in Xs]
    for a in range(len(Xs)):
        for b in range(a + 1, len(Xs)):
            if Xs[a] is Xs[b] or np.shares_memory(Xs[a].data, Xs[b].data):
                raise Violation('two separately seeded inputs (init_* of two points of the same size) share memory')
    for k, X, snap in zip(keys, Xs, snaps):
        if np.ascontiguousarray(X.data).tobytes() != snap:
            raise Violation('the seeded input of point %r changed while another seeded input was evaluated / overwritten' % k)
        finish(k, X)
        if X.data.flags.writeable:
            X.data.fill(7)                       # what a program that works in place on its argument does (x *= 2, x[0] = ...)
    if len(keys) > 1 or second:
        X3 = init('x')
        if not isinstance(X3, UTPM) or X3.data.shape != Xs[0].data.shape or np.ascontiguousarray(X3.data).tobytes() != snaps[0]:
            raise Violation('init_* of the same point returns different coefficients after an earlier seeded input was overwritten in place')


def _poly_info(case, polys, **extra):
    _INFO.clear()
    info = {'mixed': P.has_mixed_monomial(polys), 'deg': P.max_degree(polys), 'out': case['out']}
    info.update(extra)
    _INFO[id(case)] = info


# ---------------------------------------------------------------------------
# polynomial programs: one property per driver
# ---------------------------------------------------------------------------

def prop_poly_jacobian(case, stats):
    _note_steered(case, stats)
    N = case['N']
    polys = _polys(case)
    _poly_info(case, polys)

    def finish(key, X):
        Y = _evaluate(case, X)
        J = _extract('extract_jacobian', Y, _Y)
        _compare(J, _ref_jacobian(polys, P.frac_point(case[key]), N), _majorant(case, 1.0, key), _tol(case, 'jacobian', 1e-10), stats,
                 'extract_jacobian(f(init_jacobian(%s)))' % key)
    _multi_seed(case, lambda key: guard(lambda s: UTPM.init_jacobian(s, **_kw(case)), _seed(case, key=key)), finish)


def prop_poly_jac_vec(case, stats):
    _note_steered(case, stats)
    N = case['N']
    polys = _polys(case)
    _poly_info(case, polys)
    v = _veff(case)
    vf = P.frac_point(v)
    h = 1.0 + np.abs(np.asarray(v, dtype=float))

    def finish(key, X):
        xf = P.frac_point(case[key])
        Y = _evaluate(case, X)
        r = _extract('extract_jac_vec', Y, _Y)
        J = _ref_jacobian(polys, xf, N)
        ref = np.zeros(polys.shape)
        for idx in np.ndindex(*polys.shape):
            ref[idx] = float(sum(p_ * v_ for p_, v_ in zip([polys[idx].diff(j).eval(xf) for j in range(N)], vf)))
        if not np.allclose(ref, J @ np.asarray(v, dtype=float), rtol=1e-9, atol=1e-9 * _majorant(case, h, key)):
            raise AssertionError('oracle self-check failed')
        _compare(r, ref, _majorant(case, h, key), _tol(case, 'jac_vec', 1e-10), stats,
                 'extract_jac_vec(f(init_jac_vec(%s,v))) [%s output]' % (key, case['out']))
    _multi_seed(case, lambda key: guard(lambda s, w: UTPM.init_jac_vec(s, w, **_kw(case)), _seed(case, key=key), _vpass(case)), finish)


def prop_poly_hessian(case, stats):
    _note_steered(case, stats)
    N = case['N']
    polys = _polys(case)
    _poly_info(case, polys)

    def finish(key, X):
        Y = _evaluate(case, X, flat=True)           # init_hessian ravels the seed itself
        H = _extract('extract_hessian', Y, N, _Y)
        _compare(H, _ref_hessian(polys[()], P.frac_point(case[key]), N), _majorant(case, 2.0, key), _tol(case, 'hessian', 1e-10), stats,
                 'extract_hessian(N, f(init_hessian(%s)))' % key)
    _multi_seed(case, lambda key: guard(UTPM.init_hessian, _seed(case, key=key)), finish)


def prop_poly_hess_vec(case, stats):
    _note_steered(case, stats)
    N = case['N']
    polys = _polys(case)
    _poly_info(case, polys)
    v = _veff(case)
    poly = polys[()]
    vf = P.frac_point(v)
    g = [poly.diff(i) for i in range(N)]

    def finish(key, X):
        xf = P.frac_point(case[key])
        Y = _evaluate(case, X)
        r = _extract('extract_hess_vec', Y, N, _Y)
        ref = np.array([float(sum(g[i].diff(j).eval(xf) * vf[j] for j in range(N))) for i in range(N)])
        _compare(r, ref, _majorant(case, 1.0 + np.abs(np.asarray(v, dtype=float)), key), _tol(case, 'hess_vec', 1e-10), stats,
                 'extract_hess_vec(N, f(init_hess_vec(%s,v)))' % key)
    _multi_seed(case, lambda key: guard(lambda s, w: UTPM.init_hess_vec(s, w, **_kw(case)), _seed(case, key=key), _vpass(case)), finish)


def prop_poly_tensor(case, stats):
    _note_steered(case, stats)
    N, d = case['N'], case['d']
    polys = _polys(case)
    _poly_info(case, polys, d=d)
    rows = [tuple(int(a) for a in r) for r in np.asarray(guard(exint.generate_multi_indices, N, d))]
    if sorted(rows) != sorted(compositions(d, N)):
        raise Violation('generate_multi_indices(%d,%d) is not the set of multi-indices of order %d: %s' % (N, d, d, rows))

    def finish(key, X):
        xf = P.frac_point(case[key])
        Y = _evaluate(case, X)
        T = _extract('extract_tensor', Y, N, _Y, as_full_matrix=False)
        ref = np.stack([_ref_partials(polys, xf, alpha) for alpha in rows], axis=0)
        scale = _majorant(case, float(d), key)
        _compare(T, ref, scale, 1e-10, stats, 'extract_tensor(N, f(init_tensor(%d,%s)), as_full_matrix=False)' % (d, key))
        if d == 2 and polys.shape == ():
            H = _extract('extract_tensor', Y, N, _Y)
            _compare(H, _ref_hessian(polys[()], xf, N), scale, 1e-10, stats, 'extract_tensor(N, f(init_tensor(2,%s)))' % key)
    # the second point and the re-seeding cost five more interpolation tables: only for tables of <= 10 rays
    _multi_seed(case, lambda key: guard(UTPM.init_tensor, d, _seed(case, key=key)), finish, second=len(rows) <= 10)


# ---------------------------------------------------------------------------
# case strategies
# ---------------------------------------------------------------------------

_NS = st.sampled_from([1, 2, 2, 2, 3, 3, 3, 4, 4, 4, 5, 6, 6])
_INT_KINDS = ('int64', 'int32')


@st.composite
def _point(draw, N, smooth=False):
    """(x, kind): integers stored as int64 / int32 / float64, reals stored as float64 / float32"""
    kind = draw(st.sampled_from(['real', 'real', 'real', 'int64', 'int64', 'int32', 'intfloat', 'float32']))
    if kind in ('real', 'float32'):
        if smooth:
            el = st.one_of(st.integers(-12, 12).map(lambda k: k / 8.0), gen.nice_floats(-1.5, 1.5))
        else:
            el = st.one_of(st.integers(-20, 20).map(lambda k: k / 8.0), gen.nice_floats(-2.5, 2.5))
        x = np.array(draw(st.lists(el, min_size=N, max_size=N)), dtype=float)
        return (x.astype(np.float32) if kind == 'float32' else x), kind
    m = 2 if smooth else 4
    vals = draw(st.lists(st.integers(-m, m), min_size=N, max_size=N))
    return np.array(vals, dtype={'int64': np.int64, 'int32': np.int32, 'intfloat': float}[kind]), kind


@st.composite
def _direction(draw, N, prefer_real=False):
    """integer valued (int64 or float64 storage) or real; prefer_real: an integer-dtype seed point with a NON-integer
    direction is the cell where a driver that casts v to x.dtype would silently truncate"""
    if draw(st.sampled_from([True, False, False, False] if prefer_real else [True, False])):
        vals = draw(st.lists(st.integers(-3, 3), min_size=N, max_size=N))
        return np.array(vals, dtype=np.int64 if draw(st.booleans()) else float)
    el = st.one_of(st.integers(-16, 16).map(lambda k: k / 8.0), gen.nice_floats(-3.0, 3.0))
    return np.array(draw(st.lists(el, min_size=N, max_size=N)), dtype=float)


def _factorizations(N):
    """shapes of rank >= 2 with N entries; non-degenerate ones (no side 1: memory order matters) are listed three times"""
    nd = [(a, N // a) for a in range(2, N) if N % a == 0]
    out = [(1, N), (N, 1)] + nd * 3
    if N == 8:
        out += [(2, 2, 2)] * 2
    if nd:
        out += [(1,) + nd[0], (nd[0][0], 1, nd[0][1])]
    return out


@st.composite
def _seed_form(draw, case, driver, steered, smooth=False):
    """adds point, its storage (dtype kind, shape, layout, list) and - for the vector products - the direction to the case"""
    N = case['N']
    x, kind = draw(_point(N, smooth=smooth))
    # open findings: integer seed dtypes that a driver keeps as coefficient dtype
    if kind == 'int32' and driver in ('jacobian', 'jac_vec', 'hess_vec', 'smooth:jacobian', 'smooth:hessian') and KF.is_open(KF_INT32):
        steered.append(KF_INT32)
        x, kind = x.astype(np.int64), 'int64'
    if kind == 'int32' and driver == 'hessian' and KF.is_open(KF_HESS_INT):
        steered.append(KF_HESS_INT)          # int32 polynomial arithmetic overflows: same root cause (integer data kept)
        x, kind = x.astype(np.int64), 'int64'
    case['x'], case['pkind'] = x, kind
    # a second point of the same size and dtype (seeded before anything is evaluated); it differs from x in every draw
    delta = np.array(draw(st.lists(st.integers(-2, 2), min_size=N, max_size=N)))
    if not delta.any():
        delta[draw(st.integers(0, N - 1))] = 1
    case['x2'] = (x + delta.astype(x.dtype)).astype(x.dtype)
    # shape of the seed: vector, or (where the driver takes it) an array of rank >= 2 with N entries
    rank2 = {'jacobian': 3, 'jac_vec': 2, 'hessian': 2, 'smooth:jacobian': 3, 'smooth:hessian': 2, 'hess_vec': 16, 'tensor': 16}.get(driver)
    if rank2 and draw(st.sampled_from([False] * (rank2 - 1) + [True])):
        case['xshape'] = tuple(draw(st.sampled_from(_factorizations(N))))
    shp = _shape(case)
    case['as_list'] = draw(st.sampled_from([False] * 7 + [True]))
    if not case['as_list']:
        case['xlayout'], perm = draw(P.draw_layout(len(shp)))
        if perm:
            case['xlayout_perm'] = perm
    if driver in ('jac_vec', 'hess_vec', 'smooth:jacobian', 'smooth:hessian'):
        v = draw(_direction(N, prefer_real=(kind in _INT_KINDS)))
        if smooth:
            v = np.clip(v, -2, 2)
        form = 'full'
        if driver in ('jac_vec', 'smooth:jacobian'):
            form = draw(st.sampled_from(['full'] * 5 + ['trail', 'col', 'scalar']))
        if form == 'full':
            v = v.reshape(shp if driver != 'smooth:hessian' else (N,))      # init_hess_vec only takes vectors
        elif form == 'trail':
            v = v[:shp[-1]].copy()
        elif form == 'col':
            v = v[:int(np.prod(shp[:-1]))].reshape(shp[:-1] + (1,)).copy()
        else:
            v = v[:1].reshape(()).copy()
        case['v'], case['vform'] = v, form
        case['vlayout'], perm = draw(P.draw_layout(v.ndim))
        if perm:
            case['vlayout_perm'] = perm
    return kind


@st.composite
def poly_cases(draw, driver, d=None, tier='quick', NS=None):
    steered = []
    N = draw(NS if NS is not None else _NS)
    if driver in ('hessian', 'hess_vec'):
        out = 'scalar'
    elif driver == 'tensor':
        out = draw(st.sampled_from(['scalar', 'scalar', 'vector']))
    else:
        out = draw(st.sampled_from(['scalar', 'vector', 'matrix']))
    if driver == 'jac_vec' and out != 'vector' and KF.is_open(KF_JV):
        steered.append(KF_JV)
        out = 'vector'
    deg = None
    if driver == 'tensor':
        deg = draw(st.sampled_from([dd for dd in range(max(1, d - 1), 6)] + [dd for dd in range(d, 6)] * 2))
    elif driver in ('hessian', 'hess_vec'):
        deg = draw(st.sampled_from([1, 2, 2, 3, 3, 4, 5]))
    prog = draw(P.poly_program(N, out, deg=deg))
    case = {'prog': prog, 'N': N, 'out': out, 'steered': steered}
    draw(_seed_form(case, driver, steered))
    if driver == 'tensor':
        case['d'] = d
    if driver in ('jacobian', 'jac_vec', 'hess_vec'):
        case['dtype_arg'] = draw(st.sampled_from([None, None, None, None, 'float']))
    return case


def _nt(case):
    info = _INFO.get(id(case))
    if info is None:
        return False
    return case['N'] >= 2 and bool(info.get('mixed'))


def _form_classes(case):
    c = ['point=' + case['pkind'], 'seed-rank=%d' % len(_shape(case)), 'xlayout=%s' % ('list' if case.get('as_list') else case.get('xlayout') or 'C')]
    if case.get('dtype_arg'):
        c.append('dtype-arg')
    if 'v' in case:
        v = np.asarray(case['v'])
        c += ['v=' + str(v.dtype), 'vform=' + case.get('vform', 'full'), 'vlayout=%s' % (case.get('vlayout') or 'C')]
        nonint = bool(np.any(v != np.round(v)))
        c.append('v-noninteger' if nonint else 'v-integer-valued')
        if case['x'].dtype.kind == 'i':
            c.append('x-int-dtype&v-noninteger' if nonint else 'x-int-dtype&v-integer-valued')
    return c


def _cl(case):
    info = _INFO.get(id(case), {})
    c = ['N=%d' % case['N'], 'out=' + case['out'], 'size=%s' % min(P.size(case['prog']) // 5 * 5, 30)] + _form_classes(case)
    if 'deg' in info:
        c.append('deg=%d' % info['deg'])
        c.append('mixed=%s' % info['mixed'])
    if 'd' in case and 'deg' in info:
        c.append('deg>=d' if info['deg'] >= case['d'] else 'deg<d')
    for o in sorted(P.ops_used(case['prog'])):
        c.append('op:' + o)
    return c


# ---------------------------------------------------------------------------
# smooth / rational programs: mpmath reference + relations between the drivers.  The seed point may be stored with an
# integer dtype or as float32; the reference is always computed from the float64 VALUE of the point.
# ---------------------------------------------------------------------------

def _mp_backend():
    fns = {name: getattr(mpmath, mp) for name, mp in P.MP_NAMES.items()}
    return P.BackendObject(fns=fns, zero=mpmath.mpf(0))


def _mp_eval(prog, xs, B):
    x = np.empty(len(xs), dtype=object)
    for i, v in enumerate(xs):
        x[i] = v
    out = P.run(prog, x, B)
    return out if isinstance(out, np.ndarray) else P._box(out)


class _mp40:
    def __enter__(self):
        self.old = mpmath.mp.dps
        mpmath.mp.dps = 40

    def __exit__(self, *a):
        mpmath.mp.dps = self.old


def _mp_jacobian(prog, x0, out_shape):
    N = len(x0)
    B = _mp_backend()
    with _mp40():
        xs = [mpmath.mpf(float(v)) for v in x0]
        J = np.zeros(tuple(out_shape) + (N,))
        for j in range(N):
            for idx in np.ndindex(*out_shape):
                def g(t, j=j, idx=idx):
                    y = list(xs)
                    y[j] = y[j] + t
                    return _mp_eval(prog, y, B)[idx]
                J[idx + (j,)] = float(mpmath.diff(g, 0))
        return J


def _mp_partial(prog, x0, alpha, out_shape):
    """d^alpha f (x0) for every output component (float ndarray of the output shape); numerical differentiation"""
    B = _mp_backend()
    act = [i for i, a in enumerate(alpha) if a > 0]
    with _mp40():
        xs = [mpmath.mpf(float(v)) for v in x0]
        res = np.zeros(out_shape)
        for idx in np.ndindex(*out_shape):
            def g(*ts, idx=idx):
                y = list(xs)
                for i, t in zip(act, ts):
                    y[i] = y[i] + t
                return _mp_eval(prog, y, B)[idx]
            if not act:
                res[idx] = float(g())
            elif len(act) == 1:
                res[idx] = float(mpmath.diff(g, 0, alpha[act[0]]))
            else:
                res[idx] = float(mpmath.diff(g, tuple(0 for _ in act), tuple(alpha[i] for i in act)))
        return res


def _mp_hessian(prog, x0):
    N = len(x0)
    H = np.zeros((N, N))
    for i in range(N):
        for j in range(i, N):
            a = [0] * N
            a[i] += 1
            a[j] += 1
            H[i, j] = H[j, i] = _mp_partial(prog, x0, a, ())[()]
    return H


def _also_seed(case, X, init):
    """smooth buckets: seed a SECOND point after X and before X is evaluated (the program is only known to be inside its domain
    at x, so the second input is not evaluated); the two inputs share no memory, and overwriting the second one in place leaves
    X byte-identical - X is then evaluated and compared with the reference at its own point by the caller"""
    if 'x2' not in case:
        return
    before = np.ascontiguousarray(X.data).tobytes()
    X2 = init('x2')
    if not isinstance(X2, UTPM):
        raise Violation('init_* returned %s' % type(X2).__name__)
    if X2 is X or np.shares_memory(X2.data, X.data):
        raise Violation('two separately seeded inputs (init_* of two points of the same size) share memory')
    if X2.data.flags.writeable:
        X2.data.fill(7)
    if np.ascontiguousarray(X.data).tobytes() != before:
        raise Violation('seeding (and overwriting) a second input changed the first seeded input')


def _dry_run(case):
    y0 = np.asarray(P.run(case['prog'], case['x'].astype(float), P.BackendFloat()), dtype=float)   # harness: shape, finiteness
    if not np.all(np.isfinite(y0)):
        raise Inconclusive('program not finite at the point')
    return y0


def _unit(case, j):
    e = np.zeros(case['N'])
    e[j] = 1.0
    return e.reshape(_shape(case))


def prop_smooth_jacobian(case, stats):
    _note_steered(case, stats)
    N = case['N']
    prog = case['prog']
    y0 = _dry_run(case)
    xv = case['x'].astype(float)
    X = guard(UTPM.init_jacobian, _seed(case))
    _also_seed(case, X, lambda key: guard(UTPM.init_jacobian, _seed(case, key=key)))
    Y = _evaluate(case, X)
    J = _extract('extract_jacobian', Y, _Y)
    ref = _mp_jacobian(prog, xv, y0.shape)
    scale = max(1.0, float(np.max(np.abs(ref))) if ref.size else 1.0)
    tol = _tol(case, 'jacobian', 1e-9)
    _INFO.clear()
    _INFO[id(case)] = {'nt': bool(np.any((ref != 0).sum(axis=-1) >= 2))}
    _compare(J, ref, scale, tol, stats, 'extract_jacobian(f(init_jacobian(x))) vs mpmath')
    # column j of the Jacobian == Jacobian-vector product with e_j
    for j in range(N):
        Xj = guard(UTPM.init_jac_vec, _seed(case), _unit(case, j))
        if j == 0:
            _also_seed(case, Xj, lambda key: guard(UTPM.init_jac_vec, _seed(case, key=key), _unit(case, 0)))
        Yj = _evaluate(case, Xj)
        col = _extract('extract_jac_vec', Yj, _Y)
        _compare(col, ref[..., j], scale, tol, stats, 'extract_jac_vec with v = e_%d vs column %d of the Jacobian (mpmath)' % (j, j))
        _compare(col, J[..., j], scale, tol, stats, 'extract_jac_vec with v = e_%d vs column %d of extract_jacobian' % (j, j))
    v = _veff(case).astype(float)
    Yv = _evaluate(case, guard(UTPM.init_jac_vec, _seed(case), _vpass(case)))
    jv = _extract('extract_jac_vec', Yv, _Y)
    vs = max(1.0, float(np.max(np.abs(v))))
    _compare(jv, ref @ v, scale * vs, tol, stats, 'extract_jac_vec(f(init_jac_vec(x,v))) vs mpmath J v')


def prop_smooth_hessian(case, stats):
    _note_steered(case, stats)
    N = case['N']
    prog = case['prog']
    y0 = _dry_run(case)
    if y0.shape != ():
        raise AssertionError('scalar program expected')
    xv = case['x'].astype(float)
    ref = _mp_hessian(prog, xv)
    scale = max(1.0, float(np.max(np.abs(ref))))
    _INFO.clear()
    _INFO[id(case)] = {'nt': bool(np.any(ref[~np.eye(N, dtype=bool)] != 0))}
    if not case.get('skip_init_hessian'):
        Xh = guard(UTPM.init_hessian, _seed(case))
        _also_seed(case, Xh, lambda key: guard(UTPM.init_hessian, _seed(case, key=key)))
        H = _extract('extract_hessian', _evaluate(case, Xh, flat=True), N, _Y)
        _compare(H, ref, scale, _tol(case, 'hessian', 1e-9), stats, 'extract_hessian(N, f(init_hessian(x))) vs mpmath')
    Xt = guard(UTPM.init_tensor, 2, _seed(case, flat=True))
    _also_seed(case, Xt, lambda key: guard(UTPM.init_tensor, 2, _seed(case, flat=True, key=key)))
    T = _extract('extract_tensor', _evaluate(case, Xt, flat=True), N, _Y)
    _compare(T, ref, scale, 1e-9, stats, 'extract_tensor(N, f(init_tensor(2,x))) vs mpmath Hessian')
    tol = _tol(case, 'hess_vec', 1e-9)
    for j in range(N):
        col = _extract('extract_hess_vec', _evaluate(case, guard(UTPM.init_hess_vec, _seed(case, flat=True), _unit(case, j).reshape(-1)), flat=True), N, _Y)
        _compare(col, ref[:, j], scale, tol, stats, 'extract_hess_vec with v = e_%d vs column %d of the Hessian (mpmath)' % (j, j))
    v = _veff(case).astype(float)
    Xv = guard(UTPM.init_hess_vec, _seed(case, flat=True), _vpass(case))
    _also_seed(case, Xv, lambda key: guard(UTPM.init_hess_vec, _seed(case, flat=True, key=key), _vpass(case)))
    hv = _extract('extract_hess_vec', _evaluate(case, Xv, flat=True), N, _Y)
    vs = max(1.0, float(np.max(np.abs(v)))) ** 2
    _compare(hv, ref @ v, scale * vs, tol, stats, 'extract_hess_vec(N, f(init_hess_vec(x,v))) vs mpmath H v')


def prop_smooth_tensor(case, stats):
    """all d-th partials / alpha! of a smooth or rational program, also at integer-dtype and float32 seed points"""
    _note_steered(case, stats)
    N, d = case['N'], case['d']
    prog = case['prog']
    y0 = _dry_run(case)
    xv = case['x'].astype(float)
    Y = _evaluate(case, guard(UTPM.init_tensor, d, _seed(case)))
    T = _extract('extract_tensor', Y, N, _Y, as_full_matrix=False)
    rows = [tuple(int(a) for a in r) for r in np.asarray(guard(exint.generate_multi_indices, N, d))]
    if sorted(rows) != sorted(compositions(d, N)):
        raise Violation('generate_multi_indices(%d,%d) is not the set of multi-indices of order %d: %s' % (N, d, d, rows))
    ref = np.stack([_mp_partial(prog, xv, alpha, y0.shape) / P.factorial_multi(alpha) for alpha in rows], axis=0)
    # magnitude of the terms: the interpolation combines d-th Taylor coefficients along rays with entries up to d
    scale = max(1.0, float(np.max(np.abs(ref)))) * float(d) ** d
    _INFO.clear()
    if d == 1:
        nt = int(np.sum(np.any(ref.reshape(len(rows), -1) != 0, axis=1))) >= 2       # the output depends on two variables
    else:
        nt = any(sum(1 for a in alpha if a) >= 2 and np.any(ref[k] != 0) for k, alpha in enumerate(rows))
    _INFO[id(case)] = {'nt': nt}
    _compare(T, ref, scale, 1e-9, stats, 'extract_tensor(N, f(init_tensor(%d,x)), as_full_matrix=False) vs mpmath' % d)


@st.composite
def smooth_cases(draw, which, d=None):
    steered = []
    N = draw(st.sampled_from([1, 2, 2, 3, 3, 4] if which != 'tensor' else {1: [1, 2, 3, 4], 2: [1, 2, 2, 3, 3], 3: [1, 2, 2, 3]}[d]))
    case = {'N': N, 'steered': steered}
    kind = draw(_seed_form(case, {'jacobian': 'smooth:jacobian', 'hessian': 'smooth:hessian', 'tensor': 'tensor'}[which], steered, smooth=True))
    if which == 'hessian':
        out = 'scalar'
        if case['x'].dtype.kind in 'iu' and KF.is_open(KF_HESS_INT):
            steered.append(KF_HESS_INT)
            case['skip_init_hessian'] = True
    elif which == 'tensor':
        out = draw(st.sampled_from(['scalar', 'scalar', 'vector']))
        case['d'] = d
    else:
        out = draw(st.sampled_from(['scalar', 'vector', 'vector', 'matrix']))
        if out != 'vector' and KF.is_open(KF_JV):
            steered.append(KF_JV)
            out = 'vector'
    case['out'] = out
    case['prog'] = draw(P.smooth_program(N, case['x'].astype(float), out))
    return case


def _nt_smooth(case):
    return case['N'] >= 2 and bool(_INFO.get(id(case), {}).get('nt'))


def _cl_smooth(case):
    c = ['N=%d' % case['N'], 'out=' + case['out'], 'smooth', 'size=%s' % min(P.size(case['prog']) // 5 * 5, 30)] + _form_classes(case)
    ops = P.ops_used(case['prog'])
    c.append('rational' if ('div' in ops or 'cdiv' in ops) else 'no-division')
    if case['x'].dtype.kind in 'iu':
        c.append('smooth@integer-dtype-point')
    if case['x'].dtype == np.float32:
        c.append('smooth@float32-point')
    if case.get('skip_init_hessian'):
        c.append('init_hessian-skipped')
    for o in sorted(ops):
        c.append('op:' + o)
    return c


# ---------------------------------------------------------------------------
# (N, d) pairs of the init_tensor buckets, bounded by the cost of generate_Gamma_and_rays
# ---------------------------------------------------------------------------

def _tensor_NS(d, tier):
    #            d:  1                  2                    3                         4                    5
    quick = {1: [1, 2, 3, 4, 5, 6], 2: [1, 2, 3, 4, 5, 6], 3: [1, 2, 2, 3, 3, 4, 4, 5], 4: [1, 2, 2, 3, 3, 3, 4], 5: [1, 2, 2, 3, 3, 3]}
    thor = {1: [1, 2, 3, 4, 5, 6], 2: [1, 2, 3, 4, 5, 6], 3: [1, 2, 3, 3, 4, 4, 5, 5, 6], 4: [1, 2, 2, 3, 3, 3, 4, 4], 5: [1, 2, 2, 3, 3, 3, 4]}
    return st.sampled_from((quick if tier == 'quick' else thor)[d])


# ---------------------------------------------------------------------------
# complex base points: for a holomorphic program (a polynomial with complex coefficients) the drivers return the complex
# derivatives.  Reference: term-by-term differentiation of the monomials in complex128 (no Taylor arithmetic involved).

@st.composite
def complex_cases(draw):
    N = draw(st.integers(1, 4))
    M = draw(st.integers(1, 2))
    cplx = st.builds(complex, st.integers(-4, 4).map(lambda k: k / 2.0), st.integers(-4, 4).map(lambda k: k / 2.0))
    outs = []
    for _ in range(M):
        terms = []
        for _ in range(draw(st.integers(1, 4))):
            e = draw(st.lists(st.integers(0, 3), min_size=N, max_size=N).filter(lambda l: 1 <= sum(l) <= 5))
            c = draw(cplx.filter(lambda z: z != 0))
            terms.append((c, e))
        outs.append(terms)
    x = [draw(cplx) for _ in range(N)]
    if draw(st.integers(0, 3)) == 0:
        x = [complex(z.real, 0.0) for z in x]          # complex dtype, real values
    v = [draw(cplx) for _ in range(N)]
    return {'N': N, 'outs': outs, 'x': x, 'v': v, 'scalar_out': M == 1 and draw(st.booleans())}


def _cx_run(case, x):
    ys = []
    for terms in case['outs']:
        acc = 0
        for c, e in terms:
            t = c
            for j, k in enumerate(e):
                if k == 1:
                    t = t * x[j]
                elif k > 1:
                    t = t * x[j] ** k
            acc = acc + t
        ys.append(acc)
    if case['scalar_out']:
        return ys[0]
    y = algopy.zeros(len(ys), dtype=x) if isinstance(x, UTPM) else np.zeros(len(ys), dtype=complex)
    for i, yi in enumerate(ys):
        y[i] = yi
    return y


def _cx_mono(c, e, z, drop):
    """c * d/dz_drop[0] d/dz_drop[1] ... of z^e"""
    e = list(e)
    for j in drop:
        if e[j] == 0:
            return 0j
        c = c * e[j]
        e[j] -= 1
    r = complex(c)
    for j, k in enumerate(e):
        r *= z[j] ** k
    return r


def _cx_jac(case):
    z, N = case['x'], case['N']
    return np.array([[sum(_cx_mono(c, e, z, [j]) for c, e in terms) for j in range(N)] for terms in case['outs']])


def _cx_hess(case, i=0):
    z, N = case['x'], case['N']
    return np.array([[sum(_cx_mono(c, e, z, [j, k]) for c, e in case['outs'][i]) for k in range(N)] for j in range(N)])


def _cx_close(got, ref, what):
    got, ref = np.asarray(got), np.asarray(ref)
    if got.shape != ref.shape:
        raise Violation('%s: shape %s, expected %s' % (what, got.shape, ref.shape))
    if ref.size and not np.all(np.abs(got - ref) <= 1e-10 * max(1.0, float(np.max(np.abs(ref))))):
        raise Violation('%s: got %r, term-by-term complex differentiation gives %r' % (what, got.tolist(), ref.tolist()))


def prop_complex(case, stats):
    N = case['N']
    x = np.array(case['x'], dtype=complex)
    v = np.array(case['v'], dtype=complex)
    J = _cx_jac(case)
    Jr = J[0] if case['scalar_out'] else J
    y = guard(lambda: _cx_run(case, UTPM.init_jacobian(x)))
    _cx_close(guard(UTPM.extract_jacobian, y), Jr, 'extract_jacobian(f(init_jacobian(x))), complex x')
    y = guard(lambda: _cx_run(case, UTPM.init_jac_vec(x, v)))
    _cx_close(guard(UTPM.extract_jac_vec, y), Jr.dot(v), 'extract_jac_vec(f(init_jac_vec(x, v))), complex x and v')
    if case['scalar_out']:
        H = _cx_hess(case)
        y = guard(lambda: _cx_run(case, UTPM.init_hessian(x)))
        _cx_close(guard(UTPM.extract_hessian, N, y), H, 'extract_hessian(N, f(init_hessian(x))), complex x')
        y = guard(lambda: _cx_run(case, UTPM.init_hess_vec(x, v)))
        _cx_close(guard(UTPM.extract_hess_vec, N, y), H.dot(v), 'extract_hess_vec(N, f(init_hess_vec(x, v))), complex x and v')


def _cx_nt(case):
    return case['N'] >= 2 and any(sum(1 for k in e if k) >= 2 for terms in case['outs'] for c, e in terms) \
        and any(z.imag != 0 for z in case['x'])


def _cx_cl(case):
    return ['N=%d' % case['N'], 'outputs=%s' % ('scalar' if case['scalar_out'] else len(case['outs'])),
            'imaginary-parts' if any(z.imag != 0 for z in case['x']) else 'complex-dtype-real-values']


def buckets(tier):
    q = lambda a, b: {'quick': a, 'thorough': b}
    bl = [
        Bucket('poly:jacobian', lambda: poly_cases('jacobian'), prop_poly_jacobian, q(150, 800), nontrivial=_nt, classes=_cl,
               shards=q(2, 6), weight=2.0),
        Bucket('poly:jac_vec', lambda: poly_cases('jac_vec'), prop_poly_jac_vec, q(150, 800), nontrivial=_nt, classes=_cl,
               shards=q(2, 6), weight=2.0),
        Bucket('poly:hessian', lambda: poly_cases('hessian'), prop_poly_hessian, q(150, 800), nontrivial=_nt, classes=_cl,
               shards=q(2, 6), weight=2.0),
        Bucket('poly:hess_vec', lambda: poly_cases('hess_vec'), prop_poly_hess_vec, q(150, 800), nontrivial=_nt, classes=_cl,
               shards=q(2, 6), weight=2.0),
        Bucket('smooth:jacobian', lambda: smooth_cases('jacobian'), prop_smooth_jacobian, q(50, 250), nontrivial=_nt_smooth,
               classes=_cl_smooth, shards=q(2, 6), weight=10.0),
        Bucket('smooth:hessian', lambda: smooth_cases('hessian'), prop_smooth_hessian, q(50, 250), nontrivial=_nt_smooth,
               classes=_cl_smooth, shards=q(2, 6), weight=15.0),
    ]
    bl.append(Bucket('complex-point', complex_cases, prop_complex, q(150, 1500), nontrivial=_cx_nt, classes=_cx_cl))
    for d in (1, 2, 3):
        bl.append(Bucket('smooth:tensor:d=%d' % d, (lambda d=d: smooth_cases('tensor', d=d)), prop_smooth_tensor, q(30, 200),
                         nontrivial=_nt_smooth, classes=_cl_smooth, shards=q(1, 4), weight=10.0 * d))
    for d in range(1, 6):
        bl.append(Bucket('poly:tensor:d=%d' % d, (lambda d=d: poly_cases('tensor', d=d, tier=tier, NS=_tensor_NS(d, tier))),
                         prop_poly_tensor, {1: q(60, 500), 2: q(60, 400), 3: q(25, 90), 4: q(25, 70), 5: q(25, 40)}[d], nontrivial=_nt, classes=_cl,
                         shards=q(2, 6) if d <= 2 else q(3, 12), weight=3.0 * d * d))
    if tier == 'thorough':
        # the two largest tables (126 rays, 13-20 s per generate_Gamma_and_rays call, two calls per case)
        for (N, d) in ((6, 4), (5, 5)):
            bl.append(Bucket('poly:tensor:d=%d:N=%d' % (d, N),
                             (lambda N=N, d=d: poly_cases('tensor', d=d, tier=tier, NS=st.just(N))),
                             prop_poly_tensor, q(0, 2), nontrivial=_nt, classes=_cl, shards=q(1, 2), weight=2000.0))
    return bl
