"""C13 helper: coverage-guided byte-level fuzzing of the getitem / setitem family with atheris (optional).

Run by ``c13.extra_evidence`` in the thorough tier when ``atheris`` is importable (it is NOT installed by the shared
bootstrap; ``pip install --no-index --find-links /opt/veriftools/wheels --target /verif/.deps/early atheris`` provides
it), or by hand::

    /venv/bin/python -B -m vlib.checks._c13_fuzz <artifact dir> -runs=20000 -seed=1

The fuzz target is ``c13.prop_bytes`` - the same byte decoder and the same NumPy oracle as the Hypothesis bucket
``bytes``.  A Violation makes the target raise, libFuzzer stores the offending input as ``crash-*`` in the artifact
directory; the caller converts it into a replay file of bucket ``bytes``.
"""
import os
import sys


def main(argv):
    here = os.path.dirname(os.path.dirname(os.path.dirname(os.path.abspath(__file__))))
    if here not in sys.path:
        sys.path.insert(0, here)
    for extra in (os.path.join(here, '.deps', 'early'), os.environ.get('VERIF_ATHERIS_DIR', '')):
        if extra and os.path.isdir(extra) and extra not in sys.path:
            sys.path.insert(1, extra)
    import atheris
    art = argv[1]
    os.makedirs(art, exist_ok=True)
    from vlib import env
    with atheris.instrument_imports(include=['algopy'], enable_loader_override=False):
        env.bootstrap()
    from vlib.runner import Violation, Inconclusive, Rejected, Stats
    from vlib.checks import c13

    def target(data):
        try:
            c13.prop_bytes({'bytes': list(data)}, Stats())
        except (Inconclusive, Rejected):
            pass

    args = [argv[0], '-max_len=64', '-artifact_prefix=' + art.rstrip('/') + '/', '-print_final_stats=1'] + list(argv[2:])
    atheris.Setup(args, target)
    atheris.Fuzz()


if __name__ == '__main__':
    main(sys.argv)
