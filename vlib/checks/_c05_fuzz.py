"""C05 helper: coverage-guided search over generated programs with atheris/libFuzzer (thorough tier, optional).

The fuzz target is Hypothesis' ``fuzz_one_input`` of the same strategy (``c05.replay_cases``) and the same property
(``c05.prop_replay``) as the bucket ``compose``: libFuzzer mutates the byte stream Hypothesis draws from, guided by
coverage of the instrumented ``algopy`` package.  A Violation writes the offending case descriptor to
``<artifact dir>/violation.json`` (a normal replay file of bucket ``compose``) and lets the target crash.

    /venv/bin/python -B -m vlib.checks._c05_fuzz <artifact dir> -max_total_time=120 -seed=1
"""
import json
import os
import sys


def main(argv):
    here = os.path.dirname(os.path.dirname(os.path.dirname(os.path.abspath(__file__))))
    if here not in sys.path:
        sys.path.insert(0, here)
    for extra in (os.path.join(here, '.deps', 'early'), os.environ.get('VERIF_ATHERIS_DIR', '')):
        if extra and os.path.isdir(extra) and extra not in sys.path:
            sys.path.insert(1, extra)
    import atheris
    art = argv[1]
    os.makedirs(art, exist_ok=True)
    from vlib import env
    with atheris.instrument_imports(include=['algopy'], enable_loader_override=False):
        env.bootstrap()
    from hypothesis import given, settings, HealthCheck
    from vlib import codec
    from vlib.runner import Violation, Inconclusive, Rejected, Stats
    from vlib.checks import c05
    count = {'n': 0}

    @settings(database=None, deadline=None, suppress_health_check=list(HealthCheck))
    @given(c05.replay_cases('thorough', max_len=10, min_len=2))
    def test(case):
        count['n'] += 1
        try:
            c05.prop_replay(case, Stats())
        except (Inconclusive, Rejected):
            pass
        except Violation as v:
            with open(os.path.join(art, 'violation.json'), 'w') as f:
                json.dump({'property': 'C05', 'bucket': 'compose', 'msg': 'atheris: ' + str(v), 'case': codec.enc(case)}, f, indent=1, sort_keys=True)
            raise

    args = [argv[0], '-artifact_prefix=' + art.rstrip('/') + '/', '-print_final_stats=1', '-max_len=4096'] + list(argv[2:])
    atheris.Setup(args, test.hypothesis.fuzz_one_input)
    atheris.Fuzz()


if __name__ == '__main__':
    main(sys.argv)
