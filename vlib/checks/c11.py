"""C11 - directions are propagated independently.

Metamorphic oracle: (1) evaluating an operation/program on P directions gives, for each direction p, the same
coefficients as evaluating it on the single-direction polynomial consisting of direction p alone (tolerance
1e-12: vectorised kernels); (2) replacing direction q by a different curve (other base point, other coefficients)
leaves every other direction unchanged (same tolerance: NumPy's SIMD kernels round an element differently depending on its
position in the array, so bit-identity is not implied by the statement).  Both in forward propagation (every register of the program) and in
the reverse sweep (input adjoints, seed restricted to the direction).
"""
import numpy as np
from hypothesis import strategies as st

from algopy import UTPM

from ..runner import Bucket, Violation, Inconclusive, Rejected, guard
from . import _meta as M
from .. import gen

PID = 'C11'
RULE = ('single-operation buckets (each public operation family first, then up to 2 cheap instructions) and composition buckets from '
        'the concolic program generator; P in 2..3 with a different base point per direction (probe points 1..3), D in 1..7; forward '
        'buckets compare every register, reverse buckets the input adjoints.  Non-trivial = P >= 2 with pairwise different zeroth '
        'coefficients in at least one input; distinct by descriptor hash.  fwd:degenerate:* (some directions rank deficient / with repeated '
        'eigenvalues; every case non-trivial), fwd:scales:* (each direction multiplied by its own power of two, ratios up to 2^54; non-trivial = '
        'scales differ); fwd:poison:* / rev:poison:* (leak amplifier: orders >= k >= 1 of one direction of every input - and its seed - are NaN or inf, '
        'base points finite; the other directions must stay finite and unchanged); direct:eigh1+pb_eigh1 (UTPM.eigh1 and its pullback called directly, '
        'some directions with repeated eigenvalues); direct:const-higher-rank (+ - * / and reflected with a constant ndarray of higher rank than the polynomial, '
        'leading lengths P / 1 / 2 / 3; non-trivial = leading length == P)')
ASSUMPTIONS = [
    'relation (1) to 1e-12 relative to max(1, max|coefficients of the register|); relation (2) to the same tolerance (an information leak moves results by far more than 1e-12)',
    'poison buckets: an exception raised because of the non-finite direction is a declared rejection (loud, not a silent leak)',
    'base points satisfy every operation\'s preconditions with margin at all probe points (by construction)',
]
TOL = 1e-12


def _distinct(case):
    P = case['P']
    if P < 2:
        return False
    for p in case['pts']:
        b = p[1:1 + P]
        if all(not np.array_equal(b[i], b[j]) for i in range(P) for j in range(i + 1, P)):
            return True
    return False


def prop_forward(case, stats):
    P = case['P']
    X = M.utpm_inputs(case)
    regs = guard(M.run_direct, case, X)
    datas = [M.reg_data(r) for r in regs]
    for p in range(P):
        Xp = M.utpm_inputs(case, dirs=[p])
        rp = guard(M.run_direct, case, Xp)
        for i, (a, b) in enumerate(zip(datas, rp)):
            if a is None:
                continue
            b = M.reg_data(b)
            if b is None:
                raise Violation('register %d is a UTPM with P directions but not with direction %d alone' % (i, p))
            if a.shape[2:] != b.shape[2:] or a.shape[0] != b.shape[0]:
                raise Violation('register %d (%s): shape %s with %d directions, %s with direction %d alone' % (i, M.opname(case, i), a.shape, P, b.shape, p))
            M.close(a[:, p], b[:, 0], TOL, 'register %d (%s), direction %d of %d vs alone' % (i, M.opname(case, i), p, P), stats)
    # perturb one direction: the others must not change at all
    q = case['q']
    Xq = M.utpm_inputs(case, alt=q)
    rq = guard(M.run_direct, case, Xq)
    for i, (a, b) in enumerate(zip(datas, rq)):
        if a is None:
            continue
        b = M.reg_data(b)
        for p in range(P):
            if p == q:
                continue
            if b is None or a.shape != b.shape:
                raise Violation('register %d (%s): shape changed when only direction %d of the inputs was changed' % (i, M.opname(case, i), q))
            M.close(b[:, p], a[:, p], TOL, 'register %d (%s): direction %d after changing only direction %d of the inputs vs before'
                    % (i, M.opname(case, i), p, q), stats)


def prop_reverse(case, stats):
    P = case['P']
    cg, fins, regs = guard(M.record_nd, case)
    X = M.utpm_inputs(case)
    xbar = M._guard_reverse(case, cg, fins, X, case['ybar'])
    for p in range(P):
        xb = M._guard_reverse(case, cg, fins, M.utpm_inputs(case, dirs=[p]), case['ybar'][:, p:p + 1])
        for i, (a, b) in enumerate(zip(xbar, xb)):
            M.close(a[:, p], b[:, 0], TOL, 'adjoint of input %d, direction %d of %d vs alone' % (i, p, P), stats)
    q = case['q']
    ybq = case['ybar'].copy()
    ybq[:, q] = ybq[:, q][::-1] * 0.5 + 0.25
    xq = M._guard_reverse(case, cg, fins, M.utpm_inputs(case, alt=q), ybq)
    for i, (a, b) in enumerate(zip(xbar, xq)):
        for p in range(P):
            if p != q:
                M.close(b[:, p], a[:, p], TOL, 'adjoint of input %d: direction %d after changing only direction %d (inputs and seed) vs before' % (i, p, q), stats)


def prop_poison(case, stats):
    """leak amplifier: the coefficients of order >= k (k >= 1) of direction q of every input are NaN (or inf); the base points stay
    finite, so every operation is still inside its domain for every direction.  Whatever the kernels do with direction q, the
    registers of the other directions must stay what they were with finite data: a work array, accumulator or threshold shared
    between directions turns a leak - even one that is multiplied by zero or cancels for finite data - into a NaN there."""
    P, q, k = case['P'], case['q'], case['poison_from']
    X = M.utpm_inputs(case)
    regs = guard(M.run_direct, case, X)
    datas = [M.reg_data(r) for r in regs]
    Xn = [x.copy() for x in X]
    for x in Xn:
        x[k:, q] = case['poison']
    try:
        with np.errstate(all='ignore'):
            rq = guard(M.run_direct, case, Xn)
    except Violation as e:
        # an exception because of non-finite data is loud, not a silent leak: not a C11 verdict
        raise Rejected('raises with a non-finite direction: %s' % (str(e)[:120],))
    for i, (a, b) in enumerate(zip(datas, rq)):
        if a is None:
            continue
        b = M.reg_data(b)
        if b is None or a.shape != b.shape:
            raise Violation('register %d (%s): shape changed when direction %d became non-finite' % (i, M.opname(case, i), q))
        for p in range(P):
            if p == q:
                continue
            if not np.all(np.isfinite(a[:, p])):
                continue
            if not np.all(np.isfinite(b[:, p])):
                raise Violation('register %d (%s): direction %d became non-finite after only the coefficients of order >= %d of direction %d '
                                'of the inputs were made %r' % (i, M.opname(case, i), p, k, q, case['poison']))
            M.close(b[:, p], a[:, p], TOL, 'register %d (%s): direction %d after making direction %d non-finite vs before'
                    % (i, M.opname(case, i), p, q), stats)


def prop_poison_reverse(case, stats):
    """the same amplifier for the reverse sweep: direction q of the inputs (orders >= k) and of the output seed (all orders) is
    non-finite; the input adjoints of the other directions must stay what they were"""
    P, q, k = case['P'], case['q'], case['poison_from']
    cg, fins, regs = guard(M.record_nd, case)
    X = M.utpm_inputs(case)
    xbar = M._guard_reverse(case, cg, fins, X, case['ybar'])
    Xn = [x.copy() for x in X]
    for x in Xn:
        x[k:, q] = case['poison']
    ybq = case['ybar'].copy()
    ybq[:, q] = case['poison']
    try:
        with np.errstate(all='ignore'):
            xq = M._guard_reverse(case, cg, fins, Xn, ybq)
    except Violation as e:
        raise Rejected('raises with a non-finite direction: %s' % (str(e)[:120],))
    for i, (a, b) in enumerate(zip(xbar, xq)):
        for p in range(P):
            if p == q or not np.all(np.isfinite(a[:, p])):
                continue
            if not np.all(np.isfinite(b[:, p])):
                raise Violation('adjoint of input %d: direction %d became non-finite after only direction %d of the inputs (orders >= %d) and '
                                'of the seed was made %r' % (i, p, q, k, case['poison']))
            M.close(b[:, p], a[:, p], TOL, 'adjoint of input %d: direction %d after making direction %d non-finite vs before' % (i, p, q), stats)


@st.composite
def poison_cases(draw, tier, **kw):
    case = draw(M.meta_cases(tier, Pmin=2, Dmin=2, **kw))
    case['poison_from'] = draw(st.integers(1, case['D'] - 1))
    case['poison'] = draw(st.sampled_from([float('nan'), float('inf'), float('nan')]))
    return case


@st.composite
def degenerate_cases(draw, tier, op):
    """structurally different base points per direction: some (not all) directions have a rank deficient base matrix (qr) or
    repeated eigenvalues (eigh); the kernels then take different branches per direction.  Only the metamorphic relations are
    checked (the factors of a rank deficient matrix are not unique, but they are a function of that direction's data alone)."""
    K = 4
    D = draw(st.sampled_from([3, 2, 4, 5]))
    P = draw(st.sampled_from([2, 3, 3]))
    if op in ('qr', 'qr_full'):
        n = draw(st.integers(2, 3))
        m = draw(st.integers(n, 4))
        mats = [draw(gen.well_conditioned(m, n)) for _ in range(K)]
    else:
        n = draw(st.integers(2, 4))
        mats = [None] * K
    deg = draw(st.lists(st.booleans(), min_size=K, max_size=K).filter(lambda l: any(l[1:1 + P]) and not all(l[1:1 + P])))
    for k in range(K):
        if op in ('qr', 'qr_full'):
            if deg[k]:
                # algopy's rank handling inverts the LEADING rank x rank block of R_0: the dependent columns must be the trailing
                # ones (a zero leading column raises LinAlgError - loud, and outside the regularity condition anyway); exact
                # zeros so that the rank decision does not depend on rounding
                a = mats[k].copy()
                a[:, n - 1] = 0.0
                if n >= 3 and draw(st.booleans()):
                    a[:, n - 2] = 0.0
                mats[k] = a
        else:
            Q = draw(gen.orthogonal(n))
            lam = draw(gen.spaced_values(n, -2.0, 0.4))
            if deg[k]:
                i = draw(st.integers(0, n - 2))
                lam = np.array(lam, dtype=float)
                lam[i + 1] = lam[i]
                if n >= 3 and draw(st.booleans()):
                    lam[(i + 2) % n] = lam[i]
            sym = (Q * lam) @ Q.T
            sym = 0.5 * (sym + sym.T)
            a = draw(gen.float_array((n, n), gen.nice_floats(-1.0, 1.0), sparse=False))
            mats[k] = 0.5 * sym + 0.5 * (a - a.T)          # m + m^T == sym
    pts = [np.array(mats)]
    prog = {'qr': [['qr', 0, draw(st.integers(0, 1))]], 'qr_full': [['qr_full', 0, 1]],
            'eigh_val': [['eigh_sym', 0, 0]], 'eigh_fun': [['eigh_fun', 0]]}[op]
    case = {'pts': pts, 'prog': prog, 'out': 1, 'D': D, 'P': P, 'deg': [bool(b) for b in deg]}
    case['hi'] = [draw(gen.higher_coeffs((D - 1, P) + pts[0].shape[1:], gen.coeff_elements(1.0)))]
    case['althi'] = [draw(gen.float_array((D - 1,) + pts[0].shape[1:], gen.coeff_elements(1.0), sparse=False))]
    case['q'] = draw(st.integers(0, P - 1))
    return case


def prop_eigh1_direct(case, stats):
    """UTPM.eigh1 / UTPM.pb_eigh1 called directly (the tracer reaches them only through eigh): the level-1 relaxed factors of
    direction p and the adjoint the pullback returns for it are those of direction p alone"""
    P = case['P']
    X = M.utpm_inputs(case)[0]
    X = 0.5 * (X + np.swapaxes(X, -1, -2))

    def run(data, lbar, qbar):
        A = UTPM(data.copy())
        L, Q, b = UTPM.eigh1(A)
        Abar = UTPM.pb_eigh1(UTPM(lbar.copy()), UTPM(qbar.copy()), None, A, L, Q, b)
        return L.data, Q.data, Abar.data, b
    L, Q, Abar, b = guard(run, X, case['lbar'], case['qbar'])
    for p in range(P):
        Lp, Qp, Ap, bp = guard(run, X[:, p:p + 1], case['lbar'][:, p:p + 1], case['qbar'][:, p:p + 1])
        if not np.array_equal(np.asarray(b[p]), np.asarray(bp[0])):
            raise Violation('eigh1: block structure of direction %d is %s with %d directions, %s alone' % (p, list(b[p]), P, list(bp[0])))
        M.close(L[:, p], Lp[:, 0], TOL, 'eigh1: L, direction %d of %d vs alone' % (p, P), stats)
        M.close(Q[:, p], Qp[:, 0], TOL, 'eigh1: Q, direction %d of %d vs alone' % (p, P), stats)
        M.close(Abar[:, p], Ap[:, 0], 1e-10, 'pb_eigh1: adjoint, direction %d of %d vs alone' % (p, P), stats)


@st.composite
def eigh1_cases(draw, tier):
    case = draw(degenerate_cases(tier, 'eigh_val'))
    D, P = case['D'], case['P']
    n = case['pts'][0].shape[-1]
    lb = np.zeros((D, P, n, n))
    dg = draw(gen.float_array((D, P, n), gen.nice_floats(-1.0, 1.0), sparse=False))
    for i in range(n):
        lb[:, :, i, i] = dg[:, :, i]
    case['lbar'] = lb
    case['qbar'] = draw(gen.float_array((D, P, n, n), gen.nice_floats(-1.0, 1.0), sparse=False))
    return case


_CONST_OPS = {'x+c': lambda x, c: x + c, 'c+x': lambda x, c: c + x, 'x-c': lambda x, c: x - c, 'c-x': lambda x, c: c - x,
              'x*c': lambda x, c: x * c, 'c*x': lambda x, c: c * x, 'x/c': lambda x, c: x / c, 'c/x': lambda x, c: c / x}


def prop_const_rank(case, stats):
    """operators with a constant ndarray of HIGHER rank than the polynomial (leading lengths P, 1, 2, 3: the constant's leading
    axis must never be matched against the direction axis): direction p of P vs direction p alone, and the slice-wise NumPy result"""
    X = case['x']
    c = case['c']
    P = X.shape[1]
    f = _CONST_OPS[case['op']]
    with np.errstate(all='ignore'):
        y = guard(lambda: f(UTPM(X.copy()), c.copy()))
    if not isinstance(y, UTPM):
        raise Violation('%s with a %s constant returned %s' % (case['op'], c.shape, type(y).__name__))
    want = np.broadcast_shapes(X.shape[2:], c.shape)
    if y.data.shape != X.shape[:2] + want:
        raise Violation('%s, x shape %s, constant shape %s, P=%d: result data shape %s, NumPy broadcasting gives %s'
                        % (case['op'], X.shape[2:], c.shape, P, y.data.shape, X.shape[:2] + want))
    for p in range(P):
        with np.errstate(all='ignore'):
            yp = guard(lambda: f(UTPM(X[:, p:p + 1].copy()), c.copy()))
        if yp.data.shape[2:] != y.data.shape[2:]:
            raise Violation('%s: shape %s with %d directions, %s with direction %d alone' % (case['op'], y.data.shape, P, yp.data.shape, p))
        M.close(y.data[:, p], yp.data[:, 0], TOL, '%s, constant of shape %s: direction %d of %d vs alone' % (case['op'], c.shape, p, P), stats)


@st.composite
def const_rank_cases(draw, tier):
    D = draw(st.integers(1, 4))
    P = draw(st.sampled_from([2, 3, 2]))
    shp = tuple(draw(st.lists(st.integers(1, 3), min_size=0, max_size=2)))
    lead = tuple(draw(st.lists(st.sampled_from([P, P, 1, 2, 3]), min_size=1, max_size=2)))
    x = draw(gen.float_array((D, P) + shp, gen.nice_floats(0.5, 2.0), sparse=False))
    c = draw(gen.float_array(lead + shp, gen.nice_floats(0.5, 2.0), sparse=False))
    return {'x': x, 'c': c, 'op': draw(st.sampled_from(sorted(_CONST_OPS)))}


SCALE_FAMS = ['eigh', 'qr', 'lu', 'inv', 'solve', 'svd', 'dot', 'outer', 'trace', 'det']      # (not chol: a a^T + c I is not scale tolerant)


@st.composite
def scaled_cases(draw, tier, fam):
    """one scale-tolerant operation; the curve of every direction (base point and all coefficients, all inputs) is multiplied
    by its own power of two: magnitudes differ by up to 2^54 between directions, so anything derived from 'the' magnitude of the
    data (thresholds, pivots, work arrays) must be derived per direction"""
    case = draw(M.meta_cases(tier, first=fam, families=['neg'], max_len=1, Pmin=2, Dmax=5))
    K = case['pts'][0].shape[0]
    sc = [draw(st.sampled_from([1.0, 2.0 ** 34, 2.0 ** -20, 1.0])) for _ in range(K)]
    P = case['P']
    case['pts'] = [np.array(p * np.array(sc).reshape((K,) + (1,) * (p.ndim - 1))) for p in case['pts']]
    for h in case['hi']:
        for q in range(P):
            h[:, q] *= sc[1 + q]
    for h in case['althi']:
        h *= sc[0]
    case['scales'] = sc
    return case


def _scale_classes(case):
    P = case['P']
    sc = case['scales'][1:1 + P]
    return ['D=%d' % case['D'], 'P=%d' % P, 'first=' + case['prog'][0][0],
            'scales-differ' if len(set(sc)) > 1 else 'scales-equal', 'ratio=2^%d' % int(round(np.log2(max(sc) / min(sc))))]


@st.composite
def repeat_cases(draw, tier, **kw):
    """P = 3 with the base point of direction 2 bit-identical to that of direction 0 and a different one in between ([A, B, A]):
    anything remembered from 'the last direction that was factorised / evaluated' shows here"""
    case = draw(M.meta_cases(tier, Pmin=2, **kw))
    if case['P'] == 3:
        for p in case['pts']:
            p[3] = p[1]
        case['repeat'] = True
    return case


def _deg_classes(case):
    P = case['P']
    d = case['deg'][1:1 + P]
    return ['D=%d' % case['D'], 'P=%d' % P, 'first=' + case['prog'][0][0], 'degenerate-directions=%d/%d' % (sum(d), P),
            'degenerate-first' if d[0] else 'regular-first', 'alt-degenerate' if case['deg'][0] else 'alt-regular']


def _classes(case):
    return M.base_classes(case) + (['distinct-bases'] if _distinct(case) else [])


def buckets(tier):
    bl = []
    for fam in M.FWD_SINGLE:
        bl.append(Bucket('fwd:' + fam, (lambda fam=fam: M.meta_cases(tier, first=fam, families=M.CHEAP_TAIL, max_len=3, Pmin=2)),
                         prop_forward, {'quick': 40, 'thorough': 500}, nontrivial=_distinct, classes=_classes))
    bl.append(Bucket('fwd:compose', (lambda: M.meta_cases(tier, max_len=8, Pmin=2)), prop_forward,
                     {'quick': 40, 'thorough': 600}, nontrivial=_distinct, classes=_classes,
                     shards={'quick': 6, 'thorough': 12}, weight=4.0))
    for op in ('qr', 'eigh_val', 'eigh_fun'):      # (qr_full inverts R_0: no rank deficient support, it raises LinAlgError)
        bl.append(Bucket('fwd:degenerate:' + op, (lambda op=op: degenerate_cases(tier, op)), prop_forward,
                         {'quick': 60, 'thorough': 600}, nontrivial=(lambda case: True), classes=_deg_classes))
    bl.append(Bucket('direct:const-higher-rank', (lambda: const_rank_cases(tier)), prop_const_rank, {'quick': 200, 'thorough': 2000},
                     nontrivial=(lambda case: case['c'].shape[0] == case['x'].shape[1]),
                     classes=(lambda case: ['op=' + case['op'], 'P=%d' % case['x'].shape[1], 'rank-diff=%d' % (case['c'].ndim - case['x'].ndim + 2),
                                            'leading-length==P' if case['c'].shape[0] == case['x'].shape[1] else 'leading-length!=P'])))
    bl.append(Bucket('direct:eigh1+pb_eigh1', (lambda: eigh1_cases(tier)), prop_eigh1_direct, {'quick': 60, 'thorough': 600},
                     nontrivial=(lambda case: True), classes=_deg_classes))
    for fam in ('solve', 'solvec', 'inv', 'lu', 'qr', 'eigh', 'chol', 'det', 'special', 'unp'):
        bl.append(Bucket('fwd:repeat:' + fam, (lambda fam=fam: repeat_cases(tier, first=fam, families=M.CHEAP_TAIL, max_len=2)), prop_forward,
                         {'quick': 30, 'thorough': 300}, nontrivial=(lambda case: bool(case.get('repeat'))),
                         classes=(lambda case: _classes(case) + (['base points A,B,A'] if case.get('repeat') else []))))
    for fam in ('solve', 'inv', 'lu'):
        bl.append(Bucket('rev:repeat:' + fam, (lambda fam=fam: repeat_cases(tier, first=fam, families=M.CHEAP_TAIL, max_len=2, reverse_mode=True)),
                         prop_reverse, {'quick': 20, 'thorough': 200}, nontrivial=(lambda case: bool(case.get('repeat'))),
                         classes=(lambda case: _classes(case) + (['base points A,B,A'] if case.get('repeat') else []))))
    for fam in SCALE_FAMS:
        bl.append(Bucket('fwd:scales:' + fam, (lambda fam=fam: scaled_cases(tier, fam)), prop_forward,
                         {'quick': 30, 'thorough': 300}, nontrivial=(lambda case: len(set(case['scales'][1:1 + case['P']])) > 1),
                         classes=_scale_classes))
    for fam in M.FWD_SINGLE:
        bl.append(Bucket('fwd:poison:' + fam, (lambda fam=fam: poison_cases(tier, first=fam, families=M.CHEAP_TAIL, max_len=2)), prop_poison,
                         {'quick': 20, 'thorough': 250}, nontrivial=_distinct,
                         classes=(lambda case: _classes(case) + ['poison-from-order=%d' % case['poison_from'], 'poison=%r' % case['poison'],
                                                                 'poisoned-direction=%d/%d' % (case['q'], case['P'])])))
    for fam in M.REV_SINGLE:
        bl.append(Bucket('rev:poison:' + fam, (lambda fam=fam: poison_cases(tier, first=fam, families=M.CHEAP_TAIL, max_len=2, reverse_mode=True)),
                         prop_poison_reverse, {'quick': 12, 'thorough': 150}, nontrivial=_distinct,
                         classes=(lambda case: _classes(case) + ['poison-from-order=%d' % case['poison_from'], 'poison=%r' % case['poison']])))
    for fam in M.REV_SINGLE:
        bl.append(Bucket('rev:' + fam, (lambda fam=fam: M.meta_cases(tier, first=fam, families=M.CHEAP_TAIL, max_len=3, Pmin=2, reverse_mode=True)),
                         prop_reverse, {'quick': 25, 'thorough': 250}, nontrivial=_distinct, classes=_classes, weight=2.0))
    bl.append(Bucket('rev:compose', (lambda: M.meta_cases(tier, max_len=8, Pmin=2, reverse_mode=True)), prop_reverse,
                     {'quick': 30, 'thorough': 400}, nontrivial=_distinct, classes=_classes,
                     shards={'quick': 6, 'thorough': 12}, weight=6.0))
    return bl
