"""C16 - closed-form n-th derivatives (algopy.nthderiv) are the true derivatives.

One bucket per name exported by algopy.nthderiv (``algopy.nthderiv.nthderiv.__all__`` as it is in THIS environment:
mpmath is invisible to algopy when it is imported, so tan/tanh are normally not exported).  The names are enumerated
at run time; a name without a reference in the tables below is reported in the evidence (``uncovered_names``).

Oracle: mpmath.diff (numerical differentiation in >= 45 digit arithmetic, no closed forms) for the smooth functions;
for the piecewise constant / piecewise linear ones the rules of DESIGN section 4 (n = 0 equals NumPy, higher orders are
0 resp. the indicator / sign, away from the jumps).  Order 0 is additionally compared with the NumPy/SciPy function
itself (exactly).
"""
import functools
import math

import numpy as np
import scipy.special
import mpmath
from mpmath import mp, mpf
from hypothesis import strategies as st

import algopy
import algopy.nthderiv
import algopy.nthderiv.nthderiv as _ndmod

from ..runner import Bucket, Violation, Inconclusive, guard, KF
from .. import gen

PID = 'C16'
KF_ERF0 = 'KF-nthderiv-erf-at-zero'
KF_HYPERU = 'KF-nthderiv-hyperu-integer-b-nan'
KF_INTARG = 'KF-nthderiv-integer-argument'
DPS = 45

RULE = ('one bucket per name exported by algopy.nthderiv (enumerated at run time); a case = (function, order n, extra '
        'parameters, argument form in {python float, numpy.float64, 0-d array, 1-d array, 2-d array}, with/without out=, '
        'point(s)) with points drawn from the declared domain (.domain attribute) minus a margin around the '
        'singularities, special points (0, +-1/2, +-1, integers, half-integers) boosted; n in 0..10 (quick) / 0..16 '
        '(thorough) up to the per-function caps listed under n_caps; every element is compared with mpmath.diff '
        '(piecewise functions: with the rule); both ends of the admissible set are boosted and negative arguments are drawn '
        'wherever the declared domain has them (histogram classes dom:<f>:x<0 / lowest-tenth / highest-tenth); extra '
        'parameters: polygamma m in 0..12, 15, 20; hyperu a positive, negative non-integer and negative integer, b positive, '
        'integer and negative; clip bounds negative/positive/straddling 0/degenerate (a_min == a_max), ints and floats; in '
        'half of the cases of a function with a sibling (erf/erfi, sin/cos, log/log2/log10, ...) the sibling is evaluated at '
        'the same (x, n) before or after it and checked as well (shared state between functions); non-trivial = n >= 2; '
        'distinct by descriptor hash')
ASSUMPTIONS = [
    'high-order:<name> buckets (n = 17..60, 15 functions): reference = the textbook closed form of the n-th derivative evaluated with 60 digits, '
    'tolerance 1e-9 relative (sin/cos: 1e-9 absolute); references outside the double range are skipped and counted',
    'mpmath.diff at 45 digits (working precision (45 digits + 20 bits)*(n+1)) is the reference for the n-th derivative; '
    'mpmath, NumPy and SciPy are trusted',
    'tolerance 1e-9 * max(floor, |f^(n)(x)|, l |f^(n+1)(x)|) (hyperu 1e-7: accuracy of scipy.special.hyperu): relative to '
    'the result or to its change under a perturbation eps*l of the argument, l = |x| for functions whose only length '
    'scale is the distance to the singularity at 0 (log*, sqrt, reciprocal, gammaln, psi, polygamma, hyperu) and for the '
    'multiplicative closed forms, l = max(|x|, 1) otherwise (forming 1 - x, x - i, pi/2 + x rounds x absolutely): the '
    'magnitude of the terms entering the result; floor = 0 for the multiplicative closed forms (log, log2, log10, sqrt, '
    'reciprocal, exp, exp2, square, negative: relative accuracy however small the result), 1 otherwise; float32 arguments: '
    'tolerance 2e-4, n <= 4; order 0 must equal the NumPy/SciPy function bit for bit (applied to the same typed argument)',
    'points keep a margin from singularities (reciprocal: |x| >= 0.05; psi/polygamma: distance >= 0.1 from the poles '
    '0,-1,-2,...; domain boundaries: log/sqrt x >= 0.02, arcsin/arccos/arctanh |x| <= 0.97, arccosh x >= 1.03, '
    'log1p x >= -0.95) and a bounded magnitude (|x| <= 6, DOM_POS up to 20)',
    'piecewise functions for n >= 1: points at distance >= 0.05 from the jumps (rint: half-integers; floor/ceil: integers; '
    'trunc/fix: non-zero integers; sign/absolute: 0; clip: the two bounds); n = 0: every point incl. the jumps',
    'n is capped per function where the binary64 evaluation of the closed form (not its logic) limits the accuracy; '
    'see n_caps in the evidence and notes/C16.md',
    'arguments are float64 (python float, numpy.float64, ndarray); integer dtypes are outside the domain '
    '(numpy refuses negative integer powers of integer arrays)',
    'np_filled_like is a utility without derivative semantics: compared with numpy.full',
    'hyperu: x in [0.1, 5] (scipy.special.hyperu loses accuracy for x >= 8: up to 3e-7 relative at n = 0, an upstream '
    'limitation outside this range restriction); for negative integer a (polynomial case) and for 1+a-b a non-positive '
    'integer the reference function is the finite sum DLMF 13.2.7 (mpmath cannot certify the exact zeros of U), still '
    'differentiated numerically; points where scipy.special.hyperu(a+n, b+n, x) itself is non-finite are steered around '
    'while KF-nthderiv-hyperu-integer-b-nan is open',
    'clip: a_min > a_max is inadmissible and not generated; bounds None and array-valued bounds are not generated; '
    'infinite bounds (one-sided / unbounded clipping) are; points of extreme magnitude are exempt from the 0.05 margin',
    'tiny arguments (all |x| <= 1e-3): no floor in the error scale (relative accuracy) for every closed form that delivers '
    'it on the reference tree - all except sin at even n >= 2, cos at odd n, arctanh at even n >= 2, arcsin/arccos at '
    'n >= 10; an exact 0 keeps the floor; the sign of a zero result is not asserted',
    'overflow edge: exp/expm1 up to x = 709.7, exp2 up to 1023.9, sinh/cosh up to |x| = 710.4 (results up to 1.7e308 are '
    'admitted as references)',
]

# ---------------------------------------------------------------------------
# declared domains -> candidate intervals (closed, with the boundary margins stated in ASSUMPTIONS)
# ---------------------------------------------------------------------------

DOMAIN_IVS = {
    'DOM_ALL': [(-6.0, 6.0)],
    'DOM_POS': [(0.02, 20.0)],
    'DOM_GT_1': [(1.03, 8.0)],
    'DOM_GT_NEG_1': [(-0.95, 10.0)],
    'DOM_ABS_LT_1': [(-0.97, 0.97)],
}
SPECIAL_POINTS = [0.0, 0.5, -0.5, 1.0, -1.0, 2.0, -2.0, 3.0, -3.0, 1.5, -1.5, 2.5, -2.5, 0.25, -0.25, 4.0, -4.0, 5.0, 10.0]


def _intersect(ivs, lo, hi):
    out = []
    for a, b in ivs:
        a2, b2 = max(a, lo), min(b, hi)
        if a2 < b2:
            out.append((a2, b2))
    return out


def _cut(ivs, c, margin):
    out = []
    for a, b in ivs:
        if c + margin <= a or c - margin >= b:
            out.append((a, b))
            continue
        if a < c - margin:
            out.append((a, c - margin))
        if c + margin < b:
            out.append((c + margin, b))
    return out


def _inside(ivs, v):
    return any(a <= v <= b for a, b in ivs)


# ---------------------------------------------------------------------------
# reference tables (independent of nthderiv): name -> spec
# ---------------------------------------------------------------------------

def _mp_psi(m):
    m = int(m)
    return lambda x: mpmath.psi(m, x)


def _hyperu_poly(m, b, x):
    """U(-m, b, x) for an integer m >= 0: the finite sum DLMF 13.2.7 (exact, also at the zeros of the polynomial)"""
    return (-1) ** m * mpmath.fsum(mpmath.binomial(m, k) * mpmath.rf(b + k, m - k) * (-x) ** k for k in range(m + 1))


def _mp_hyperu(a, b):
    a = int(a) if isinstance(a, (int, np.integer)) else float(a)
    b = int(b) if isinstance(b, (int, np.integer)) else float(b)
    c = 1 + a - b         # exact for the dyadic parameter grid

    def f(x):
        if a <= 0 and a == round(a):
            return _hyperu_poly(int(round(-a)), mpf(b), x)
        if c <= 0 and c == round(c):
            # Kummer transformation U(a, b, x) = x^(1-b) U(1+a-b, 2-b, x)
            return x ** (1 - mpf(b)) * _hyperu_poly(int(round(-c)), 2 - mpf(b), x)
        try:
            return mpmath.hyperu(a, b, x)
        except ValueError:
            # mpmath's hypsum cannot certify a 1F1 term that is EXACTLY zero (e.g. U(2, 2.5, 1/2) = 2): tell it
            # below which magnitude a term may be taken as zero (far below the working precision)
            return mpmath.hyperu(a, b, x, zeroprec=6 * mp.prec)
    return f


def _np_polygamma(m):
    return lambda x: scipy.special.polygamma(m, x)


def _np_hyperu(a, b):
    return lambda x: scipy.special.hyperu(a, b, x)


# mp: extras -> mp function;  np: extras -> NumPy/SciPy function (order 0);  range: magnitude restriction;
# holes: (singular point, margin);  cap: highest n per tier;  slow: reference is expensive
def _S(mpf_, npf, rng=None, holes=(), cap=(10, 16), tol=1e-9, slow=False, extras=None, maxel=6):
    return dict(mp=(mpf_ if extras else (lambda f=mpf_: f)), np=(npf if extras else (lambda f=npf: f)), range=rng,
                holes=list(holes), cap={'quick': cap[0], 'thorough': cap[1]}, tol=tol, slow=slow, extras=extras, maxel=maxel)


_POLES = [(-float(k), 0.1) for k in range(0, 8)]

SMOOTH = {
    'exp': _S(mpmath.exp, np.exp),
    'exp2': _S(lambda x: mpf(2) ** x, np.exp2),
    'expm1': _S(mpmath.expm1, np.expm1),
    'log': _S(mpmath.log, np.log),
    'log2': _S(lambda x: mpmath.log(x) / mpmath.log(2), np.log2),
    'log10': _S(lambda x: mpmath.log(x) / mpmath.log(10), np.log10),
    'log1p': _S(mpmath.log1p, np.log1p),
    'sqrt': _S(mpmath.sqrt, np.sqrt),
    'square': _S(lambda x: x * x, np.square),
    'negative': _S(lambda x: -x, np.negative),
    'reciprocal': _S(lambda x: 1 / x, np.reciprocal, holes=[(0.0, 0.05)]),
    'sin': _S(mpmath.sin, np.sin),
    'cos': _S(mpmath.cos, np.cos),
    'tan': _S(mpmath.tan, np.tan, rng=(-1.3, 1.3)),          # only exported when algopy sees mpmath
    'arcsin': _S(mpmath.asin, np.arcsin, cap=(10, 10)),
    'arccos': _S(mpmath.acos, np.arccos, cap=(10, 10)),
    'arctan': _S(mpmath.atan, np.arctan),
    'sinh': _S(mpmath.sinh, np.sinh),
    'cosh': _S(mpmath.cosh, np.cosh),
    'tanh': _S(mpmath.tanh, np.tanh, rng=(-3.0, 3.0)),       # only exported when algopy sees mpmath
    'arcsinh': _S(mpmath.asinh, np.arcsinh),
    'arccosh': _S(mpmath.acosh, np.arccosh),
    'arctanh': _S(mpmath.atanh, np.arctanh),
    'erf': _S(mpmath.erf, scipy.special.erf, rng=(-3.0, 3.0)),
    'erfi': _S(mpmath.erfi, scipy.special.erfi, rng=(-3.0, 3.0)),
    'gammaln': _S(mpmath.loggamma, scipy.special.gammaln, rng=(0.05, 8.0), slow=True, cap=(10, 14), maxel=2),
    'psi': _S(_mp_psi(0), scipy.special.psi, rng=(-4.9, 6.0), holes=_POLES, slow=True, cap=(10, 14), maxel=2),
    'polygamma': _S(_mp_psi, _np_polygamma, rng=(-4.9, 6.0), holes=_POLES, slow=True, cap=(10, 14), extras='polygamma', maxel=2),
    'hyperu': _S(_mp_hyperu, _np_hyperu, rng=(0.1, 5.0), slow=True, cap=(7, 12), tol=1e-7, extras='hyperu', maxel=2),
}

# piecewise constant / linear: name -> (NumPy function of order 0, jump class)
PIECEWISE = {
    'rint': (np.rint, 'half'),
    'fix': (np.fix, 'int0'),
    'floor': (np.floor, 'int'),
    'ceil': (np.ceil, 'int'),
    'trunc': (np.trunc, 'int0'),
    'sign': (np.sign, 'zero'),
    'absolute': (np.absolute, 'zero'),
    'clip': (None, 'bounds'),
}
UTILITY = {'np_filled_like'}

HYPERU_A = [0.5, 1, 1.5, 2, 2.5, 3, 1.0, 0.25]
# U(a, b, x) is defined for every real a: negative non-integers (the sign of the rising factorial (a)_n matters) and
# negative integers (polynomial case, (a)_n = 0 for n > -a)
HYPERU_A_NEG = [-0.5, -1.5, -2.5, -0.25, -0.75, -1.25, -1, -2, -3, -1.0]
HYPERU_B = [0.5, 0.75, 1, 1.5, 2, 2.5, 3.25, 1.0, -0.5]
POLYGAMMA_M = st.one_of(st.integers(0, 4), st.integers(0, 12), st.sampled_from([15, 20]))

# within-case cross calls: a second function with the same signature and a compatible domain that is evaluated at the
# same (x, n) in the same case, before or after the function of the bucket, and checked against ITS reference as well
# (state shared between functions - e.g. a coefficient cache keyed by n only - shows up deterministically)
SIBLING = {
    'erf': 'erfi', 'erfi': 'erf', 'sin': 'cos', 'cos': 'sin', 'sinh': 'cosh', 'cosh': 'sinh',
    'arcsin': 'arccos', 'arccos': 'arcsin', 'log': 'log2', 'log2': 'log10', 'log10': 'log',
    'exp': 'expm1', 'expm1': 'exp2', 'exp2': 'exp', 'arctan': 'arcsinh', 'arcsinh': 'arctan',
    'sqrt': 'log', 'square': 'negative', 'negative': 'square', 'arctanh': 'arcsin',
}


def exported_names():
    return list(_ndmod.__all__)


def _fn(name):
    return getattr(algopy.nthderiv, name)


def _admissible(name):
    """intervals (from the DECLARED domain of the function object) and the special points inside them"""
    spec = SMOOTH[name]
    dom = getattr(_fn(name), 'domain', None)
    dname = getattr(dom, '__name__', None)
    if dname not in DOMAIN_IVS:
        return None, None, dname
    ivs = list(DOMAIN_IVS[dname])
    if spec['range']:
        ivs = _intersect(ivs, *spec['range'])
    for c, m in spec['holes']:
        ivs = _cut(ivs, c, m)
    specials = [v for v in SPECIAL_POINTS if _inside(ivs, v)]
    return ivs, specials, dname


def covered(name):
    if name in SMOOTH:
        return hasattr(algopy.nthderiv, name) and _admissible(name)[0] is not None
    return (name in PIECEWISE or name in UTILITY) and hasattr(algopy.nthderiv, name)


# ---------------------------------------------------------------------------
# the oracle
# ---------------------------------------------------------------------------

# functions whose only finite real singularity is x = 0: the differentiation step must be relative for tiny |x|
ZERO_SING = {'log', 'log2', 'log10', 'sqrt', 'reciprocal', 'gammaln', 'psi', 'polygamma', 'hyperu'}
# closed forms that are pure products (no additive O(1) terms): the result must be accurate RELATIVE to its own
# magnitude, however small (no floor 1 in the error scale); this is what makes a lost tiny/huge result visible
RELATIVE = {'log', 'log2', 'log10', 'sqrt', 'reciprocal', 'exp', 'exp2', 'square', 'negative'}


@functools.lru_cache(maxsize=None)
def _ref(name, extras, x, n):
    """n-th derivative of the reference function at the binary64 point x, as mpf (45 digits)"""
    old = mp.dps
    mp.dps = DPS
    try:
        base = mp.prec
        f = SMOOTH[name]['mp'](*extras)
        mag = 0 if x == 0 else math.frexp(abs(x))[1]
        try:
            if abs(mag) <= 12 or n == 0:
                if mag > 12:
                    mp.prec = base + mag + 16
                v = mpmath.diff(f, mpf(x), n) if n else f(mpf(x))
            else:
                # extreme magnitude: enough bits to resolve x +- k h, and a step relative to the distance from the
                # singularity at 0 for tiny |x|
                mp.prec = base + max(0, mag) + 16
                hexp = -base - 10 + (mag if (name in ZERO_SING and mag < 0) else 0)
                v = mpmath.diff(f, mpf(x), n, h=mpmath.ldexp(mpf(1), hexp))
        except (ValueError, ZeroDivisionError, OverflowError, mpmath.libmp.NoConvergence):
            return None          # the oracle cannot decide -> the case is counted as inconclusive
        if isinstance(v, mpmath.mpc):
            if v.imag != 0:
                return None
            v = v.real
        return v
    finally:
        mp.dps = old


def _elements(x):
    return [float(v) for v in np.asarray(x, dtype=float).ravel()]


OUT_MODES = ('none', 'fresh', 'recycled', 'self', 'view', 'complex', 'longdouble')


def _out_mode(case):
    o = case.get('out')
    if o is True:
        return 'fresh'
    if not o:
        return 'none'
    return o


def _call(name, extras, x, n, mode):
    """returns (returned object, out buffer or None, the argument object actually passed, aliased?)"""
    f = _fn(name)
    xin = x.copy() if isinstance(x, np.ndarray) else x
    if mode == 'none':
        return guard(f, *(list(extras) + [xin]), n=n), None, xin, False
    aliased = False
    if mode == 'fresh':
        out = np.full(np.shape(x), np.nan)
    elif mode == 'recycled':
        out = np.full(np.shape(x), 7.25)          # a buffer that still holds other (non-zero) data
    elif mode == 'complex':
        out = np.full(np.shape(x), 7.25 - 3j, dtype=complex)
    elif mode == 'longdouble':
        out = np.full(np.shape(x), 7.25, dtype=np.longdouble)
    elif mode == 'self':
        out, aliased = xin, True
    elif mode == 'view':
        out, aliased = xin[...], True
    elif mode in NONCONTIGUOUS_OUT:
        out, big = _noncontiguous_out(mode, np.shape(x))
    else:
        raise KeyError(mode)
    ret = guard(f, *(list(extras) + [xin]), out=out, n=n)
    if mode in NONCONTIGUOUS_OUT:
        _check_surroundings(name, mode, out, big)
    return ret, out, xin, aliased


# out= buffers of rank 2 that cannot be flattened without a copy (no uniform stride)
NONCONTIGUOUS_OUT = ('block', 'fortran', 'transposed', 'strided')


def _noncontiguous_out(mode, shape, dtype=float):
    r, c = shape
    if mode == 'block':            # a block of a larger matrix
        big = np.full((r + 2, c + 3), 7.25, dtype=dtype)
        return big[1:1 + r, 1:1 + c], big
    if mode == 'strided':          # every second row and column of a larger matrix
        big = np.full((2 * r, 2 * c), 7.25, dtype=dtype)
        return big[::2, ::2], big
    if mode == 'fortran':          # column-major buffer
        big = np.full((r, c), 7.25, dtype=dtype, order='F')
        return big, big
    big = np.full((c, r), 7.25, dtype=dtype)      # transposed view of a row-major buffer
    return big.T, big


def _check_surroundings(name, mode, out, big):
    """entries of the larger matrix outside the block handed over as out= must keep their contents"""
    if mode in ('block', 'strided'):
        mask = np.ones(big.shape, dtype=bool)
        if mode == 'block':
            mask[1:1 + out.shape[0], 1:1 + out.shape[1]] = False
        else:
            mask[::2, ::2] = False
        if not np.all(big[mask] == 7.25):
            raise Violation('nthderiv.%s(..., out=<%s of a larger matrix>): entries outside the block were overwritten' % (name, mode))


def _as_real_array(v, what):
    a = np.asarray(v)
    if a.dtype.kind not in 'fciub':
        raise Violation('%s: result has dtype %s' % (what, a.dtype))
    return a


def _tiny_relative(name, n):
    """closed forms that are accurate RELATIVE to the result for tiny |x| on the reference tree (established by a
    sweep over |x| = 1e-30 ... 1e-6, all orders): everything except the forms that shift the argument by an O(1)
    constant before evaluating an odd function - sin at even n >= 2 (sin(n pi/2 + x)), cos at odd n, arctanh at even
    n >= 2 ((1-x)^-n - (1+x)^-n) - and arcsin/arccos at n >= 10 (complex Legendre evaluation, 3e-12); for those the
    absolute scale max(1, ...) stays"""
    if name == 'sin':
        return not (n >= 2 and n % 2 == 0)
    if name == 'cos':
        return n % 2 == 0
    if name == 'arctanh':
        return not (n >= 2 and n % 2 == 0)
    if name in ('arcsin', 'arccos'):
        return n < 10
    return name not in ('hyperu', 'psi', 'polygamma', 'gammaln', 'tan', 'tanh')


def _is_tiny(els):
    return all(abs(v) <= 1e-3 for v in els) and any(v != 0 for v in els)


def _scale(name, extras, v, n, ref, floor=1.0, rel=False):
    """error scale of one element: the magnitude of the result, or of its change under a relative perturbation of
    the argument (|x f^(n+1)(x)|: conditioning of the mathematical problem; it dominates where factorially large
    pole terms cancel, e.g. odd orders of psi at negative half-integers, arctan^(16) at x = 1), at least ``floor``"""
    nxt = _ref(name, extras, v, n + 1)
    if ref is None or nxt is None or not mpmath.isfinite(ref) or not mpmath.isfinite(nxt):
        raise Inconclusive('non-finite reference')
    # size of the perturbation of the argument that any binary64 evaluation commits: relative to |x| where the function's
    # only length scale is the distance to its singularity at 0 (and for the purely multiplicative closed forms),
    # relative to max(|x|, 1) otherwise (poles / branch points at distance ~1, entire functions of unit scale: forming
    # 1 - x, x - i or pi/2 + x rounds x absolutely)
    length = abs(v) if (rel or name in ZERO_SING or name in RELATIVE) else max(abs(v), 1.0)
    try:
        sc = max(floor, float(abs(ref)), float(abs(mpf(length) * nxt)))
    except OverflowError:
        raise Inconclusive('reference outside the double range')
    if not np.isfinite(sc):
        raise Inconclusive('reference outside the double range')
    return sc if sc > 0 else 1.0


def _check_values(what, got, refs, scale_fn, shape, tol, stats, floor=1.0):
    """got: returned object; refs: list of mpf per element (row-major); scale_fn(k): conditioning-aware scale of
    element k (needs the reference of order n+1: only evaluated when the plain test against max(floor, |ref|) fails)"""
    a = _as_real_array(got, what)
    if a.shape != tuple(shape):
        raise Violation('%s: result has shape %s, argument has shape %s' % (what, a.shape, tuple(shape)))
    flat = a.ravel()
    for k, ref in enumerate(refs):
        if ref is None or not mpmath.isfinite(ref):
            raise Inconclusive('non-finite reference')
        aref = abs(ref)
        if aref != 0 and not (mpf('1e-300') < aref < mpf('1.7e308')):
            raise Inconclusive('reference outside the range of normal doubles')
        g = flat[k]
        gi = float(complex(g).imag)
        gr = float(complex(g).real)
        if not np.isfinite(gr) or not np.isfinite(gi):
            raise Violation('%s: element %d is %r, reference %s' % (what, k, g, mpmath.nstr(ref, 17)))
        abs_err = max(float(abs(mpf(gr) - ref)), abs(gi))
        fl = floor[k] if isinstance(floor, (list, tuple)) else floor
        scale = max(fl, float(aref))
        if abs_err > 1e-3 * tol * scale:
            # noticeable error: measure it in the conditioning-aware scale (costs the reference of order n + 1)
            scale = scale_fn(k)
        err = abs_err / scale if scale > 0 else (0.0 if abs_err == 0 else float('inf'))
        if tol <= 1e-6:          # float32 cases (tolerance 2e-4) are kept out of the float64 accuracy statistic
            stats.err(min(err, 1e300))
        if err > tol:
            raise Violation('%s: element %d is %r, reference %s (error %.2e relative to %.3e = max(%g, |ref|, max(|x|, L) |f^(n+1)(x)|), tol %.0e)'
                            % (what, k, g, mpmath.nstr(ref, 17), err, scale, fl, tol))


def _same(a, b):
    a = np.asarray(a)
    b = np.asarray(b)
    return a.shape == b.shape and bool(np.all((a == b) | ((a != a) & (b != b))))


def _what(case):
    x = case['x']
    if isinstance(x, np.ndarray):
        xs = 'array(%r%s)' % (x.tolist(), '' if x.dtype == np.float64 else ', dtype=%s' % x.dtype)
    elif isinstance(x, np.generic) and not isinstance(x, np.float64):
        xs = 'numpy.%s(%r)' % (x.dtype, x.item())
    else:
        xs = repr(x if isinstance(x, int) else float(x))
    ex = ''.join('%r, ' % (e,) for e in case['extras'])
    mode = _out_mode(case)
    outs = {'none': '', 'fresh': ', out=<new float64 buffer>', 'recycled': ', out=<float64 buffer holding old data>',
            'self': ', out=x', 'view': ', out=x[...]', 'complex': ', out=<complex128 buffer>',
            'longdouble': ', out=<longdouble buffer>', 'block': ', out=big[1:1+r, 1:1+c] (block of a larger float64 matrix holding old data)',
            'strided': ', out=big[::2, ::2]', 'fortran': ', out=<column-major float64 buffer holding old data>',
            'transposed': ', out=<transposed view of a row-major buffer holding old data>'}[mode]
    return 'nthderiv.%s(%s%s%s, n=%d)' % (case['f'], ex, xs, outs, case['n'])


def _note_steering(case, stats):
    for kfid, cnt in sorted((case.get('steered') or {}).items()):
        for _ in range(int(cnt)):
            stats.exclude(kfid)


def prop_smooth(case, stats):
    try:
        _prop_smooth(case, stats)
    except Inconclusive as e:
        stats.event('inconclusive:%s:n=%d:x=%s:%s' % (case['f'], case['n'], _elements(case['x']), case['extras']))
        raise


def _snapshot(obj):
    a = np.asarray(obj)
    return a.dtype.str, a.shape, a.tobytes()


def _is_int_form(x):
    return isinstance(x, (int, np.integer)) or (isinstance(x, np.ndarray) and x.dtype.kind in 'iu')


def _is_f32(x):
    return isinstance(x, np.float32) or (isinstance(x, np.ndarray) and x.dtype == np.float32)


def _check_memory(what, ret, xin, x, aliased, mode):
    """the argument is left alone (unless out aliases it) and a fresh result does not share memory with it"""
    if isinstance(x, np.ndarray):
        if not aliased and (xin.dtype != x.dtype or xin.tobytes() != x.tobytes()):
            raise Violation('%s: the argument array was modified: %r -> %r' % (what, x.tolist(), xin.tolist()))
        if mode == 'none' and isinstance(ret, np.ndarray) and np.shares_memory(ret, xin):
            raise Violation('%s: the returned array shares memory with the argument' % what)


def _prop_smooth(case, stats):
    name, n, x = case['f'], int(case['n']), case['x']
    extras = tuple(case['extras'])
    spec = SMOOTH[name]
    what = _what(case)
    mode = _out_mode(case)
    _note_steering(case, stats)
    f = _fn(name)
    if not np.all(f.domain(x)):
        raise RuntimeError('generator produced a point outside the declared domain: %s' % what)
    tol = max(spec['tol'], 2e-4) if _is_f32(x) else spec['tol']
    floor = 0.0 if (name in RELATIVE and not (name == 'reciprocal' and n == 0 and _is_int_form(x))) else 1.0
    cross = case.get('cross')
    sib_ret = None
    if cross and cross['first']:
        sib_ret = guard(_fn(cross['f']), x.copy() if isinstance(x, np.ndarray) else x, n=n)
    ret, out, xin, aliased = _call(name, extras, x, n, mode)
    held = [(what, ret, _snapshot(ret))]
    if cross and not cross['first']:
        sib_ret = guard(_fn(cross['f']), x.copy() if isinstance(x, np.ndarray) else x, n=n)
    _check_memory(what, ret, xin, x, aliased, mode)
    # a sequence of further calls on an argument of the same shape; every result is kept (uncopied) by the caller
    seq_rets = []
    for fname, n2 in case.get('seq') or []:
        xs = x.copy() if isinstance(x, np.ndarray) else x
        ex2 = extras if fname == name else ()
        r2 = guard(_fn(fname), *(list(ex2) + [xs]), n=n2)
        lbl = 'nthderiv.%s(x, n=%d) called after %s' % (fname, n2, what)
        held.append((lbl, r2, _snapshot(r2)))
        seq_rets.append((fname, ex2, int(n2), lbl, r2))
    for lbl, obj, snap in held:
        if _snapshot(obj) != snap:
            raise Violation('%s: the array returned by this call was changed by a later call of the module '
                            '(now %r)' % (lbl, np.asarray(obj).tolist()))
    with mp.workdps(DPS):
        els = _elements(x)
        # tiny arguments: the result (often ~ x) must be accurate relative to ITSELF wherever the closed form delivers that
        tiny = _is_tiny(els) and not _is_f32(x)
        skip_mp = (name == 'reciprocal' and n == 0 and _is_int_form(x))   # NumPy's integer reciprocal: order 0 only vs NumPy
        if not skip_mp:
            refs = [_ref(name, extras, v, n) for v in els]
            rel = tiny and _tiny_relative(name, n)
            if rel:
                # per element: at exactly x = 0 the numerical reference of a vanishing derivative is noise, keep the floor there
                floor = [0.0 if v != 0 else 1.0 for v in els]
            def scale_fn(k):
                fk = floor[k] if isinstance(floor, list) else floor
                return _scale(name, extras, els[k], n, refs[k], fk, rel and els[k] != 0)
            _check_values(what, ret, refs, scale_fn, np.shape(x), tol, stats, floor)
            if out is not None:
                _check_values(what + ' [contents of out]', out, refs, scale_fn, np.shape(x), tol, stats, floor)
        if cross:
            sname = cross['f']
            srel = tiny and _tiny_relative(sname, n)
            sfloor = [0.0 if (sname in RELATIVE or (srel and v != 0)) else 1.0 for v in els]
            srefs = [_ref(sname, (), v, n) for v in els]
            def sscale_fn(k):
                return _scale(sname, (), els[k], n, srefs[k], sfloor[k], srel and els[k] != 0)
            swhat = 'nthderiv.%s(x, n=%d) evaluated %s %s' % (sname, n, 'before' if cross['first'] else 'after', what)
            _check_values(swhat, sib_ret, srefs, sscale_fn, np.shape(x), max(SMOOTH[sname]['tol'], tol), stats, sfloor)
        if not spec['slow']:
            for fname, ex2, n2, lbl, r2 in seq_rets:
                if fname == 'reciprocal' and n2 == 0 and _is_int_form(x):
                    continue          # NumPy's integer reciprocal
                rel2 = tiny and _tiny_relative(fname, n2)
                fl2 = [0.0 if (fname in RELATIVE or (rel2 and v != 0)) else 1.0 for v in els]
                refs2 = [_ref(fname, ex2, v, n2) for v in els]
                def scale2(k, fname=fname, ex2=ex2, n2=n2, refs2=refs2, fl2=fl2, rel2=rel2):
                    return _scale(fname, ex2, els[k], n2, refs2[k], fl2[k], rel2 and els[k] != 0)
                _check_values(lbl, r2, refs2, scale2, np.shape(x), max(SMOOTH[fname]['tol'], tol), stats, fl2)
    if n == 0:
        # order 0 is the function itself
        direct = spec['np'](*extras)(x)
        if not _same(ret, direct):
            raise Violation('%s: order 0 returned %r, the NumPy/SciPy function gives %r' % (what, ret, direct))


def prop_piecewise(case, stats):
    name, n, x = case['f'], int(case['n']), case['x']
    extras = tuple(case['extras'])
    what = _what(case)
    xa = np.asarray(x, dtype=float)
    # order 0 is NumPy's function applied to the argument as it is (same type); the higher orders follow the rule
    if name == 'clip':
        lo, hi = extras
        f0 = np.asarray(np.clip(x, lo, hi))
        d1 = ((xa > lo) & (xa < hi)).astype(float)
    else:
        f0 = np.asarray(PIECEWISE[name][0](x))
        d1 = np.sign(xa) if name == 'absolute' else np.zeros_like(xa)
    if n == 0:
        ref = f0
    elif n == 1:
        ref = d1
    else:
        ref = np.zeros_like(xa)
    mode = _out_mode(case)
    ret, out, xin, aliased = _call(name, extras, x, n, mode)
    _check_memory(what, ret, xin, x, aliased, mode)
    held = [(what, ret, _snapshot(ret))]
    for fname, n2 in case.get('seq') or []:
        xs = x.copy() if isinstance(x, np.ndarray) else x
        r2 = guard(_fn(fname), *(list(extras if fname == name else ()) + [xs]), n=n2)
        held.append(('nthderiv.%s(x, n=%d) called after %s' % (fname, n2, what), r2, _snapshot(r2)))
    for lbl, obj, snap in held:
        if _snapshot(obj) != snap:
            raise Violation('%s: the array returned by this call was changed by a later call of the module '
                            '(now %r)' % (lbl, np.asarray(obj).tolist()))
    for label, got in ((what, ret), (what + ' [contents of out]', out)):
        if got is None:
            continue
        a = _as_real_array(got, label)
        if a.shape != xa.shape:
            raise Violation('%s: result has shape %s, argument has shape %s' % (label, a.shape, xa.shape))
        if not np.array_equal(a, ref):
            raise Violation('%s: got %r, expected %r' % (label, a.tolist(), ref.tolist()))


def prop_filled(case, stats):
    x, v = case['x'], case['v']
    mode = _out_mode(case)
    what = 'nthderiv.np_filled_like(%r, %r%s)' % (x.tolist() if isinstance(x, np.ndarray) else x, v,
                                                  '' if mode == 'none' else ', out=<%s buffer>' % mode)
    f = _fn('np_filled_like')
    # like numpy.full_like: the result has the type of x (an integer x truncates the fill value); a given out buffer
    # keeps its own type
    if mode == 'none':
        ref = np.asarray(np.full_like(np.asarray(x), v), dtype=float)
        ret = guard(f, x, v)
        pairs = ((what, ret),)
    else:
        ref = np.full(np.shape(x), float(v))
        big = None
        if mode in NONCONTIGUOUS_OUT:
            out, big = _noncontiguous_out(mode, np.shape(x))
        else:
            out = np.full(np.shape(x), np.nan if mode == 'fresh' else 7.25)
        ret = guard(f, x, v, out)
        if big is not None:
            _check_surroundings('np_filled_like', mode, out, big)
        pairs = ((what, ret), (what + ' [contents of out]', out))
    for label, got in pairs:
        a = np.asarray(got)
        if a.shape != ref.shape or not np.array_equal(a.astype(float), ref):
            raise Violation('%s: got %r, expected an array of shape %s filled with %r' % (label, a.tolist(), ref.shape, v))


# ---------------------------------------------------------------------------
# generators
# ---------------------------------------------------------------------------

FORMS = ['pyfloat', 'np64', 'arr0', 'arr1', 'arr1', 'arr2']
INT_FORMS = ['pyint', 'npint64', 'npint32', 'intarr64', 'intarr32', 'intarr64', 'intarr32']
F32_FORMS = ['npf32', 'f32arr', 'f32arr']
ARRAY_FORMS = ('arr0', 'arr1', 'arr2', 'intarr64', 'intarr32', 'f32arr')


def _build(form, vals, shape):
    if form == 'pyfloat':
        return float(vals[0])
    if form == 'np64':
        return np.float64(vals[0])
    if form == 'arr0':
        return np.array(float(vals[0]))
    if form == 'pyint':
        return int(vals[0])
    if form == 'npint64':
        return np.int64(vals[0])
    if form == 'npint32':
        return np.int32(vals[0])
    if form == 'npf32':
        return np.float32(vals[0])
    dt = {'intarr64': np.int64, 'intarr32': np.int32, 'f32arr': np.float32}.get(form, np.float64)
    return np.array(vals, dtype=dt).reshape(shape)


@st.composite
def _form_and_shape(draw, maxel, forms=None):
    form = draw(st.sampled_from(forms or FORMS))
    if form in ('arr1', 'intarr64', 'intarr32', 'f32arr'):
        if draw(st.integers(0, 3)) == 0 and maxel >= 2:
            shape = draw(st.sampled_from([s for s in [(2, 2), (2, 3), (3, 2), (1, 2), (2, 1), (1, 3), (1, 1)] if s[0] * s[1] <= max(maxel, 2)]))
        else:
            shape = (draw(st.integers(1, min(maxel, 4))),)
    elif form == 'arr2':
        shape = draw(st.sampled_from([s for s in [(2, 2), (2, 3), (3, 2), (1, 2), (2, 1), (1, 3), (1, 1)] if s[0] * s[1] <= max(maxel, 2)]))
    else:
        shape = ()
    return form, shape


def _out_modes_for(form, shape=()):
    """out= forms admissible for an argument form: aliasing needs a float64 ndarray argument; rank-2 arguments also get
    out= buffers that are not contiguous (block / every-second-entry view of a larger matrix, column-major, transposed)"""
    modes = ['none', 'none', 'fresh', 'recycled', 'complex', 'longdouble']
    if form in ('arr0', 'arr1', 'arr2'):
        modes += ['self', 'view', 'self', 'view']
    if len(shape) == 2:
        modes += ['block', 'fortran', 'transposed', 'strided', 'block', 'fortran']
    return modes


# ---- integer-typed points of the declared domains -------------------------------------------------------------
BIG_INTS = {'log': [50, 100, 1000], 'log2': [50, 100, 1000], 'log10': [50, 100, 1000], 'sqrt': [50, 100, 1000],
            'reciprocal': [50, -100, 1000], 'square': [1000, -100], 'negative': [1000, -100], 'arctan': [100, -1000],
            'arcsinh': [100, -1000], 'arccosh': [100, 1000], 'log1p': [100, 1000], 'sin': [100, -1000], 'cos': [100, -1000]}
# functions that raise for integer-typed arguments at n >= 1 (open known finding KF_INTARG): steered to the float form
INT_RAISES = {'erf', 'erfi', 'log', 'log2', 'log10', 'log1p', 'reciprocal', 'arctanh'}


def _int_points(name, ivs):
    pts = [k for k in range(-6, 21) if _inside(ivs, float(k))]
    return pts + BIG_INTS.get(name, [])


# ---- arguments next to the overflow edge of the RESULT: [lowest, highest] argument for which f^(n)(x), every n, is a
# finite normal double (exp/expm1: e^x up to x = 709.78; exp2: 2^x ln2^n; sinh/cosh: e^|x|/2 up to |x| = 710.47)
EDGE = {'exp': (-689.0, 709.7), 'expm1': (-689.0, 709.7), 'exp2': (-985.0, 1023.9), 'sinh': (-710.4, 710.4), 'cosh': (-710.4, 710.4)}


# ---- points of extreme magnitude ---------------------------------------------------------------------------------
def _lgf(k):
    return math.lgamma(k + 1) / math.log(10)


# name -> (signs, Lmin, Lmax, exponent p(n) of the growth of f^(n) for x -> 0 or None, exponent for x -> inf or None)
def _wide_spec(name, extras):
    m = extras[0] if name == 'polygamma' else 0
    table = {
        'log': ('+', -40, 45, lambda n: n, lambda n: n), 'log2': ('+', -40, 45, lambda n: n, lambda n: n),
        'log10': ('+', -40, 45, lambda n: n, lambda n: n),
        'sqrt': ('+', -40, 45, lambda n: n - 0.5, lambda n: n - 0.5),
        'reciprocal': ('+-', -40, 45, lambda n: n + 1, lambda n: n + 1),
        'square': ('+-', -40, 45, None, None), 'negative': ('+-', -40, 45, None, None),
        'exp': ('+-', -40, math.log10(600), None, None), 'expm1': ('+-', -40, math.log10(600), None, None),
        'sinh': ('+-', -40, math.log10(600), None, None), 'cosh': ('+-', -40, math.log10(600), None, None),
        'exp2': ('+-', -40, math.log10(900), None, None),
        'erf': ('+-', -40, math.log10(24), None, None), 'erfi': ('+-', -40, math.log10(24), None, None),
        'sin': ('+-', -40, 45, None, None), 'cos': ('+-', -40, 45, None, None),
        'arctan': ('+-', -40, 45, None, lambda n: n + 1), 'arcsinh': ('+-', -40, 45, None, lambda n: n),
        'arccosh': ('+', 0.05, 45, None, lambda n: n), 'log1p': ('+', -40, 45, None, lambda n: n),
        'arcsin': ('+-', -40, -2, None, None), 'arccos': ('+-', -40, -2, None, None), 'arctanh': ('+-', -40, -2, None, None),
        'gammaln': ('+', -30, 30, lambda n: n, lambda n: max(n - 1, 0)),
        'psi': ('+', -30, 30, lambda n: n + 1, lambda n: n),
        'polygamma': ('+', -30, 30, lambda n: m + n + 1, lambda n: m + n),
    }
    return table.get(name)


def _wide_range(name, extras, n):
    """range of log10|x| in which f^(n)(x) stays a normal double (estimated from the growth exponents; the reference of
    order n+1 that the conditioning scale may need is handled in mpf arithmetic, whose exponent range is unbounded)"""
    spec = _wide_spec(name, extras)
    if spec is None:
        return None
    signs, lmin, lmax, psmall, plarge = spec
    mm = extras[0] if name == 'polygamma' else 0
    if psmall is not None and psmall(n) > 0:
        lmin = max(lmin, -(304.0 - _lgf(n + mm)) / psmall(n))
    if plarge is not None and plarge(n) > 0:
        lmax = min(lmax, 297.0 / plarge(n))
    if lmin >= lmax:
        return None
    return signs, lmin, lmax


@st.composite
def _wide_point(draw, name, extras, n):
    r = _wide_range(name, extras, n)
    if r is None:
        return None
    signs, lmin, lmax = r
    w = min(1.0, 0.5 * (lmax - lmin))
    L = draw(st.one_of(gen.nice_floats(lmin, lmax), gen.nice_floats(lmax - w, lmax), gen.nice_floats(lmin, lmin + w)))
    v = 10.0 ** L
    if signs == '+-' and draw(st.booleans()):
        v = -v
    return v


def _point(ivs, specials):
    s = st.one_of(*[gen.nice_floats(a, b) for a, b in ivs])
    # both ends of the admissible set (= the declared domain with its margins): the end points themselves and the
    # outermost 5 % of the whole range
    lo, hi = ivs[0][0], ivs[-1][1]
    w = 0.05 * (hi - lo)
    ends = st.one_of(st.sampled_from([lo, hi]), gen.nice_floats(lo, min(lo + w, ivs[0][1])), gen.nice_floats(max(hi - w, ivs[-1][0]), hi))
    if specials:
        return st.one_of(s, s, s, st.sampled_from(specials), st.sampled_from(specials), ends)
    return st.one_of(s, s, s, s, ends)


def _order(nmax):
    # orders >= 2 (where the closed forms differ from each other) twice as likely
    return st.one_of(st.integers(0, nmax), st.integers(min(2, nmax), nmax), st.integers(min(2, nmax), nmax))


@st.composite
def smooth_cases(draw, name, tier):
    spec = SMOOTH[name]
    ivs, specials, _ = _admissible(name)
    n = draw(_order(spec['cap'][tier]))
    if spec['extras'] == 'polygamma':
        extras = [draw(POLYGAMMA_M)]
    elif spec['extras'] == 'hyperu':
        extras = [draw(st.one_of(st.sampled_from(HYPERU_A), st.sampled_from(HYPERU_A_NEG))), draw(st.sampled_from(HYPERU_B))]
    else:
        extras = []
    if extras and draw(st.integers(0, 2)) == 0:
        # extra parameters as NumPy scalars instead of Python numbers
        extras = [np.int64(e) if isinstance(e, int) else np.float64(e) for e in extras]
    steered = {}
    # kind of argument: float64 in the usual range (most cases), float64 of extreme magnitude, integer typed, float32
    kind = draw(st.sampled_from(['f64'] * 6 + ['wide', 'wide', 'int', 'int', 'f32', 'tiny', 'tiny', 'edge']))
    if kind == 'tiny' and not (_inside(ivs, 1e-9) and name not in ZERO_SING):
        kind = 'wide'          # no neighbourhood of 0 in the domain (or singular there): the wide kind covers small |x|
    if kind == 'edge' and name not in EDGE:
        kind = 'wide'
    int_pts = _int_points(name, ivs)
    if kind == 'int' and not int_pts:
        kind = 'f64'
    if kind == 'f32' and n > 4:
        n = draw(st.integers(0, 4))
    if kind in ('int', 'wide') and draw(st.booleans()):
        # integer powers that wrap and results near the ends of the double range need the higher orders
        n = draw(st.integers(max(1, spec['cap'][tier] // 2), spec['cap'][tier]))
    if kind == 'wide' and _wide_range(name, extras, n) is None:
        kind = 'f64'
    if kind == 'int':
        form, shape = draw(_form_and_shape(spec['maxel'], INT_FORMS))
        if name in INT_RAISES and n >= 1 and KF.is_open(KF_INTARG) and not (name == 'arctanh' and form == 'pyint'):
            # open known finding: these closed forms raise for integer-typed arguments; use the float form of the point
            form = {'pyint': 'pyfloat', 'npint64': 'np64', 'npint32': 'np64', 'intarr64': 'arr1', 'intarr32': 'arr1'}[form]
            if len(shape) == 2:
                form = 'arr2'
            steered[KF_INTARG] = 1
        big = BIG_INTS.get(name)
        pt = (st.one_of(st.sampled_from(int_pts), st.sampled_from(big)) if big else st.sampled_from(int_pts)).map(float)
    elif kind == 'f32':
        form, shape = draw(_form_and_shape(spec['maxel'], F32_FORMS))
        pt = _point(ivs, specials).map(lambda v: float(np.float32(v))).filter(lambda v: _inside(ivs, v))
    else:
        form, shape = draw(_form_and_shape(spec['maxel']))
        pt = _point(ivs, specials)
    cnt = int(np.prod(shape, dtype=int))
    if kind == 'wide':
        vals = [draw(_wide_point(name, extras, n)) for _ in range(cnt)]
    elif kind == 'tiny':
        # |x| log-uniform in [1e-30, 1e-6], both signs where the domain has them; now and then a signed zero
        neg_ok = _inside(ivs, -1e-9)
        tp = st.tuples(st.booleans(), gen.nice_floats(-30.0, -6.0)).map(lambda t: (-1.0 if (t[0] and neg_ok) else 1.0) * 10.0 ** t[1])
        tp = st.one_of(tp, tp, tp, tp, tp, st.sampled_from([0.0, -0.0] if neg_ok else [0.0]))
        vals = [draw(tp) for _ in range(cnt)]
    elif kind == 'edge':
        # the last two units of the argument range in which the result is still a finite double
        lo_e, hi_e = EDGE[name]
        ep = st.tuples(st.booleans(), st.one_of(gen.nice_floats(0.0, 2.0), gen.nice_floats(0.0, 0.7))).map(
            lambda t: (lo_e + t[1]) if t[0] else (hi_e - t[1]))
        vals = [draw(ep) for _ in range(cnt)]
    else:
        vals = [draw(pt) for _ in range(cnt)]
    if name in ('erf', 'erfi') and n >= 2 and KF.is_open(KF_ERF0):
        # open known finding: NaN at exactly x == 0 for n >= 2; steer around exactly that point
        for k, v in enumerate(vals):
            if v == 0.0:
                vals[k] = draw(st.sampled_from([0.5, -0.5, 1e-3, -1e-3, 0.25, 1.0])) if kind != 'int' else 1.0
                steered[KF_ERF0] = steered.get(KF_ERF0, 0) + 1
    if name == 'hyperu' and n >= 1 and KF.is_open(KF_HYPERU):
        # open known finding: scipy.special.hyperu(a+n, b+n, x) is NaN for integer b, large n and small x; steer around
        # exactly the points where SciPy (not algopy) cannot evaluate the shifted function: move x to the right
        a, b = extras
        for k, v in enumerate(vals):
            w = v
            while not np.isfinite(scipy.special.hyperu(a + n, b + n, w)) and w < 8.0:
                w = w + 1.0
            if w != v:
                vals[k] = w
                steered[KF_HYPERU] = steered.get(KF_HYPERU, 0) + 1
    out = draw(st.sampled_from(_out_modes_for(form, shape)))
    case = {'f': name, 'n': n, 'extras': extras, 'form': form, 'kind': kind, 'x': _build(form, vals, shape), 'out': out}
    if steered:
        case['steered'] = steered
    normal = kind != 'wide' and all(_inside(ivs, v) for v in vals)
    sib = SIBLING.get(name)
    if normal and sib and covered(sib) and n <= SMOOTH[sib]['cap'][tier] and draw(st.booleans()):
        sivs = _admissible(sib)[0]
        ok_int = not (kind == 'int' and sib in INT_RAISES and n >= 1 and KF.is_open(KF_INTARG))
        if all(_inside(sivs, v) for v in vals) and ok_int and not (sib in ('erf', 'erfi') and n >= 2 and 0.0 in vals and KF.is_open(KF_ERF0)):
            case['cross'] = {'f': sib, 'first': draw(st.booleans())}
    # a sequence of further calls whose results the caller keeps: other orders of the same function and the sibling
    if normal and draw(st.integers(0, 2)) > 0:
        cap = spec['cap'][tier] if kind != 'f32' else 4
        seq = []
        for _ in range(draw(st.integers(1, 3))):
            n2 = draw(st.integers(0, min(cap, 6 if spec['slow'] else cap)))
            if name in ('erf', 'erfi') and n2 >= 2 and 0.0 in vals and KF.is_open(KF_ERF0):
                n2 = 1
            if kind == 'int' and name in INT_RAISES and n2 >= 1 and KF.is_open(KF_INTARG):
                n2 = 0
            seq.append((name, n2))
        if 'cross' in case and draw(st.booleans()):
            seq.append((case['cross']['f'], n))
        case['seq'] = seq
    return case


@st.composite
def piecewise_cases(draw, name, tier):
    jump = PIECEWISE[name][1]
    nmax = 10 if tier == 'quick' else 16
    if name in ('clip', 'absolute'):
        # the first derivative is the only non-trivial one here (indicator of the interval / sign): make it frequent
        n = draw(st.one_of(st.just(1), st.integers(0, nmax), st.integers(2, nmax)))
    else:
        n = draw(_order(nmax))
    # integer-typed and float32 arguments: at order 0 everywhere; at higher orders only where integers are not jumps
    kind = draw(st.sampled_from(['f64'] * 6 + ['int', 'int', 'f32', 'wide']))
    if kind == 'int' and not (n == 0 or jump in ('half', 'zero')):
        kind = 'f64'
    if kind == 'wide' and not (n == 0 or jump in ('zero', 'bounds')):
        kind = 'f64'        # every double beyond 2**53 is an integer, i.e. a jump of floor/ceil/trunc/fix/rint
    forms = INT_FORMS if kind == 'int' else (F32_FORMS if kind == 'f32' else None)
    form, shape = draw(_form_and_shape(6, forms))
    cnt = int(np.prod(shape, dtype=int))
    extras = []
    lo = hi = None
    if name == 'clip':
        # a_min <= a_max (a_min > a_max is inadmissible); negative, zero and positive bounds; ints and floats;
        # now and then the degenerate interval a_min == a_max
        lo = draw(st.one_of(st.integers(-5, 4), gen.nice_floats(-5.0, 4.0)))
        # one-sided and unbounded clipping: an infinite bound is admissible (numpy.clip(x, 0, numpy.inf))
        inf_mode = draw(st.sampled_from(['finite'] * 4 + ['degenerate', 'hi-inf', 'lo-inf', 'both-inf', 'hi-inf', 'lo-inf']))
        if inf_mode == 'degenerate':
            hi = lo
        else:
            hi = lo + draw(st.one_of(st.integers(1, 4), gen.nice_floats(0.5, 4.0)))
        if inf_mode in ('hi-inf', 'both-inf'):
            hi = float('inf')
        if inf_mode in ('lo-inf', 'both-inf'):
            if inf_mode == 'lo-inf' and hi == lo:
                hi = lo + 1
            lo = float('-inf')
        extras = [lo, hi]
        if draw(st.integers(0, 2)) == 0:
            extras = [np.int64(e) if isinstance(e, int) else np.float64(e) for e in extras]
    k_int = st.integers(-5, 5)
    if kind == 'wide':
        pt = st.tuples(st.sampled_from([1.0, -1.0]), st.one_of(gen.nice_floats(3.0, 45.0), gen.nice_floats(-40.0, -3.0))).map(
            lambda t: t[0] * 10.0 ** t[1])
    elif kind == 'int':
        if n >= 1 and jump == 'zero':
            pt = st.sampled_from([1, -1, 2, -3, 5, 100, -1000]).map(float)
        else:
            pt = st.one_of(st.integers(-6, 6), st.sampled_from([100, -1000])).map(float)
    elif n == 0:
        # every point, jumps included
        cands = [gen.nice_floats(-8.5, 8.5), k_int.map(float), k_int.map(lambda k: k + 0.5), st.sampled_from([0.0, -0.0])]
        if name == 'clip':
            cands.append(st.sampled_from([float(b) for b in (lo, hi) if np.isfinite(b)] or [0.0]))
        pt = st.one_of(*cands)
    elif jump == 'int':
        pt = st.builds(lambda k, u: k + u, k_int, gen.nice_floats(0.05, 0.95))
    elif jump == 'int0':
        pt = st.one_of(st.builds(lambda k, u: k + u, k_int, gen.nice_floats(0.05, 0.95)), st.just(0.0))
    elif jump == 'half':
        pt = st.one_of(st.builds(lambda k, u: k + u, k_int, gen.nice_floats(-0.45, 0.45)), k_int.map(float))
    elif jump == 'zero':
        pt = st.one_of(gen.nice_floats(0.05, 5.0), gen.nice_floats(-5.0, -0.05), st.sampled_from([1.0, -1.0, 0.5, -0.5, 2.0]))
    else:   # clip: below, inside, above; distance >= 0.05 from both bounds
        def place(ru):
            region, u = ru
            if lo == float('-inf') and hi == float('inf'):
                return 10 * u - 5
            if hi == float('inf'):            # below a_min, or inside [a_min, inf)
                return (lo - 0.05 - 2 * u) if region == 0 else (lo + 0.05 + 4 * u)
            if lo == float('-inf'):           # above a_max, or inside (-inf, a_max]
                return (hi + 0.05 + 2 * u) if region == 2 else (hi - 0.05 - 4 * u)
            if region == 0:
                return lo - 0.05 - 2 * u
            if region == 1 and hi > lo:
                return lo + 0.05 + u * (hi - lo - 0.1)
            return hi + 0.05 + 2 * u
        # regions: 0 below a_min, 1 inside, 2 above a_max; for a one-sided interval the clipped side twice as likely
        regions = [0, 0, 1] if (hi == float('inf') and lo != float('-inf')) else ([2, 2, 1] if lo == float('-inf') and hi != float('inf') else [1, 0, 2, 1])
        pt = st.tuples(st.sampled_from(regions), gen.nice_floats(0.0, 1.0)).map(place)
    if kind == 'f32':
        # the float32 value must keep the margin from the jumps: round first, then require the float64 construction rule
        pt = pt.map(lambda v: float(np.float32(v)))
    vals = [draw(pt) for _ in range(cnt)]
    if kind == 'f32' and n >= 1:
        vals = [_keep_margin(name, jump, v, lo, hi) for v in vals]
    case = {'f': name, 'n': n, 'extras': extras, 'form': form, 'kind': kind, 'x': _build(form, vals, shape),
            'out': draw(st.sampled_from(_out_modes_for(form, shape)))}
    if draw(st.integers(0, 2)) == 0:
        case['seq'] = [(name, draw(st.integers(0, nmax))) for _ in range(draw(st.integers(1, 3)))]
    return case


def _keep_margin(name, jump, v, lo, hi):
    """float32 rounding moves a point by at most 1e-6: points constructed with margin 0.05 keep a margin > 0.04"""
    return v


@st.composite
def filled_cases(draw, tier):
    form, shape = draw(_form_and_shape(6, FORMS + INT_FORMS + F32_FORMS))
    cnt = int(np.prod(shape, dtype=int))
    if form in INT_FORMS:
        vals = [float(draw(st.integers(-5, 5))) for _ in range(cnt)]
    else:
        vals = [draw(gen.nice_floats(-5.0, 5.0)) for _ in range(cnt)]
    v = draw(st.one_of(st.integers(-3, 3), gen.nice_floats(-5.0, 5.0)))
    modes = ['none', 'fresh', 'recycled'] + (['block', 'fortran', 'transposed', 'strided'] * 2 if len(shape) == 2 else [])
    return {'f': 'np_filled_like', 'n': 0, 'extras': [], 'form': form, 'x': _build(form, vals, shape), 'v': v,
            'out': draw(st.sampled_from(modes))}


def _classes(case):
    n = case['n']
    c = ['n=%02d' % n, 'form=' + case['form'], 'out=' + _out_mode(case), 'kind=' + case.get('kind', 'f64')]
    if case.get('kind') == 'wide':
        mx = max(abs(v) for v in _elements(case['x']))
        c.append('wide:%s' % ('|x|>=1e30' if mx >= 1e30 else ('|x|>=1e3' if mx >= 1e3 else ('|x|<=1e-30' if mx <= 1e-30 else '|x|<=1e-2'))))
    if case.get('kind') == 'tiny':
        c.append('tiny:%s' % ('relative-scale' if _tiny_relative(case['f'], n) else 'absolute-scale(excepted form)'))
        if any(v == 0 and np.signbit(v) for v in _elements(case['x'])):
            c.append('tiny:has-negative-zero')
    if case.get('seq'):
        c.append('seq:len=%d' % len(case['seq']))
    el = _elements(case['x'])
    if any(v == 0 for v in el):
        c.append('x-has-0')
    if any(v == round(2 * v) / 2 for v in el):
        c.append('x-has-special-point')
    if any(v < 0 for v in el):
        c.append('x-has-negative')
    for e in case['extras']:
        c.append('extra-type=' + type(e).__name__)
    if case['f'] == 'polygamma':
        c.append('m=%02d' % case['extras'][0])
    if case['f'] == 'hyperu':
        a, b = case['extras']
        c.append('hyperu:a=%s' % ('negative-integer' if (a < 0 and a == round(a)) else ('negative-non-integer' if a < 0 else 'positive')))
        if a < 0:
            c.append('hyperu:a=%g' % a)
        c.append('hyperu:b=%s' % ('negative' if b < 0 else ('integer' if b == round(b) else 'positive-non-integer')))
        if a < 0 and n >= 1:
            neg = sum(1 for j in range(n) if a + j < 0)
            c.append('hyperu:a<0:n>=1:%s-number-of-negative-factors' % ('odd' if neg % 2 else 'even'))
    if case['f'] in SMOOTH and covered(case['f']):
        ivs = _admissible(case['f'])[0]
        lo_, hi_ = ivs[0][0], ivs[-1][1]
        if any(v < 0 for v in el):
            c.append('dom:%s:x<0' % case['f'])
        if any(v <= lo_ + 0.1 * (hi_ - lo_) for v in el):
            c.append('dom:%s:lowest-tenth' % case['f'])
        if any(v >= hi_ - 0.1 * (hi_ - lo_) for v in el):
            c.append('dom:%s:highest-tenth' % case['f'])
    if case.get('cross'):
        c.append('cross:%s:%s' % (case['cross']['f'], 'first' if case['cross']['first'] else 'after'))
    if case['f'] == 'clip':
        lo, hi = case['extras']
        if lo == float('-inf') or hi == float('inf'):
            c.append('clip:bounds:%s' % ('unbounded' if (lo == float('-inf') and hi == float('inf')) else
                                         ('upper-infinite' if hi == float('inf') else 'lower-infinite')))
        c.append('clip:bounds:%s' % ('degenerate' if lo == hi else ('both-negative' if hi < 0 else ('both-positive' if lo > 0 else 'straddle-0'))))
        for v in el:
            c.append('clip:n%s:%s' % ('0' if n == 0 else ('1' if n == 1 else '>=2'),
                                      'at-bound' if v in (lo, hi) else ('below' if v < lo else ('above' if v > hi else 'inside'))))
    if any(v != round(2 * v) / 2 for v in el):
        c.append('x-has-generic-point')
    for kfid in sorted(case.get('steered') or {}):
        c.append('steered-around-' + kfid)
    return c


# ---------------------------------------------------------------------------
# high orders (n = 17 ... 60): "every order n" beyond what numerical differentiation in multiprecision can afford.  For the
# functions whose n-th derivative has a textbook closed form the reference is that closed form evaluated with 60 digits (mpmath);
# it is independent of how the module organises its own computation (integer prefactors, recursions, powers).

_L2, _L10 = (lambda: mpmath.log(2)), (lambda: mpmath.log(10))
HIGH = {
    'exp': (lambda x, n: mpmath.exp(x)), 'expm1': (lambda x, n: mpmath.exp(x)), 'exp2': (lambda x, n: _L2() ** n * mpf(2) ** x),
    'log': (lambda x, n: (-1) ** (n - 1) * mpmath.factorial(n - 1) / x ** n),
    'log2': (lambda x, n: (-1) ** (n - 1) * mpmath.factorial(n - 1) / x ** n / _L2()),
    'log10': (lambda x, n: (-1) ** (n - 1) * mpmath.factorial(n - 1) / x ** n / _L10()),
    'log1p': (lambda x, n: (-1) ** (n - 1) * mpmath.factorial(n - 1) / (1 + x) ** n),
    'reciprocal': (lambda x, n: (-1) ** n * mpmath.factorial(n) / x ** (n + 1)),
    'sqrt': (lambda x, n: mpmath.ff(mpf(1) / 2, n) * x ** (mpf(1) / 2 - n)),
    'sin': (lambda x, n: [mpmath.sin, mpmath.cos, (lambda y: -mpmath.sin(y)), (lambda y: -mpmath.cos(y))][n % 4](x)),
    'cos': (lambda x, n: [mpmath.cos, (lambda y: -mpmath.sin(y)), (lambda y: -mpmath.cos(y)), mpmath.sin][n % 4](x)),
    'sinh': (lambda x, n: mpmath.sinh(x) if n % 2 == 0 else mpmath.cosh(x)),
    'cosh': (lambda x, n: mpmath.cosh(x) if n % 2 == 0 else mpmath.sinh(x)),
    'square': (lambda x, n: mpf(0)), 'negative': (lambda x, n: mpf(0)),
}
HIGH_N = (17, 60)


@st.composite
def high_cases(draw, name, tier):
    n = draw(st.one_of(st.integers(*HIGH_N), st.integers(17, 30)))
    k = draw(st.integers(1, 4))
    xs = draw(st.lists(st.one_of(gen.nice_floats(0.05, 4.0), gen.nice_floats(0.5, 40.0)), min_size=k, max_size=k))
    form = draw(st.sampled_from(['arr1', 'arr1', 'np64', 'pyfloat', 'arr2']))
    return {'name': name, 'n': n, 'x': [float(v) for v in xs], 'form': form}


def prop_high(case, stats):
    name, n = case['name'], case['n']
    f = getattr(algopy.nthderiv, name)
    xs = case['x']
    form = case['form']
    if form == 'arr1':
        arg = np.array(xs)
    elif form == 'arr2':
        arg = np.array([xs, xs[::-1]])
    elif form == 'np64':
        arg = np.float64(xs[0])
    else:
        arg = float(xs[0])
    with np.errstate(all='ignore'):
        got = guard(lambda: f(arg, n=n))
    got = np.asarray(got, dtype=float)
    pts = np.asarray(arg, dtype=float)
    if got.shape != pts.shape:
        raise Violation('%s(x, n=%d): result shape %s for an argument of shape %s' % (name, n, got.shape, pts.shape))
    old = mp.dps
    mp.dps = 60
    try:
        for g, x in zip(got.reshape(-1), pts.reshape(-1)):
            ref = HIGH[name](mpf(float(x)), n)
            if abs(ref) > mpf(10) ** 290 or (ref != 0 and abs(ref) < mpf(10) ** -290):
                stats['high-order:reference outside the double range'] = stats.get('high-order:reference outside the double range', 0) + 1
                continue
            scale = max(abs(ref), mpf(1) if name in ('sin', 'cos') else mpf(0))
            if not np.isfinite(g) or abs(mpf(float(g)) - ref) > mpf(10) ** -9 * scale:
                raise Violation('%s(%r, n=%d) [%s] = %r, the closed form of the n-th derivative gives %s'
                                % (name, float(x), n, form, float(g), mpmath.nstr(ref, 17)))
    finally:
        mp.dps = old


def _nontrivial(case):
    return case['n'] >= 2


# ---------------------------------------------------------------------------

def buckets(tier):
    bl = []
    for name in exported_names():
        if not covered(name):
            continue
        if name in SMOOTH:
            slow = SMOOTH[name]['slow']
            bl.append(Bucket(name, (lambda name=name: smooth_cases(name, tier)), prop_smooth,
                             {'quick': (10 if name == 'hyperu' else 20) if slow else 120, 'thorough': 60 if slow else 1500},
                             nontrivial=_nontrivial, classes=_classes,
                             shards={'quick': (8 if name == 'hyperu' else 4) if slow else 1, 'thorough': 12 if slow else 2},
                             weight=60.0 if slow else 1.0))
            if name in HIGH:
                bl.append(Bucket('high-order:' + name, (lambda name=name: high_cases(name, tier)), prop_high, {'quick': 60, 'thorough': 1500},
                                 nontrivial=(lambda case: True),
                                 classes=(lambda case: ['n=%d..%d' % (10 * (case['n'] // 10), 10 * (case['n'] // 10) + 9), 'form=' + case['form'],
                                                        'n>=22 (21! exceeds int64)' if case['n'] >= 22 else 'n<22']), weight=0.5))
        elif name in PIECEWISE:
            bl.append(Bucket(name, (lambda name=name: piecewise_cases(name, tier)), prop_piecewise,
                             {'quick': 120, 'thorough': 3000}, nontrivial=_nontrivial, classes=_classes, weight=0.2))
        else:
            bl.append(Bucket(name, (lambda: filled_cases(tier)), prop_filled, {'quick': 60, 'thorough': 1000},
                             nontrivial=(lambda case: False), classes=_classes, weight=0.1))
    return bl


def extra_evidence(tier):
    names = exported_names()
    unc = {}
    for nme in names:
        if covered(nme):
            continue
        if not hasattr(algopy.nthderiv, nme):
            unc[nme] = 'listed in __all__ but not an attribute of algopy.nthderiv'
        elif nme in SMOOTH:
            unc[nme] = 'declared domain %r is not one this check can draw points from' % (_admissible(nme)[2],)
        else:
            unc[nme] = 'no reference function in the table of this check'
    doms = {}
    for nme in names:
        if nme in SMOOTH and covered(nme):
            ivs, _, dname = _admissible(nme)
            doms[nme] = {'declared': dname, 'points_from': [list(iv) for iv in ivs]}
    return {
        'names_exported': names,
        'names_covered': [nme for nme in names if covered(nme)],
        'uncovered_names': unc,
        'mpmath_visible_to_algopy': bool(getattr(_ndmod, 'mpmath', None)),
        'n_caps': {nme: SMOOTH[nme]['cap'][tier] for nme in names if nme in SMOOTH and covered(nme)},
        'tolerances': {nme: SMOOTH[nme]['tol'] for nme in names if nme in SMOOTH and covered(nme)},
        'point_domains': doms,
        'reference_digits': DPS,
    }
