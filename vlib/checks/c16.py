"""C16 - closed-form n-th derivatives (algopy.nthderiv) are the true derivatives.

One bucket per name exported by algopy.nthderiv (``algopy.nthderiv.nthderiv.__all__`` as it is in THIS environment:
mpmath is invisible to algopy when it is imported, so tan/tanh are normally not exported).  The names are enumerated
at run time; a name without a reference in the tables below is reported in the evidence (``uncovered_names``).

Oracle: mpmath.diff (numerical differentiation in >= 45 digit arithmetic, no closed forms) for the smooth functions;
for the piecewise constant / piecewise linear ones the rules of DESIGN section 4 (n = 0 equals NumPy, higher orders are
0 resp. the indicator / sign, away from the jumps).  Order 0 is additionally compared with the NumPy/SciPy function
itself (exactly).
"""
import functools

import numpy as np
import scipy.special
import mpmath
from mpmath import mp, mpf
from hypothesis import strategies as st

import algopy
import algopy.nthderiv
import algopy.nthderiv.nthderiv as _ndmod

from ..runner import Bucket, Violation, Inconclusive, guard, KF
from .. import gen

PID = 'C16'
KF_ERF0 = 'KF-nthderiv-erf-at-zero'
KF_HYPERU = 'KF-nthderiv-hyperu-integer-b-nan'
DPS = 45

RULE = ('one bucket per name exported by algopy.nthderiv (enumerated at run time); a case = (function, order n, extra '
        'parameters, argument form in {python float, numpy.float64, 0-d array, 1-d array, 2-d array}, with/without out=, '
        'point(s)) with points drawn from the declared domain (.domain attribute) minus a margin around the '
        'singularities, special points (0, +-1/2, +-1, integers, half-integers) boosted; n in 0..10 (quick) / 0..16 '
        '(thorough) up to the per-function caps listed under n_caps; every element is compared with mpmath.diff '
        '(piecewise functions: with the rule); both ends of the admissible set are boosted and negative arguments are drawn '
        'wherever the declared domain has them (histogram classes dom:<f>:x<0 / lowest-tenth / highest-tenth); extra '
        'parameters: polygamma m in 0..12, 15, 20; hyperu a positive, negative non-integer and negative integer, b positive, '
        'integer and negative; clip bounds negative/positive/straddling 0/degenerate (a_min == a_max), ints and floats; in '
        'half of the cases of a function with a sibling (erf/erfi, sin/cos, log/log2/log10, ...) the sibling is evaluated at '
        'the same (x, n) before or after it and checked as well (shared state between functions); non-trivial = n >= 2; '
        'distinct by descriptor hash')
ASSUMPTIONS = [
    'mpmath.diff at 45 digits (working precision (45 digits + 20 bits)*(n+1)) is the reference for the n-th derivative; '
    'mpmath, NumPy and SciPy are trusted',
    'tolerance 1e-9 * max(1, |f^(n)(x)|, |x f^(n+1)(x)|) (hyperu 1e-7: accuracy of scipy.special.hyperu): relative to the '
    'result or to its change under a relative perturbation of the argument (conditioning of the problem itself; only '
    'matters where factorially large terms cancel); order 0 must equal the NumPy/SciPy function bit for bit',
    'points keep a margin from singularities (reciprocal: |x| >= 0.05; psi/polygamma: distance >= 0.1 from the poles '
    '0,-1,-2,...; domain boundaries: log/sqrt x >= 0.02, arcsin/arccos/arctanh |x| <= 0.97, arccosh x >= 1.03, '
    'log1p x >= -0.95) and a bounded magnitude (|x| <= 6, DOM_POS up to 20)',
    'piecewise functions for n >= 1: points at distance >= 0.05 from the jumps (rint: half-integers; floor/ceil: integers; '
    'trunc/fix: non-zero integers; sign/absolute: 0; clip: the two bounds); n = 0: every point incl. the jumps',
    'n is capped per function where the binary64 evaluation of the closed form (not its logic) limits the accuracy; '
    'see n_caps in the evidence and notes/C16.md',
    'arguments are float64 (python float, numpy.float64, ndarray); integer dtypes are outside the domain '
    '(numpy refuses negative integer powers of integer arrays)',
    'np_filled_like is a utility without derivative semantics: compared with numpy.full',
    'hyperu: x in [0.1, 5] (scipy.special.hyperu loses accuracy for x >= 8: up to 3e-7 relative at n = 0, an upstream '
    'limitation outside this range restriction); for negative integer a (polynomial case) and for 1+a-b a non-positive '
    'integer the reference function is the finite sum DLMF 13.2.7 (mpmath cannot certify the exact zeros of U), still '
    'differentiated numerically; points where scipy.special.hyperu(a+n, b+n, x) itself is non-finite are steered around '
    'while KF-nthderiv-hyperu-integer-b-nan is open',
    'clip: a_min > a_max is inadmissible and not generated; bounds None are not generated',
]

# ---------------------------------------------------------------------------
# declared domains -> candidate intervals (closed, with the boundary margins stated in ASSUMPTIONS)
# ---------------------------------------------------------------------------

DOMAIN_IVS = {
    'DOM_ALL': [(-6.0, 6.0)],
    'DOM_POS': [(0.02, 20.0)],
    'DOM_GT_1': [(1.03, 8.0)],
    'DOM_GT_NEG_1': [(-0.95, 10.0)],
    'DOM_ABS_LT_1': [(-0.97, 0.97)],
}
SPECIAL_POINTS = [0.0, 0.5, -0.5, 1.0, -1.0, 2.0, -2.0, 3.0, -3.0, 1.5, -1.5, 2.5, -2.5, 0.25, -0.25, 4.0, -4.0, 5.0, 10.0]


def _intersect(ivs, lo, hi):
    out = []
    for a, b in ivs:
        a2, b2 = max(a, lo), min(b, hi)
        if a2 < b2:
            out.append((a2, b2))
    return out


def _cut(ivs, c, margin):
    out = []
    for a, b in ivs:
        if c + margin <= a or c - margin >= b:
            out.append((a, b))
            continue
        if a < c - margin:
            out.append((a, c - margin))
        if c + margin < b:
            out.append((c + margin, b))
    return out


def _inside(ivs, v):
    return any(a <= v <= b for a, b in ivs)


# ---------------------------------------------------------------------------
# reference tables (independent of nthderiv): name -> spec
# ---------------------------------------------------------------------------

def _mp_psi(m):
    return lambda x: mpmath.psi(m, x)


def _hyperu_poly(m, b, x):
    """U(-m, b, x) for an integer m >= 0: the finite sum DLMF 13.2.7 (exact, also at the zeros of the polynomial)"""
    return (-1) ** m * mpmath.fsum(mpmath.binomial(m, k) * mpmath.rf(b + k, m - k) * (-x) ** k for k in range(m + 1))


def _mp_hyperu(a, b):
    c = 1 + a - b         # exact for the dyadic parameter grid

    def f(x):
        if a <= 0 and a == round(a):
            return _hyperu_poly(int(round(-a)), mpf(b), x)
        if c <= 0 and c == round(c):
            # Kummer transformation U(a, b, x) = x^(1-b) U(1+a-b, 2-b, x)
            return x ** (1 - mpf(b)) * _hyperu_poly(int(round(-c)), 2 - mpf(b), x)
        try:
            return mpmath.hyperu(a, b, x)
        except ValueError:
            # mpmath's hypsum cannot certify a 1F1 term that is EXACTLY zero (e.g. U(2, 2.5, 1/2) = 2): tell it
            # below which magnitude a term may be taken as zero (far below the working precision)
            return mpmath.hyperu(a, b, x, zeroprec=6 * mp.prec)
    return f


def _np_polygamma(m):
    return lambda x: scipy.special.polygamma(m, x)


def _np_hyperu(a, b):
    return lambda x: scipy.special.hyperu(a, b, x)


# mp: extras -> mp function;  np: extras -> NumPy/SciPy function (order 0);  range: magnitude restriction;
# holes: (singular point, margin);  cap: highest n per tier;  slow: reference is expensive
def _S(mpf_, npf, rng=None, holes=(), cap=(10, 16), tol=1e-9, slow=False, extras=None, maxel=4):
    return dict(mp=(mpf_ if extras else (lambda f=mpf_: f)), np=(npf if extras else (lambda f=npf: f)), range=rng,
                holes=list(holes), cap={'quick': cap[0], 'thorough': cap[1]}, tol=tol, slow=slow, extras=extras, maxel=maxel)


_POLES = [(-float(k), 0.1) for k in range(0, 8)]

SMOOTH = {
    'exp': _S(mpmath.exp, np.exp),
    'exp2': _S(lambda x: mpf(2) ** x, np.exp2),
    'expm1': _S(mpmath.expm1, np.expm1),
    'log': _S(mpmath.log, np.log),
    'log2': _S(lambda x: mpmath.log(x) / mpmath.log(2), np.log2),
    'log10': _S(lambda x: mpmath.log(x) / mpmath.log(10), np.log10),
    'log1p': _S(mpmath.log1p, np.log1p),
    'sqrt': _S(mpmath.sqrt, np.sqrt),
    'square': _S(lambda x: x * x, np.square),
    'negative': _S(lambda x: -x, np.negative),
    'reciprocal': _S(lambda x: 1 / x, np.reciprocal, holes=[(0.0, 0.05)]),
    'sin': _S(mpmath.sin, np.sin),
    'cos': _S(mpmath.cos, np.cos),
    'tan': _S(mpmath.tan, np.tan, rng=(-1.3, 1.3)),          # only exported when algopy sees mpmath
    'arcsin': _S(mpmath.asin, np.arcsin, cap=(10, 10)),
    'arccos': _S(mpmath.acos, np.arccos, cap=(10, 10)),
    'arctan': _S(mpmath.atan, np.arctan),
    'sinh': _S(mpmath.sinh, np.sinh),
    'cosh': _S(mpmath.cosh, np.cosh),
    'tanh': _S(mpmath.tanh, np.tanh, rng=(-3.0, 3.0)),       # only exported when algopy sees mpmath
    'arcsinh': _S(mpmath.asinh, np.arcsinh),
    'arccosh': _S(mpmath.acosh, np.arccosh),
    'arctanh': _S(mpmath.atanh, np.arctanh),
    'erf': _S(mpmath.erf, scipy.special.erf, rng=(-3.0, 3.0)),
    'erfi': _S(mpmath.erfi, scipy.special.erfi, rng=(-3.0, 3.0)),
    'gammaln': _S(mpmath.loggamma, scipy.special.gammaln, rng=(0.05, 8.0), slow=True, cap=(10, 14), maxel=2),
    'psi': _S(_mp_psi(0), scipy.special.psi, rng=(-4.9, 6.0), holes=_POLES, slow=True, cap=(10, 14), maxel=2),
    'polygamma': _S(_mp_psi, _np_polygamma, rng=(-4.9, 6.0), holes=_POLES, slow=True, cap=(10, 14), extras='polygamma', maxel=2),
    'hyperu': _S(_mp_hyperu, _np_hyperu, rng=(0.1, 5.0), slow=True, cap=(7, 12), tol=1e-7, extras='hyperu', maxel=2),
}

# piecewise constant / linear: name -> (NumPy function of order 0, jump class)
PIECEWISE = {
    'rint': (np.rint, 'half'),
    'fix': (np.fix, 'int0'),
    'floor': (np.floor, 'int'),
    'ceil': (np.ceil, 'int'),
    'trunc': (np.trunc, 'int0'),
    'sign': (np.sign, 'zero'),
    'absolute': (np.absolute, 'zero'),
    'clip': (None, 'bounds'),
}
UTILITY = {'np_filled_like'}

HYPERU_A = [0.5, 1, 1.5, 2, 2.5, 3, 1.0, 0.25]
# U(a, b, x) is defined for every real a: negative non-integers (the sign of the rising factorial (a)_n matters) and
# negative integers (polynomial case, (a)_n = 0 for n > -a)
HYPERU_A_NEG = [-0.5, -1.5, -2.5, -0.25, -0.75, -1.25, -1, -2, -3, -1.0]
HYPERU_B = [0.5, 0.75, 1, 1.5, 2, 2.5, 3.25, 1.0, -0.5]
POLYGAMMA_M = st.one_of(st.integers(0, 4), st.integers(0, 12), st.sampled_from([15, 20]))

# within-case cross calls: a second function with the same signature and a compatible domain that is evaluated at the
# same (x, n) in the same case, before or after the function of the bucket, and checked against ITS reference as well
# (state shared between functions - e.g. a coefficient cache keyed by n only - shows up deterministically)
SIBLING = {
    'erf': 'erfi', 'erfi': 'erf', 'sin': 'cos', 'cos': 'sin', 'sinh': 'cosh', 'cosh': 'sinh',
    'arcsin': 'arccos', 'arccos': 'arcsin', 'log': 'log2', 'log2': 'log10', 'log10': 'log',
    'exp': 'expm1', 'expm1': 'exp2', 'exp2': 'exp', 'arctan': 'arcsinh', 'arcsinh': 'arctan',
    'sqrt': 'log', 'square': 'negative', 'negative': 'square', 'arctanh': 'arcsin',
}


def exported_names():
    return list(_ndmod.__all__)


def _fn(name):
    return getattr(algopy.nthderiv, name)


def _admissible(name):
    """intervals (from the DECLARED domain of the function object) and the special points inside them"""
    spec = SMOOTH[name]
    dom = getattr(_fn(name), 'domain', None)
    dname = getattr(dom, '__name__', None)
    if dname not in DOMAIN_IVS:
        return None, None, dname
    ivs = list(DOMAIN_IVS[dname])
    if spec['range']:
        ivs = _intersect(ivs, *spec['range'])
    for c, m in spec['holes']:
        ivs = _cut(ivs, c, m)
    specials = [v for v in SPECIAL_POINTS if _inside(ivs, v)]
    return ivs, specials, dname


def covered(name):
    if name in SMOOTH:
        return hasattr(algopy.nthderiv, name) and _admissible(name)[0] is not None
    return (name in PIECEWISE or name in UTILITY) and hasattr(algopy.nthderiv, name)


# ---------------------------------------------------------------------------
# the oracle
# ---------------------------------------------------------------------------

@functools.lru_cache(maxsize=None)
def _ref(name, extras, x, n):
    """n-th derivative of the reference function at the binary64 point x, as mpf (45 digits)"""
    old = mp.dps
    mp.dps = DPS
    try:
        f = SMOOTH[name]['mp'](*extras)
        try:
            v = mpmath.diff(f, mpf(x), n) if n else f(mpf(x))
        except (ValueError, ZeroDivisionError, mpmath.libmp.NoConvergence):
            return None          # the oracle cannot decide -> the case is counted as inconclusive
        if isinstance(v, mpmath.mpc):
            if v.imag != 0:
                return None
            v = v.real
        return v
    finally:
        mp.dps = old


def _elements(x):
    return [float(v) for v in np.asarray(x, dtype=float).ravel()]


def _call(name, extras, x, n, use_out):
    f = _fn(name)
    args = list(extras) + [x]
    if use_out:
        out = np.full(np.shape(x), np.nan)
        ret = guard(f, *args, out=out, n=n)
        return ret, out
    return guard(f, *args, n=n), None


def _as_real_array(v, what):
    a = np.asarray(v)
    if a.dtype.kind not in 'fciub':
        raise Violation('%s: result has dtype %s' % (what, a.dtype))
    return a


def _scale(name, extras, v, n, ref):
    """error scale of one element: the magnitude of the result, or of its change under a relative perturbation of
    the argument (|x f^(n+1)(x)|: conditioning of the mathematical problem; it dominates where factorially large
    pole terms cancel, e.g. odd orders of psi at negative half-integers, arctan^(16) at x = 1), at least 1"""
    nxt = _ref(name, extras, v, n + 1)
    if ref is None or nxt is None or not mpmath.isfinite(ref) or not mpmath.isfinite(nxt):
        raise Inconclusive('non-finite reference')
    return max(1.0, float(abs(ref)), abs(v) * float(abs(nxt)))


def _check_values(what, got, refs, scale_fn, shape, tol, stats):
    """got: returned object; refs: list of mpf per element (row-major); scale_fn(k): conditioning-aware scale of
    element k (needs the reference of order n+1: only evaluated when the plain test against max(1, |ref|) fails)"""
    a = _as_real_array(got, what)
    if a.shape != tuple(shape):
        raise Violation('%s: result has shape %s, argument has shape %s' % (what, a.shape, tuple(shape)))
    flat = a.ravel()
    for k, ref in enumerate(refs):
        if ref is None or not mpmath.isfinite(ref):
            raise Inconclusive('non-finite reference')
        g = flat[k]
        gi = complex(g).imag
        gr = float(complex(g).real)
        if not np.isfinite(gr) or not np.isfinite(gi):
            raise Violation('%s: element %d is %r, reference %s' % (what, k, g, mpmath.nstr(ref, 17)))
        abs_err = max(float(abs(mpf(gr) - ref)), abs(gi))
        scale = max(1.0, float(abs(ref)))
        if abs_err > 1e-3 * tol * scale:
            # noticeable error: measure it in the conditioning-aware scale (costs the reference of order n + 1)
            scale = scale_fn(k)
        err = abs_err / scale
        stats.err(err)
        if err > tol:
            raise Violation('%s: element %d is %r, reference %s (error %.2e relative to %.3e = max(1, |ref|, |x f^(n+1)(x)|), tol %.0e)'
                            % (what, k, g, mpmath.nstr(ref, 17), err, scale, tol))


def _same(a, b):
    a = np.asarray(a)
    b = np.asarray(b)
    return a.shape == b.shape and bool(np.all((a == b) | ((a != a) & (b != b))))


def _what(case):
    x = case['x']
    xs = repr(x.tolist()) if isinstance(x, np.ndarray) else repr(float(x))
    ex = ''.join('%r, ' % (e,) for e in case['extras'])
    return 'nthderiv.%s(%s%s%s, n=%d)' % (case['f'], ex, ('array(%s)' % xs) if isinstance(x, np.ndarray) else xs,
                                          ', out=..' if case['out'] else '', case['n'])


def _note_steering(case, stats):
    for kfid, cnt in sorted((case.get('steered') or {}).items()):
        for _ in range(int(cnt)):
            stats.exclude(kfid)


def prop_smooth(case, stats):
    try:
        _prop_smooth(case, stats)
    except Inconclusive as e:
        stats.event('inconclusive:%s:n=%d:x=%s:%s' % (case['f'], case['n'], _elements(case['x']), case['extras']))
        raise


def _prop_smooth(case, stats):
    name, n, x = case['f'], int(case['n']), case['x']
    extras = tuple(case['extras'])
    spec = SMOOTH[name]
    what = _what(case)
    _note_steering(case, stats)
    f = _fn(name)
    if not np.all(f.domain(x)):
        raise RuntimeError('generator produced a point outside the declared domain: %s' % what)
    cross = case.get('cross')
    sib_ret = None
    if cross and cross['first']:
        sib_ret = guard(_fn(cross['f']), x, n=n)
    ret, out = _call(name, extras, x, n, case['out'])
    if cross and not cross['first']:
        sib_ret = guard(_fn(cross['f']), x, n=n)
    with mp.workdps(DPS):
        els = _elements(x)
        refs = [_ref(name, extras, v, n) for v in els]
        def scale_fn(k):
            return _scale(name, extras, els[k], n, refs[k])
        _check_values(what, ret, refs, scale_fn, np.shape(x), spec['tol'], stats)
        if out is not None:
            _check_values(what + ' [contents of out]', out, refs, scale_fn, np.shape(x), spec['tol'], stats)
        if cross:
            sname = cross['f']
            srefs = [_ref(sname, (), v, n) for v in els]
            def sscale_fn(k):
                return _scale(sname, (), els[k], n, srefs[k])
            swhat = 'nthderiv.%s(x, n=%d) evaluated %s %s' % (sname, n, 'before' if cross['first'] else 'after', what)
            _check_values(swhat, sib_ret, srefs, sscale_fn, np.shape(x), SMOOTH[sname]['tol'], stats)
    if n == 0:
        # order 0 is the function itself
        direct = spec['np'](*extras)(x)
        if not _same(ret, direct):
            raise Violation('%s: order 0 returned %r, the NumPy/SciPy function gives %r' % (what, ret, direct))


def prop_piecewise(case, stats):
    name, n, x = case['f'], int(case['n']), case['x']
    extras = tuple(case['extras'])
    what = _what(case)
    xa = np.asarray(x, dtype=float)
    if name == 'clip':
        lo, hi = extras
        f0 = np.clip(xa, lo, hi)
        d1 = ((xa > lo) & (xa < hi)).astype(float)
    else:
        f0 = PIECEWISE[name][0](xa)
        d1 = np.sign(xa) if name == 'absolute' else np.zeros_like(xa)
    if n == 0:
        ref = f0
    elif n == 1:
        ref = d1
    else:
        ref = np.zeros_like(xa)
    ret, out = _call(name, extras, x, n, case['out'])
    for label, got in ((what, ret), (what + ' [contents of out]', out)):
        if got is None:
            continue
        a = _as_real_array(got, label)
        if a.shape != xa.shape:
            raise Violation('%s: result has shape %s, argument has shape %s' % (label, a.shape, xa.shape))
        if not np.array_equal(a, ref):
            raise Violation('%s: got %r, expected %r' % (label, a.tolist(), ref.tolist()))


def prop_filled(case, stats):
    x, v = case['x'], case['v']
    what = 'nthderiv.np_filled_like(%r, %r%s)' % (x.tolist() if isinstance(x, np.ndarray) else x, v, ', out=..' if case['out'] else '')
    f = _fn('np_filled_like')
    ref = np.full(np.shape(x), float(v))
    if case['out']:
        out = np.full(np.shape(x), np.nan)
        ret = guard(f, x, v, out)
        pairs = ((what, ret), (what + ' [contents of out]', out))
    else:
        ret = guard(f, x, v)
        pairs = ((what, ret),)
    for label, got in pairs:
        a = np.asarray(got)
        if a.shape != ref.shape or not np.array_equal(a.astype(float), ref):
            raise Violation('%s: got %r, expected an array of shape %s filled with %r' % (label, a.tolist(), ref.shape, v))


# ---------------------------------------------------------------------------
# generators
# ---------------------------------------------------------------------------

FORMS = ['pyfloat', 'np64', 'arr0', 'arr1', 'arr1', 'arr2']


def _build(form, vals, shape):
    if form == 'pyfloat':
        return float(vals[0])
    if form == 'np64':
        return np.float64(vals[0])
    if form == 'arr0':
        return np.array(float(vals[0]))
    return np.array(vals, dtype=float).reshape(shape)


@st.composite
def _form_and_shape(draw, maxel):
    form = draw(st.sampled_from(FORMS))
    if form == 'arr1':
        shape = (draw(st.integers(1, maxel)),)
    elif form == 'arr2':
        shape = draw(st.sampled_from([s for s in [(2, 2), (1, 2), (2, 1), (1, 3), (1, 1)] if s[0] * s[1] <= max(maxel, 2)]))
    else:
        shape = ()
    return form, shape


def _point(ivs, specials):
    s = st.one_of(*[gen.nice_floats(a, b) for a, b in ivs])
    # both ends of the admissible set (= the declared domain with its margins): the end points themselves and the
    # outermost 5 % of the whole range
    lo, hi = ivs[0][0], ivs[-1][1]
    w = 0.05 * (hi - lo)
    ends = st.one_of(st.sampled_from([lo, hi]), gen.nice_floats(lo, min(lo + w, ivs[0][1])), gen.nice_floats(max(hi - w, ivs[-1][0]), hi))
    if specials:
        return st.one_of(s, s, s, st.sampled_from(specials), st.sampled_from(specials), ends)
    return st.one_of(s, s, s, s, ends)


def _order(nmax):
    # orders >= 2 (where the closed forms differ from each other) twice as likely
    return st.one_of(st.integers(0, nmax), st.integers(min(2, nmax), nmax), st.integers(min(2, nmax), nmax))


@st.composite
def smooth_cases(draw, name, tier):
    spec = SMOOTH[name]
    ivs, specials, _ = _admissible(name)
    n = draw(_order(spec['cap'][tier]))
    if spec['extras'] == 'polygamma':
        extras = [draw(POLYGAMMA_M)]
    elif spec['extras'] == 'hyperu':
        extras = [draw(st.one_of(st.sampled_from(HYPERU_A), st.sampled_from(HYPERU_A_NEG))), draw(st.sampled_from(HYPERU_B))]
    else:
        extras = []
    form, shape = draw(_form_and_shape(spec['maxel']))
    cnt = int(np.prod(shape, dtype=int))
    pt = _point(ivs, specials)
    vals = [draw(pt) for _ in range(cnt)]
    steered = {}
    if name in ('erf', 'erfi') and n >= 2 and KF.is_open(KF_ERF0):
        # open known finding: NaN at exactly x == 0 for n >= 2; steer around exactly that point
        for k, v in enumerate(vals):
            if v == 0.0:
                vals[k] = draw(st.sampled_from([0.5, -0.5, 1e-3, -1e-3, 0.25, 1.0]))
                steered[KF_ERF0] = steered.get(KF_ERF0, 0) + 1
    if name == 'hyperu' and n >= 1 and KF.is_open(KF_HYPERU):
        # open known finding: scipy.special.hyperu(a+n, b+n, x) is NaN for integer b, large n and small x; steer around
        # exactly the points where SciPy (not algopy) cannot evaluate the shifted function: move x to the right
        a, b = extras
        for k, v in enumerate(vals):
            w = v
            while not np.isfinite(scipy.special.hyperu(a + n, b + n, w)) and w < 8.0:
                w = w + 1.0
            if w != v:
                vals[k] = w
                steered[KF_HYPERU] = steered.get(KF_HYPERU, 0) + 1
    case = {'f': name, 'n': n, 'extras': extras, 'form': form, 'x': _build(form, vals, shape), 'out': draw(st.booleans())}
    if steered:
        case['steered'] = steered
    sib = SIBLING.get(name)
    if sib and covered(sib) and n <= SMOOTH[sib]['cap'][tier] and draw(st.booleans()):
        sivs = _admissible(sib)[0]
        if all(_inside(sivs, v) for v in vals):
            case['cross'] = {'f': sib, 'first': draw(st.booleans())}
    return case


@st.composite
def piecewise_cases(draw, name, tier):
    jump = PIECEWISE[name][1]
    nmax = 10 if tier == 'quick' else 16
    if name in ('clip', 'absolute'):
        # the first derivative is the only non-trivial one here (indicator of the interval / sign): make it frequent
        n = draw(st.one_of(st.just(1), st.integers(0, nmax), st.integers(2, nmax)))
    else:
        n = draw(_order(nmax))
    form, shape = draw(_form_and_shape(4))
    cnt = int(np.prod(shape, dtype=int))
    extras = []
    lo = hi = None
    if name == 'clip':
        # a_min <= a_max (a_min > a_max is inadmissible); negative, zero and positive bounds; ints and floats;
        # now and then the degenerate interval a_min == a_max
        lo = draw(st.one_of(st.integers(-5, 4), gen.nice_floats(-5.0, 4.0)))
        if draw(st.integers(0, 7)) == 0:
            hi = lo
        else:
            hi = lo + draw(st.one_of(st.integers(1, 4), gen.nice_floats(0.5, 4.0)))
        extras = [lo, hi]
    k_int = st.integers(-5, 5)
    if n == 0:
        # every point, jumps included
        cands = [gen.nice_floats(-8.5, 8.5), k_int.map(float), k_int.map(lambda k: k + 0.5), st.sampled_from([0.0, -0.0])]
        if name == 'clip':
            cands.append(st.sampled_from([float(lo), float(hi)]))
        pt = st.one_of(*cands)
    elif jump == 'int':
        pt = st.builds(lambda k, u: k + u, k_int, gen.nice_floats(0.05, 0.95))
    elif jump == 'int0':
        pt = st.one_of(st.builds(lambda k, u: k + u, k_int, gen.nice_floats(0.05, 0.95)), st.just(0.0))
    elif jump == 'half':
        pt = st.one_of(st.builds(lambda k, u: k + u, k_int, gen.nice_floats(-0.45, 0.45)), k_int.map(float))
    elif jump == 'zero':
        pt = st.one_of(gen.nice_floats(0.05, 5.0), gen.nice_floats(-5.0, -0.05), st.sampled_from([1.0, -1.0, 0.5, -0.5, 2.0]))
    else:   # clip: below, inside, above; distance >= 0.05 from both bounds
        def place(ru):
            region, u = ru
            if region == 0:
                return lo - 0.05 - 2 * u
            if region == 1 and hi > lo:
                return lo + 0.05 + u * (hi - lo - 0.1)
            return hi + 0.05 + 2 * u
        pt = st.tuples(st.sampled_from([1, 0, 2, 1]), gen.nice_floats(0.0, 1.0)).map(place)
    vals = [draw(pt) for _ in range(cnt)]
    return {'f': name, 'n': n, 'extras': extras, 'form': form, 'x': _build(form, vals, shape), 'out': draw(st.booleans())}


@st.composite
def filled_cases(draw, tier):
    form, shape = draw(_form_and_shape(4))
    cnt = int(np.prod(shape, dtype=int))
    vals = [draw(gen.nice_floats(-5.0, 5.0)) for _ in range(cnt)]
    v = draw(st.one_of(st.integers(-3, 3), gen.nice_floats(-5.0, 5.0)))
    return {'f': 'np_filled_like', 'n': 0, 'extras': [], 'form': form, 'x': _build(form, vals, shape), 'v': v,
            'out': draw(st.booleans())}


def _classes(case):
    n = case['n']
    c = ['n=%02d' % n, 'form=' + case['form'], 'out=' + ('yes' if case['out'] else 'no')]
    el = _elements(case['x'])
    if any(v == 0 for v in el):
        c.append('x-has-0')
    if any(v == round(2 * v) / 2 for v in el):
        c.append('x-has-special-point')
    if any(v < 0 for v in el):
        c.append('x-has-negative')
    for e in case['extras']:
        c.append('extra-type=' + type(e).__name__)
    if case['f'] == 'polygamma':
        c.append('m=%02d' % case['extras'][0])
    if case['f'] == 'hyperu':
        a, b = case['extras']
        c.append('hyperu:a=%s' % ('negative-integer' if (a < 0 and a == round(a)) else ('negative-non-integer' if a < 0 else 'positive')))
        if a < 0:
            c.append('hyperu:a=%g' % a)
        c.append('hyperu:b=%s' % ('negative' if b < 0 else ('integer' if b == round(b) else 'positive-non-integer')))
        if a < 0 and n >= 1:
            neg = sum(1 for j in range(n) if a + j < 0)
            c.append('hyperu:a<0:n>=1:%s-number-of-negative-factors' % ('odd' if neg % 2 else 'even'))
    if case['f'] in SMOOTH and covered(case['f']):
        ivs = _admissible(case['f'])[0]
        lo_, hi_ = ivs[0][0], ivs[-1][1]
        if any(v < 0 for v in el):
            c.append('dom:%s:x<0' % case['f'])
        if any(v <= lo_ + 0.1 * (hi_ - lo_) for v in el):
            c.append('dom:%s:lowest-tenth' % case['f'])
        if any(v >= hi_ - 0.1 * (hi_ - lo_) for v in el):
            c.append('dom:%s:highest-tenth' % case['f'])
    if case.get('cross'):
        c.append('cross:%s:%s' % (case['cross']['f'], 'first' if case['cross']['first'] else 'after'))
    if case['f'] == 'clip':
        lo, hi = case['extras']
        c.append('clip:bounds:%s' % ('degenerate' if lo == hi else ('both-negative' if hi < 0 else ('both-positive' if lo > 0 else 'straddle-0'))))
        for v in el:
            c.append('clip:n%s:%s' % ('0' if n == 0 else ('1' if n == 1 else '>=2'),
                                      'at-bound' if v in (lo, hi) else ('below' if v < lo else ('above' if v > hi else 'inside'))))
    if any(v != round(2 * v) / 2 for v in el):
        c.append('x-has-generic-point')
    for kfid in sorted(case.get('steered') or {}):
        c.append('steered-around-' + kfid)
    return c


def _nontrivial(case):
    return case['n'] >= 2


# ---------------------------------------------------------------------------

def buckets(tier):
    bl = []
    for name in exported_names():
        if not covered(name):
            continue
        if name in SMOOTH:
            slow = SMOOTH[name]['slow']
            bl.append(Bucket(name, (lambda name=name: smooth_cases(name, tier)), prop_smooth,
                             {'quick': (10 if name == 'hyperu' else 20) if slow else 120, 'thorough': 60 if slow else 1500},
                             nontrivial=_nontrivial, classes=_classes,
                             shards={'quick': (8 if name == 'hyperu' else 4) if slow else 1, 'thorough': 12 if slow else 2},
                             weight=60.0 if slow else 1.0))
        elif name in PIECEWISE:
            bl.append(Bucket(name, (lambda name=name: piecewise_cases(name, tier)), prop_piecewise,
                             {'quick': 120, 'thorough': 3000}, nontrivial=_nontrivial, classes=_classes, weight=0.2))
        else:
            bl.append(Bucket(name, (lambda: filled_cases(tier)), prop_filled, {'quick': 60, 'thorough': 1000},
                             nontrivial=(lambda case: False), classes=_classes, weight=0.1))
    return bl


def extra_evidence(tier):
    names = exported_names()
    unc = {}
    for nme in names:
        if covered(nme):
            continue
        if not hasattr(algopy.nthderiv, nme):
            unc[nme] = 'listed in __all__ but not an attribute of algopy.nthderiv'
        elif nme in SMOOTH:
            unc[nme] = 'declared domain %r is not one this check can draw points from' % (_admissible(nme)[2],)
        else:
            unc[nme] = 'no reference function in the table of this check'
    doms = {}
    for nme in names:
        if nme in SMOOTH and covered(nme):
            ivs, _, dname = _admissible(nme)
            doms[nme] = {'declared': dname, 'points_from': [list(iv) for iv in ivs]}
    return {
        'names_exported': names,
        'names_covered': [nme for nme in names if covered(nme)],
        'uncovered_names': unc,
        'mpmath_visible_to_algopy': bool(getattr(_ndmod, 'mpmath', None)),
        'n_caps': {nme: SMOOTH[nme]['cap'][tier] for nme in names if nme in SMOOTH and covered(nme)},
        'tolerances': {nme: SMOOTH[nme]['tol'] for nme in names if nme in SMOOTH and covered(nme)},
        'point_domains': doms,
        'reference_digits': DPS,
    }
