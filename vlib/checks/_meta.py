"""Shared machinery of the metamorphic program checks C11 (direction independence), C12 (truncation invariance)
and C14 (operands never modified / aliasing)."""
import numpy as np
from hypothesis import strategies as st

import algopy
from algopy import UTPM, CGraph, Function

from ..runner import Violation, Inconclusive, Rejected, guard, KF
from .. import gen
from .. import prog as PG

FWD_FAMILIES = PG.FAMILIES_ALL + PG.FAMILIES_FWD_ONLY
FWD_SINGLE = ['un', 'kink', 'special', 'unp', 'unfwd', 'bin', 'bcast', 'binc', 'pow', 'powreg', 'neg', 'abs', 'minmax', 'get', 'T', 'reshape', 'buf', 'set',
              'rmw', 'sum', 'prod', 'trace', 'dot', 'dotc', 'dotnd', 'outer', 'inv', 'solve', 'det', 'logdet', 'expm', 'qr', 'chol', 'eigh',
              'svd', 'svdfull', 'lu', 'fft', 'tile', 'diag', 'tri', 'symvec', 'vecsym', 'cplx', 'bufdet', 'umax', 'iop', 'solvec', 'shift', 'rpowc', 'eighraw']
REV_SINGLE = ['un', 'kink', 'special', 'unp', 'bin', 'bcast', 'binc', 'pow', 'neg', 'get', 'T', 'reshape', 'buf', 'set', 'rmw', 'sum', 'prod', 'trace',
              'dot', 'dotc', 'outer', 'inv', 'solve', 'det', 'logdet', 'qr', 'chol', 'eigh', 'svd', 'lu', 'fft', 'tile', 'diag',
              'symvec', 'vecsym', 'cplx', 'bufdet']
CHEAP_TAIL = ['un', 'bin', 'binc', 'neg', 'get']


def utpm_inputs(case, D=None, dirs=None, alt=None):
    """UTPM input data per program input.  Direction p has base point pts[1+p] and higher coefficients hi[:,p];
    ``D`` truncates, ``dirs`` selects directions, ``alt`` = q replaces direction q by the alternative curve."""
    out = []
    D0, P0 = case['D'], case['P']
    for i, p in enumerate(case['pts']):
        data = np.zeros((D0, P0) + p.shape[1:])
        data[0] = p[1:1 + P0]
        if D0 > 1:
            data[1:] = case['hi'][i]
        if alt is not None:
            data[0, alt] = p[0]
            if D0 > 1:
                data[1:, alt] = case['althi'][i]
        if D is not None:
            data = data[:D]
        if dirs is not None:
            data = data[:, dirs]
        out.append(np.array(data))
    return out


def run_direct(case, datas):
    return PG.run(case['prog'], [UTPM(d.copy()) for d in datas])


def reg_data(v):
    """coefficient data of a register value (UTPM) or None for non-UTPM values"""
    return v.data if isinstance(v, UTPM) else None


def opname(case, i):
    n = len(case['pts'])
    return 'input' if i < n else case['prog'][i - n][0] + (':' + str(case['prog'][i - n][1]) if case['prog'][i - n][0] in ('un', 'unp', 'bin', 'binc', 'minmax', 'tri') else '')


def close(got, ref, tol, what, stats, per_order=False):
    if per_order and ref.ndim >= 1 and ref.shape == got.shape:
        for d in range(ref.shape[0]):
            close(got[d], ref[d], tol, what + ' [order %d]' % d, stats)
        return
    if got.shape != ref.shape:
        raise Violation('%s: shape %s vs %s' % (what, got.shape, ref.shape))
    if ref.size == 0:
        return
    if not np.all(np.isfinite(ref)):
        raise Inconclusive('non-finite reference')
    scale = max(1.0, float(np.max(np.abs(ref))))
    d = np.abs(got - ref)
    e = float(np.max(d)) / scale if np.all(np.isfinite(got)) else float('inf')
    stats.err(min(e, 1.0))
    if e > tol:
        i = np.unravel_index(int(np.argmax(np.where(np.isfinite(d), d, np.inf))), ref.shape)
        raise Violation('%s: entry %s is %.15g vs %.15g (rel. %.2e)' % (what, tuple(int(k) for k in i),
                                                                      float(np.real(got[i])), float(np.real(ref[i])), e))


def record_nd(case):
    cg = CGraph()
    try:
        fins = [Function(np.array(p[0], dtype=float)) for p in case['pts']]
        regs = PG.run(case['prog'], fins)
    finally:
        cg.trace_off()
    cg.independentFunctionList = fins
    cg.dependentFunctionList = [regs[case['out']]]
    return cg, fins, regs


def reverse(case, cg, fins, datas, ybar):
    """one forward + one reverse sweep on the recorded graph; returns input adjoint data list"""
    cg.pushforward([UTPM(d.copy()) for d in datas])
    y = cg.dependentFunctionList[0].x
    if not isinstance(y, UTPM) or y.data.shape != ybar.shape:
        raise Inconclusive('output shape does not match the seed')
    cg.pullback([UTPM(ybar.copy())])
    return [np.array(f.xbar.data) for f in fins]


def _guard_reverse(*a):
    try:
        return guard(reverse, *a)
    except Violation as v:
        if "has no attribute 'pb_" in str(v):
            raise Rejected(str(v)[:200])
        raise


@st.composite
def meta_cases(draw, tier, first=None, families=None, max_len=6, reverse_mode=False, Dmax=None, Pmin=1, Dmin=1, growth=False, Dlist=None):
    allow_bcast = (not reverse_mode) or (not KF.is_open('KF-setitem-broadcast-reverse'))
    fams = families
    if fams is None:
        fams = PG.FAMILIES_ALL if reverse_mode else FWD_FAMILIES
    pr = draw(PG.programs(n_inputs=(1, 2), max_len=max_len, min_len=1, families=fams, out='any', K=4,
                          allow_set_broadcast=allow_bcast, first=first, allow_ones=not reverse_mode, raw_vectors=False,
                          kinks_ok=not reverse_mode))
    case = dict(pr)
    if Dmax is None:
        Dmax = (4 if reverse_mode else 7) if tier == 'quick' else (6 if reverse_mode else 10)
    D = draw(st.sampled_from([d for d in ([10, 9, 10, 8, 6] if growth else [4, 3, 5, 6, 7, 2, 1, 8, 9, 10]) if Dmin <= d <= Dmax]))
    if Dlist:
        D = draw(st.sampled_from(list(Dlist)))
    P = draw(st.sampled_from([p for p in [2, 3, 1] if p >= Pmin]))
    case['D'], case['P'] = D, P
    case['hi'] = [draw(gen.higher_coeffs((D - 1, P) + p.shape[1:], gen.coeff_elements(1.0))) for p in pr['pts']]
    if growth and D >= 3:
        # wide dynamic range: coefficient k scaled by g^k (bilinear operations only; magnitudes up to ~1e18)
        g = draw(st.sampled_from([100.0, 1000.0, 100.0, 30.0]))
        for h in case['hi']:
            for k in range(h.shape[0]):
                h[k] *= g ** (k + 1)
        case['growth'] = g
    case['althi'] = [draw(gen.float_array((D - 1,) + p.shape[1:], gen.coeff_elements(1.0))) for p in pr['pts']]
    case['q'] = draw(st.integers(0, P - 1))
    if reverse_mode:
        oshape = np.shape(PG.run(pr['prog'], [np.array(p[0], dtype=float) for p in pr['pts']])[pr['out']])
        case['ybar'] = draw(gen.float_array((D, P) + tuple(oshape), gen.nice_floats(-1.0, 1.0), sparse=False))
    return case


def base_classes(case):
    c = ['D=%d' % case['D'], 'P=%d' % case['P']]
    c += PG.features(case)
    for ins in case['prog'][:1]:
        c.append('first=' + ins[0])
    return c
