"""C17 - conversions between representations are lossless and mutually inverse.

Oracles: element-by-element index models written from the docstrings (no transposes / reshapes shared with
the implementation), bit-wise comparison of round trips, an independent permutation model for LAPACK pivot
vectors (row swaps replayed on the identity, sign from the cycle decomposition), exact rational determinants.
"""
import itertools
from fractions import Fraction

import numpy as np
import scipy.linalg
from hypothesis import strategies as st
from hypothesis.extra import numpy as hnp

import algopy
from algopy import UTPM
from algopy import utils as autils

from ..runner import Bucket, Violation, Inconclusive, guard, KF
from .. import gen

PID = 'C17'

PIV_NMAX = 7          # all pivot vectors with piv[i] in [i, N), N <= PIV_NMAX, are enumerated in EVERY run (both tiers)

RULE = ('one bucket per conversion pair; cases = plain-data descriptors (coefficient arrays of dtype float64 / int64 / '
        'complex128 incl. -0.0, container kind list|object-ndarray, storage convention F|L|U, shift s in -D..D, slices, '
        'block sizes) drawn by Hypothesis, D <= 6, P <= 4, rank <= 3; round trips are compared BIT-wise after a NumPy '
        '"safe" cast of the original to the result dtype (a result dtype that cannot hold the input, e.g. float64 for '
        'complex128, is a loss = violation).  Pivots: every vector with piv[i] in [i,N) for N <= %d enumerated '
        'exhaustively each run (one bucket per N, counts in pivot_vectors_enumerated), random vectors for N <= 10 and '
        'scipy.linalg.lu_factor outputs of generated matrices (well conditioned, pivot forcing, integer with ties, '
        'singular).  Non-trivial: conversions with coefficient rank >= 2 or P >= 2 (containers: rank-2 container or '
        'non-scalar elements or P >= 2); pivots with N >= 3 and a non-identity permutation; distinct by descriptor hash'
        % PIV_NMAX)

ASSUMPTIONS = [
    'utpm2base_and_dirs keeps only the base point of direction 0 (its docstring: x.shape == shp): the UTPM -> (x,V) -> UTPM '
    'round trip is asserted for UTPMs whose directions share one base point (constructed so); utpm2dirs has no such restriction',
    'symvec(A, "F") of a non-symmetric A is the element-wise mean 0.5*(A[r,c]+A[c,r]) (docstring example 2); for integer '
    'dtype only symmetric A are generated for "F" (the mean of two integers need not be an integer)',
    'the distinct entries are ordered row-wise over the upper triangle (docstring example 1 of symvec, docstring of vecsym)',
    'dtype: the result must be able to hold the input (numpy.can_cast(in, out, "safe")); int64 -> float64 is accepted '
    '(the repository tests do exactly that), complex128 -> float64 is a loss',
    'combine_blocks / as_utpm / ndarray2utpm: all elements of one container have the same D, P (and, for as_utpm, shape)',
    'coeff_op: sl is a tuple of slices applied to .data (leading axes D, P included), shp a shape of the same size with >= 2 axes',
    'pivot convention of LAPACK getrf / scipy.linalg.lu_factor: row i was exchanged with row piv[i], i ascending, piv[i] >= i',
    'determinant reference: exact rational arithmetic (Fractions) on the binary64 entries; tolerance 1e-10 x Hadamard bound',
    'shift(s) for |s| <= D only (the statement: s in -D..D)',
]

# ---------------------------------------------------------------------------
# known findings: ids used for steering
# ---------------------------------------------------------------------------
KF_AS_UTPM_COMPLEX = 'KF-as_utpm-complex'
KF_SHIFT_ZERO = 'KF-shift-zero'
KF_ND2UTPM_RANK2 = 'KF-ndarray2utpm-rank2'
KF_ND2UTPM_ELEM = 'KF-ndarray2utpm-elemshape'
KF_VECSYM_COMPLEX = 'KF-vecsym-utpm-complex'
KF_BD_COMPLEX = 'KF-base_and_dirs-complex'      # utpm2base_and_dirs and base_and_dirs2utpm (a round trip needs both)
KF_COMBINE_COMPLEX = 'KF-combine_blocks-complex'
KF_COMBINE_LIST = 'KF-combine_blocks-list'
KF_COMBINE_MIXED_D = 'KF-combine_blocks-mixed-D'   # a block with fewer coefficients than the result: replicated (D_block = 1) or ValueError
KF_MIXED_DTYPE = 'KF-container-mixed-dtype'      # as_utpm / ndarray2utpm take the dtype of the FIRST element for the whole result


def _note_steered(case, stats):
    for k in case.get('steered', ()) or ():
        stats.exclude(k)


# ---------------------------------------------------------------------------
# comparison helpers (harness code: never inside guard)
# ---------------------------------------------------------------------------

def _same_bits(got, ref, what, signed_zero=True):
    """got must hold ref losslessly: safe-castable dtype, equal shape, equal bytes after the cast
    (signed_zero=False: -0.0 == +0.0, for results of arithmetic: complex 0.5*(z+z) does not keep the sign of a zero part)"""
    got = np.asarray(got)
    ref = np.asarray(ref)
    if got.dtype == object:
        raise Violation('%s: result has dtype object' % what)
    if got.shape != ref.shape:
        raise Violation('%s: shape %s, expected %s' % (what, got.shape, ref.shape))
    if not np.can_cast(ref.dtype, got.dtype, 'safe'):
        raise Violation('%s: result dtype %s cannot hold the %s input (information lost)' % (what, got.dtype, ref.dtype))
    r = np.ascontiguousarray(ref.astype(got.dtype))
    g = np.ascontiguousarray(got)
    if g.tobytes() != r.tobytes():
        neq = ~(g == r)
        if signed_zero:
            neq |= np.signbit(g.real) != np.signbit(r.real)
            if g.dtype.kind == 'c':
                neq |= np.signbit(g.imag) != np.signbit(r.imag)
        if not neq.any():       # NaN payloads etc. - not generated; treat as equal
            return
        pos = tuple(int(i) for i in np.argwhere(neq)[0]) if g.ndim else ()
        raise Violation('%s: entry %s is %r, expected %r (bit-wise comparison; %d of %d entries differ)'
                        % (what, pos, g[pos].item(), r[pos].item(), int(neq.sum()), g.size))


def _no_alias(result, sources, what):
    """converters that build a new array: the result must not share memory with any argument array"""
    result = np.asarray(result)
    for src in sources:
        if isinstance(src, np.ndarray) and src.dtype != object and result.size and src.size and np.shares_memory(result, src):
            raise Violation('%s shares memory with its argument (the two representations are not independent)' % what)


def _bits_equal(a, b):
    """same shape/dtype assumed; bit-wise, except for (c)longdouble whose 16-byte items contain unused padding bytes"""
    if a.dtype.kind in 'fc' and a.dtype.itemsize // (2 if a.dtype.kind == 'c' else 1) > 8:
        ok = bool(np.all(a == b)) and bool(np.all(np.signbit(a.real) == np.signbit(b.real)))
        if a.dtype.kind == 'c':
            ok = ok and bool(np.all(np.signbit(a.imag) == np.signbit(b.imag)))
        return ok
    return np.ascontiguousarray(a).tobytes() == np.ascontiguousarray(b).tobytes()


def _repeatable(call, arrays, what):
    """results of SEPARATE calls with equal arguments are independent: ``call()`` builds fresh, equal arguments and converts them;
    ``arrays(result)`` lists the result's ndarrays.  The first result is overwritten in place (what a caller does with
    ``W[...] = W @ L``); the second call must return the same values as the first one did, in memory of its own."""
    r1 = arrays(call())
    keep = [np.array(a, copy=True) for a in r1]
    for a in r1:
        if isinstance(a, np.ndarray) and a.size and a.flags.writeable:
            a.fill(7)
    r2 = arrays(call())
    if len(r2) != len(keep):
        raise Violation('%s: a second call returns a different number of arrays' % what)
    for k, (a2, a1, k1) in enumerate(zip(r2, r1, keep)):
        a2 = np.asarray(a2)
        if a2.shape != k1.shape or a2.dtype != k1.dtype or not _bits_equal(a2, k1):
            raise Violation('%s: after the result of a first call was overwritten in place, a second call with equal arguments returns '
                            'different values (result %d): %r, first call gave %r' % (what, k, a2.tolist(), k1.tolist()))
        if isinstance(a1, np.ndarray) and a1.size and np.shares_memory(a2, a1):
            raise Violation('%s: the results of two separate calls share memory' % what)


def _is_utpm(y, what):
    if not isinstance(y, UTPM):
        raise Violation('%s returned %s, not a UTPM' % (what, type(y).__name__))
    return y


# ---------------------------------------------------------------------------
# value strategies
# ---------------------------------------------------------------------------

def _felem():
    return st.one_of(
        st.sampled_from([0.0, -0.0, 1.0, -1.0, 0.5, 3.0]),
        st.integers(-24, 24).map(lambda k: k / 8.0),
        gen.nice_floats(-4.0, 4.0),
        st.floats(-1e6, 1e6, allow_nan=False, allow_infinity=False, allow_subnormal=False, width=64),
    )


@st.composite
def _arr(draw, shape, kind):
    """ndarray of the given dtype kind ('f','i','c'); every entry drawn (no two equal by construction of fill)"""
    shape = tuple(int(s) for s in shape)
    if kind == 'i':
        return draw(hnp.arrays(np.int64, shape, elements=st.integers(-9, 9), fill=st.nothing()))
    if kind == 'f':
        return draw(hnp.arrays(np.float64, shape, elements=_felem(), fill=st.nothing()))
    if kind == 'f4':        # float32: dyadic values, exactly representable
        return draw(hnp.arrays(np.float32, shape, elements=st.integers(-64, 64).map(lambda k: k / 8.0), fill=st.nothing()))
    re = draw(hnp.arrays(np.float64, shape, elements=_felem(), fill=st.nothing()))
    im = draw(hnp.arrays(np.float64, shape, elements=_felem(), fill=st.nothing()))
    return re + 1j * im


def _kind():
    return st.sampled_from(['f', 'f', 'f', 'i', 'c', 'c'])


def _steer_kind(kind, kfids, steered):
    """complex is steered to float while one of the given findings is open"""
    if kind == 'c':
        hit = [k for k in kfids if KF.is_open(k)]
        if hit:
            steered.extend(hit)
            return 'f'
    return kind


_DP = gen.dims(Dmax=6, Pmax=4)


# ---------------------------------------------------------------------------
# memory layouts: the same values and shape on a different buffer ("all shapes ... and values" includes the layout)
# ---------------------------------------------------------------------------

def _lay(a, layout, perm=None):
    """array with the values and shape of ``a`` (any dtype, also object) laid out as requested:
    C  C-contiguous copy                      F  Fortran-ordered copy
    T  transposed view of a C-contiguous buffer (what ``.T`` of a freshly built array is)
    perm  view of a C buffer whose axes are stored in the order ``perm``
    strided  every second entry (per axis) of a larger buffer        reversed  negative strides on every axis"""
    a = np.asarray(a)
    if layout == 'C' or a.ndim == 0 or a.size == 0:
        return np.array(a, order='C', copy=True)
    if layout == 'F':
        return np.array(a, order='F', copy=True)
    if layout == 'T':
        return np.array(a.T, order='C', copy=True).T
    if layout == 'perm':
        perm = [int(i) for i in perm]
        return np.array(a.transpose(perm), order='C', copy=True).transpose([int(i) for i in np.argsort(perm)])
    if layout == 'strided':
        big = np.zeros(tuple(2 * n for n in a.shape), dtype=a.dtype)
        v = big[tuple(slice(None, None, 2) for _ in a.shape)]
        v[...] = a
        return v
    if layout == 'reversed':
        sl = tuple(slice(None, None, -1) for _ in a.shape)
        return np.array(a[sl], order='C', copy=True)[sl]
    raise KeyError(layout)


def _lay_case(case, a, key='layout'):
    return _lay(a, case.get(key) or 'C', case.get(key + '_perm'))


@st.composite
def _draw_layout(draw, case, ndim, key='layout', perm=True):
    """adds case[key] (and case[key+'_perm']); layouts that coincide with C for the given rank are recorded as C"""
    lay = draw(st.sampled_from(['C', 'C', 'F', 'T', 'T', 'perm', 'strided', 'reversed'] if perm else
                               ['C', 'C', 'F', 'T', 'T', 'strided', 'reversed']))
    if ndim < 2 and lay in ('F', 'T', 'perm'):
        lay = 'C'
    if ndim < 1:
        lay = 'C'
    case[key] = lay
    if lay == 'perm':
        case[key + '_perm'] = list(draw(st.permutations(list(range(ndim)))))
    return lay


def _layout_classes(case, key='layout'):
    return ['%s=%s' % (key, case.get(key) or 'C')]


@st.composite
def _mix_add(draw, shape, base_kind):
    """an increment of a WIDER dtype for one element / block: non-integers for integer data, imaginary parts for real data"""
    shape = tuple(int(n) for n in shape)
    if base_kind == 'i':
        a = draw(hnp.arrays(np.float64, shape, elements=st.integers(-8, 8).map(lambda k: k / 4.0), fill=st.nothing()))
        a.flat[0] = 0.5
        return a
    a = draw(hnp.arrays(np.float64, shape, elements=st.integers(-8, 8).map(lambda k: k / 4.0), fill=st.nothing()))
    a.flat[0] = 1.0
    return 1j * a


def _apply_mix(full, sl, add):
    """expected result when the part ``sl`` of ``full`` got the wider-dtype increment ``add``"""
    out = full.astype(np.result_type(full.dtype, add.dtype))
    out[sl] = out[sl] + add
    return out


def _dtype_classes(a):
    return ['dtype=' + str(np.asarray(a).dtype)]


# ---------------------------------------------------------------------------
# 1. base point + directions  <->  UTPM
# ---------------------------------------------------------------------------

def _model_b2u(x, V):
    """element-by-element: data[0,p,idx] = x[idx]; data[d+1,p,idx] = V[idx][p][d]"""
    x = np.asarray(x)
    V = np.asarray(V)
    P, D = V.shape[-2:]
    out = np.zeros((D + 1, P) + x.shape, dtype=np.result_type(x.dtype, V.dtype))
    for p in range(P):
        for idx in np.ndindex(*x.shape):
            out[(0, p) + idx] = x[idx]
            for d in range(D):
                out[(d + 1, p) + idx] = V[idx + (p, d)]
    return out


def prop_b2u_u2b(case, stats):
    """(x, V) -> UTPM -> (x, V)"""
    _note_steered(case, stats)
    x, V = case['x'], case['V']
    if case.get('x_longdouble'):
        x = x.astype(np.longdouble)
    if case.get('V_longdouble'):
        V = V.astype(np.longdouble)
    xin, Vin = _lay_case(case, x), _lay_case(case, V)
    if case.get('as_list'):
        xin, Vin = xin.tolist(), Vin.tolist()
    u = _is_utpm(guard(autils.base_and_dirs2utpm, xin, Vin), 'base_and_dirs2utpm')
    P, D = V.shape[-2:]
    _same_bits(u.data, _model_b2u(x, V), 'base_and_dirs2utpm(x,V).data')
    _no_alias(u.data, [a for a in (xin, Vin) if isinstance(a, np.ndarray)], 'base_and_dirs2utpm(x,V).data')
    x2, V2 = guard(autils.utpm2base_and_dirs, u)
    _no_alias(x2, [u.data], 'utpm2base_and_dirs(u)[0]')
    _no_alias(V2, [u.data], 'utpm2base_and_dirs(u)[1]')
    _same_bits(x2, x, 'utpm2base_and_dirs(base_and_dirs2utpm(x,V))[0]')
    _same_bits(V2, V, 'utpm2base_and_dirs(base_and_dirs2utpm(x,V))[1]')
    Vbar = guard(autils.utpm2dirs, u)
    _same_bits(Vbar[..., 1:], V, 'utpm2dirs(base_and_dirs2utpm(x,V))[...,1:]')

    def again():
        a, b = _lay_case(case, x), _lay_case(case, V)
        if case.get('as_list'):
            a, b = a.tolist(), b.tolist()
        return guard(autils.base_and_dirs2utpm, a, b)
    _repeatable(again, lambda r: [r.data], 'base_and_dirs2utpm(x,V)')


@st.composite
def b2u_cases(draw):
    steered = []
    # base point and directions get their dtypes independently: complex/real, real/complex, int/float, float32/float64, longdouble
    pair = draw(st.sampled_from([('f', 'f'), ('f', 'f'), ('f', 'f'), ('i', 'i'), ('c', 'c'), ('f4', 'f4'),
                                 ('c', 'f'), ('c', 'f'), ('c', 'i'), ('f', 'c'), ('i', 'c'), ('i', 'f'), ('f', 'i'), ('f4', 'f'), ('f', 'f4'), ('c', 'f4')]))
    kind = _steer_kind(pair[0], [KF_BD_COMPLEX], steered)
    Vkind = _steer_kind(pair[1], [KF_BD_COMPLEX], steered)
    shape = draw(gen.shapes(max_rank=3, max_side=3))
    P = draw(st.sampled_from([1, 2, 2, 3, 4]))
    D = draw(st.sampled_from([0, 1, 1, 2, 2, 3, 4, 5]))
    x = draw(_arr(shape, kind))
    V = draw(_arr(tuple(shape) + (P, D), Vkind))
    as_list = kind == 'f' and Vkind == 'f' and D > 0 and draw(st.integers(0, 4)) == 0
    case = {'x': x, 'V': V, 'as_list': as_list, 'steered': steered}
    if not as_list and kind == 'f' and draw(st.sampled_from([False] * 5 + [True])):
        case['x_longdouble'] = True
    if not as_list and Vkind == 'f' and draw(st.sampled_from([False] * 7 + [True])):
        case['V_longdouble'] = True
    if as_list:
        case['layout'] = 'C'
    else:
        draw(_draw_layout(case, V.ndim, perm=False))      # x and V get the same kind of layout (x may be of rank 0, 1)
    return case


def _nt_b2u(case):
    return case['x'].ndim >= 2 or case['V'].shape[-2] >= 2


def _cl_b2u(case):
    V = case['V']
    xd = 'longdouble' if case.get('x_longdouble') else str(case['x'].dtype)
    Vd = 'longdouble' if case.get('V_longdouble') else str(V.dtype)
    return (['P=%d' % V.shape[-2], 'D=%d' % (V.shape[-1] + 1), 'rank=%d' % case['x'].ndim, 'dtypes(x,V)=%s,%s' % (xd, Vd),
             'x,V-dtypes-%s' % ('equal' if xd == Vd else 'mixed')] + _dtype_classes(V) + _layout_classes(case))


def prop_u2b_b2u(case, stats):
    """UTPM (one base point) -> (x, V) -> UTPM"""
    _note_steered(case, stats)
    data = case['data']
    if case.get('longdouble'):
        data = data.astype(np.longdouble)
    D, P = data.shape[:2]
    shp = data.shape[2:]
    u = UTPM(_lay_case(case, data))
    x, V = guard(autils.utpm2base_and_dirs, u)
    x = np.asarray(x)
    V = np.asarray(V)
    if x.shape != shp or V.shape != shp + (P, D - 1):
        raise Violation('utpm2base_and_dirs: shapes %s, %s; expected %s, %s' % (x.shape, V.shape, shp, shp + (P, D - 1)))
    # element-by-element model of the docstring
    _same_bits(x, data[0, 0], 'utpm2base_and_dirs(u)[0]')
    Vm = np.zeros(shp + (P, D - 1), dtype=data.dtype)
    for idx in np.ndindex(*shp):
        for p in range(P):
            for d in range(1, D):
                Vm[idx + (p, d - 1)] = data[(d, p) + idx]
    _same_bits(V, Vm, 'utpm2base_and_dirs(u)[1]')
    # the two representations are independent: x, V are new arrays (the unchanged code allocates them with numpy.zeros) ...
    _no_alias(x, [u.data], 'utpm2base_and_dirs(u)[0]')
    _no_alias(V, [u.data], 'utpm2base_and_dirs(u)[1]')
    u2 = _is_utpm(guard(autils.base_and_dirs2utpm, x, V), 'base_and_dirs2utpm')
    _same_bits(u2.data, data, 'base_and_dirs2utpm(*utpm2base_and_dirs(u)).data')
    _no_alias(u2.data, [x, V], 'base_and_dirs2utpm(x,V).data')
    if not _bits_equal(np.asarray(u.data), data):
        raise Violation('utpm2base_and_dirs modified its argument')
    # ... so updating the extracted base point / directions in place (x += step) leaves u untouched, and the round trip from
    # copies taken before the update still reproduces u
    xc, Vc = x.copy(), V.copy()
    if x.flags.writeable and V.flags.writeable:
        x[...] = x + 1
        V[...] = V * 2 + 1
    if not _bits_equal(np.asarray(u.data), data):
        raise Violation('an in-place update of the arrays returned by utpm2base_and_dirs(u) changed u.data')
    u3 = _is_utpm(guard(autils.base_and_dirs2utpm, xc, Vc), 'base_and_dirs2utpm')
    _same_bits(u3.data, data, 'base_and_dirs2utpm(copies of x, V) after the in-place update')
    # and the other way round: overwriting u afterwards does not reach the (already extracted) copies
    x4, V4 = guard(autils.utpm2base_and_dirs, u)
    keep = (np.array(x4, copy=True), np.array(V4, copy=True))
    if u.data.flags.writeable:
        u.data[...] = 0
        if not _bits_equal(np.asarray(x4), keep[0]) or not _bits_equal(np.asarray(V4), keep[1]):
            raise Violation('overwriting u after utpm2base_and_dirs(u) changed the returned arrays')
    _repeatable(lambda: guard(autils.utpm2base_and_dirs, UTPM(_lay_case(case, data))), lambda r: [np.asarray(r[0]), np.asarray(r[1])],
                'utpm2base_and_dirs(u)')


@st.composite
def u2b_cases(draw):
    steered = []
    kind = _steer_kind(draw(st.sampled_from(['f', 'f', 'f', 'i', 'c', 'c', 'f4'])), [KF_BD_COMPLEX], steered)
    D, P = draw(_DP)
    shape = draw(gen.shapes(max_rank=3, max_side=3))
    data = draw(_arr((D, P) + tuple(shape), kind))
    data[0, :] = data[0, 0]          # one base point shared by all directions (precondition of the (x,V) format)
    case = {'data': data, 'steered': steered}
    if kind == 'f' and draw(st.sampled_from([False] * 5 + [True])):
        case['longdouble'] = True
    draw(_draw_layout(case, data.ndim))
    return case


def _nt_data(case):
    d = case['data']
    return d.ndim - 2 >= 2 or d.shape[1] >= 2


def _cl_data(case):
    d = case['data']
    return (['D=%d' % d.shape[0], 'P=%d' % d.shape[1], 'rank=%d' % (d.ndim - 2)] + (['dtype=longdouble'] if case.get('longdouble') else _dtype_classes(d))
            + _layout_classes(case))


def prop_utpm2dirs(case, stats):
    data = case['data']
    D, P = data.shape[:2]
    shp = data.shape[2:]
    u = UTPM(_lay_case(case, data))
    Vbar = np.asarray(guard(autils.utpm2dirs, u))
    if Vbar.shape != shp + (P, D):
        raise Violation('utpm2dirs: shape %s, expected %s' % (Vbar.shape, shp + (P, D)))
    m = np.zeros(shp + (P, D), dtype=data.dtype)
    for idx in np.ndindex(*shp):
        for p in range(P):
            for d in range(D):
                m[idx + (p, d)] = data[(d, p) + idx]
    _same_bits(Vbar, m, 'utpm2dirs(u)')
    if Vbar.dtype != data.dtype:
        raise Violation('utpm2dirs: dtype %s, input %s' % (Vbar.dtype, data.dtype))


@st.composite
def utpm2dirs_cases(draw):
    D, P = draw(_DP)
    shape = draw(gen.shapes(max_rank=3, max_side=3))
    case = {'data': draw(_arr((D, P) + tuple(shape), draw(_kind())))}
    draw(_draw_layout(case, case['data'].ndim))
    return case


# ---------------------------------------------------------------------------
# 2. symvec / vecsym
# ---------------------------------------------------------------------------

def _model_symvec(A, uplo):
    """A: (..., N, N) ndarray; distinct entries row-wise over the upper triangle"""
    N = A.shape[-1]
    cols = []
    for r in range(N):
        for c in range(r, N):
            if uplo == 'F':
                m = 0.5 * (A[..., r, c] + A[..., c, r])
                if A.dtype.kind == 'i':         # integer A are generated symmetric for 'F': the mean is the entry itself
                    assert np.array_equal(m, A[..., r, c])
                    m = A[..., r, c]
                cols.append(m)
            elif uplo == 'U':
                cols.append(A[..., r, c])
            else:
                cols.append(A[..., c, r])
    return np.stack(cols, axis=-1)


def _model_vecsym(v, N):
    A = np.zeros(v.shape[:-1] + (N, N), dtype=v.dtype)
    k = 0
    for r in range(N):
        for c in range(r, N):
            A[..., r, c] = v[..., k]
            A[..., c, r] = v[..., k]
            k += 1
    return A


_SYM_ENTRY = {
    'global': (lambda A, u: algopy.symvec(A, u), lambda v: algopy.vecsym(v)),
    'global-kw': (lambda A, u: algopy.symvec(A, UPLO=u), lambda v: algopy.vecsym(v)),
    'class': None,   # filled per operand kind below
}


def _sym_calls(entry, is_utpm):
    if entry == 'class':
        if is_utpm:
            return (lambda A, u: UTPM.symvec(A, UPLO=u)), (lambda v: UTPM.vecsym(v))
        return (lambda A, u: autils.symvec(A, UPLO=u)), (lambda v: autils.vecsym(v))
    return _SYM_ENTRY[entry]


def prop_symvec(case, stats):
    """A -> v -> A -> v, ndarray or UTPM operand"""
    _note_steered(case, stats)
    A = case['A']               # (N,N) or (D,P,N,N)
    uplo = case['uplo']
    is_utpm = case['operand'] == 'utpm'
    symvec, vecsym = _sym_calls(case['entry'], is_utpm)
    N = A.shape[-1]
    wrap = (lambda a: UTPM(_lay_case(case, a))) if is_utpm else (lambda a: _lay_case(case, a))
    unwrap = (lambda y, what: _is_utpm(y, what).data) if is_utpm else (lambda y, what: np.asarray(y))
    Ain = wrap(A)
    if uplo is None:            # default argument: fully populated
        v = guard(lambda a: (algopy.symvec(a)), Ain)
        uplo = 'F'
    else:
        v = guard(symvec, Ain, uplo)
    vd = unwrap(v, 'symvec')
    _no_alias(vd, [Ain.data if is_utpm else Ain], 'symvec(A)')
    vm = _model_symvec(A, uplo)
    sz = uplo != 'F'            # 'F' computes 0.5*(a+b): exact, but complex arithmetic does not keep the sign of a zero part
    _same_bits(vd, vm, 'symvec(A,%r)' % uplo, signed_zero=sz)
    B = guard(vecsym, v)
    Bd = unwrap(B, 'vecsym')
    _no_alias(Bd, [vd], 'vecsym(v)')
    _same_bits(Bd, _model_vecsym(vd, N), 'vecsym(v) for v = symvec(A,%r)' % uplo)
    _same_bits(Bd, _model_vecsym(vm, N), 'vecsym(symvec(A,%r))' % uplo, signed_zero=sz)
    if case['symmetric']:
        _same_bits(Bd, A, 'vecsym(symvec(A,%r)) for symmetric A' % uplo, signed_zero=sz)
    # the other direction: every convention reads the same vector back from the symmetric matrix
    for u2 in ('F', 'L', 'U'):
        v2 = guard(symvec, B, u2)
        _same_bits(unwrap(v2, 'symvec'), vd, 'symvec(vecsym(v),%r)' % u2, signed_zero=(u2 != 'F'))
    ref = A.tobytes()
    now = (Ain.data if is_utpm else Ain).tobytes()
    if ref != now:
        raise Violation('symvec modified its argument')
    arr = (lambda r: [r.data]) if is_utpm else (lambda r: [np.asarray(r)])
    _repeatable(lambda: guard(symvec, wrap(A), uplo), arr, 'symvec(A,%r)' % uplo)
    _repeatable(lambda: guard(vecsym, guard(symvec, wrap(A), uplo)), arr, 'vecsym(v)')


def prop_vecsym(case, stats):
    """v -> A -> v starting from an arbitrary vector of N(N+1)/2 entries"""
    _note_steered(case, stats)
    v = case['v']               # (M,) or (D,P,M)
    is_utpm = case['operand'] == 'utpm'
    symvec, vecsym = _sym_calls(case['entry'], is_utpm)
    N = case['N']
    vin = UTPM(_lay_case(case, v)) if is_utpm else _lay_case(case, v)
    A = guard(vecsym, vin)
    Ad = _is_utpm(A, 'vecsym').data if is_utpm else np.asarray(A)
    _same_bits(Ad, _model_vecsym(v, N), 'vecsym(v)')
    for u2 in ('F', 'L', 'U'):
        w = guard(symvec, A, u2)
        wd = _is_utpm(w, 'symvec').data if is_utpm else np.asarray(w)
        _same_bits(wd, v, 'symvec(vecsym(v),%r)' % u2, signed_zero=(u2 != 'F'))
    _repeatable(lambda: guard(vecsym, UTPM(_lay_case(case, v)) if is_utpm else _lay_case(case, v)),
                (lambda r: [r.data]) if is_utpm else (lambda r: [np.asarray(r)]), 'vecsym(v)')


@st.composite
def symvec_cases(draw, operand):
    steered = []
    kind = draw(_kind())
    if operand == 'utpm':
        kind = _steer_kind(kind, [KF_VECSYM_COMPLEX], steered)
    N = draw(st.sampled_from([1, 2, 2, 3, 3, 4, 5]))
    uplo = draw(st.sampled_from(['F', 'F', 'L', 'U', None]))
    lead = draw(_DP) if operand == 'utpm' else ()
    A = draw(_arr(tuple(lead) + (N, N), kind))
    eff = 'F' if uplo is None else uplo
    # symmetry structure: none / every coefficient / ONLY the zeroth coefficient (all directions) / only the higher ones
    struct = draw(st.sampled_from(['none', 'all', 'base-only', 'base-only', 'base-only', 'higher-only'] if operand == 'utpm' and lead[0] >= 2
                                  else ['none', 'all']))
    if kind == 'i' and eff == 'F':
        struct = 'all'
    iu = np.triu_indices(N, 1)
    A = A.copy()
    if struct == 'all':
        A[..., iu[1], iu[0]] = A[..., iu[0], iu[1]]      # lower triangle := upper triangle, bit for bit
    elif struct == 'base-only':
        A[0][..., iu[1], iu[0]] = A[0][..., iu[0], iu[1]]
    elif struct == 'higher-only':
        A[1:][..., iu[1], iu[0]] = A[1:][..., iu[0], iu[1]]
    symmetric = struct == 'all'
    entry = draw(st.sampled_from(['global', 'global-kw', 'class']))
    case = {'A': A, 'uplo': uplo, 'operand': operand, 'entry': entry, 'symmetric': bool(symmetric), 'symstruct': struct, 'steered': steered}
    draw(_draw_layout(case, A.ndim, perm=(operand == 'utpm')))
    return case


@st.composite
def vecsym_cases(draw, operand):
    steered = []
    kind = draw(_kind())
    if operand == 'utpm':
        kind = _steer_kind(kind, [KF_VECSYM_COMPLEX], steered)
    N = draw(st.sampled_from([1, 2, 2, 3, 3, 4, 5, 6]))
    lead = draw(_DP) if operand == 'utpm' else ()
    v = draw(_arr(tuple(lead) + (N * (N + 1) // 2,), kind))
    entry = draw(st.sampled_from(['global', 'class']))
    case = {'v': v, 'N': N, 'operand': operand, 'entry': entry, 'steered': steered}
    draw(_draw_layout(case, v.ndim, perm=(operand == 'utpm')))
    return case


def _nt_sym(case):
    a = case['A'] if 'A' in case else case['v']
    N = case['A'].shape[-1] if 'A' in case else case['N']
    return N >= 2 and (case['operand'] == 'ndarray' or a.shape[1] >= 2 or N >= 3)


def _cl_sym(case):
    a = case['A'] if 'A' in case else case['v']
    N = case['A'].shape[-1] if 'A' in case else case['N']
    c = ['N=%d' % N, 'operand=' + case['operand'], 'entry=' + case['entry']] + _dtype_classes(a) + _layout_classes(case)
    if 'A' in case:
        c += ['uplo=%s' % case['uplo'], 'symmetric=%s' % case['symmetric'], 'symstruct=%s' % case.get('symstruct', 'n/a')]
    if case['operand'] == 'utpm':
        c += ['D=%d' % a.shape[0], 'P=%d' % a.shape[1]]
    return c


# ---------------------------------------------------------------------------
# 3. nested containers of UTPM  <->  one UTPM
# ---------------------------------------------------------------------------

def _build_container(case):
    data = case['data']
    cshape = tuple(case['cshape'])
    pre = (slice(None), slice(None))
    # elements: own contiguous data, or (elem_view) non-contiguous views into one big coefficient array
    base = (lambda idx: UTPM(data[pre + idx])) if case.get('elem_view') else (lambda idx: UTPM(data[pre + idx].copy()))
    mix = case.get('mix')

    def elem(idx):
        if mix is not None and tuple(mix['idx']) == tuple(idx):
            return UTPM(data[pre + idx] + mix['add'])          # ONE element of a wider dtype (int -> float, real -> complex)
        return base(idx)
    if case['kind'] == 'objarr':
        c = np.empty(cshape, dtype=object)
        for idx in np.ndindex(*cshape):
            c[idx] = elem(idx)
        # the object container itself in the requested memory layout (C / Fortran / transposed / permuted / strided / reversed)
        return _lay_case(case, c)
    if len(cshape) == 1:
        return [elem((i,)) for i in range(cshape[0])]
    if len(cshape) == 2:
        return [[elem((i, j)) for j in range(cshape[1])] for i in range(cshape[0])]
    return [[[elem((i, j, k)) for k in range(cshape[2])] for j in range(cshape[1])] for i in range(cshape[0])]


def _flat_elems(c):
    if isinstance(c, UTPM):
        return [c]
    if isinstance(c, np.ndarray):
        return [e for e in c.ravel() if isinstance(e, UTPM)]
    out = []
    for e in c:
        out += _flat_elems(e)
    return out


def _prop_container(case, stats, fn, name):
    _note_steered(case, stats)
    data = case['data'] = np.ascontiguousarray(case['data'])
    cshape = tuple(case['cshape'])
    c = _build_container(case)
    if case.get('mix') is not None:
        data = _apply_mix(data, (slice(None), slice(None)) + tuple(case['mix']['idx']), case['mix']['add'])
    z = _is_utpm(guard(fn, c), name)
    _same_bits(z.data, data, '%s(container).data' % name)
    _no_alias(z.data, [case['data']] + [e.data for e in _flat_elems(c)], '%s(container).data' % name)
    # element-wise indexing back
    for idx in np.ndindex(*cshape):
        key = idx if len(idx) > 1 else idx[0]
        e = _is_utpm(guard(lambda k: z[k], key), '%s(...)[%s]' % (name, idx))
        _same_bits(e.data, data[(slice(None), slice(None)) + idx], '%s(container)[%s].data' % (name, ','.join(map(str, idx))))
    _repeatable(lambda: guard(fn, _build_container(case)), lambda r: [r.data], '%s(container)' % name)


def prop_as_utpm(case, stats):
    _prop_container(case, stats, UTPM.as_utpm, 'as_utpm')


def prop_ndarray2utpm(case, stats):
    _prop_container(case, stats, autils.ndarray2utpm, 'ndarray2utpm')


@st.composite
def container_cases(draw, which):
    steered = []
    kind = draw(_kind())
    if which == 'as_utpm':
        kind = _steer_kind(kind, [KF_AS_UTPM_COMPLEX], steered)
    crank = draw(st.sampled_from([1, 2, 2, 2, 3]))
    ckind = draw(st.sampled_from(['list', 'objarr']))
    eshape = tuple(draw(gen.shapes(max_rank=2, max_side=3)))
    if which == 'ndarray2utpm':
        if ckind == 'objarr' and eshape != () and KF.is_open(KF_ND2UTPM_ELEM):
            steered.append(KF_ND2UTPM_ELEM)
            eshape = ()
        # numpy sees a *list* of non-scalar UTPMs as a container of rank crank + len(eshape)
        eff_rank = crank + (len(eshape) if ckind == 'list' else 0)
        if eff_rank >= 2 and KF.is_open(KF_ND2UTPM_RANK2):
            steered.append(KF_ND2UTPM_RANK2)
            crank = 1
            if ckind == 'list':
                eshape = ()
    cshape = tuple(draw(st.lists(st.integers(1, 3), min_size=crank, max_size=crank)))
    if crank == 2 and draw(st.booleans()) and cshape[0] == cshape[1]:
        cshape = (cshape[0], cshape[1] % 3 + 1)         # non-square rank-2 containers are the informative ones for layouts
    if crank == 3:
        eshape = eshape[:1]
    D, P = draw(gen.dims(Dmax=4, Pmax=3)) if crank == 3 else draw(_DP)
    data = draw(_arr((D, P) + cshape + eshape, kind))
    case = {'data': data, 'cshape': cshape, 'kind': ckind, 'steered': steered, 'elem_view': draw(st.booleans())}
    if kind in ('i', 'f') and int(np.prod(cshape)) >= 2 and draw(st.sampled_from([False, False, True])):
        idx = tuple(draw(st.integers(0, n - 1)) for n in cshape)
        if any(idx) and KF.is_open(KF_MIXED_DTYPE):
            steered.append(KF_MIXED_DTYPE)          # a wide element that is not the first one: open finding
        else:
            case['mix'] = {'idx': idx, 'add': draw(_mix_add((D, P) + eshape, kind))}
    if ckind == 'objarr':
        draw(_draw_layout(case, crank))
    else:
        case['layout'] = 'C'
    return case


def _nt_cont(case):
    return len(case['cshape']) >= 2 or case['data'].ndim - 2 - len(case['cshape']) >= 1 or case['data'].shape[1] >= 2


def _cl_cont(case):
    d = case['data']
    cs = tuple(case['cshape'])
    return ['container=' + case['kind'], 'crank=%d' % len(cs), 'erank=%d' % (d.ndim - 2 - len(cs)),
            'container-square=%s' % (len(set(cs)) == 1), 'elem-view=%s' % bool(case.get('elem_view')),
            'element-dtypes=%s' % ('uniform' if case.get('mix') is None else ('mixed-first' if not any(case['mix']['idx']) else 'mixed-later')),
            'D=%d' % d.shape[0], 'P=%d' % d.shape[1]] + _dtype_classes(d) + _layout_classes(case)


# ---------------------------------------------------------------------------
# 4. shift
# ---------------------------------------------------------------------------

def _model_shift(x, s):
    D = x.shape[0]
    out = np.zeros_like(x)
    for d in range(D):
        if 0 <= d - s < D:
            out[d] = x[d - s]          # shift([x0,x1,x2,x3], +1) = [0,x0,x1,x2]
    return out


def prop_shift(case, stats):
    """out forms: None (default), 'fresh' (zeros_like), 'recycled' (same shape/dtype, stale non-zero contents),
    'alias-self' (out is the operand), 'alias-view' (another UTPM object on the operand's data)"""
    _note_steered(case, stats)
    x = case['x']
    s = int(case['s'])
    D = x.shape[0]
    X = UTPM(_lay_case(case, x))
    oform = case.get('out')
    if oform is None:
        out = None
    elif oform == 'fresh':
        out = UTPM(np.zeros_like(X.data))
    elif oform == 'recycled':
        out = UTPM(np.array(case['stale'], dtype=x.dtype, copy=True))
    elif oform == 'alias-self':
        out = X
    elif oform == 'alias-view':
        out = UTPM(X.data)
    else:
        raise KeyError(oform)
    if out is None:
        call = (lambda a, k: a.shift(k)) if case['form'] == 'method' else (lambda a, k: UTPM.shift(a, k))
    else:
        call = (lambda a, k: a.shift(k, out=out)) if case['form'] == 'method' else (lambda a, k: UTPM.shift(a, k, out=out))
    plain = (lambda a, k: a.shift(k)) if case['form'] == 'method' else (lambda a, k: UTPM.shift(a, k))
    y = _is_utpm(guard(call, X, s), 'shift')
    what = 'x.shift(%d%s).data' % (s, '' if oform is None else ', out=<%s>' % oform)
    if out is not None and y is not out:
        raise Violation('shift(%d, out=out) does not return out' % s)
    if y.data.dtype != x.dtype:
        raise Violation('shift: dtype %s, input %s' % (y.data.dtype, x.dtype))
    model = _model_shift(x, s)
    # the coefficients that shift(s) defines from x: orders s..D-1 for s >= 0, orders 0..D-1+s for s < 0
    lo, hi = (min(s, D), D) if s >= 0 else (0, max(D + s, 0))
    _same_bits(y.data[lo:hi], model[lo:hi], what + ' [shifted coefficients]')
    if oform in (None, 'fresh'):
        # the vacated coefficients are zero (docstring: shift(+1) = [0,x0,x1,x2], shift(-1) = [x1,x2,x3,0])
        _same_bits(y.data, model, what)
    # NOT asserted: the vacated coefficients when out held other values before the call (recycled / aliasing the operand);
    # the unchanged code leaves the previous contents of out there and no docstring or caller defines them
    z = _is_utpm(guard(plain, y, -s), 'shift')
    keep = np.zeros_like(x)
    if s >= 0:
        keep[:D - s] = x[:D - s]       # the top s coefficients were dropped by the first shift
        klo, khi = 0, D - s
    else:
        keep[-s:] = x[-s:]             # the lowest |s| coefficients were dropped
        klo, khi = -s, D
    _same_bits(z.data[klo:khi], keep[klo:khi], what[:-5] + '.shift(%d).data [retained coefficients]' % -s)
    if oform in (None, 'fresh'):
        _same_bits(z.data, keep, what[:-5] + '.shift(%d).data' % -s)
    if oform not in ('alias-self', 'alias-view'):
        if X.data.tobytes() != x.tobytes():
            raise Violation('shift modified its argument')
        if np.shares_memory(y.data, X.data):
            raise Violation('shift(%d) returns memory shared with its argument' % s)
    _repeatable(lambda: guard(plain, UTPM(_lay_case(case, x)), s), lambda r: [r.data], 'x.shift(%d)' % s)


@st.composite
def shift_cases(draw):
    steered = []
    D, P = draw(_DP)
    shape = draw(gen.shapes(max_rank=3, max_side=3))
    x = draw(_arr((D, P) + tuple(shape), draw(_kind())))
    s = draw(st.integers(-D, D))
    if s == 0 and KF.is_open(KF_SHIFT_ZERO):
        steered.append(KF_SHIFT_ZERO)
        s = draw(st.sampled_from([1, -1]))
    case = {'x': x, 's': s, 'form': draw(st.sampled_from(['method', 'class'])), 'steered': steered}
    case['out'] = draw(st.sampled_from([None, None, 'fresh', 'recycled', 'alias-self', 'alias-view']))
    if case['out'] == 'recycled':
        stale = draw(_arr(x.shape, 'i' if x.dtype.kind == 'i' else 'f'))
        case['stale'] = np.where(stale == 0, 7, stale)              # every stale coefficient is non-zero
    draw(_draw_layout(case, x.ndim))
    return case


def _nt_shift(case):
    x = case['x']
    return (x.ndim - 2 >= 2 or x.shape[1] >= 2) and 0 < abs(case['s']) < x.shape[0]


def _cl_shift(case):
    x = case['x']
    s = case['s']
    D = x.shape[0]
    sc = 's=0' if s == 0 else ('s=+-D' if abs(s) == D else ('s>0' if s > 0 else 's<0'))
    return [sc, 'out=%s' % case.get('out'), 'D=%d' % D, 'P=%d' % x.shape[1], 'rank=%d' % (x.ndim - 2)] + _dtype_classes(x) + _layout_classes(case)


# ---------------------------------------------------------------------------
# 5. coeff_op
# ---------------------------------------------------------------------------

def _model_select(x, sl):
    """element-by-element selection (C order) of x[sl] for a tuple of slices"""
    rngs = [range(*s.indices(n)) for s, n in zip(sl, x.shape)] + [range(n) for n in x.shape[len(sl):]]
    shape = tuple(len(r) for r in rngs)
    flat = [x[idx] for idx in itertools.product(*rngs)]
    return np.array(flat, dtype=x.dtype).reshape(shape) if flat else np.zeros(shape, dtype=x.dtype)


def prop_coeff_op(case, stats):
    x = case['x']
    sl = tuple(case['sl'])
    shp = tuple(case['shp'])
    X = UTPM(_lay_case(case, x))
    call = (lambda a, s, h: a.coeff_op(s, h)) if case['form'] == 'method' else (lambda a, s, h: algopy.coeff_op(a, s, h))
    y = _is_utpm(guard(call, X, sl, shp), 'coeff_op')
    sel = _model_select(x, sl)
    want = tuple(sel.size // int(-np.prod(shp)) if n == -1 else n for n in shp)
    ref = np.array(list(sel.ravel()), dtype=x.dtype).reshape(want)
    _same_bits(y.data, ref, 'coeff_op(%s,%s).data' % (sl, shp))
    if y.data.dtype != x.dtype:
        raise Violation('coeff_op: dtype %s, input %s' % (y.data.dtype, x.dtype))
    # split along the coefficient axis and glue back: nothing is lost
    k = case['split']
    D = x.shape[0]
    lo = _is_utpm(guard(call, X, (slice(0, k),), (k,) + x.shape[1:]), 'coeff_op')
    hi = _is_utpm(guard(call, X, (slice(k, D),), (D - k,) + x.shape[1:]), 'coeff_op')
    _same_bits(np.concatenate([lo.data, hi.data], axis=0), x, 'concatenate(coeff_op(:k), coeff_op(k:))')
    if X.data.tobytes() != x.tobytes():
        raise Violation('coeff_op modified its argument')


@st.composite
def coeff_op_cases(draw):
    D, P = draw(gen.dims(Dmax=6, Pmax=4, Dmin=2))
    shape = tuple(draw(gen.shapes(max_rank=2, max_side=4)))
    x = draw(_arr((D, P) + shape, draw(_kind())))
    nsl = draw(st.integers(1, x.ndim))
    sl = []
    for ax in range(nsl):
        n = x.shape[ax]
        # ':' often: a Fortran-ordered operand stays Fortran-contiguous only under slices that restrict nothing but the last axis
        form = draw(st.sampled_from(['all', 'all', 'all', 'range', 'range', 'step']))
        if form == 'all':
            sl.append(slice(None))
        elif form == 'range':
            a = draw(st.integers(0, n - 1))
            b = draw(st.integers(a + 1, n))
            sl.append(slice(a, b))
        else:
            a = draw(st.integers(0, n - 1))
            step = draw(st.sampled_from([1, 2, -1]))
            sl.append(slice(a, None, step))
    sel = tuple(len(range(*s.indices(n))) for s, n in zip(sl, x.shape)) + x.shape[nsl:]
    size = int(np.prod(sel, dtype=int))
    opts = [sel, (sel[0], size // sel[0]), (sel[0], -1), (1, size), (size, 1), sel[:2] + (-1,), sel[::-1]]
    if len(sel) >= 3:
        opts.append((sel[0] * sel[1],) + sel[2:])
    opts = [o for o in opts if len(o) >= 2]
    shp = draw(st.sampled_from(opts))
    case = {'x': x, 'sl': tuple(sl), 'shp': tuple(int(n) for n in shp), 'split': draw(st.integers(1, D - 1)),
            'form': draw(st.sampled_from(['method', 'global']))}
    draw(_draw_layout(case, x.ndim))
    return case


def _nt_coeff(case):
    x = case['x']
    return x.ndim - 2 >= 2 or x.shape[1] >= 2


def _cl_coeff(case):
    x = case['x']
    return ['nslices=%d' % len(case['sl']), 'D=%d' % x.shape[0], 'P=%d' % x.shape[1], 'rank=%d' % (x.ndim - 2),
            'reshape=%s' % ('same' if tuple(case['shp']) == _model_select(x, tuple(case['sl'])).shape else 'other')] + _dtype_classes(x) + _layout_classes(case)


# ---------------------------------------------------------------------------
# 6. combine_blocks versus block indexing
# ---------------------------------------------------------------------------

def prop_combine(case, stats):
    """blocks may differ in dtype (mix), in the number of directions (P_block = 1 stands for the same polynomial in every
    direction: broadcast over p) and - once KF-combine_blocks-mixed-D is closed - in the number of coefficients
    (D_block < D: the missing higher coefficients are zero)"""
    _note_steered(case, stats)
    data = case['data']
    rows, cols = list(case['rows']), list(case['cols'])
    r0 = [sum(rows[:i]) for i in range(len(rows) + 1)]
    c0 = [sum(cols[:j]) for j in range(len(cols) + 1)]
    blk = (lambda a: a) if case.get('elem_view') else (lambda a: a.copy())      # blocks as views of one buffer, or own data
    mix = case.get('mix')
    pone = set(tuple(t) for t in case.get('pone', ()) or ())
    dlow = dict((tuple(t[:2]), int(t[2])) for t in case.get('dlow', ()) or ())
    exp = data
    if mix is not None:
        i, j = mix['idx']
        exp = _apply_mix(data, (slice(None), slice(None), slice(r0[i], r0[i + 1]), slice(c0[j], c0[j + 1])), mix['add'])
    else:
        exp = data.copy()

    def block(i, j):
        reg = (slice(None), slice(None), slice(r0[i], r0[i + 1]), slice(c0[j], c0[j + 1]))
        if mix is not None and tuple(mix['idx']) == (i, j):
            a = data[reg] + mix['add']                         # ONE block of a wider dtype
        else:
            a = blk(data[reg])
        if (i, j) in pone:                                     # a single direction: the same polynomial in every direction
            a = a[:, :1]
            exp[reg] = exp[reg][:, :1]
        if (i, j) in dlow:                                     # fewer coefficients: the higher ones are zero
            a = a[:dlow[(i, j)]]
            exp[(slice(dlow[(i, j)], None),) + reg[1:]] = 0
        return UTPM(a)

    def build():
        blocks = [[block(i, j) for j in range(len(cols))] for i in range(len(rows))]
        if case['kind'] == 'objarr':
            arg = np.empty((len(rows), len(cols)), dtype=object)
            for i in range(len(rows)):
                for j in range(len(cols)):
                    arg[i, j] = blocks[i][j]
            return _lay_case(case, arg), blocks
        return blocks, blocks
    arg, blocks = build()
    before = [[b.data.tobytes() for b in r] for r in blocks]
    X = _is_utpm(guard(UTPM.combine_blocks, arg), 'combine_blocks')
    _same_bits(X.data, exp, 'combine_blocks(blocks).data')
    _no_alias(X.data, [data] + [b.data for r in blocks for b in r], 'combine_blocks(blocks).data')
    if before != [[b.data.tobytes() for b in r] for r in blocks]:
        raise Violation('combine_blocks modified a block')
    for i in range(len(rows)):
        for j in range(len(cols)):
            b = _is_utpm(guard(lambda a, b_: X[a, b_], slice(r0[i], r0[i + 1]), slice(c0[j], c0[j + 1])), 'getitem')
            what = 'combine_blocks(blocks)[%d:%d,%d:%d].data' % (r0[i], r0[i + 1], c0[j], c0[j + 1])
            bd = blocks[i][j].data
            Db = bd.shape[0]
            # cutting the result apart gives the block back: in every direction, on the coefficients the block has
            _same_bits(b.data[:Db], np.broadcast_to(bd, (Db,) + b.data.shape[1:]), what)
            if np.any(b.data[Db:] != 0):
                raise Violation(what + ': coefficients beyond the %d coefficients of the block are not zero' % Db)
    _repeatable(lambda: guard(UTPM.combine_blocks, build()[0]), lambda r: [r.data], 'combine_blocks(blocks)')


@st.composite
def combine_cases(draw):
    steered = []
    kind = _steer_kind(draw(_kind()), [KF_COMBINE_COMPLEX], steered)
    ckind = draw(st.sampled_from(['list', 'list', 'objarr']))
    if ckind == 'list' and KF.is_open(KF_COMBINE_LIST):
        steered.append(KF_COMBINE_LIST)
        ckind = 'objarr'
    rows = draw(st.lists(st.integers(1, 3), min_size=1, max_size=3))
    cols = draw(st.lists(st.integers(1, 3), min_size=1, max_size=3))
    D, P = draw(gen.dims(Dmax=4, Pmax=3))
    data = draw(_arr((D, P, sum(rows), sum(cols)), kind))
    case = {'data': data, 'rows': rows, 'cols': cols, 'kind': ckind, 'steered': steered, 'elem_view': draw(st.booleans())}
    if kind in ('i', 'f') and len(rows) * len(cols) >= 2 and draw(st.sampled_from([False, False, True])):
        i, j = draw(st.integers(0, len(rows) - 1)), draw(st.integers(0, len(cols) - 1))
        case['mix'] = {'idx': (i, j), 'add': draw(_mix_add((D, P, rows[i], cols[j]), kind))}
    # blocks with a single direction / fewer coefficients than the others; one block always keeps the full (D, P)
    nb = len(rows) * len(cols)
    if nb >= 2 and (D > 1 or P > 1) and draw(st.sampled_from([False, True, True])):
        allb = [(i, j) for i in range(len(rows)) for j in range(len(cols))]
        full = draw(st.sampled_from(allb))
        rest = [t for t in allb if t != full]
        if P > 1:
            case['pone'] = [list(t) for t in rest if draw(st.booleans())] or [list(draw(st.sampled_from(rest)))]
        if D > 1:
            low = [[t[0], t[1], draw(st.integers(1, D - 1))] for t in rest if draw(st.sampled_from([False, False, True]))]
            if low and KF.is_open(KF_COMBINE_MIXED_D):
                steered.append(KF_COMBINE_MIXED_D)
            elif low:
                case['dlow'] = low
    if ckind == 'objarr':
        draw(_draw_layout(case, 2, perm=False))
    else:
        case['layout'] = 'C'
    return case


def _nt_combine(case):
    return len(case['rows']) * len(case['cols']) >= 2


def _cl_combine(case):
    d = case['data']
    sq = all(r == c for r in case['rows'] for c in case['cols'])
    return (['container=' + case['kind'], 'blocks=%dx%d' % (len(case['rows']), len(case['cols'])),
             'square-blocks=%s' % sq, 'elem-view=%s' % bool(case.get('elem_view')), 'D=%d' % d.shape[0], 'P=%d' % d.shape[1],
             'block-dtypes=%s' % ('uniform' if case.get('mix') is None else 'mixed'),
             'block-P=%s' % ('mixed(1,P)' if case.get('pone') else 'uniform'), 'block-D=%s' % ('mixed' if case.get('dlow') else 'uniform')]
            + _dtype_classes(d) + _layout_classes(case))


# ---------------------------------------------------------------------------
# 7. pivot vectors
# ---------------------------------------------------------------------------

def _model_perm(piv):
    """replay the row exchanges of getrf on the identity: returns (P with A = P L U, sign of det P)"""
    N = len(piv)
    E = [[1 if i == j else 0 for j in range(N)] for i in range(N)]   # rows of the identity
    for i in range(N):
        j = int(piv[i])
        E[i], E[j] = E[j], E[i]          # E = S_{N-1} ... S_0  with  E A = L U
    Pm = np.array(E, dtype=float).reshape(N, N).T     # A = E^T L U
    # sign from the cycle decomposition of the permutation (independent of counting exchanges)
    perm = [row.index(1) for row in E] if N else []
    seen = [False] * N
    sign = 1
    for i in range(N):
        if not seen[i]:
            k, ln = i, 0
            while not seen[k]:
                seen[k] = True
                k = perm[k]
                ln += 1
            if ln % 2 == 0:
                sign = -sign
    return Pm, sign


def _check_piv(piv, what):
    """piv: list of ints; both the list form (used by the repository test) and the int32 ndarray form (lu_factor)"""
    Pm, sign = _model_perm(piv)
    for form, arg in (('list', [int(p) for p in piv]), ('int32', np.array(piv, dtype=np.int32))):
        keep = list(arg) if form == 'list' else arg.copy()
        W = np.asarray(guard(autils.piv2mat, arg))
        if W.shape != Pm.shape or not np.array_equal(W, Pm):
            raise Violation('%s piv2mat(%s as %s) =\n%s\nbut replaying the row exchanges on the identity gives\n%s'
                            % (what, list(map(int, piv)), form, W, Pm))
        sg = guard(autils.piv2det, arg)
        if np.shape(sg) != () or sg != sign:
            raise Violation('%s piv2det(%s as %s) = %r, sign of the permutation is %d' % (what, list(map(int, piv)), form, sg, sign))
        if list(arg) != list(keep):
            raise Violation('%s: pivot vector modified' % what)
        # the caller works in place on the permutation matrix (W[...] = W @ L): the next conversion of the same pivot
        # sequence must again be the permutation matrix, in memory of its own
        if isinstance(W, np.ndarray) and W.size and W.flags.writeable:
            W.fill(7)
        W2 = np.asarray(guard(autils.piv2mat, [int(p) for p in piv] if form == 'list' else np.array(piv, dtype=np.int32)))
        if W2.shape != Pm.shape or not np.array_equal(W2, Pm):
            raise Violation('%s piv2mat(%s) called again after the first result was overwritten in place returns\n%s\nexpected\n%s'
                            % (what, list(map(int, piv)), W2, Pm))
        if W.size and np.shares_memory(W, W2):
            raise Violation('%s piv2mat(%s): the results of two separate calls share memory' % (what, list(map(int, piv))))
    return Pm, sign


def all_pivots(N):
    return itertools.product(*[range(i, N) for i in range(N)])


def prop_piv_exhaustive(case, stats):
    N = case['N']
    n = 0
    for piv in all_pivots(N):
        _check_piv(piv, 'exhaustive N=%d:' % N)
        n += 1
        stats.event('pivot-vectors-checked')
    if n != int(np.prod(np.arange(1, N + 1))):
        raise AssertionError('enumeration size %d != %d!' % (n, N))


def prop_piv_random(case, stats):
    _check_piv(list(case['piv']), 'random:')


@st.composite
def piv_random_cases(draw):
    N = draw(st.integers(1, 10))
    return {'piv': [draw(st.integers(i, N - 1)) for i in range(N)]}


def prop_piv_utpm(case, stats):
    """UTPM.piv2mat / UTPM.piv2det: the pivot vectors of P directions, as UTPM.lu2 stores them (integer data (D,P,N))"""
    pivs = [list(p) for p in case['pivs']]
    D = case['D']
    P_, N = len(pivs), len(pivs[0])
    data = np.zeros((D, P_, N), dtype=int)
    data[0] = np.array(pivs, dtype=int)
    PIV = UTPM(data.copy())
    W = _is_utpm(guard(UTPM.piv2mat, PIV), 'UTPM.piv2mat')
    dt = _is_utpm(guard(UTPM.piv2det, PIV), 'UTPM.piv2det')
    if W.data.shape != (D, P_, N, N) or dt.data.shape != (D, P_):
        raise Violation('UTPM.piv2mat/piv2det: data shapes %s, %s; expected %s, %s' % (W.data.shape, dt.data.shape, (D, P_, N, N), (D, P_)))
    for p, piv in enumerate(pivs):
        Pm, sign = _model_perm(piv)
        if not np.array_equal(W.data[0, p], Pm):
            raise Violation('UTPM.piv2mat: direction %d, piv = %s gives\n%s\nexpected\n%s' % (p, piv, W.data[0, p], Pm))
        if dt.data[0, p] != sign:
            raise Violation('UTPM.piv2det: direction %d, piv = %s gives %r, expected %d' % (p, piv, dt.data[0, p].item(), sign))
    if np.any(W.data[1:] != 0) or np.any(dt.data[1:] != 0):
        raise Violation('UTPM.piv2mat/piv2det: higher-order coefficients of a constant permutation are not zero')
    if PIV.data.tobytes() != data.tobytes():
        raise Violation('UTPM.piv2mat/piv2det modified the pivot vector')
    _repeatable(lambda: guard(UTPM.piv2mat, UTPM(data.copy())), lambda r: [r.data], 'UTPM.piv2mat(PIV)')
    _repeatable(lambda: guard(UTPM.piv2det, UTPM(data.copy())), lambda r: [r.data], 'UTPM.piv2det(PIV)')


@st.composite
def piv_utpm_cases(draw):
    N = draw(st.integers(1, 7))
    P_ = draw(st.sampled_from([1, 2, 2, 3]))
    return {'pivs': [[draw(st.integers(i, N - 1)) for i in range(N)] for _ in range(P_)], 'D': draw(st.integers(1, 3))}


def _frac_det(A):
    """exact determinant of a binary64 matrix (Gaussian elimination over Fractions)"""
    n = A.shape[0]
    M = [[Fraction(float(A[i, j])) for j in range(n)] for i in range(n)]
    det = Fraction(1)
    for c in range(n):
        piv = next((r for r in range(c, n) if M[r][c] != 0), None)
        if piv is None:
            return Fraction(0)
        if piv != c:
            M[c], M[piv] = M[piv], M[c]
            det = -det
        det *= M[c][c]
        inv = 1 / M[c][c]
        for r in range(c + 1, n):
            f = M[r][c] * inv
            if f:
                M[r] = [a - f * b for a, b in zip(M[r], M[c])]
    return det


def prop_piv_lu(case, stats):
    A = case['A']
    n = A.shape[0]
    lu, piv = scipy.linalg.lu_factor(A.copy(), check_finite=False)     # harness: produces the pivot vector
    if not np.all(np.isfinite(lu)):
        raise Inconclusive('lu_factor produced non-finite factors')
    if any(not (i <= int(p) < n) for i, p in enumerate(piv)):
        raise AssertionError('lu_factor pivot convention changed: %r' % (piv,))
    Pm, sign = _check_piv([int(p) for p in piv], 'lu_factor:')
    L = np.tril(lu, -1) + np.eye(n)
    U = np.triu(lu)
    W = np.asarray(guard(autils.piv2mat, piv))
    sg = guard(autils.piv2det, piv)
    res = np.abs(W @ (L @ U) - A)
    scale = np.abs(L) @ np.abs(U)
    scale = max(1.0, float(scale.max()))
    e = float(res.max()) / scale
    stats.err(e)
    if e > 1e-12:
        raise Violation('piv2mat(piv) L U != A: max residual %.3e (relative to |L||U| = %.3g), piv = %s' % (res.max(), scale, piv.tolist()))
    hadamard = float(np.prod(np.sqrt((A * A).sum(axis=1))))
    ref = _frac_det(A)
    got = float(sg) * float(np.prod(np.diag(U)))
    err = abs(Fraction(got) - ref)
    if float(err) > 1e-10 * max(hadamard, 1e-300):
        raise Violation('det(A) = %.17g (exact rational arithmetic) but piv2det(piv) * prod(diag(U)) = %.17g, piv = %s'
                        % (float(ref), got, piv.tolist()))
    stats.err(float(err) / max(hadamard, 1e-300))


@st.composite
def piv_lu_cases(draw, tier):
    n = draw(st.sampled_from([1, 2, 3, 3, 4, 4, 5, 6] + ([7, 8] if tier == 'thorough' else [])))
    fam = draw(st.sampled_from(['pivot_forcing', 'pivot_forcing', 'well_conditioned', 'integer', 'float', 'permutation']))
    if fam == 'pivot_forcing':
        A = draw(gen.pivot_forcing(n))
    elif fam == 'well_conditioned':
        A = draw(gen.well_conditioned(n))
    elif fam == 'integer':      # ties in the pivot search, exact zeros, possibly singular
        A = draw(hnp.arrays(np.int64, (n, n), elements=st.integers(-3, 3), fill=st.nothing())).astype(float)
    elif fam == 'float':
        A = draw(gen.float_array((n, n), gen.nice_floats(-2.0, 2.0), sparse=True))
    else:                       # scaled permutation matrix plus a strictly upper part in permuted coordinates
        perm = draw(st.permutations(list(range(n))))
        dg = draw(gen.spaced_values(n, 0.5, 0.1, signs=True))
        A = np.zeros((n, n))
        for i, p in enumerate(perm):
            A[p, i] = dg[i]
    return {'A': np.ascontiguousarray(A, dtype=float), 'family': fam}


def _nt_piv_lu(case):
    A = case['A']
    if A.shape[0] < 3:
        return False
    _, piv = scipy.linalg.lu_factor(A.copy(), check_finite=False)
    return any(int(p) != i for i, p in enumerate(piv))


def _cl_piv_lu(case):
    A = case['A']
    _, piv = scipy.linalg.lu_factor(A.copy(), check_finite=False)
    nex = sum(int(p) != i for i, p in enumerate(piv))
    return ['N=%d' % A.shape[0], 'family=' + case['family'], 'exchanges=%s' % (nex if nex < 3 else '3+')]


def _nt_piv_random(case):
    piv = case['piv']
    return len(piv) >= 3 and any(p != i for i, p in enumerate(piv))


# ---------------------------------------------------------------------------

def buckets(tier):
    q = lambda a, b: {'quick': a, 'thorough': b}
    bl = [
        Bucket('base_and_dirs2utpm-utpm2base_and_dirs', b2u_cases, prop_b2u_u2b, q(250, 5000), nontrivial=_nt_b2u, classes=_cl_b2u,
               shards=q(1, 2)),
        Bucket('utpm2base_and_dirs-base_and_dirs2utpm', u2b_cases, prop_u2b_b2u, q(250, 5000), nontrivial=_nt_data, classes=_cl_data,
               shards=q(1, 2)),
        Bucket('utpm2dirs', utpm2dirs_cases, prop_utpm2dirs, q(250, 5000), nontrivial=_nt_data, classes=_cl_data, shards=q(1, 2)),
        Bucket('symvec-vecsym:ndarray', lambda: symvec_cases('ndarray'), prop_symvec, q(300, 5000), nontrivial=_nt_sym, classes=_cl_sym),
        Bucket('symvec-vecsym:utpm', lambda: symvec_cases('utpm'), prop_symvec, q(250, 2000), nontrivial=_nt_sym, classes=_cl_sym,
               shards=q(1, 3), weight=4.0),
        Bucket('vecsym-symvec:ndarray', lambda: vecsym_cases('ndarray'), prop_vecsym, q(300, 5000), nontrivial=_nt_sym, classes=_cl_sym),
        Bucket('vecsym-symvec:utpm', lambda: vecsym_cases('utpm'), prop_vecsym, q(150, 2000), nontrivial=_nt_sym, classes=_cl_sym,
               shards=q(1, 3), weight=4.0),
        Bucket('as_utpm', lambda: container_cases('as_utpm'), prop_as_utpm, q(200, 2500), nontrivial=_nt_cont, classes=_cl_cont,
               shards=q(1, 3), weight=3.0),
        Bucket('ndarray2utpm', lambda: container_cases('ndarray2utpm'), prop_ndarray2utpm, q(200, 2500), nontrivial=_nt_cont,
               classes=_cl_cont, shards=q(1, 3), weight=3.0),
        Bucket('shift', shift_cases, prop_shift, q(400, 8000), nontrivial=_nt_shift, classes=_cl_shift, shards=q(1, 2)),
        Bucket('coeff_op', coeff_op_cases, prop_coeff_op, q(250, 5000), nontrivial=_nt_coeff, classes=_cl_coeff, shards=q(1, 2)),
        Bucket('combine_blocks', combine_cases, prop_combine, q(200, 3000), nontrivial=_nt_combine, classes=_cl_combine, shards=q(1, 2)),
        Bucket('pivots-random', piv_random_cases, prop_piv_random, q(300, 5000), nontrivial=_nt_piv_random,
               classes=lambda c: ['N=%d' % len(c['piv'])]),
        Bucket('pivots-utpm', piv_utpm_cases, prop_piv_utpm, q(200, 4000),
               nontrivial=lambda c: len(c['pivs'][0]) >= 3 and any(p != i for pv in c['pivs'] for i, p in enumerate(pv)),
               classes=lambda c: ['N=%d' % len(c['pivs'][0]), 'P=%d' % len(c['pivs'])]),
        Bucket('pivots-lu_factor', lambda: piv_lu_cases(tier), prop_piv_lu, q(300, 5000), nontrivial=_nt_piv_lu, classes=_cl_piv_lu,
               shards=q(1, 4), weight=3.0),
    ]
    for N in range(1, PIV_NMAX + 1):
        bl.append(Bucket('pivots-exhaustive:N=%d' % N, (lambda N=N: st.just({'N': N})), prop_piv_exhaustive, q(1, 1),
                         nontrivial=lambda c: c['N'] >= 3, classes=lambda c: ['exhaustive-N=%d' % c['N']],
                         weight=5000.0 * (8 ** (N - PIV_NMAX))))
    return bl


def extra_evidence(tier):
    """re-run the complete pivot enumeration in the parent process and report what was actually checked there
    (the per-N buckets do the same in worker processes; their count is class_histogram['pivot-vectors-checked'])"""
    n = 0
    bad = 0
    for N in range(1, PIV_NMAX + 1):
        for piv in all_pivots(N):
            n += 1
            try:
                _check_piv(piv, '')
            except Violation:
                bad += 1
    return {
        'pivot_vectors_enumerated': n,
        'pivot_vectors_failing': bad,
        'pivot_enumeration_exhaustive_up_to_N': PIV_NMAX,
        'exhaustive_scope': 'only the pivot-vector space {piv : i <= piv[i] < N, N <= %d} is enumerated completely; every other '
                            'bucket is sampled' % PIV_NMAX,
    }
