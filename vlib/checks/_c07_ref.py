"""Reference computations and comparison helpers private to C07 (no algopy code is used here)."""
import itertools
from fractions import Fraction

import numpy as np
import mpmath
from mpmath import mp, mpf

from ..runner import Violation, Inconclusive, Rejected, guard
from ..oracles import conv


# ---------------------------------------------------------------------------
# calling the code under test
# ---------------------------------------------------------------------------

def guard_declared(fn, *args, declared=()):
    """``guard`` plus: an exception whose text contains one of the strings in ``declared`` is the code's own
    statement that the form is unsupported (declared rejection, DESIGN section 2 "Exceptions")."""
    try:
        return guard(fn, *args)
    except Violation as v:
        s = str(v)
        for pat in declared:
            if pat in s:
                raise Rejected(s)
        raise


# ---------------------------------------------------------------------------
# series helpers
# ---------------------------------------------------------------------------

def as_series(a, kind, D, P):
    """operand -> coefficient data (D,P)+shape; a plain array is the constant series, the same in every direction"""
    a = np.asarray(a)
    if kind == 'U':
        return a
    out = np.zeros((D, P) + a.shape, dtype=np.result_type(a.dtype, np.float64))
    out[0, :] = a
    return out


def conv_with_scale(xd, yd, op):
    """per direction: z_d = sum_k op(x_k, y_{d-k}) and the sum of the absolute values of the terms"""
    P = xd.shape[1]
    z = np.stack([conv(xd[:, p], yd[:, p], op) for p in range(P)], axis=1)
    s = np.stack([conv(np.abs(xd[:, p]), np.abs(yd[:, p]), op) for p in range(P)], axis=1)
    return z, s


def check_close(got, ref, scale, tol, stats, what):
    """|got - ref| <= tol * max(scale, tiny) element-wise; shapes must agree"""
    got = np.asarray(got)
    ref = np.asarray(ref)
    if got.shape != ref.shape:
        raise Violation('%s: shape %s, expected %s' % (what, got.shape, ref.shape))
    if not np.all(np.isfinite(ref)) or not np.all(np.isfinite(scale)):
        raise Inconclusive('non-finite reference')
    if not np.all(np.isfinite(got)):
        bad = tuple(int(i) for i in np.argwhere(~np.isfinite(got))[0])
        raise Violation('%s: non-finite value %r at %s, reference %r' % (what, got[bad].item(), bad, ref[bad].item()))
    if got.size == 0:
        return 0.0
    sc = np.maximum(np.broadcast_to(np.asarray(scale, dtype=float), ref.shape), 1e-300)
    err = np.abs(got - ref) / sc
    e = float(err.max())
    stats.err(e)
    if e > tol:
        bad = tuple(int(i) for i in np.unravel_index(int(np.argmax(err)), err.shape))
        raise Violation('%s: entry %s (d,p,...) is %r, reference %r, term magnitude %.3g (rel. err %.2e > %.0e)'
                        % (what, bad, got[bad].item(), ref[bad].item(), float(sc[bad]), e, tol))
    return e


def normwise(scale, lead=2):
    """residuals of matrix equations: rounding errors of a factor are relative to its norm, not to the single entry;
    replace the element-wise term magnitude by its maximum over the matrix entries of each (d,p)"""
    scale = np.asarray(scale, dtype=float)
    if scale.ndim <= lead:
        return scale
    ax = tuple(range(lead, scale.ndim))
    m = scale.max(axis=ax, keepdims=True)
    # the recurrence of order d passes through all lower orders: when the exact coefficient of an order vanishes (nilpotent
    # higher part, zero layers) its terms are rounding noise of the lower orders, so the scale runs over k <= d
    m = np.maximum.accumulate(m, axis=0)
    return np.broadcast_to(m, scale.shape)


def running_scale(ref):
    """max(1, max_{k<=d} |ref_k|) along axis 0 (the C01 convention for scalar series)"""
    return np.maximum(1.0, np.maximum.accumulate(np.abs(ref), axis=0))


# ---------------------------------------------------------------------------
# arbitrary precision numerical differentiation of a matrix curve
# ---------------------------------------------------------------------------

def mp_matrix(A, t):
    """A: float array (D,n,m) of ONE direction -> mpmath matrix A(t) = sum_k A[k] t^k"""
    D, n, m = A.shape
    M = mpmath.matrix(n, m)
    for i in range(n):
        for j in range(m):
            s = mpf(0)
            for k in range(D - 1, -1, -1):
                v = A[k, i, j]
                s = s * t + (mpmath.mpc(float(v.real), float(v.imag)) if np.iscomplexobj(A) else mpf(float(v)))
            M[i, j] = s
    return M


def mp_curve_taylor(F, D, hdigits=20, dps=30):
    """Taylor coefficients 0..D-1 at t = 0 of a vector valued function F(t) -> list of mp numbers.

    Numerical differentiation in arbitrary precision (forward differences with step 10^-hdigits carried out with
    enough digits that the cancellation is harmless) -- the technique of mpmath.diff / oracles.mp_taylor, but all
    components share one set of D function evaluations.  Truncation error of the n-th difference quotient is
    O(n h f^(n+1)/2), i.e. ~1e-19 relative here.  Returns a float array (D, len(F(0)))."""
    old = mp.dps
    mp.dps = dps + hdigits * D + 10
    try:
        h = mpf(10) ** (-hdigits)
        vals = [list(F(k * h)) for k in range(D)]
        n = len(vals[0])
        out = np.zeros((D, n), dtype=complex)
        for d in range(D):
            hd = h ** d * mpmath.factorial(d)
            for i in range(n):
                s = mpf(0)
                for k in range(d + 1):
                    s += (-1) ** (d - k) * mpmath.binomial(d, k) * vals[k][i]
                out[d, i] = complex(s / hd)
        return out if np.any(out.imag != 0) else out.real.copy()
    finally:
        mp.dps = old


# ---------------------------------------------------------------------------
# exact determinant of a polynomial matrix (Leibniz formula over Fractions, truncated at t^D)
# ---------------------------------------------------------------------------

def _perm_sign(perm):
    sign = 1
    seen = [False] * len(perm)
    for i in range(len(perm)):
        if seen[i]:
            continue
        j = i
        ln = 0
        while not seen[j]:
            seen[j] = True
            j = perm[j]
            ln += 1
        if ln % 2 == 0:
            sign = -sign
    return sign


def _polymul(a, b, D):
    out = [0] * D
    for i, ai in enumerate(a):
        if ai == 0:
            continue
        for j in range(D - i):
            out[i + j] += ai * b[j]
    return out


def frac_det_series(A):
    """A: float array (D,n,n) -> (exact det coefficients as floats (D,), float sum of |terms| (D,))"""
    D, n, _ = A.shape
    F = [[[Fraction(float(A[k, i, j])) for k in range(D)] for j in range(n)] for i in range(n)]
    Fa = [[[abs(float(A[k, i, j])) for k in range(D)] for j in range(n)] for i in range(n)]
    tot = [Fraction(0)] * D
    tota = [0.0] * D
    for perm in itertools.permutations(range(n)):
        prod = F[0][perm[0]]
        proda = Fa[0][perm[0]]
        for i in range(1, n):
            prod = _polymul(prod, F[i][perm[i]], D)
            proda = _polymul(proda, Fa[i][perm[i]], D)
        sg = _perm_sign(perm)
        for k in range(D):
            tot[k] += sg * prod[k]
            tota[k] += proda[k]
    return np.array([float(v) for v in tot]), np.array(tota)


# ---------------------------------------------------------------------------
# power-series exponential of a matrix polynomial in float64 (second opinion for expm)
# ---------------------------------------------------------------------------

def series_expm(A, nterms=40):
    """exp(A(t)) mod t^D by the defining series sum_k A(t)^k / k! with truncated polynomial matrix products;
    valid in float64 for small ||A||  (A: (D,n,n), one direction)"""
    D, n, _ = A.shape
    term = np.zeros_like(A)
    term[0] = np.eye(n)
    out = term.copy()
    for k in range(1, nterms):
        term = conv(term, A, np.dot) / k
        out = out + term
    return out


# ---------------------------------------------------------------------------
# operands as the caller holds them: memory layout, and "the call left them alone"
# ---------------------------------------------------------------------------

def live_operand(a, is_utpm, layout='C'):
    """build the object handed to algopy from descriptor data.  layout 'C': fresh C-contiguous array;
    'T': the operand is a TRANSPOSED VIEW (X.T of a C-contiguous X, i.e. every coefficient block is Fortran-ordered and
    shares memory with X) -- the form a caller gets from ``A.T``."""
    from algopy import UTPM
    a = np.asarray(a)
    if is_utpm:
        if layout == 'T' and a.ndim >= 3:
            ax = (0, 1) + tuple(range(2, a.ndim))[::-1]
            X = UTPM(np.array(a.transpose(ax), order="C", copy=True))      # a real copy: ascontiguousarray would alias the descriptor for size-1 axes
            return X.T
        return UTPM(a.copy())
    if layout == 'T' and a.ndim >= 1:
        return np.array(a.T, order="C", copy=True).T
    return a.copy()


def assert_unchanged(obj, a, what):
    """the defining equations are statements about the curve the caller passed in; a call that overwrites its operand
    returns factors of a matrix polynomial the caller no longer holds"""
    data = obj.data if hasattr(obj, 'data') and not isinstance(obj, np.ndarray) else obj
    data = np.asarray(data)
    if data.shape != np.asarray(a).shape or not np.array_equal(data, a):
        bad = np.argwhere(data != a)
        where = tuple(int(i) for i in bad[0]) if len(bad) else ()
        raise Violation('%s: the call modified its operand (first difference at %s: %r was %r), so the equation no longer '
                        'holds for the operand the caller holds' % (what, where, data[where].item() if len(bad) else None,
                                                                    np.asarray(a)[where].item() if len(bad) else None))


def out_buffer(shape, dtype, mode):
    """result buffer handed over as ``out=``: zeros, or deterministic non-zero garbage (NumPy's out= convention and the
    code's own kernels -- ``_dot``/``_outer`` clear ``out`` first, internal callers pass ``xbar.copy()`` -- do not require a
    cleared buffer)"""
    n = int(np.prod(shape, dtype=int))
    if mode == 'zeros':
        return np.zeros(shape, dtype=dtype)
    g = (1.25 + 0.5 * (np.arange(n) % 7)).reshape(shape)
    if np.dtype(dtype).kind == 'c':
        return g * (1.0 - 0.5j)
    return g.astype(dtype)
