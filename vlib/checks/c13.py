"""C13 - shape-manipulating operations act slice-wise like NumPy, with view semantics.

Oracle: NumPy as executable specification.  For every operation ``op`` and every
coefficient slice (d, p):  ``op(x).data[d, p] == numpy_op(x.data[d, p])`` exactly.
Views: whenever NumPy returns an ndarray sharing memory with its operand
(``a[idx]``, ``a.T``, reshape without copy) the UTPM result must share memory with
``x.data`` and a write through the result must change the parent exactly like the
per-slice NumPy model does.  Assigning a constant sets the zeroth coefficient and
clears all higher ones.
"""
import numpy as np
from hypothesis import strategies as st
from hypothesis.extra import numpy as hnp

import algopy
from algopy import UTPM

from ..runner import Bucket, Violation, Inconclusive, Rejected, guard, KF
from .. import gen

PID = 'C13'
RULE = ('one bucket per operation family; a case = (operation, entry point, D<=4, P<=3, coefficient shape of rank 0..4, '
        'source layout [contiguous | strided / reversed / offset / transposed view of a larger buffer], parameters) with '
        'coefficient data that are pairwise distinct (affine ramps) or drawn floats.  Index expressions come from '
        'hypothesis.extra.numpy.basic_indices(shape, allow_ellipsis, allow_newaxis) plus the bare (non-tuple) forms '
        'int, negative int, numpy integer, slice (incl. negative steps), Ellipsis, newaxis.  '
        'Non-trivial: rank >= 2 and, for getitem/setitem, an index with >= 2 components or a negative step / Ellipsis / '
        'newaxis; a setitem case additionally counts as non-trivial when rank >= 2 and the assigned value has to be '
        'broadcast into the target (class "value-bcast" is counted separately so that the conjunction can be read off '
        'the histogram); for all other operations: rank of the operand or of the result >= 2.  Distinct by descriptor hash.')
ASSUMPTIONS = [
    'NumPy applied to each coefficient slice x.data[d,p] is the specification; comparison is exact (== and the same sign of every zero, real and imaginary part), also for fft/ifft '
    '(the per-slice reference is the identical numpy.fft call) and sum (data of the sum buckets are dyadic rationals, so '
    'every summation order is exact)',
    'view-ness is compared only when NumPy returns an ndarray that shares memory with its operand (a full integer index '
    'returns a scalar in NumPy: nothing asserted about sharing there); real/imag view-ness is not part of the statement',
    'write-through model: a parallel ndarray buffer receives the same per-slice NumPy assignment; afterwards the whole '
    'parent buffers (including elements outside the view) must be equal',
    'forms rejected by the code with its own NotImplementedError (transpose(axes), sum(dtype=/out=), reshape(order != C)) '
    'must raise it; should one of them ever return, the value must at least be the NumPy value',
    'outside the domain: tuple-valued axis, N-D trace, list-valued shapes, advanced (integer-array / boolean) indexing, '
    'x.reshape(a, b) with unpacked dimensions, empty (0-sized) axes in the operand, non-finite data, triu/tril of rank-1 input',
    'D <= 4, P <= 3, rank <= 4, sides 1..4 (1..3 for rank 4)',
    'thorough tier: bucket "atheris" drives the byte-decoded getitem/setitem target (bucket "bytes") under atheris/libFuzzer '
    '(200000 runs, -seed=VERIF_SEED, algopy instrumented); atheris is not provisioned by the shared bootstrap - when it cannot be '
    'imported the stage is counted as inconclusive and the Hypothesis byte bucket alone covers that target',
]

SL = slice(None)

# ---------------------------------------------------------------------------
# case construction helpers (plain data <-> objects)
# ---------------------------------------------------------------------------


def pack(o):
    """descriptor -> descriptor the shared codec round-trips: it stores a 0-d ndarray with shape (1,), so 0-d arrays
    travel as a marker dict"""
    if isinstance(o, np.ndarray) and o.ndim == 0:
        return {'__zerod__': o.item(), 'dtype': str(o.dtype)}
    if isinstance(o, dict):
        return {k: pack(v) for k, v in o.items()}
    if isinstance(o, list):
        return [pack(v) for v in o]
    if isinstance(o, tuple):
        return tuple(pack(v) for v in o)
    return o


def unpack(o):
    if isinstance(o, dict):
        if '__zerod__' in o:
            return np.array(o['__zerod__'], dtype=np.dtype(o['dtype']))
        return {k: unpack(v) for k, v in o.items()}
    if isinstance(o, list):
        return [unpack(v) for v in o]
    if isinstance(o, tuple):
        return tuple(unpack(v) for v in o)
    return o


def packed_bucket(name, strat, prop, n, nt, cl, weight=1.0, shards=None):
    """Bucket whose descriptors are packed (see pack); prop / nontrivial / classes see the unpacked case"""
    return Bucket(name, (lambda: strat().map(pack)), (lambda case, stats: prop(unpack(case), stats)), n,
                  nontrivial=(lambda case: nt(unpack(case))), classes=(lambda case: cl(unpack(case))),
                  shards=shards, weight=weight)



def _astuple(idx):
    return idx if isinstance(idx, tuple) else (idx,)


def _is_int(e):
    return isinstance(e, (int, np.integer)) and not isinstance(e, (bool, np.bool_))


def idx_info(idx):
    t = _astuple(idx)
    return {
        'ncomp': len(t),
        'ell': any(e is Ellipsis for e in t),
        'newaxis': any(e is None for e in t),
        'negstep': any(isinstance(e, slice) and e.step is not None and e.step < 0 for e in t),
        'negint': any(_is_int(e) and e < 0 for e in t),
        'npint': any(isinstance(e, np.integer) for e in t),
        'bare': not isinstance(idx, tuple),
    }


def idx_complex(idx):
    i = idx_info(idx)
    return i['ncomp'] >= 2 or i['negstep'] or i['ell'] or i['newaxis']


def idx_classes(idx, prefix='idx'):
    i = idx_info(idx)
    c = ['%s:ncomp=%d' % (prefix, min(i['ncomp'], 5))]
    for k in ('ell', 'newaxis', 'negstep', 'negint', 'npint'):
        if i[k]:
            c.append('%s:%s' % (prefix, k))
    if i['bare']:
        e = idx
        kind = ('int' if _is_int(e) else 'slice' if isinstance(e, slice) else 'ellipsis' if e is Ellipsis
                else 'newaxis' if e is None else type(e).__name__)
        c.append('%s:bare-%s' % (prefix, kind))
    else:
        c.append('%s:tuple' % prefix)
    return c


def _apply_src(base, src):
    """the operand's coefficient array as a (possibly non-contiguous) view of the buffer ``base``"""
    if src is None:
        return base
    if src['kind'] == 'T':
        r = base.ndim - 2
        return base.transpose((0, 1) + tuple(range(r + 1, 1, -1)))
    if src['kind'] == 'idx':
        return base[(SL, SL) + tuple(src['idx'])]
    raise KeyError(src['kind'])


def build(case):
    """-> (x, buf, m, mbuf): UTPM operand x whose data is a view of buf; NumPy model m, a view of mbuf"""
    buf = np.array(case['x'], copy=True)
    mbuf = np.array(case['x'], copy=True)
    src = case.get('src')
    xd = _apply_src(buf, src)
    m = _apply_src(mbuf, src)
    return UTPM(xd), buf, m, mbuf


def slicewise(fn, m):
    """stack fn(m[d,p]) over all (d,p)"""
    D, P = m.shape[:2]
    return np.array([[np.asarray(fn(m[d, p, ...])) for p in range(P)] for d in range(D)])


def _eq(a, b, **kw):
    """exact equality; non-finite entries must sit at the same places (NaN == NaN here)"""
    a, b = np.asarray(a), np.asarray(b)
    if a.shape != b.shape:
        return False
    if a.dtype.kind in 'fc' or b.dtype.kind in 'fc':
        if not np.array_equal(a, b, equal_nan=True):
            return False
        # equal as numbers; NumPy's result also fixes the sign of every zero (-(+0.0) is -0.0: 1/x, arctan2 and the branch cuts
        # of later operations see the difference)
        return _zero_signs(a) == _zero_signs(b)
    return bool(np.array_equal(a, b))


def _zero_signs(a):
    a = np.asarray(a)
    if a.dtype.kind not in 'fc':
        a = a.astype(float)
    a = a.astype(complex)
    return ((a.real == 0) & np.signbit(a.real)).tobytes() + ((a.imag == 0) & np.signbit(a.imag)).tobytes()


def _firstbad(a, b):
    a, b = np.asarray(a), np.asarray(b)
    ne = a != b
    if a.dtype.kind in 'fc' and b.dtype.kind in 'fc':
        ne = ne & ~(np.isnan(a) & np.isnan(b))
    if not ne.any():
        a, b = a.astype(complex), b.astype(complex)
        ne = (np.signbit(a.real) != np.signbit(b.real)) | (np.signbit(a.imag) != np.signbit(b.imag))
    return np.argwhere(ne)[0]


NONFINITE = [np.inf, -np.inf, np.nan]


def with_nonfinite(strategy, also_value=True):
    """a third of the cases: inf / -inf / nan at up to four drawn positions of the operand buffer (all coefficients, also the
    elements a view skips) and of an assigned array value - pure data movement must carry them like NumPy does"""
    def f(t):
        case, picks, flag = t
        if flag != 0 or (case.get('params') or {}).get('uplo') == 'F':
            return case
        case = dict(case)
        x = np.array(case['x'], copy=True)
        if x.dtype.kind not in 'fc' or x.size == 0:
            return case
        for pos, k in picks:
            x.reshape(-1)[pos % x.size] = NONFINITE[k]
        if case.get('op') == 'neg' and np.iscomplexobj(x) and KF.is_open('KF-neg-complex-nonfinite'):
            # -x is evaluated as -1 * x: for complex data with an infinite part the other part becomes NaN (open finding)
            return dict(case, steered='KF-neg-complex-nonfinite')
        if case.get('form') in ('zeros', 'zeros-positional', 'zeros_like') and KF.is_open('KF-zeros-nonfinite-dtype'):
            # algopy.zeros(shape, dtype=x) multiplies the zeros with x.data.flatten()[0]: NaN when that entry is not finite
            first = _apply_src(x, case.get('src')).reshape(-1)[:1]
            if first.size and not np.isfinite(first[0]):
                v = _apply_src(x, case.get('src'))
                v[(0,) * v.ndim] = 1.0
                case['steered'] = 'KF-zeros-nonfinite-dtype'
        case['x'] = x
        case['nonfinite'] = True
        def inject(holder):
            if not (holder and isinstance(holder.get('v'), np.ndarray) and holder['v'].dtype.kind == 'f' and holder['v'].size):
                return holder
            v = np.array(holder['v'], copy=True)
            pos, k = picks[0]
            v.reshape(-1)[pos % v.size] = NONFINITE[(k + 1) % 3]
            return dict(holder, v=v)
        if also_value and case.get('value'):
            case['value'] = inject(case['value'])
        if also_value and case.get('write'):
            case['write'] = dict(case['write'], value=inject(case['write'].get('value')))
        return case
    picks = st.lists(st.tuples(st.integers(0, 10 ** 6), st.integers(0, 2)), min_size=1, max_size=4)
    return st.tuples(strategy, picks, st.integers(0, 2)).map(f)


def same(got, ref, what):
    got = np.asarray(got)
    ref = np.asarray(ref)
    if got.shape != ref.shape:
        raise Violation('%s: result data shape %s, slice-wise NumPy gives %s' % (what, got.shape, ref.shape))
    if not _eq(got, ref):
        bad = tuple(int(i) for i in _firstbad(got, ref))
        raise Violation('%s: coefficient at (d,p,...)=%s is %r, slice-wise NumPy gives %r'
                        % (what, bad, got[bad].item(), ref[bad].item()))


def expect_utpm(y, what):
    if not isinstance(y, UTPM):
        raise Violation('%s returned %s instead of a UTPM' % (what, type(y).__name__))


def value_of(vk, D, P):
    """(object to assign, per-slice NumPy value v(d,p)) for a value descriptor"""
    kind = vk['kind']
    if kind in ('utpm', 'utpm-bcast'):
        vd = np.array(vk['v'], copy=True)
        return UTPM(vd), (lambda d, p: vd[d, p]), vd
    if kind in ('ndarray', 'ndarray-bcast'):
        c = np.array(vk['v'], copy=True)
        return c, (lambda d, p: c if d == 0 else np.zeros_like(c)), c
    if kind == 'scalar':
        c = vk['v']
        return c, (lambda d, p: c if d == 0 else 0), c
    raise KeyError(kind)


def write_through(y, m, viewfn, buf, mbuf, w, what):
    """assign through the UTPM view y and through the per-slice NumPy views; parents must stay equal"""
    D, P = m.shape[:2]
    val, per, raw = value_of(w['value'], D, P)
    raw0 = np.array(raw, copy=True) if isinstance(raw, np.ndarray) else raw
    idx2 = w['idx']
    guard(lambda: y.__setitem__(idx2, val))
    for d in range(D):
        for p in range(P):
            mv = viewfn(m[d, p, ...])
            mv[idx2] = per(d, p)
    if not _eq(buf, mbuf):
        bad = tuple(int(i) for i in _firstbad(buf, mbuf))
        raise Violation('%s then result[%r] = <%s>: parent buffer at %s is %r, NumPy model has %r'
                        % (what, idx2, w['value']['kind'], bad, buf[bad].item(), mbuf[bad].item()))
    if isinstance(raw, np.ndarray) and not _eq(raw, raw0):
        raise Violation('%s: the assigned value was modified' % what)


def fresh_checks(stats, y, r0, buf, mbuf, what):
    """where NumPy returns a NEW array (or scalar) the result must not share memory with the operand, and an in-place update
    of the result must leave the operand byte-identical (mirror image of view_checks)"""
    if isinstance(r0, np.ndarray) and np.shares_memory(r0, mbuf):
        return
    stats.event('fresh:checked')
    if np.shares_memory(y.data, buf):
        raise Violation('%s: NumPy returns a new array, but the result shares memory with its operand' % what)
    if y.data.size and y.data.flags.writeable:
        y.data[...] = 77
        if not _eq(buf, mbuf):
            raise Violation('%s: an in-place update of the result changed the operand' % what)


def view_checks(case, stats, y, x, m, viewfn, buf, mbuf, what):
    r0 = viewfn(m[0, 0, ...])
    np_view = isinstance(r0, np.ndarray) and np.shares_memory(r0, mbuf)
    if not np_view:
        stats.event('view:numpy-no-view')
        return
    stats.event('view:checked')
    if not np.shares_memory(y.data, buf):
        raise Violation('%s: NumPy returns a view but the result does not share memory with its parent' % what)
    w = case.get('write')
    if w is not None:
        stats.event('view:write-through')
        if w.get('steered'):
            stats.exclude(w['steered'])
        write_through(y, m, viewfn, buf, mbuf, w, what)


# ---------------------------------------------------------------------------
# strategies: dims, shapes, data, indices, values
# ---------------------------------------------------------------------------

def _D():
    return st.sampled_from([1, 2, 2, 3, 3, 4])


def _P():
    return st.sampled_from([1, 2, 2, 3])


@st.composite
def shape_st(draw, min_rank=0, max_rank=4, max_side=4):
    r = draw(st.sampled_from([k for k in (0, 1, 2, 2, 2, 3, 3, 4) if min_rank <= k <= max_rank]))
    ms = min(max_side, 3) if r >= 4 else max_side
    return tuple(draw(st.integers(1, ms)) for _ in range(r))


_DYADIC = st.integers(-64, 64).map(lambda k: k / 8.0)
_FLOATS = st.one_of(_DYADIC, gen.nice_floats(-4.0, 4.0))


@st.composite
def data_st(draw, fullshape, cplx=False, exact=False):
    """coefficient buffer of shape fullshape=(D,P)+shape: distinct ramp or drawn values"""
    n = int(np.prod(fullshape, dtype=int))
    mode = draw(st.sampled_from(['ramp', 'ramp', 'drawn']))
    if mode == 'ramp' or n > 600:
        scale = draw(st.sampled_from([1.0, 0.5, -1.0, 0.25, 3.0]))
        off = draw(st.integers(-8, 8))
        a = ((np.arange(n, dtype=float) + off) * scale).reshape(fullshape)
    else:
        a = draw(hnp.arrays(np.float64, fullshape, elements=_DYADIC if exact else _FLOATS))
    if cplx:
        scale = draw(st.sampled_from([1.0, -0.5, 2.0]))
        b = ((np.arange(n, dtype=float)[::-1] - 3) * scale).reshape(fullshape)
        a = a + 1j * b
    return a


@st.composite
def operand_st(draw, shape, noncontig=None, cplx=False, exact=False, kinds=('T', 'idx')):
    """-> dict(x=buffer, src=view spec or None) whose view has coefficient shape ``shape``"""
    D, P = draw(_D()), draw(_P())
    shape = tuple(shape)
    if noncontig is None:
        noncontig = len(shape) >= 1 and draw(st.integers(0, 2)) == 0
    src = None
    bshape = shape
    if noncontig and len(shape) >= 1:
        kind = draw(st.sampled_from(list(kinds)))
        if kind == 'T' and len(shape) >= 2:
            src = {'kind': 'T'}
            bshape = shape[::-1]
        else:
            idx, bshape = [], []
            for s in shape:
                k = draw(st.sampled_from(['full', 'step2', 'rev', 'off', 'step2']))
                if k == 'full':
                    idx.append(SL); bshape.append(s)
                elif k == 'step2':
                    idx.append(slice(None, None, 2)); bshape.append(2 * s - draw(st.integers(0, 1)))
                elif k == 'rev':
                    idx.append(slice(None, None, -1)); bshape.append(s)
                else:
                    idx.append(slice(1, None)); bshape.append(s + 1)
            src = {'kind': 'idx', 'idx': tuple(idx)}
            bshape = tuple(bshape)
    x = draw(data_st((D, P) + tuple(bshape), cplx=cplx, exact=exact))
    return {'x': x, 'src': src}


@st.composite
def bare_index_st(draw, shape):
    """the non-tuple index forms (they take their own branch in __getitem__/__setitem__)"""
    if len(shape) == 0:
        return draw(st.sampled_from([Ellipsis, None, ()]))
    n = shape[0]
    opts = [
        st.integers(-n, n - 1),
        st.integers(-n, -1),
        st.integers(-n, n - 1).map(np.int64),
        st.slices(n),
        st.builds(lambda k: slice(None, None, -k), st.integers(1, 3)),
        st.builds(lambda a, b, k: slice(max(a, b), min(a, b) - 1 if min(a, b) > 0 else None, -k),
                  st.integers(0, n - 1), st.integers(0, n - 1), st.integers(1, 2)),
        st.just(Ellipsis),
        st.just(None),
    ]
    return draw(st.one_of(*opts))


@st.composite
def tuple_index_st(draw, shape):
    idx = draw(hnp.basic_indices(tuple(shape), allow_ellipsis=True, allow_newaxis=True))
    if isinstance(idx, tuple) and draw(st.integers(0, 7)) == 0:
        # numpy integers inside a tuple are basic indices as well
        idx = tuple(np.int64(e) if (_is_int(e) and not isinstance(e, np.integer)) else e for e in idx)
    return idx


def index_st(shape, family):
    return bare_index_st(shape) if family == 'bare' else tuple_index_st(shape)


def _kf_setitem_bare(idx):
    """open finding KF-setitem-bare-index: x[None] = v and x[numpy integer] = v (bare, non-tuple) raise TypeError"""
    return (idx is None) or isinstance(idx, np.integer)


def _steer_setitem_idx(idx):
    """-> (idx, steered id or None)"""
    if _kf_setitem_bare(idx) and KF.is_open('KF-setitem-bare-index'):
        return (idx,), 'KF-setitem-bare-index'
    return idx, None


@st.composite
def bcast_shape_st(draw, tshape):
    """a shape != tshape that NumPy broadcasts to tshape (fewer leading axes and/or 1-sized axes); None if impossible"""
    tshape = tuple(tshape)
    if len(tshape) == 0:
        return None
    for _ in range(3):
        k = draw(st.integers(0, len(tshape)))         # number of leading axes dropped
        s = list(tshape[k:])
        for i in range(len(s)):
            if s[i] != 1 and draw(st.integers(0, 2)) == 0:
                s[i] = 1
        if tuple(s) != tshape:
            return tuple(s)
    return tuple(tshape[1:])


@st.composite
def value_st(draw, kind, D, P, tshape):
    """value descriptor for ``target[...] = value`` where the target has per-slice shape tshape"""
    tshape = tuple(tshape)
    if kind in ('utpm-bcast', 'ndarray-bcast'):
        b = draw(bcast_shape_st(tshape))
        if b is None:
            kind = kind.split('-')[0]
        else:
            tshape = b
    if kind.startswith('utpm'):
        v = draw(data_st((D, P) + tshape))
        v = v + 1000.0
        return {'kind': kind, 'v': v}
    if kind.startswith('ndarray'):
        if draw(st.integers(0, 3)) == 0:
            c = draw(hnp.arrays(np.int64, tshape, elements=st.integers(-50, 50)))
        else:
            c = draw(data_st((1, 1) + tshape))[0, 0] - 500.0
        return {'kind': kind, 'v': c}
    c = draw(st.one_of(st.sampled_from([0.0, 1.0, -2.5, 7]), gen.nice_floats(-9, 9), st.integers(-9, 9),
                       gen.nice_floats(-9, 9).map(np.float64)))
    return {'kind': 'scalar', 'v': c}


def _needs_bcast(vk, tshape):
    if vk['kind'] == 'scalar':
        return len(tshape) > 0
    vs = vk['v'].shape[2:] if vk['kind'].startswith('utpm') else vk['v'].shape
    return tuple(vs) != tuple(tshape)


@st.composite
def write_st(draw, D, P, rshape):
    """a write through a view with per-slice shape rshape"""
    if int(np.prod(rshape, dtype=int)) == 0:
        return None
    idx2 = draw(index_st(rshape, draw(st.sampled_from(['tuple', 'tuple', 'bare']))))
    idx2, steered = _steer_setitem_idx(idx2)
    t = np.empty(rshape)[idx2]
    tshape = np.shape(t)
    if int(np.prod(tshape, dtype=int)) == 0:
        return None
    kind = draw(st.sampled_from(['utpm', 'scalar', 'ndarray', 'utpm-bcast']))
    w = {'idx': idx2, 'value': draw(value_st(kind, D, P, tshape))}
    if steered:
        w['steered'] = steered
    return w


# ---------------------------------------------------------------------------
# getitem
# ---------------------------------------------------------------------------

def prop_getitem(case, stats):
    x, buf, m, mbuf = build(case)
    idx = case['idx']
    what = 'x%s[%r]' % (_srcname(case), idx)
    y = guard(lambda: x[idx])
    expect_utpm(y, what)
    viewfn = lambda a: a[idx]
    same(y.data, slicewise(viewfn, m), what)
    view_checks(case, stats, y, x, m, viewfn, buf, mbuf, what)
    if not _eq(buf, mbuf):
        raise Violation('%s modified its operand' % what)


def _srcname(case):
    s = case.get('src')
    if s is None:
        return ''
    return '<T-view>' if s['kind'] == 'T' else '<view %r>' % (s['idx'],)


@st.composite
def getitem_cases(draw, family):
    shape = draw(shape_st())
    case = draw(operand_st(shape))
    D, P = case['x'].shape[:2]
    idx = draw(index_st(shape, family))
    case['idx'] = idx
    r = np.empty(shape)[idx]
    if isinstance(r, np.ndarray) and draw(st.booleans()):
        case['write'] = draw(write_st(D, P, r.shape))
    return case


def _rank(case):
    return _apply_src(case['x'], case.get('src')).ndim - 2


def _common_classes(case):
    x = case['x']
    c = ['D=%d' % x.shape[0], 'P=%d' % x.shape[1], 'rank=%d' % _rank(case)]
    s = case.get('src')
    c.append('src=' + ('contiguous' if s is None else s['kind']))
    if np.iscomplexobj(x):
        c.append('complex')
    if case.get('steered'):
        c.append('steered:' + case['steered'])
    if case.get('nonfinite'):
        c.append('nonfinite-entries')
    if 1 in _apply_src(x, s).shape[2:]:
        c.append('has-size-1-axis')
    return c


def cls_getitem(case):
    c = _common_classes(case) + idx_classes(case['idx'])
    if case.get('write'):
        c += idx_classes(case['write']['idx'], 'widx') + ['wvalue=' + case['write']['value']['kind']]
    return c


def nt_getitem(case):
    return _rank(case) >= 2 and idx_complex(case['idx'])


# ---------------------------------------------------------------------------
# setitem
# ---------------------------------------------------------------------------

def prop_setitem(case, stats):
    if case.get('steered'):
        stats.exclude(case['steered'])
    x, buf, m, mbuf = build(case)
    D, P = m.shape[:2]
    idx = case['idx']
    val, per, raw = value_of(case['value'], D, P)
    raw0 = np.array(raw, copy=True) if isinstance(raw, np.ndarray) else raw
    what = 'x%s[%r] = <%s%s>' % (_srcname(case), idx, case['value']['kind'],
                                 '' if not isinstance(raw, np.ndarray) else ' shape %s' % (raw.shape,))
    guard(lambda: x.__setitem__(idx, val))
    for d in range(D):
        for p in range(P):
            m[d, p, ...][idx] = per(d, p)
    if not _eq(buf, mbuf):
        bad = tuple(int(i) for i in _firstbad(buf, mbuf))
        raise Violation('%s: buffer at %s is %r, slice-wise NumPy assignment gives %r'
                        % (what, bad, buf[bad].item(), mbuf[bad].item()))
    if isinstance(raw, np.ndarray) and not _eq(raw, raw0):
        raise Violation('%s: the assigned value was modified' % what)
    if x.data.shape != m.shape:
        raise Violation('%s changed the shape of x' % what)


@st.composite
def setitem_cases(draw, vkind):
    min_rank = 1 if vkind.endswith('bcast') else 0
    shape = draw(shape_st(min_rank=min_rank))
    case = draw(operand_st(shape))
    D, P = case['x'].shape[:2]
    family = draw(st.sampled_from(['tuple', 'tuple', 'bare']))
    idx = draw(index_st(shape, family))
    idx, steered = _steer_setitem_idx(idx)
    if steered:
        case['steered'] = steered
    tshape = np.shape(np.empty(shape)[idx])
    if vkind.endswith('bcast') and (len(tshape) == 0 or int(np.prod(tshape, dtype=int)) <= 0):
        # nothing to broadcast into a scalar / empty target: take a whole-axis index instead
        idx = draw(st.sampled_from([Ellipsis, SL, (Ellipsis,), (SL,)]))
        case.pop('steered', None)
        tshape = shape
    case['idx'] = idx
    case['value'] = draw(value_st(vkind, D, P, tshape))
    case['tshape'] = tuple(int(t) for t in tshape)
    return case


def cls_setitem(case):
    c = _common_classes(case) + idx_classes(case['idx']) + ['value=' + case['value']['kind']]
    if _needs_bcast(case['value'], case['tshape']):
        c.append('value-bcast')
        if _rank(case) >= 2 and idx_complex(case['idx']):
            c.append('value-bcast&idx-complex&rank>=2')
    if len(case['tshape']) == 0:
        c.append('target-scalar')
    return c


def nt_setitem(case):
    return _rank(case) >= 2 and (idx_complex(case['idx']) or _needs_bcast(case['value'], case['tshape']))


# ---------------------------------------------------------------------------
# operations: (entry point -> callable(x, params)), numpy reference(a, params)
# ---------------------------------------------------------------------------

def _symvec_ref(a, uplo):
    n = a.shape[0]
    iu = np.triu_indices(n)
    if uplo == 'F':
        return (0.5 * (a + a.T))[iu]
    if uplo == 'L':
        return a.T[iu]
    return a[iu]


def _vecsym_ref(v):
    nv = v.shape[0]
    n = 0
    while n * (n + 1) // 2 < nv:
        n += 1
    A = np.zeros((n, n), dtype=v.dtype)
    iu = np.triu_indices(n)
    A[iu] = v
    A.T[iu] = v
    return A


OPS = {
    'reshape': ({'method': lambda x, q: x.reshape(q['newshape']),
                 'global': lambda x, q: algopy.reshape(x, q['newshape']),
                 'class': lambda x, q: UTPM.reshape(x, q['newshape'])},
                lambda a, q: a.reshape(q['newshape'])),
    'transpose': ({'T': lambda x, q: x.T,
                   'method': lambda x, q: x.transpose(),
                   'global': lambda x, q: algopy.transpose(x),
                   'class': lambda x, q: UTPM.transpose(x)},
                  lambda a, q: a.T),
    'sum': ({'global': lambda x, q: algopy.sum(x, axis=q['axis']),
             'method': lambda x, q: x.sum(axis=q['axis']),
             'positional': lambda x, q: x.sum(q['axis']),
             'global-default': lambda x, q: algopy.sum(x) if q['axis'] is None else algopy.sum(x, q['axis'])},
            lambda a, q: np.sum(a, axis=q['axis'])),
    'tile': ({'global': lambda x, q: algopy.tile(x, q['reps']),
              'class': lambda x, q: UTPM.tile(x, q['reps'])},
             lambda a, q: np.tile(a, q['reps'])),
    'diag': ({'global': lambda x, q: algopy.diag(x, q['k']),
              'global-kw': lambda x, q: algopy.diag(x, k=q['k']),
              'global-default': lambda x, q: algopy.diag(x) if q['k'] == 0 else algopy.diag(x, q['k']),
              'class': lambda x, q: UTPM.diag(x, q['k'])},
             lambda a, q: np.diag(a, q['k'])),
    'triu': ({'global': lambda x, q: algopy.triu(x, q['k']),
              'global-default': lambda x, q: algopy.triu(x) if q['k'] == 0 else algopy.triu(x, k=q['k']),
              'class': lambda x, q: UTPM.triu(x, q['k'])},
             lambda a, q: np.triu(a, q['k'])),
    'tril': ({'global': lambda x, q: algopy.tril(x, q['k']),
              'global-default': lambda x, q: algopy.tril(x) if q['k'] == 0 else algopy.tril(x, k=q['k']),
              'class': lambda x, q: UTPM.tril(x, q['k'])},
             lambda a, q: np.tril(a, q['k'])),
    'trace': ({'global': lambda x, q: algopy.trace(x),
               'class': lambda x, q: UTPM.trace(x)},
              lambda a, q: np.trace(a)),
    'symvec': ({'global': lambda x, q: algopy.symvec(x, q['uplo']),
                'global-kw': lambda x, q: algopy.symvec(x, UPLO=q['uplo']),
                'global-default': lambda x, q: algopy.symvec(x) if q['uplo'] == 'F' else algopy.symvec(x, q['uplo']),
                'class': lambda x, q: UTPM.symvec(x, q['uplo'])},
               lambda a, q: _symvec_ref(a, q['uplo'])),
    'vecsym': ({'global': lambda x, q: algopy.vecsym(x),
                'class': lambda x, q: UTPM.vecsym(x)},
               lambda a, q: _vecsym_ref(a)),
    'neg': ({'operator': lambda x, q: -x,
             'global': lambda x, q: algopy.negative(x),
             'class-neg': lambda x, q: UTPM.neg(x),
             'class': lambda x, q: UTPM.negative(x)},
            lambda a, q: -a),
    'conj': ({'conj': lambda x, q: x.conj(),
              'method': lambda x, q: x.conjugate(),
              'global': lambda x, q: algopy.conjugate(x)},
             lambda a, q: np.conjugate(a)),
    'real': ({'global': lambda x, q: algopy.real(x),
              'class': lambda x, q: UTPM.real(x)},
             lambda a, q: np.real(a)),
    'imag': ({'global': lambda x, q: algopy.imag(x),
              'class': lambda x, q: UTPM.imag(x)},
             lambda a, q: np.imag(a)),
    'fft': ({'global': lambda x, q: algopy.fft.fft(x, n=q['n'], axis=q['axis']),
             'global-pos': lambda x, q: algopy.fft.fft(x, q['n'], q['axis']),
             'global-default': lambda x, q: (algopy.fft.fft(x) if (q['n'] is None and q['axis'] == -1)
                                            else algopy.fft.fft(x, n=q['n'], axis=q['axis'])),
             'class': lambda x, q: UTPM.fft(x, n=q['n'], axis=q['axis'])},
            lambda a, q: np.fft.fft(a, n=q['n'], axis=q['axis'])),
    'ifft': ({'global': lambda x, q: algopy.fft.ifft(x, n=q['n'], axis=q['axis']),
              'global-pos': lambda x, q: algopy.fft.ifft(x, q['n'], q['axis']),
              'global-default': lambda x, q: (algopy.fft.ifft(x) if (q['n'] is None and q['axis'] == -1)
                                             else algopy.fft.ifft(x, n=q['n'], axis=q['axis'])),
              'class': lambda x, q: UTPM.ifft(x, n=q['n'], axis=q['axis'])},
             lambda a, q: np.fft.ifft(a, n=q['n'], axis=q['axis'])),
}
VIEW_OPS = {'reshape', 'transpose'}


def prop_op(case, stats):
    if case.get('steered'):
        stats.exclude(case['steered'])
    op, entry, q = case['op'], case['entry'], case.get('params', {})
    calls, ref = OPS[op]
    x, buf, m, mbuf = build(case)
    what = '%s[%s](x%s shape %s, %r)' % (op, entry, _srcname(case), m.shape[2:], q)
    y = guard(calls[entry], x, q)
    expect_utpm(y, what)
    reffn = lambda a: ref(a, q)
    same(y.data, slicewise(reffn, m), what)
    if np.iscomplexobj(slicewise(reffn, m)) and not np.iscomplexobj(y.data) and np.any(slicewise(reffn, m).imag != 0):
        raise Violation('%s: imaginary part lost' % what)
    if op in VIEW_OPS:
        view_checks(case, stats, y, x, m, reffn, buf, mbuf, what)
    fresh_checks(stats, y, reffn(m[0, 0, ...]), buf, mbuf, what)
    if not _eq(buf, mbuf):
        raise Violation('%s modified its operand' % what)


def cls_op(case):
    c = _common_classes(case) + ['entry=' + case['entry']]
    q = case.get('params', {})
    for k, v in sorted(q.items()):
        if k == 'newshape':
            v = ('int' if _is_int(v) else 'tuple') + (':-1' if (-1 in _astuple(v)) else '')
        elif k == 'reps':
            r = _rank(case)
            v = 'int' if _is_int(v) else ('tuple:shorter' if len(v) < r else 'tuple:longer' if len(v) > r else 'tuple:equal')
        elif k == 'n':
            v = 'None' if v is None else ('pad' if v > case['len'] else 'trunc' if v < case['len'] else 'same')
        elif k == 'axis':
            v = 'None' if v is None else ('neg' if v < 0 else 'nonneg')
        elif k == 'k':
            v = 'neg' if v < 0 else 'pos' if v > 0 else '0'
        c.append('%s=%s' % (k, v))
    if case.get('write'):
        c += idx_classes(case['write']['idx'], 'widx') + ['wvalue=' + case['write']['value']['kind']]
    if 'form' in case:
        c.append('form=' + case['form'])
    return c


def nt_op(case):
    # rank of the operand or of the result >= 2 (diag of a vector, vecsym)
    return _rank(case) >= 2 or (case.get('op') in ('diag', 'vecsym') and case['x'].shape[-1] >= 2)


@st.composite
def _factor_shape(draw, n):
    """a tuple of positive ints with product n"""
    k = draw(st.integers(1, 4))
    dims, rest = [], n
    for _ in range(k - 1):
        divs = [d for d in range(1, rest + 1) if rest % d == 0]
        d = draw(st.sampled_from(divs))
        dims.append(d)
        rest //= d
    dims.append(rest)
    dims = draw(st.permutations(dims))
    return tuple(int(d) for d in dims)


@st.composite
def reshape_cases(draw):
    shape = draw(shape_st())
    noncontig = len(shape) >= 1 and draw(st.booleans())
    case = draw(operand_st(shape, noncontig=noncontig))
    D, P = case['x'].shape[:2]
    n = int(np.prod(shape, dtype=int))
    form = draw(st.sampled_from(['int', 'minus1', 'tuple', 'tuple', 'tuple-1', 'tuple-1', 'same', 'empty' if n == 1 else 'tuple']))
    if form == 'int':
        ns = n
    elif form == 'minus1':
        ns = -1
    elif form == 'same':
        ns = tuple(shape)
    elif form == 'empty':
        ns = ()
    else:
        ns = draw(_factor_shape(n))
        if form == 'tuple-1':
            i = draw(st.integers(0, len(ns) - 1))
            ns = ns[:i] + (-1,) + ns[i + 1:]
    case.update(op='reshape', entry=draw(st.sampled_from(['method', 'method', 'global', 'class'])), params={'newshape': ns})
    r = np.empty(shape).reshape(ns)
    if draw(st.booleans()):
        case['write'] = draw(write_st(D, P, r.shape))
    return case


@st.composite
def transpose_cases(draw):
    shape = draw(shape_st())
    case = draw(operand_st(shape))
    D, P = case['x'].shape[:2]
    case.update(op='transpose', entry=draw(st.sampled_from(['T', 'T', 'method', 'global', 'class'])), params={})
    if draw(st.booleans()):
        case['write'] = draw(write_st(D, P, shape[::-1]))
    return case


def _kf_sum_rank0(shape):
    return len(shape) == 0


@st.composite
def sum_cases(draw):
    shape = draw(shape_st())
    steered = None
    if _kf_sum_rank0(shape) and KF.is_open('KF-sum-rank0'):
        shape, steered = (draw(st.integers(1, 4)),), 'KF-sum-rank0'
    case = draw(operand_st(shape, exact=True))
    r = len(shape)
    axis = draw(st.sampled_from([None] + list(range(-r, r))))
    case.update(op='sum', entry=draw(st.sampled_from(['global', 'method', 'positional', 'global-default'])),
                params={'axis': axis})
    if steered:
        case['steered'] = steered
    return case


@st.composite
def tile_cases(draw):
    shape = draw(shape_st(max_rank=3, max_side=3))
    case = draw(operand_st(shape))
    r = len(shape)
    if draw(st.integers(0, 3)) == 0:
        reps = draw(st.integers(1, 3))
    else:
        k = draw(st.integers(max(1, r - 2), min(4, r + 2)))
        reps = tuple(draw(st.lists(st.integers(1, 3) if k <= 3 else st.integers(1, 2), min_size=k, max_size=k)))
    case.update(op='tile', entry=draw(st.sampled_from(['global', 'global', 'class'])), params={'reps': reps})
    return case


def _kf_diag(shape, k):
    """open finding KF-diag-k: k != 0 is ignored; a matrix with fewer rows than columns raises"""
    return k != 0 or (len(shape) == 2 and shape[0] < shape[1])


@st.composite
def diag_cases(draw):
    if draw(st.booleans()):
        shape = (draw(st.integers(1, 4)),)
        k = draw(st.sampled_from([0, 0, 1, -1, 2, -2, 3]))
    else:
        shape = (draw(st.integers(1, 4)), draw(st.integers(1, 4)))
        k = draw(st.sampled_from([0, 0] + list(range(-shape[0] + 1, shape[1]))))
    steered = None
    if _kf_diag(shape, k) and KF.is_open('KF-diag-k'):
        steered = 'KF-diag-k'
        k = 0
        if len(shape) == 2 and shape[0] < shape[1]:
            shape = (shape[1], shape[0])
    case = draw(operand_st(shape))
    case.update(op='diag', entry=draw(st.sampled_from(['global', 'global-kw', 'global-default', 'class'])), params={'k': k})
    if steered:
        case['steered'] = steered
    return case


@st.composite
def tri_cases(draw, op):
    shape = draw(shape_st(min_rank=2, max_rank=3))
    case = draw(operand_st(shape))
    k = draw(st.integers(-shape[-2], shape[-1]))
    case.update(op=op, entry=draw(st.sampled_from(['global', 'global-default', 'class'])), params={'k': k})
    return case


@st.composite
def trace_cases(draw):
    shape = (draw(st.integers(1, 4)), draw(st.integers(1, 4)))
    case = draw(operand_st(shape))
    case.update(op='trace', entry=draw(st.sampled_from(['global', 'class'])), params={})
    return case


@st.composite
def symvec_cases(draw):
    n = draw(st.integers(1, 4))
    case = draw(operand_st((n, n), exact=True, cplx=draw(st.integers(0, 2)) == 0))
    case.update(op='symvec', entry=draw(st.sampled_from(['global', 'global-kw', 'global-default', 'class'])),
                params={'uplo': draw(st.sampled_from(['F', 'L', 'U']))})
    return case


@st.composite
def vecsym_cases(draw):
    n = draw(st.integers(1, 4))
    case = draw(operand_st((n * (n + 1) // 2,), cplx=draw(st.integers(0, 2)) == 0))
    case.update(op='vecsym', entry=draw(st.sampled_from(['global', 'class'])), params={})
    return case


@st.composite
def unary_cases(draw, op):
    shape = draw(shape_st())
    cplx = draw(st.booleans()) if op in ('conj', 'real', 'imag', 'neg') else False
    if op in ('conj', 'real', 'imag') and draw(st.integers(0, 3)) > 0:
        cplx = True
    case = draw(operand_st(shape, cplx=cplx))
    case.update(op=op, entry=draw(st.sampled_from(sorted(OPS[op][0]))), params={})
    return case


@st.composite
def fft_cases(draw, op):
    shape = draw(shape_st(min_rank=1, max_rank=3))
    case = draw(operand_st(shape, cplx=draw(st.booleans())))
    r = len(shape)
    axis = draw(st.sampled_from([-1] + list(range(-r, r))))
    L = shape[axis]
    n = draw(st.sampled_from([None, None, L, L + 1, L + 3, max(1, L - 1), 1, 2 * L]))
    steered = None
    if n is not None and n != L and KF.is_open('KF-fft-n'):
        n, steered = draw(st.sampled_from([None, L])), 'KF-fft-n'
    case.update(op=op, entry=draw(st.sampled_from(['global', 'global', 'global-pos', 'global-default', 'class'])),
                params={'n': n, 'axis': axis}, len=int(L))
    if steered:
        case['steered'] = steered
    return case


# ---------------------------------------------------------------------------
# zeros / ones (dtype = UTPM), zeros_like / ones_like
# ---------------------------------------------------------------------------

CONSTRUCT = {
    'zeros': lambda x, s: algopy.zeros(s, dtype=x),
    'ones': lambda x, s: algopy.ones(s, dtype=x),
    'zeros-positional': lambda x, s: algopy.zeros(s, x),
    'ones-positional': lambda x, s: algopy.ones(s, x),
    'zeros_like': lambda x, s: algopy.zeros_like(x),
    'ones_like': lambda x, s: algopy.ones_like(x),
    'x.zeros_like': lambda x, s: x.zeros_like(),
    'x.ones_like': lambda x, s: x.ones_like(),
}


def prop_construct(case, stats):
    if case.get('steered'):
        stats.exclude(case['steered'])
    x, buf, m, mbuf = build(case)
    D, P = m.shape[:2]
    form, shp = case['form'], case['shape']
    what = '%s(shape=%r, dtype=UTPM with D=%d, P=%d, coefficient shape %s)' % (form, shp, D, P, m.shape[2:])
    y = guard(CONSTRUCT[form], x, shp)
    expect_utpm(y, what)
    like = form.endswith('_like')
    fn = np.ones if 'ones' in form else np.zeros
    r0 = (np.ones_like(m[0, 0]) if 'ones' in form else np.zeros_like(m[0, 0])) if like else fn(shp)
    ref = np.zeros((D, P) + r0.shape, dtype=r0.dtype)
    ref[0] = r0
    same(y.data, ref, what)
    if np.shares_memory(y.data, buf):
        raise Violation('%s: the new polynomial shares memory with the dtype argument' % what)
    if not _eq(buf, mbuf):
        raise Violation('%s modified its argument' % what)


@st.composite
def construct_cases(draw, family):
    xshape = draw(shape_st(max_rank=3))
    case = draw(operand_st(xshape, cplx=draw(st.integers(0, 4)) == 0))
    if family == 'like':
        case['form'] = draw(st.sampled_from(['zeros_like', 'ones_like', 'x.zeros_like', 'x.ones_like']))
        case['shape'] = None
    else:
        case['form'] = draw(st.sampled_from([family, family, family + '-positional']))
        s = draw(shape_st())
        if len(s) == 1 and draw(st.booleans()):
            s = draw(st.sampled_from([s[0], np.int64(s[0])]))
        case['shape'] = s
    return case


def cls_construct(case):
    s = case['shape']
    return _common_classes(case) + ['form=' + case['form'],
                                    'shape=' + ('like' if s is None else 'int' if _is_int(s) else 'tuple%d' % len(s))]


def nt_construct(case):
    s = case['shape']
    if s is None:
        return _rank(case) >= 2
    return (not _is_int(s)) and len(s) >= 2


# ---------------------------------------------------------------------------
# declared rejections: must raise NotImplementedError (or, if ever implemented, agree with NumPy)
# ---------------------------------------------------------------------------

REJECT = {
    'transpose(axes)': (lambda x, q: x.transpose(q['axes']), lambda a, q: a.transpose(q['axes'])),
    'transpose(axes=)': (lambda x, q: x.transpose(axes=q['axes']), lambda a, q: a.transpose(q['axes'])),
    'algopy.transpose(x, axes)': (lambda x, q: algopy.transpose(x, q['axes']), lambda a, q: a.transpose(q['axes'])),
    'sum(dtype=)': (lambda x, q: x.sum(axis=q['axis'], dtype=np.dtype(q['dtype']).type),
                    lambda a, q: np.sum(a, axis=q['axis'], dtype=np.dtype(q['dtype']).type)),
    'algopy.sum(dtype=)': (lambda x, q: algopy.sum(x, axis=q['axis'], dtype=np.dtype(q['dtype']).type),
                           lambda a, q: np.sum(a, axis=q['axis'], dtype=np.dtype(q['dtype']).type)),
    'sum(out=)': None,
    'reshape(order=)': (lambda x, q: x.reshape(q['newshape'], order=q['order']),
                        lambda a, q: a.reshape(q['newshape'], order=q['order'])),
    'algopy.reshape(order=)': (lambda x, q: algopy.reshape(x, q['newshape'], order=q['order']),
                               lambda a, q: a.reshape(q['newshape'], order=q['order'])),
}


def prop_reject(case, stats):
    x, buf, m, mbuf = build(case)
    form, q = case['form'], case['params']
    what = '%s on coefficient shape %s with %r' % (form, m.shape[2:], q)
    D, P = m.shape[:2]
    try:
        if form == 'sum(out=)':
            out = UTPM(np.zeros((D, P) + np.shape(np.sum(m[0, 0], axis=q['axis']))))
            y = x.sum(axis=q['axis'], out=out)
            ref = lambda a, q: np.sum(a, axis=q['axis'])
        else:
            call, ref = REJECT[form]
            y = call(x, q)
    except NotImplementedError:
        stats.event('rejected-as-declared')
        if not _eq(buf, mbuf):
            raise Violation('%s raised NotImplementedError but modified its operand' % what)
        return
    except Exception as e:  # the declared rejection is NotImplementedError, nothing else
        raise Violation('%s: expected the declared NotImplementedError, got %s: %s' % (what, type(e).__name__, str(e)[:200]))
    # it returned: then it must at least be right
    stats.event('returned-instead-of-rejecting')
    expect_utpm(y, what)
    same(y.data, slicewise(lambda a: ref(a, q), m), what + ' (form is documented as not implemented but returned)')


@st.composite
def reject_cases(draw):
    form = draw(st.sampled_from(sorted(REJECT)))
    if form.startswith('transpose') or form.startswith('algopy.transpose'):
        shape = draw(shape_st(min_rank=2))
        axes = tuple(draw(st.permutations(list(range(len(shape))))))
        q = {'axes': axes}
    elif 'sum' in form:
        shape = draw(shape_st(min_rank=1))
        r = len(shape)
        q = {'axis': draw(st.sampled_from([None] + list(range(-r, r)))), 'dtype': draw(st.sampled_from(['float64', 'complex128', 'float32']))}
    else:
        shape = draw(shape_st(min_rank=2))
        n = int(np.prod(shape, dtype=int))
        q = {'newshape': draw(_factor_shape(n)), 'order': draw(st.sampled_from(['F', 'A', 'F']))}
    case = draw(operand_st(shape, exact=True))
    case.update(form=form, params=q)
    return case


def cls_reject(case):
    return _common_classes(case) + ['form=' + case['form']]


# ---------------------------------------------------------------------------
# byte-level decoded cases (the atheris target of the design, driven here by Hypothesis' byte source)
# ---------------------------------------------------------------------------

class _Bytes:
    """minimal fuzzed-data provider"""

    def __init__(self, b):
        self.b, self.i = bytes(b), 0

    def byte(self):
        if self.i >= len(self.b):
            return 0
        v = self.b[self.i]
        self.i += 1
        return v

    def below(self, n):
        return self.byte() % n if n > 0 else 0

    def rng(self, lo, hi):
        return lo + self.below(hi - lo + 1)


def decode_bytes(b):
    """bytes -> case descriptor of the getitem / setitem family (shape, index expression, value kind)"""
    f = _Bytes(b)
    mode = f.below(4)
    D, P = f.rng(1, 4), f.rng(1, 3)
    r = f.rng(0, 4)
    shape = tuple(f.rng(1, 3) for _ in range(r))
    comps = []
    used = 0
    nidx = f.rng(0, r + 2)
    ell = False
    for _ in range(nidx):
        t = f.below(6)
        if t == 0 and used < r:
            n = shape[used]; comps.append(f.rng(-n, n - 1)); used += 1
        elif t in (1, 2) and used < r:
            n = shape[used]
            a = [None, f.rng(-n - 1, n + 1)][f.below(2)]
            s = [None, f.rng(-n - 1, n + 1)][f.below(2)]
            k = [None, 1, 2, -1, -2, 3][f.below(6)]
            comps.append(slice(a, s, k)); used += 1
        elif t == 3 and not ell:
            comps.append(Ellipsis); ell = True
        elif t == 4 and len(comps) < r + 2:
            comps.append(None)
        elif used < r:
            comps.append(SL); used += 1
    idx = tuple(comps)
    try:
        np.empty(shape)[idx]
    except IndexError:
        # an integer drawn for axis k was shifted to another axis by an Ellipsis: 0 is valid on every axis
        idx = tuple(0 if _is_int(e) else e for e in idx)
    if len(idx) == 1 and f.below(2):
        idx = idx[0]
    n = D * P * int(np.prod(shape, dtype=int))
    x = ((np.arange(n, dtype=float) + f.rng(-4, 4)) * [1.0, 0.5, -1.0][f.below(3)]).reshape((D, P) + shape)
    case = {'x': x, 'src': None, 'idx': idx}
    tshape = np.shape(np.empty(shape)[idx])
    if mode == 0:
        case['mode'] = 'get'
        return case
    if mode == 1 and isinstance(np.empty(shape)[idx], np.ndarray) and int(np.prod(tshape, dtype=int)) > 0:
        case['mode'] = 'get'
        vk = ['scalar', 'utpm'][f.below(2)]
        case['write'] = {'idx': Ellipsis if f.below(2) else (Ellipsis,),
                         'value': _byte_value(f, vk, D, P, tshape)}
        return case
    case['mode'] = 'set'
    idx2, steered = _steer_setitem_idx(idx)
    case['idx'] = idx2
    if steered:
        case['steered'] = steered
    if int(np.prod(tshape, dtype=int)) == 0:
        case['value'] = {'kind': 'scalar', 'v': 1.5}
    else:
        vk = ['scalar', 'utpm', 'ndarray', 'utpm-bcast', 'ndarray-bcast'][f.below(5)]
        case['value'] = _byte_value(f, vk, D, P, tshape)
    case['tshape'] = tuple(int(t) for t in tshape)
    return case


def _byte_value(f, kind, D, P, tshape):
    tshape = tuple(tshape)
    if kind.endswith('bcast'):
        if len(tshape) == 0:
            kind = kind.split('-')[0]
        else:
            k = f.rng(0, len(tshape))
            s = [1 if (t != 1 and f.below(3) == 0) else t for t in tshape[k:]]
            if tuple(s) == tshape:
                s = list(tshape[1:])
            tshape = tuple(s)
    if kind == 'scalar':
        return {'kind': 'scalar', 'v': [0.0, 1.0, -2.5, 7][f.below(4)]}
    if kind.startswith('utpm'):
        n = D * P * int(np.prod(tshape, dtype=int))
        return {'kind': kind, 'v': (1000.0 + np.arange(n, dtype=float)).reshape((D, P) + tshape)}
    n = int(np.prod(tshape, dtype=int))
    return {'kind': kind, 'v': (-500.0 - np.arange(n, dtype=float)).reshape(tshape)}


def prop_bytes(case, stats):
    c = decode_bytes(case['bytes'])
    stats.event('decoded:' + c['mode'])
    if c['mode'] == 'get':
        prop_getitem(c, stats)
    else:
        prop_setitem(c, stats)


def cls_bytes(case):
    c = decode_bytes(case['bytes'])
    return (cls_getitem(c) if c['mode'] == 'get' else cls_setitem(c))


def nt_bytes(case):
    c = decode_bytes(case['bytes'])
    return nt_getitem(c) if c['mode'] == 'get' else nt_setitem(c)


def bytes_cases():
    return st.binary(min_size=12, max_size=64).map(lambda b: {'bytes': list(b)})


# ---------------------------------------------------------------------------
# thorough tier: the same byte-level target under atheris (coverage-guided), when atheris is installed
# ---------------------------------------------------------------------------

def _atheris_dirs():
    import os
    from .. import env
    return [d for d in (os.path.join(env.VERIF, '.deps', 'early'), os.environ.get('VERIF_ATHERIS_DIR', '')) if d and os.path.isdir(d)]


def prop_atheris(case, stats):
    import os, sys, glob, json, shutil, tempfile, subprocess, hashlib
    from .. import env, codec
    probe = subprocess.run([sys.executable, '-B', '-c', 'import sys; sys.path[1:1] = %r; import atheris' % (_atheris_dirs(),)],
                           capture_output=True)
    if probe.returncode != 0:
        stats.event('atheris:not-installed')
        raise Inconclusive('atheris is not installed (the shared bootstrap does not provide it); stage skipped')
    art = tempfile.mkdtemp(prefix='c13-atheris-')
    try:
        cmd = [sys.executable, '-B', '-m', 'vlib.checks._c13_fuzz', art, '-runs=%d' % case['runs'], '-seed=%d' % case['seed']]
        e = dict(os.environ, PYTHONHASHSEED='0')
        try:
            r = subprocess.run(cmd, cwd=env.VERIF, env=e, capture_output=True, timeout=1500)
        except subprocess.TimeoutExpired:
            raise Inconclusive('atheris stage timed out')
        crashes = sorted(glob.glob(os.path.join(art, 'crash-*')))
        tail = r.stderr.decode('utf-8', 'replace')[-1500:]
        if not crashes:
            if r.returncode != 0:
                raise Inconclusive('atheris driver failed without an artifact: ' + tail[-400:])
            stats.event('atheris:completed-%d-runs' % case['runs'])
            return
        with open(crashes[0], 'rb') as f:
            data = list(f.read())
        msg = 'atheris found a violating input'
        try:
            prop_bytes({'bytes': data}, stats)
        except Violation as v:
            msg = str(v)
        d = os.path.join(env.OUT, 'replays', PID, 'found')
        os.makedirs(d, exist_ok=True)
        path = os.path.join(d, 'bytes-atheris-%s.json' % hashlib.sha1(bytes(data)).hexdigest()[:10])
        with open(path, 'w') as f:
            json.dump({'property': PID, 'bucket': 'bytes', 'msg': msg, 'case': codec.enc({'bytes': data})}, f, indent=1, sort_keys=True)
        raise Violation('atheris (seed %d): input bytes %r (also saved as %s): %s' % (case['seed'], data, path, msg))
    finally:
        shutil.rmtree(art, ignore_errors=True)


def atheris_cases():
    import os
    return st.just({'stage': 'atheris', 'runs': 200000, 'seed': int(os.environ.get('VERIF_SEED', '1'))})


# ---------------------------------------------------------------------------

def buckets(tier):
    B = []

    def add(name, strat, prop, q, t, nt, cl, weight=1.0, shards=1):
        B.append(packed_bucket(name, strat, prop, {'quick': q, 'thorough': t}, nt, cl, weight=weight,
                               shards={'quick': 1, 'thorough': shards}))

    nf = lambda f: (lambda: with_nonfinite(f()))
    add('getitem:tuple', nf(lambda: getitem_cases('tuple')), prop_getitem, 1000, 4000, nt_getitem, cls_getitem, 2.0, 4)
    add('getitem:bare', nf(lambda: getitem_cases('bare')), prop_getitem, 600, 3000, nt_getitem, cls_getitem, 2.0, 2)
    for vk in ('utpm', 'utpm-bcast', 'ndarray', 'ndarray-bcast', 'scalar'):
        add('setitem:' + vk, nf(lambda vk=vk: setitem_cases(vk)), prop_setitem, 600, 3000, nt_setitem, cls_setitem, 2.0, 3)
    add('reshape', nf(reshape_cases), prop_op, 800, 4000, nt_op, cls_op, 2.0, 3)
    add('transpose', nf(transpose_cases), prop_op, 480, 3000, nt_op, cls_op, 2.0, 2)
    add('sum', sum_cases, prop_op, 600, 3000, nt_op, cls_op)
    add('tile', nf(tile_cases), prop_op, 480, 3000, nt_op, cls_op, 1.5)
    add('diag', nf(diag_cases), prop_op, 480, 3000, nt_op, cls_op)
    add('triu', nf(lambda: tri_cases('triu')), prop_op, 320, 2000, nt_op, cls_op)
    add('tril', nf(lambda: tri_cases('tril')), prop_op, 320, 2000, nt_op, cls_op)
    add('trace', trace_cases, prop_op, 240, 2000, nt_op, cls_op)
    add('symvec', nf(symvec_cases), prop_op, 320, 2000, nt_op, cls_op, 2.0)
    add('vecsym', nf(vecsym_cases), prop_op, 240, 1500, nt_op, cls_op, 2.0)
    for op in ('neg', 'conj', 'real', 'imag'):
        add(op, nf(lambda op=op: unary_cases(op)), prop_op, 240, 2000, nt_op, cls_op)
    add('fft', lambda: fft_cases('fft'), prop_op, 400, 3000, nt_op, cls_op)
    add('ifft', lambda: fft_cases('ifft'), prop_op, 400, 3000, nt_op, cls_op)
    add('zeros', nf(lambda: construct_cases('zeros')), prop_construct, 240, 2000, nt_construct, cls_construct)
    add('ones', nf(lambda: construct_cases('ones')), prop_construct, 240, 2000, nt_construct, cls_construct)
    add('zeros_ones_like', nf(lambda: construct_cases('like')), prop_construct, 240, 2000, nt_construct, cls_construct)
    add('reject', reject_cases, prop_reject, 400, 2000, nt_op, cls_reject)
    add('bytes', bytes_cases, prop_bytes, 1200, 20000, nt_bytes, cls_bytes, 2.0, 4)
    if tier == 'thorough':
        add('atheris', atheris_cases, prop_atheris, 1, 1, (lambda case: False), (lambda case: ['stage=atheris']), 1e6)
    return B
