"""Reference helpers private to C08: truncated matrix-series algebra built on oracles.conv (no algopy code),
curve constructions with prescribed eigenvalue structure, and the comparison predicate."""
import numpy as np

from ..runner import Violation, Inconclusive, Rejected, guard
from ..oracles import conv


def guard_declared(fn, *args, declared=(), **kwargs):
    """``guard`` plus: an exception whose text contains one of ``declared`` is the code's own statement that the
    form is unsupported (declared rejection, DESIGN section 2 "Exceptions")."""
    try:
        return guard(fn, *args, **kwargs)
    except Violation as v:
        s = str(v)
        for pat in declared:
            if pat in s:
                raise Rejected(s)
        raise


# ---------------------------------------------------------------------------
# truncated series algebra for ONE direction: arrays (D, n, m)
# ---------------------------------------------------------------------------

def smul(X, Y):
    """(X*Y)_d = sum_k X_k . Y_{d-k}"""
    return conv(X, Y, np.dot)


def smul_abs(X, Y):
    return conv(np.abs(X), np.abs(Y), np.dot)


def sT(X):
    return np.swapaxes(X, -1, -2)


def sdiag(lam):
    """(D,n) -> (D,n,n) diagonal series"""
    D, n = lam.shape
    out = np.zeros((D, n, n), dtype=lam.dtype)
    for d in range(D):
        out[d] = np.diag(lam[d])
    return out


def sconst(M, D):
    out = np.zeros((D,) + M.shape, dtype=M.dtype)
    out[0] = M
    return out


def sident(n, D):
    return sconst(np.eye(n), D)


def exp_skew_series(S):
    """E(t) = exp(S(t)) mod t^D for a matrix polynomial S with S(0) = 0: the exponential series terminates
    (S^k = O(t^k)).  If every S_k is skew-symmetric, E is orthogonal modulo t^D."""
    D, n, _ = S.shape
    assert not np.any(S[0])
    E = sident(n, D)
    term = sident(n, D)
    for k in range(1, D):
        term = smul(term, S) / k
        E = E + term
    return E


def sym_curve(Q0, S, lam):
    """A(t) = Q(t) diag(lam(t)) Q(t)^T mod t^D with Q(t) = Q0 exp(S(t)); every coefficient symmetrized"""
    D = lam.shape[0]
    Q = smul(sconst(Q0, D), exp_skew_series(S))
    A = smul(smul(Q, sdiag(lam)), sT(Q))
    return 0.5 * (A + sT(A))


# ---------------------------------------------------------------------------
# comparison
# ---------------------------------------------------------------------------

def term_scale(*mags):
    """mags: arrays (D,...) of summed |term| magnitudes of ONE direction.  Rounding errors of a factor are relative
    to its norm and the recurrences of order d pass through all lower orders: scale_d = max_{k<=d} max_entries."""
    tot = sum(np.abs(m) for m in mags)
    D = tot.shape[0]
    per = tot.reshape(D, -1).max(axis=1) if tot.size else np.zeros(D)
    return np.maximum.accumulate(per)


def eq_check(lhs, rhs, scale, tol, stats, what):
    """lhs, rhs: (D,...) of one direction; scale: (D,)"""
    lhs = np.asarray(lhs)
    rhs = np.asarray(rhs)
    if lhs.shape != rhs.shape:
        raise Violation('%s: shape %s versus %s' % (what, lhs.shape, rhs.shape))
    if not np.all(np.isfinite(rhs)) or not np.all(np.isfinite(scale)):
        raise Inconclusive('non-finite reference')
    if not np.all(np.isfinite(lhs)):
        raise Violation('%s: non-finite value' % what)
    if lhs.size == 0:
        return
    D = lhs.shape[0]
    diff = np.abs(lhs - rhs).reshape(D, -1).max(axis=1)
    sc = np.maximum(scale, 1e-300)
    err = diff / sc
    e = float(err.max())
    stats.err(e)
    if e > tol:
        d = int(np.argmax(err))
        raise Violation('%s: order %d residual %.3e, term magnitude %.3g (rel. %.2e > %.0e)' % (what, d, diff[d], sc[d], e, tol))


def zero_check(X, mask, scale, tol, stats, what):
    """entries of X (D,n,m) selected by the boolean mask (n,m) vanish at every order"""
    D = X.shape[0]
    if not mask.any():
        return
    v = np.abs(X[:, mask]).reshape(D, -1).max(axis=1)
    if not np.all(np.isfinite(X)):
        raise Violation('%s: non-finite value' % what)
    sc = np.maximum(scale, 1e-300)
    err = v / sc
    e = float(err.max())
    stats.err(e)
    if e > tol:
        d = int(np.argmax(err))
        raise Violation('%s: order %d has entry of magnitude %.3e where the structure demands 0 (scale %.3g)' % (what, d, v[d], sc[d]))


# ---------------------------------------------------------------------------
# operands as the caller holds them: memory layout, and "the call left them alone"
# ---------------------------------------------------------------------------

def live_operand(a, is_utpm, layout='C'):
    """build the object handed to algopy from descriptor data.  layout 'C': fresh C-contiguous array;
    'T': the operand is a TRANSPOSED VIEW (X.T of a C-contiguous X, i.e. every coefficient block is Fortran-ordered and
    shares memory with X) -- the form a caller gets from ``A.T``."""
    from algopy import UTPM
    a = np.asarray(a)
    if is_utpm:
        if layout == 'T' and a.ndim >= 3:
            ax = (0, 1) + tuple(range(2, a.ndim))[::-1]
            X = UTPM(np.array(a.transpose(ax), order="C", copy=True))      # a real copy: ascontiguousarray would alias the descriptor for size-1 axes
            return X.T
        return UTPM(a.copy())
    if layout == 'T' and a.ndim >= 1:
        return np.array(a.T, order="C", copy=True).T
    return a.copy()


def assert_unchanged(obj, a, what):
    """the defining equations are statements about the curve the caller passed in; a call that overwrites its operand
    returns factors of a matrix polynomial the caller no longer holds"""
    data = obj.data if hasattr(obj, 'data') and not isinstance(obj, np.ndarray) else obj
    data = np.asarray(data)
    if data.shape != np.asarray(a).shape or not np.array_equal(data, a):
        bad = np.argwhere(data != a)
        where = tuple(int(i) for i in bad[0]) if len(bad) else ()
        raise Violation('%s: the call modified its operand (first difference at %s: %r was %r), so the equation no longer '
                        'holds for the operand the caller holds' % (what, where, data[where].item() if len(bad) else None,
                                                                    np.asarray(a)[where].item() if len(bad) else None))


def out_buffer(shape, dtype, mode):
    """result buffer handed over as ``out=``: zeros, or deterministic non-zero garbage (NumPy's out= convention and the
    code's own kernels -- ``_dot``/``_outer`` clear ``out`` first, internal callers pass ``xbar.copy()`` -- do not require a
    cleared buffer)"""
    n = int(np.prod(shape, dtype=int))
    if mode == 'zeros':
        return np.zeros(shape, dtype=dtype)
    g = (1.25 + 0.5 * (np.arange(n) % 7)).reshape(shape)
    if np.dtype(dtype).kind == 'c':
        return g * (1.0 - 0.5j)
    return g.astype(dtype)
