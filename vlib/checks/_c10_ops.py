"""C10 helper: operation registry for part (a) (zeroth coefficient + shape metadata) with argument generators.

A case is ``{'op': name, 'form': variant, 'args': [arg, ...], 'params': {...}}`` where an argument is
``{'k': 'U', 'v': ndarray (D,P)+shape}`` (Taylor polynomial), ``{'k': 'A', 'v': ndarray}`` or ``{'k': 'S', 'v': scalar}``.
All polynomial arguments of a case share (D, P).  The reference applies the NumPy/SciPy function to the zeroth
coefficients of direction p (``v[0, p]``) and to the plain arguments as they are.
"""
import operator
import numpy as np
import scipy.linalg
import scipy.special
from hypothesis import strategies as st
from hypothesis.extra import numpy as hnp

import algopy
from algopy import UTPM

from ..runner import KF
from .. import gen

R = gen.interval_union
EXACT = 'exact'


class Op:
    def __init__(self, name, call, ref, cases, tol=EXACT, skip_outs=(), family='misc', n=(80, 600), inplace=False):
        self.name = name          # bucket name
        self.call = call          # call(form, params, *objects) -> result or tuple of results
        self.ref = ref            # ref(form, params, *plain objects) -> NumPy result(s)
        self.cases = cases        # zero-argument callable -> strategy of case descriptors
        self.tol = tol
        self.skip_outs = set(skip_outs)   # outputs fixed only up to sign/layout: value not compared here (C08)
        self.family = family
        self.n = n
        self.inplace = inplace


REG = {}


def reg(op):
    REG[op.name] = op
    return op


# ---------------------------------------------------------------------------
# generic pieces
# ---------------------------------------------------------------------------

def _D():
    return st.sampled_from([1, 2, 2, 3, 4])


def _P():
    return st.sampled_from([1, 2, 2, 3])


@st.composite
def dims(draw):
    return draw(_D()), draw(_P())


def shapes(min_rank=0, max_rank=3, max_side=3):
    return hnp.array_shapes(min_dims=min_rank, max_dims=max_rank, min_side=1, max_side=max_side)


def U(v):
    return {'k': 'U', 'v': v}


def A(v):
    return {'k': 'A', 'v': v}


def S(v):
    return {'k': 'S', 'v': v}


LAYOUTS = [None, None, None, None, 'F', 'T', 'step', 'DPlast', 'PD', 'rev']


def layout(v, lay):
    """the coefficient array v (D,P)+shape stored with another memory layout (same values, same logical shape)"""
    v = np.array(v, copy=True)
    n = v.ndim
    if not lay or n == 2 and lay in ('T', 'step', 'rev'):
        return v
    if lay == 'F':
        return np.asfortranarray(v)
    if lay == 'T':        # the coefficient axes are stored in reversed order (a transposed view)
        ax = (0, 1) + tuple(range(n - 1, 1, -1))
        return np.ascontiguousarray(v.transpose(ax)).transpose(ax)
    if lay == 'step':     # every second element of a larger buffer
        big = np.full(v.shape[:2] + tuple(2 * t for t in v.shape[2:]), -77, dtype=v.dtype)
        sl = (slice(None), slice(None)) + tuple(slice(None, None, 2) for _ in v.shape[2:])
        big[sl] = v
        return big[sl]
    if lay == 'DPlast':   # the (D,P) axes are the fastest varying ones in memory
        c = np.ascontiguousarray(np.moveaxis(np.moveaxis(v, 0, -1), 0, -1))
        return np.moveaxis(np.moveaxis(c, -1, 0), -1, 0)
    if lay == 'PD':       # stored as (P,D,...)
        return np.ascontiguousarray(v.swapaxes(0, 1)).swapaxes(0, 1)
    if lay == 'rev':      # negative stride along the first coefficient axis
        return np.ascontiguousarray(v[:, :, ::-1])[:, :, ::-1]
    raise KeyError(lay)


@st.composite
def ulay(draw, v):
    """polynomial argument with a drawn memory layout"""
    a = U(v)
    lay = draw(st.sampled_from(LAYOUTS))
    if lay:
        a['lay'] = lay
    return a


IM = gen.interval_union((-1.5, 1.5))


@st.composite
def poly(draw, D, P, shape, base, mag=1.0, cplx=False, base_im=None, dtype=None):
    v = draw(gen.utpm_data(D, P, tuple(shape), base, mag=mag, cplx=cplx, base_im=(base_im or IM) if cplx else None))
    if dtype is not None:
        v = v.astype(dtype)
    return draw(ulay(v))


@st.composite
def ipoly(draw, D, P, shape, lo, hi, dtype='int64', nonzero=False):
    """integer typed coefficient data"""
    el = st.integers(lo, hi)
    if nonzero:
        el = el.filter(lambda k: k != 0)
    v = draw(hnp.arrays(np.dtype(dtype), (D, P) + tuple(shape), elements=el))
    return draw(ulay(v))


def cscalars(base):
    """complex scalars: Python complex and numpy.complex128"""
    c = st.builds(complex, base, IM)
    return st.one_of(c, c.map(np.complex128))


def scalars(base):
    return st.one_of(base, base.map(np.float64), base.map(lambda v: float(round(v)) if abs(round(v)) >= 1 else v))


# ---------------------------------------------------------------------------
# arithmetic operators (broadcasting, operand kinds, reflected and in-place forms)
# ---------------------------------------------------------------------------

BINOPS = {'add': operator.add, 'sub': operator.sub, 'mul': operator.mul, 'truediv': operator.truediv}
IOPS = {'iadd': operator.iadd, 'isub': operator.isub, 'imul': operator.imul, 'itruediv': operator.itruediv}
NONZERO = R((0.25, 4), (-4, -0.25))
ANY = R((-4, 4))


def _bshape(s1, s2):
    return np.broadcast_shapes(tuple(s1), tuple(s2))


@st.composite
def arith_cases(draw, opname, kinds):
    D, P = draw(dims())
    bs = draw(hnp.mutually_broadcastable_shapes(num_shapes=2, min_dims=0, max_dims=3, min_side=1, max_side=3))
    s1, s2 = bs.input_shapes
    if draw(st.integers(0, 3)) == 0:
        # trap: the constant's leading axis equals P or D (must not be mixed up with the direction / degree axis)
        lead = draw(st.sampled_from([P, D]))
        s2 = (lead,) + tuple(s1)
    div = opname == 'truediv'
    case = {'op': opname + ':' + kinds, 'form': kinds, 'params': {}}
    lk, rk = kinds[0], kinds[1]
    # operand dtypes: mostly float64; complex on either side; integer / float32 polynomial data where NumPy's result
    # dtype is the operand dtype (+, -, * with integer or same-dtype partners)
    dmode = draw(st.sampled_from(['f', 'f', 'f', 'f', 'cl', 'cr', 'cb', 'int', 'f32']))
    if dmode == 'int' and div and KF.is_open('KF-int-dtype-data'):
        # float valued operation on integer typed polynomial data: result allocated with the integer dtype (open finding)
        dmode, case['steered'] = 'f', 'KF-int-dtype-data'
    case['dmode'] = dmode
    steered = None
    if div and lk == 'A' and KF.is_open('KF-rtruediv') and _bshape(s2, s1) != tuple(s1):
        # open finding (shared with C02): ndarray / polynomial where the array does not broadcast INTO the polynomial
        s2, steered = tuple(s1)[len(s1) - min(len(s1), len(s2)):], 'KF-rtruediv'
        if _bshape(s2, s1) != tuple(s1):
            s2 = tuple(s1)

    def mk(kind, shape, denom, left):
        base = NONZERO if denom else ANY
        cplx = dmode == 'cb' or (dmode == 'cl' and left) or (dmode == 'cr' and not left)
        if dmode == 'int':
            if kind == 'U':
                return draw(ipoly(D, P, shape, -6, 6, draw(st.sampled_from(['int64', 'int64', 'int32']))))
            if kind == 'A':
                return A(draw(hnp.arrays(np.int64, tuple(shape), elements=st.integers(-6, 6))))
            return S(draw(st.one_of(st.integers(-6, 6), st.integers(-6, 6).map(np.int64))))
        if kind == 'U':
            return draw(poly(D, P, shape, base, cplx=cplx, dtype=('float32' if dmode == 'f32' else None)))
        if kind == 'A':
            a = draw(gen.float_array(tuple(shape), base, sparse=False))
            if cplx:
                a = a + 1j * draw(gen.float_array(tuple(shape), IM, sparse=False))
            elif dmode == 'f32':
                a = a.astype(np.float32)
            elif not denom:
                k = draw(st.integers(0, 9))
                if k == 0:
                    a = np.round(a).astype(np.int64)
                elif k == 1:
                    a = np.round(np.abs(a)).astype(np.uint8)
                elif k == 2:
                    a = a > 0
                elif k == 3:
                    a = a.astype(np.float32)
            return A(a)
        if cplx:
            return S(draw(cscalars(base)))
        if dmode == 'f32':
            return S(np.float32(draw(base)))
        if not denom and draw(st.integers(0, 5)) == 0:
            return S(draw(st.sampled_from([True, False, np.bool_(True), np.uint8(3), np.int32(-2), np.float32(1.5)])))
        return S(draw(scalars(base)))

    if lk == 'U':
        args = [mk('U', s1, False, True), mk(rk, s2, div, False)]
    else:
        args = [mk(lk, s2, False, True), mk('U', s1, div, False)]
    case['args'] = args
    if steered:
        case['steered'] = steered
    if dmode == 'int' and div:
        for a in case['args']:      # integer denominators must not be zero
            v = a['v']
            if a is case['args'][1]:
                if isinstance(v, np.ndarray):
                    v[v == 0] = 1
                elif v == 0:
                    a['v'] = type(v)(1)
    return case


def _arith_call(opname):
    return lambda form, q, a, b: BINOPS[opname](a, b)


for _o in BINOPS:
    for _k in ('UU', 'US', 'SU', 'UA', 'AU'):
        # division: algopy's quotient recurrence is not the single IEEE division (1 ulp differences) -> 1e-13
        reg(Op('%s:%s' % (_o, _k), _arith_call(_o), _arith_call(_o),
               (lambda o=_o, k=_k: arith_cases(o, k)), tol=(1e-13 if _o == 'truediv' else EXACT), family='arith'))


@st.composite
def inplace_cases(draw, opname, rk):
    D, P = draw(dims())
    s1 = draw(shapes())
    # right operand broadcastable INTO the left one (the binary result has the left operand's shape)
    k = draw(st.integers(0, len(s1)))
    s2 = tuple(1 if (t != 1 and draw(st.integers(0, 3)) == 0) else t for t in s1[k:])
    steered = None
    if opname == 'itruediv' and rk == 'U' and len(s2) < len(s1) and KF.is_open('KF-itruediv-lower-rank'):
        s2, steered = tuple(s1), 'KF-itruediv-lower-rank'
    div = opname == 'itruediv'
    # NumPy's in-place forms need a result dtype that casts into the left operand: complex left operand with real or
    # complex right operand; integer left operand with integer right operand (not for /=); float32 with float32
    dmode = draw(st.sampled_from(['f', 'f', 'f', 'cl', 'cb', 'int', 'f32']))
    if dmode == 'int' and div:
        dmode = 'f'
    base = NONZERO if div else ANY
    if dmode == 'int':
        left = draw(ipoly(D, P, s1, -6, 6))
        if rk == 'U':
            right = draw(ipoly(D, P, s2, -6, 6))
        elif rk == 'A':
            right = A(draw(hnp.arrays(np.int64, tuple(s2), elements=st.integers(-6, 6))))
        else:
            right = S(draw(st.integers(-6, 6)))
    else:
        f32 = 'float32' if dmode == 'f32' else None
        rc = dmode == 'cb'
        left = draw(poly(D, P, s1, ANY, cplx=dmode in ('cl', 'cb'), dtype=f32))
        if rk == 'U':
            right = draw(poly(D, P, s2, base, cplx=rc, dtype=f32))
        elif rk == 'A':
            a = draw(gen.float_array(s2, base, sparse=False))
            right = A(a + 1j * draw(gen.float_array(s2, IM, sparse=False)) if rc else (a.astype(np.float32) if f32 else a))
        else:
            right = S(draw(cscalars(base)) if rc else (np.float32(draw(base)) if f32 else draw(scalars(base))))
    case = {'op': opname + ':' + rk, 'form': rk, 'params': {}, 'args': [left, right], 'dmode': dmode}
    if steered:
        case['steered'] = steered
    return case


def _iop_call(opname):
    def call(form, q, a, b):
        return IOPS[opname](a, b)
    return call


def _iop_ref(opname):
    return lambda form, q, a, b: BINOPS[opname[1:]](a, b)


for _o in IOPS:
    for _k in ('U', 'S', 'A'):
        reg(Op('%s:%s' % (_o, _k), _iop_call(_o), _iop_ref(_o), (lambda o=_o, k=_k: inplace_cases(o, k)),
               tol=(1e-13 if _o == 'itruediv' else EXACT), family='arith-inplace', inplace=True))


@st.composite
def pow_cases(draw, kind):
    D, P = draw(dims())
    s = draw(shapes())
    case = {'op': 'pow:' + kind, 'form': draw(st.sampled_from(['operator', 'operator', 'method'])), 'params': {}}
    if kind == 'int':
        r = draw(st.integers(0, 5))
        case['args'] = [draw(poly(D, P, s, st.one_of(ANY, st.sampled_from([0.0, 1.0, -1.0, 2.0])))), S(r)]
    elif kind == 'negint':
        case['args'] = [draw(poly(D, P, s, NONZERO)), S(draw(st.integers(-4, -1)))]
    elif kind == 'real':
        r = draw(st.one_of(st.sampled_from([0.5, -0.5, 1.5, 2.0, 3.0, -1.0, 0.25]), gen.nice_floats(-3, 3)))
        case['args'] = [draw(poly(D, P, s, R((0.3, 3)))), S(r)]
    elif kind == 'rpow':
        r = draw(st.one_of(st.sampled_from([2.0, 0.5, 3, 2]), gen.nice_floats(0.2, 4)))
        case['args'] = [S(r), draw(poly(D, P, s, R((-2, 2))))]
        case['form'] = 'operator'
    elif kind == 'UU':
        case['args'] = [draw(poly(D, P, s, R((0.3, 3)))), draw(poly(D, P, s, R((-2, 2))))]
    elif kind == 'complex':
        # complex base and / or complex exponent (scalar exponents; x ** y with complex polynomials)
        sub = draw(st.sampled_from(['c**int', 'c**negint', 'c**real', 'c**complex', 'r**complex', 'c**c', 'real**c', 'complex**r']))
        case['sub'] = sub
        cb = lambda: draw(poly(D, P, s, R((0.3, 3), (-3, -0.3)), cplx=True))
        if sub == 'c**int':
            case['args'] = [cb(), S(draw(st.integers(0, 4)))]
        elif sub == 'c**negint':
            case['args'] = [cb(), S(draw(st.integers(-3, -1)))]
        elif sub == 'c**real':
            case['args'] = [draw(poly(D, P, s, R((0.3, 3)), cplx=True)), S(draw(st.sampled_from([0.5, -0.5, 1.5, 2.5])))]
        elif sub == 'c**complex':
            case['args'] = [draw(poly(D, P, s, R((0.3, 3)), cplx=True)), S(draw(cscalars(R((-2, 2)))))]
        elif sub == 'r**complex':
            case['args'] = [draw(poly(D, P, s, R((0.3, 3)))), S(draw(cscalars(R((-2, 2)))))]
        elif sub == 'c**c':
            case['args'] = [draw(poly(D, P, s, R((0.3, 3)), cplx=True)), draw(poly(D, P, s, R((-2, 2)), cplx=True))]
        elif sub == 'real**c':
            case['args'] = [S(draw(st.sampled_from([2.0, 0.5, 3]))), draw(poly(D, P, s, R((-2, 2)), cplx=True))]
            case['form'] = 'operator'
        else:
            case['args'] = [S(draw(cscalars(R((0.3, 3))))), draw(poly(D, P, s, R((-2, 2))))]
            case['form'] = 'operator'
    elif kind == 'UA':
        # x ** ndarray: 0-d, same shape, fewer axes / 1-sized axes (broadcast INTO x), more axes than x, leading axis == P
        s = draw(shapes(min_rank=0))
        mode = draw(st.sampled_from(['0d', 'same', 'same', 'into', 'into', 'more', 'leadP']))
        if mode == '0d':
            es = ()
        elif mode == 'same' or len(s) == 0 and mode == 'into':
            es = tuple(s)
        elif mode == 'into':
            k = draw(st.integers(0, len(s)))
            es = tuple(1 if (t != 1 and draw(st.integers(0, 2)) == 0) else t for t in s[k:])
        elif mode == 'more':
            es = (draw(st.integers(1, 3)),) + tuple(s)
        else:
            es = (P,) + tuple(s)
        steered = None
        if np.broadcast_shapes(tuple(s), es) != tuple(s) and KF.is_open('KF-pow-array-exponent-rank'):
            es, steered = tuple(s), 'KF-pow-array-exponent-rank'
        ek = draw(st.sampled_from(['intvalued-float', 'int', 'real']))
        if ek == 'real':
            e = draw(gen.float_array(es, st.one_of(st.sampled_from([0.5, 1.5, -0.5, 2.0]), gen.nice_floats(-2, 3)), sparse=False))
            x = draw(poly(D, P, s, R((0.3, 3))))
        else:
            e = draw(hnp.arrays(np.int64, es, elements=st.integers(0, 4) if ek == 'int' else st.integers(-3, 4)))
            if ek == 'intvalued-float':
                e = e.astype(float)
            # negative bases (and exact zeros) only with integer valued exponents; 0 ** negative is infinite: keep zeros away
            bases = R((0.3, 3), (-3, -0.3))
            if np.all(e >= 0):
                bases = st.one_of(bases, st.sampled_from([0.0, -1.0, 1.0]))
            x = draw(poly(D, P, s, bases))
        case['args'] = [x, A(e)]
        case['sub'] = '%s:%s' % ('same(steered)' if steered else mode, ek)
        case['form'] = 'operator'
        if steered:
            case['steered'] = steered
    else:  # 'AU': ndarray ** x
        s = draw(shapes(min_rank=0))
        bs = draw(hnp.mutually_broadcastable_shapes(num_shapes=1, base_shape=tuple(s), min_dims=0, max_dims=3, max_side=3)).input_shapes[0]
        if draw(st.integers(0, 3)) == 0:
            bs = (P,) + tuple(s)
        b = draw(gen.float_array(bs, R((0.3, 3)), sparse=False))
        if draw(st.integers(0, 3)) == 0:
            b = np.ceil(b).astype(np.int64)
        case['args'] = [A(b), draw(poly(D, P, s, R((-2, 2))))]
        case['form'] = 'operator'
    return case


def _pow_call(form, q, a, b):
    if form == 'method':
        return a.__pow__(b)
    return a ** b


def _pow_ref(form, q, a, b):
    if isinstance(a, np.ndarray) and a.dtype.kind in 'iub':
        a = a.astype(float)          # algopy polynomials are float valued: integer ** negative integer is not the subject
    return np.power(a, b)


for _k in ('int', 'negint', 'real', 'rpow', 'UU', 'complex', 'UA', 'AU'):
    reg(Op('pow:' + _k, _pow_call, _pow_ref, (lambda k=_k: pow_cases(k)), tol=1e-13, family='arith', n=(120, 800) if _k in ('UA', 'AU', 'complex') else (80, 600)))


@st.composite
def powglobal_cases(draw):
    D, P = draw(dims())
    s = draw(shapes())
    r = draw(st.sampled_from([2, 3, 0.5, 2.0, -1]))
    x = draw(poly(D, P, s, R((0.3, 3))))
    steered = None
    if KF.is_open('KF-pow-global-utpm'):
        steered = 'KF-pow-global-utpm'
    case = {'op': 'pow:global', 'form': 'operator' if steered else 'global', 'params': {}, 'args': [x, S(r)]}
    if steered:
        case['steered'] = steered
    return case


reg(Op('pow:global', lambda form, q, a, b: algopy.pow(a, b) if form == 'global' else a ** b, lambda form, q, a, b: np.power(a, b),
       powglobal_cases, tol=1e-13, family='arith'))


# ---------------------------------------------------------------------------
# element-wise functions (global dispatcher, method / builtin forms), special functions
# ---------------------------------------------------------------------------

AWAY0 = R((0.05, 3), (-3, -0.05))
ELEM = {
    # name: (domain, {form: callable(x)}, numpy/scipy reference)
    'exp': (R((-3, 3)), {'global': algopy.exp, 'method': lambda x: x.exp()}, np.exp),
    'expm1': (R((-3, 3)), {'global': algopy.expm1, 'method': lambda x: x.expm1()}, np.expm1),
    'log': (R((0.2, 4)), {'global': algopy.log, 'method': lambda x: x.log()}, np.log),
    'log1p': (R((-0.7, 3)), {'global': algopy.log1p, 'method': lambda x: x.log1p()}, np.log1p),
    'sqrt': (R((0.2, 4)), {'global': algopy.sqrt, 'method': lambda x: x.sqrt()}, np.sqrt),
    'sin': (R((-3, 3)), {'global': algopy.sin, 'method': lambda x: x.sin()}, np.sin),
    'cos': (R((-3, 3)), {'global': algopy.cos, 'method': lambda x: x.cos()}, np.cos),
    'tan': (R((-1.2, 1.2)), {'global': algopy.tan, 'method': lambda x: x.tan()}, np.tan),
    'arcsin': (R((-0.8, 0.8)), {'global': algopy.arcsin, 'method': lambda x: x.arcsin()}, np.arcsin),
    'arccos': (R((-0.8, 0.8)), {'global': algopy.arccos, 'method': lambda x: x.arccos()}, np.arccos),
    'arctan': (R((-3, 3)), {'global': algopy.arctan, 'method': lambda x: x.arctan()}, np.arctan),
    'sinh': (R((-2, 2)), {'global': algopy.sinh, 'method': lambda x: x.sinh()}, np.sinh),
    'cosh': (R((-2, 2)), {'global': algopy.cosh, 'method': lambda x: x.cosh()}, np.cosh),
    'tanh': (R((-2, 2)), {'global': algopy.tanh, 'method': lambda x: x.tanh()}, np.tanh),
    'sign': (AWAY0, {'global': algopy.sign, 'method': lambda x: x.sign()}, np.sign),
    'absolute': (AWAY0, {'global': algopy.absolute, 'class': UTPM.absolute, 'builtin': abs, 'method': lambda x: x.abs(), 'fabs': lambda x: x.fabs()},
                 np.absolute),
    'square': (R((-3, 3)), {'global': algopy.square, 'class': UTPM.square}, np.square),
    'negative': (R((-3, 3)), {'global': algopy.negative, 'operator': operator.neg}, np.negative),
    'reciprocal': (NONZERO, {'global': algopy.reciprocal, 'class': UTPM.reciprocal}, np.reciprocal),
    'erf': (R((-2, 2)), {'global': algopy.special.erf, 'class': UTPM.erf}, scipy.special.erf),
    'erfi': (R((-2, 2)), {'global': algopy.special.erfi, 'class': UTPM.erfi}, scipy.special.erfi),
    'dawsn': (R((-2, 2)), {'global': algopy.special.dawsn, 'class': UTPM.dawsn}, scipy.special.dawsn),
    'logit': (R((0.1, 0.9)), {'global': algopy.special.logit, 'class': UTPM.logit}, scipy.special.logit),
    'expit': (R((-3, 3)), {'global': algopy.special.expit, 'class': UTPM.expit}, scipy.special.expit),
    'gammaln': (R((0.3, 5)), {'global': algopy.special.gammaln, 'class': UTPM.gammaln}, scipy.special.gammaln),
    'psi': (R((0.3, 5)), {'global': algopy.special.psi, 'class': UTPM.psi}, scipy.special.psi),
}


# complex domains (real part, imaginary part) of the functions NumPy/SciPy evaluate on complex128 and for which algopy
# returns NumPy's zeroth coefficient (probed on the unchanged tree); away from branch cuts
CELEM = {
    'exp': (R((-2, 2)), R((-2, 2))), 'expm1': (R((-2, 2)), R((-2, 2))), 'log': (R((0.3, 3)), R((-1, 1))),
    'log1p': (R((-0.5, 3)), R((-1, 1))), 'sqrt': (R((0.3, 3)), R((-1, 1))), 'sin': (R((-2, 2)), R((-1, 1))),
    'cos': (R((-2, 2)), R((-1, 1))), 'tan': (R((-1, 1)), R((-1, 1))), 'arcsin': (R((-0.6, 0.6)), R((-0.5, 0.5))),
    'arccos': (R((-0.6, 0.6)), R((-0.5, 0.5))), 'arctan': (R((-2, 2)), R((-0.5, 0.5))), 'sinh': (R((-2, 2)), R((-1, 1))),
    'cosh': (R((-2, 2)), R((-1, 1))), 'tanh': (R((-2, 2)), R((-0.8, 0.8))), 'sign': (AWAY0, R((-2, 2))),
    'absolute': (AWAY0, R((-2, 2))), 'square': (R((-2, 2)), R((-2, 2))), 'negative': (R((-2, 2)), R((-2, 2))),
    'reciprocal': (R((0.3, 3), (-3, -0.3)), R((-1, 1))), 'erf': (R((-1.5, 1.5)), R((-1, 1))), 'erfi': (R((-1.5, 1.5)), R((-1, 1))),
    'dawsn': (R((-1.5, 1.5)), R((-1, 1))),
}
# abs(x), x.abs(), x.fabs() of a complex polynomial return x itself (open finding KF-abs-builtin-complex)
ABS_BUILTIN_FORMS = ('builtin', 'method', 'fabs')
FLOAT32_OK = set(ELEM)


# tiny magnitude base points |x0| in 1e-20 .. 1e-4 (where log1p(x) != log(1+x), expm1(x) != exp(x)-1, sin(x) ~ x ...):
# name -> (both signs?, exact zeros +0.0 / -0.0 included?)
TINY = {n: (True, True) for n in ('exp', 'expm1', 'log1p', 'sin', 'cos', 'tan', 'arcsin', 'arccos', 'arctan', 'sinh', 'cosh', 'tanh',
                                  'square', 'negative', 'erf', 'erfi', 'dawsn', 'expit')}
TINY.update({n: (True, False) for n in ('sign', 'absolute', 'reciprocal')})          # kink / pole at 0
TINY.update({n: (False, False) for n in ('log', 'sqrt', 'logit', 'gammaln', 'psi')})  # defined for x > 0


def tiny_values(both_signs, zeros):
    mant = st.floats(1.0, 9.999, allow_nan=False, allow_infinity=False, width=64)
    mag = st.builds(lambda m, e: m * 10.0 ** e, mant, st.integers(-20, -5))
    v = st.builds(lambda a, sg: a * sg, mag, st.sampled_from([1.0, -1.0])) if both_signs else mag
    if zeros:
        v = st.one_of(v, v, v, v, v, v, st.sampled_from([0.0, -0.0]))
    return v


@st.composite
def elem_cases(draw, name, group='real'):
    """group: 'real' (float64 / float32 / integer data), 'complex', 'tiny' - one bucket per (function, group), so that no
    operand class depends on how Hypothesis happens to distribute a drawn mode over a small bucket"""
    D, P = draw(dims())
    s = draw(shapes())
    dom, forms, _ = ELEM[name]
    form = draw(st.sampled_from(sorted(forms)))
    case = {'op': name, 'form': form, 'params': {}}
    mode = {'complex': 'c', 'tiny': 'tiny'}.get(group) or draw(st.sampled_from(['f', 'f', 'f', 'f32', 'int']))
    if mode == 'tiny':
        # compared element-wise RELATIVE to the NumPy value (a few ulp), see c10.cmp_ulp
        case['args'] = [draw(poly(D, P, s, tiny_values(*TINY[name]), mag=0.5))]
        case['dmode'] = 'tiny'
        return case
    if mode == 'int' and name in ('sign', 'absolute', 'square', 'negative'):
        mode = 'f'          # integer preserving functions: bucket int:elementwise
    if mode == 'int' and KF.is_open('KF-int-dtype-data'):
        mode, case['steered'] = 'f', 'KF-int-dtype-data'
    if mode == 'int':
        lo, hi = {'log': (1, 4), 'sqrt': (0, 4), 'log1p': (0, 3), 'arcsin': (-1, 1), 'arccos': (-1, 1), 'tan': (-1, 1), 'reciprocal': (1, 4),
                  'logit': (1, 1), 'gammaln': (1, 5), 'psi': (1, 5)}.get(name, (-2, 2))
        case['args'] = [draw(ipoly(D, P, s, lo, hi))]
        case['dmode'] = 'int'
        if name == 'logit':
            case['args'] = [draw(poly(D, P, s, dom, mag=0.5))]
    elif mode == 'c' and name in CELEM:
        if name == 'absolute' and form in ABS_BUILTIN_FORMS and KF.is_open('KF-abs-builtin-complex'):
            case['steered'] = 'KF-abs-builtin-complex'
            case['form'] = draw(st.sampled_from(['global', 'global']))
        case['args'] = [draw(poly(D, P, s, CELEM[name][0], mag=0.5, cplx=True, base_im=CELEM[name][1]))]
        case['dmode'] = 'c'
    elif mode == 'f32':
        case['args'] = [draw(poly(D, P, s, dom, mag=0.5, dtype='float32'))]
        case['dmode'] = 'f32'
    else:
        case['args'] = [draw(poly(D, P, s, dom, mag=0.5))]
    return case


@st.composite
def intelem_cases(draw):
    """sign / absolute / square / negative of integer typed polynomials (NumPy keeps the integer dtype)"""
    D, P = draw(dims())
    s = draw(shapes())
    name = draw(st.sampled_from(['sign', 'absolute', 'square', 'negative']))
    forms = ELEM[name][1]
    return {'op': 'int:elementwise', 'form': draw(st.sampled_from(sorted(forms))), 'params': {'name': name}, 'dmode': 'int',
            'args': [draw(ipoly(D, P, s, -6, 6, draw(st.sampled_from(['int64', 'int32'])), nonzero=True))]}


reg(Op('int:elementwise', lambda form, q, x: ELEM[q['name']][1][form](x), lambda form, q, x: ELEM[q['name']][2](x), intelem_cases,
       tol=EXACT, family='elementwise'))


for _n in ELEM:
    reg(Op(_n, (lambda form, q, x, n=_n: ELEM[n][1][form](x)), (lambda form, q, x, n=_n: ELEM[n][2](x)),
           (lambda n=_n: elem_cases(n)), tol=1e-13, family='elementwise', n=(60, 500)))


@st.composite
def param_cases(draw, name):
    D, P = draw(dims())
    s = draw(shapes(max_rank=2))
    if name == 'polygamma':
        q = {'n': draw(st.integers(0, 3))}
        x = draw(poly(D, P, s, R((0.4, 5)), mag=0.5))
    elif name == 'hyperu':
        q = {'a': draw(st.sampled_from([0.5, 1.0, 1.5, 2.0, 2.5])), 'b': draw(st.sampled_from([0.5, 1.5, 2.5, 0.75, 3.25]))}
        x = draw(poly(D, P, s, R((0.5, 4)), mag=0.5))
    else:  # botched_clip
        lo = draw(gen.nice_floats(-2, 1))
        hi = lo + draw(gen.nice_floats(0.5, 3))
        q = {'lo': lo, 'hi': hi}

        def place(u):
            if u < 1:
                return lo - 0.05 - 2 * u
            if u < 2:
                return lo + 0.05 + (u - 1) * (hi - lo - 0.1)
            return hi + 0.05 + 2 * (u - 2)
        x = draw(poly(D, P, s, gen.nice_floats(0.0, 2.999).map(place), mag=0.5))
    return {'op': name, 'form': draw(st.sampled_from(['global', 'class'])), 'params': q, 'args': [x]}


reg(Op('polygamma', lambda form, q, x: (algopy.special.polygamma if form == 'global' else UTPM.polygamma)(q['n'], x),
       lambda form, q, x: scipy.special.polygamma(q['n'], x), lambda: param_cases('polygamma'), tol=1e-13, family='elementwise', n=(60, 400)))
reg(Op('hyperu', lambda form, q, x: (algopy.special.hyperu if form == 'global' else UTPM.hyperu)(q['a'], q['b'], x),
       lambda form, q, x: scipy.special.hyperu(q['a'], q['b'], x), lambda: param_cases('hyperu'), tol=1e-13, family='elementwise', n=(60, 400)))
reg(Op('botched_clip', lambda form, q, x: (algopy.special.botched_clip if form == 'global' else UTPM.botched_clip)(q['lo'], q['hi'], x),
       lambda form, q, x: np.clip(x, q['lo'], q['hi']), lambda: param_cases('botched_clip'), tol=EXACT, family='elementwise', n=(60, 400)))


@st.composite
def minmax_cases(draw, name):
    D, P = draw(dims())
    s = draw(shapes())
    x = draw(gen.utpm_data(D, P, s, R((-3, 3))))
    delta = draw(gen.float_array((1, P) + tuple(s), AWAY0, sparse=False))
    y = draw(gen.utpm_data(D, P, s, R((0, 0))))
    y[0] = x[0] + delta[0]
    return {'op': name, 'form': draw(st.sampled_from(['global', 'class'])), 'params': {}, 'args': [draw(ulay(x)), draw(ulay(y))]}


for _n, _r in (('minimum', np.minimum), ('maximum', np.maximum)):
    reg(Op(_n, (lambda form, q, x, y, n=_n: (getattr(algopy, n) if form == 'global' else getattr(UTPM, n))(x, y)),
           (lambda form, q, x, y, r=_r: r(x, y)), (lambda n=_n: minmax_cases(n)), tol=EXACT, family='elementwise'))


# ---------------------------------------------------------------------------
# prod, max, argmax
# ---------------------------------------------------------------------------

def _kf_prod(shape):
    return len(shape) != 1


@st.composite
def prod_cases(draw):
    D, P = draw(dims())
    s = draw(shapes(max_rank=3))
    steered = None
    if _kf_prod(s) and KF.is_open('KF-prod-rank'):
        s, steered = (draw(st.integers(1, 4)),), 'KF-prod-rank'
    dmode = draw(st.sampled_from(['f', 'f', 'c', 'int']))
    if dmode == 'int':
        arg = draw(ipoly(D, P, s, -3, 3, nonzero=True))
    else:
        arg = draw(poly(D, P, s, R((0.5, 2), (-2, -0.5)), cplx=dmode == 'c'))
    case = {'op': 'prod', 'form': draw(st.sampled_from(['global', 'method'])), 'params': {}, 'args': [arg], 'dmode': dmode}
    if steered:
        case['steered'] = steered
    return case


reg(Op('prod', lambda form, q, x: algopy.prod(x) if form == 'global' else x.prod(), lambda form, q, x: np.prod(x),
       prod_cases, tol=1e-13, family='reduction'))


@st.composite
def max_cases(draw, name):
    D, P = draw(dims())
    n = draw(st.integers(1, 5))
    s = (n,) if name == 'max' else draw(shapes(min_rank=1))
    n = int(np.prod(s))
    # distinct zeroth coefficients (no ties: argmax of ties is a convention, not part of the statement)
    x = draw(gen.utpm_data(D, P, s, R((-3, 3))))
    for p in range(P):
        perm = draw(st.permutations(list(range(n))))
        x[0, p] = (np.array(perm, dtype=float).reshape(s) - draw(st.integers(0, n))) * draw(st.sampled_from([1.0, 0.5, 0.25]))
    return {'op': name, 'form': 'class', 'params': {}, 'args': [draw(ulay(x))]}


reg(Op('max', lambda form, q, x: UTPM.max(x), lambda form, q, x: np.max(x), lambda: max_cases('max'), tol=EXACT, family='reduction'))
# argmax returns one flat index per direction (a plain ndarray of length P): handled by its own property in c10.py
ARGMAX_CASES = lambda: max_cases('argmax')


# ---------------------------------------------------------------------------
# linear algebra
# ---------------------------------------------------------------------------

@st.composite
def mats(draw, D, P, m, n, kind='general', sym_hi=False, cplx=False):
    """(D,P,m,n) coefficient array; zeroth coefficients built constructively per direction (different bases)"""
    x = np.zeros((D, P, m, n))
    for p in range(P):
        if kind == 'general':
            a = draw(gen.well_conditioned(m, n))
        elif kind == 'pivot':
            a = draw(gen.pivot_forcing(m))
        elif kind == 'spd':
            a = draw(gen.spd(m))
        elif kind == 'symmetric':
            a = draw(gen.symmetric_distinct(m))
        elif kind == 'posdet':
            a = draw(gen.well_conditioned(m, n))
            if np.linalg.det(a) < 0:
                a[0] = -a[0]
        elif kind == 'small':
            a = draw(gen.float_array((m, n), gen.nice_floats(-0.5 / m, 0.5 / m), sparse=False))
        elif kind == 'eig-real':
            q = draw(gen.well_conditioned(m, m))
            lam = draw(gen.spaced_values(m, 0.3, 0.4, signs=True))
            a = q @ np.diag(lam) @ np.linalg.inv(q)
        else:
            raise KeyError(kind)
        x[0, p] = a
    if D > 1:
        hi = draw(gen.float_array((D - 1, P, m, n), gen.coeff_elements(0.5)))
        if sym_hi:
            hi = 0.5 * (hi + hi.transpose(0, 1, 3, 2))
        x[1:] = hi
    if cplx:
        # rotate by a unit complex number and add an imaginary perturbation far below the smallest singular value (>= 0.3)
        ph = np.exp(1j * draw(gen.nice_floats(-3.0, 3.0)))
        e = draw(gen.float_array((D, P, m, n), gen.nice_floats(-1.0, 1.0), sparse=False))
        x = x * ph + 1j * e * (0.1 / max(m, n) if kind != 'small' else 0.2 / max(m, n))
    return x


@st.composite
def dot_cases(draw, kinds):
    D, P = draw(dims())
    r1, r2 = draw(st.sampled_from([(1, 1), (2, 1), (1, 2), (2, 2), (2, 2), (3, 2), (2, 3), (3, 1), (1, 3), (3, 3)]))
    k = draw(st.integers(1, 3))
    s1 = tuple(draw(st.integers(1, 3)) for _ in range(r1 - 1)) + (k,)
    s2 = (k,) if r2 == 1 else tuple(draw(st.integers(1, 3)) for _ in range(r2 - 2)) + (k, draw(st.integers(1, 3)))

    dmode = draw(st.sampled_from(['f', 'f', 'f', 'cl', 'cr', 'cb', 'int', 'f32']))

    def mk(kind, s, left):
        cplx = dmode == 'cb' or (dmode == 'cl' and left) or (dmode == 'cr' and not left)
        if dmode == 'int':
            return draw(ipoly(D, P, s, -4, 4)) if kind == 'U' else A(draw(hnp.arrays(np.int64, tuple(s), elements=st.integers(-4, 4))))
        if kind == 'U':
            return draw(poly(D, P, s, ANY, cplx=cplx, dtype='float32' if dmode == 'f32' else None))
        a = draw(gen.float_array(s, ANY, sparse=False))
        if cplx:
            a = a + 1j * draw(gen.float_array(s, IM, sparse=False))
        elif dmode == 'f32':
            a = a.astype(np.float32)
        return A(a)
    return {'op': 'dot:' + kinds, 'form': draw(st.sampled_from(['global', 'class'])), 'params': {}, 'dmode': dmode,
            'args': [mk(kinds[0], s1, True), mk(kinds[1], s2, False)], 'ranks': (r1, r2)}


for _k in ('UU', 'UA', 'AU'):
    reg(Op('dot:' + _k, lambda form, q, x, y: algopy.dot(x, y) if form == 'global' else UTPM.dot(x, y),
           lambda form, q, x, y: np.dot(x, y), (lambda k=_k: dot_cases(k)), tol=1e-13, family='linalg'))


@st.composite
def outer_cases(draw, kinds):
    D, P = draw(dims())
    n, m = draw(st.integers(1, 4)), draw(st.integers(1, 4))
    steered = None
    if n != m and KF.is_open('KF-outer-shape'):
        m, steered = n, 'KF-outer-shape'

    dmode = draw(st.sampled_from(['f', 'f', 'f', 'cl', 'cr', 'cb', 'int', 'intl', 'f32']))
    if dmode in ('cl', 'cr', 'intl') and KF.is_open('KF-outer-dtype-promotion'):
        # outer allocates its result with the dtype of one operand: mixed dtypes raise (open finding)
        dmode, steered = {'cl': 'cb', 'cr': 'cb', 'intl': 'int'}[dmode], 'KF-outer-dtype-promotion'

    def mk(kind, s, left):
        cplx = dmode == 'cb' or (dmode == 'cl' and left) or (dmode == 'cr' and not left)
        if dmode == 'int' or (dmode == 'intl' and left):
            return draw(ipoly(D, P, s, -4, 4)) if kind == 'U' else A(draw(hnp.arrays(np.int64, tuple(s), elements=st.integers(-4, 4))))
        if kind == 'U':
            return draw(poly(D, P, s, ANY, cplx=cplx, dtype='float32' if dmode == 'f32' else None))
        a = draw(gen.float_array(s, ANY, sparse=False))
        if cplx:
            a = a + 1j * draw(gen.float_array(s, IM, sparse=False))
        elif dmode == 'f32':
            a = a.astype(np.float32)
        return A(a)
    case = {'op': 'outer:' + kinds, 'form': draw(st.sampled_from(['global', 'class'])), 'params': {}, 'dmode': dmode,
            'args': [mk(kinds[0], (n,), True), mk(kinds[1], (m,), False)]}
    if steered:
        case['steered'] = steered
    return case


for _k in ('UU', 'UA', 'AU'):
    reg(Op('outer:' + _k, lambda form, q, x, y: algopy.outer(x, y) if form == 'global' else UTPM.outer(x, y),
           lambda form, q, x, y: np.outer(x, y), (lambda k=_k: outer_cases(k)), tol=EXACT, family='linalg'))


@st.composite
def square_cases(draw, name, kind, sym_hi=False, Dmax=4, nmax=4):
    D, P = draw(dims())
    D = min(D, Dmax)
    n = draw(st.integers(1, nmax))
    k = draw(st.sampled_from(kind)) if isinstance(kind, (list, tuple)) else kind
    cplx = name in ('inv', 'expm') and draw(st.integers(0, 3)) == 0
    case = {'op': name, 'form': draw(st.sampled_from(['global', 'class'])), 'params': {}, 'mkind': k,
            'args': [draw(ulay(draw(mats(D, P, n, n, k, sym_hi, cplx=cplx))))]}
    if cplx:
        case['dmode'] = 'c'
    return case


def _gc(name, alg=None):
    alg = alg or getattr(algopy, name)
    return lambda form, q, *a: alg(*a) if form == 'global' else getattr(UTPM, name)(*a)


reg(Op('inv', _gc('inv'), lambda form, q, a: np.linalg.inv(a), lambda: square_cases('inv', ['general', 'pivot']), tol=1e-12, family='linalg'))
reg(Op('det', _gc('det'), lambda form, q, a: np.linalg.det(a), lambda: square_cases('det', ['general', 'pivot']), tol=1e-12, family='linalg'))
reg(Op('logdet', _gc('logdet'), lambda form, q, a: np.linalg.slogdet(a)[1], lambda: square_cases('logdet', ['posdet', 'spd']), tol=1e-12, family='linalg'))
reg(Op('cholesky', _gc('cholesky'), lambda form, q, a: np.linalg.cholesky(a), lambda: square_cases('cholesky', 'spd', True), tol=1e-12, family='linalg'))
reg(Op('lu', _gc('lu'), lambda form, q, a: scipy.linalg.lu(a), lambda: square_cases('lu', ['general', 'pivot']), tol=1e-12, family='linalg'))
reg(Op('eigh', _gc('eigh'), lambda form, q, a: tuple(np.linalg.eigh(a)), lambda: square_cases('eigh', 'symmetric', True), tol=1e-12, family='linalg'))
# eigenvectors of the general eigenproblem are fixed only up to scaling: covered by the defining equations (C08)
reg(Op('eig', _gc('eig'), lambda form, q, a: tuple(np.linalg.eig(a)), lambda: square_cases('eig', ['eig-real', 'general'], Dmax=2),
       tol=1e-12, skip_outs=(1,), family='linalg'))
reg(Op('expm', lambda form, q, a: algopy.expm(a), lambda form, q, a: scipy.linalg.expm(a), lambda: square_cases('expm', 'small'),
       tol=1e-12, family='linalg'))


@st.composite
def rect_cases(draw, name, shapes_ok):
    D, P = draw(dims())
    m, n = draw(st.integers(1, 4)), draw(st.integers(1, 4))
    if shapes_ok == 'tall' and m < n:
        m, n = n, m
    return {'op': name, 'form': draw(st.sampled_from(['global', 'class'])), 'params': {}, 'args': [draw(ulay(draw(mats(D, P, m, n))))],
            'mkind': 'square' if m == n else 'tall' if m > n else 'wide'}


reg(Op('qr', _gc('qr'), lambda form, q, a: tuple(np.linalg.qr(a)), lambda: rect_cases('qr', 'any'), tol=1e-12, family='linalg'))
reg(Op('qr_full', _gc('qr_full'), lambda form, q, a: tuple(scipy.linalg.qr(a)), lambda: rect_cases('qr_full', 'tall'), tol=1e-12, family='linalg'))


def _svd_ref(form, q, a):
    u, s, vh = np.linalg.svd(a)
    return (u, s, vh.T)


# singular vectors are fixed only up to sign: their values are covered by C08, shapes are still compared here
reg(Op('svd', _gc('svd'), _svd_ref, lambda: rect_cases('svd', 'any'), tol=1e-12, skip_outs=(0, 2), family='linalg'))


@st.composite
def solve_cases(draw, kinds):
    D, P = draw(dims())
    n, k = draw(st.integers(1, 4)), draw(st.integers(1, 3))
    dmode = draw(st.sampled_from(['f', 'f', 'f', 'cl', 'cr', 'cb']))
    steered = None
    if kinds == 'UA' and dmode != 'f' and KF.is_open('KF-solve-ndarray-rhs-complex'):
        dmode, steered = 'f', 'KF-solve-ndarray-rhs-complex'
    ca, cb = dmode in ('cl', 'cb'), dmode in ('cr', 'cb')
    if kinds[0] == 'U':
        a = draw(ulay(draw(mats(D, P, n, n, draw(st.sampled_from(['general', 'pivot'])), cplx=ca))))
    else:
        a = A(draw(mats(1, 1, n, n, 'general', cplx=ca))[0, 0])
    if kinds[1] == 'U':
        b = draw(poly(D, P, (n, k), ANY, cplx=cb))
    else:
        b = draw(gen.float_array((n, k), ANY, sparse=False))
        b = A(b + 1j * draw(gen.float_array((n, k), IM, sparse=False)) if cb else b)
    case = {'op': 'solve:' + kinds, 'form': draw(st.sampled_from(['global', 'class'])), 'params': {}, 'args': [a, b], 'dmode': dmode}
    if steered:
        case['steered'] = steered
    return case


for _k in ('UU', 'UA', 'AU'):
    reg(Op('solve:' + _k, _gc('solve'), lambda form, q, a, b: np.linalg.solve(a, b), (lambda k=_k: solve_cases(k)), tol=1e-12, family='linalg'))
