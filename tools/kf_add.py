#!/usr/bin/env python3
"""tools/kf_add.py <id> <status open|fixed> <PID[,PID..]> <replay path per PID, comma separated, '-' for none> <what> [commit]
appends/updates an entry of known_findings.json (used while building; the file is never written by checks)"""
import json, sys, os
HERE = os.path.dirname(os.path.dirname(os.path.abspath(__file__)))
p = os.path.join(HERE, 'known_findings.json')
doc = json.load(open(p))
kid, status, pids, replays, what = sys.argv[1:6]
commit = sys.argv[6] if len(sys.argv) > 6 else None
pids = pids.split(',')
rp = {}
if replays != '-':
    for pid, r in zip(pids, replays.split(',')):
        if r and r != '-':
            assert os.path.exists(os.path.join(HERE, r)), r
            rp[pid] = r
e = {'id': kid, 'properties': pids, 'status': status, 'what': what, 'replay': rp}
if status == 'fixed':
    e['commit'] = commit
    e['record'] = ['fixed: property=%s %s %s' % (pid, commit, what) for pid in pids]
doc['findings'] = [x for x in doc['findings'] if x['id'] != kid] + [e]
json.dump(doc, open(p, 'w'), indent=1)
print('ok', kid, status)
