#!/usr/bin/env python3
"""tools/kf_fix.py <id> <commit>: mark every entry with this id (central file and fragments) as fixed by <commit>"""
import json, sys, glob, os
HERE = os.path.dirname(os.path.dirname(os.path.abspath(__file__)))
kid, commit = sys.argv[1:3]
n = 0
for p in [os.path.join(HERE, 'known_findings.json')] + sorted(glob.glob(os.path.join(HERE, 'known_findings.d', '*.json'))):
    doc = json.load(open(p))
    lst = doc if isinstance(doc, list) else doc['findings']
    ch = False
    for e in lst:
        if e['id'] == kid:
            e['status'] = 'fixed'
            e['commit'] = commit
            e['record'] = ['fixed: property=%s %s %s' % (pid, commit, e['what']) for pid in e['properties']]
            ch = True
            n += 1
    if ch:
        json.dump(doc, open(p, 'w'), indent=1)
print('flipped', n, 'entries of', kid)
