#!/usr/bin/env python3
"""print a replay file's case in readable form"""
import sys, json
sys.path.insert(0, __file__.rsplit('/tools', 1)[0])
from vlib import codec
import numpy as np
np.set_printoptions(precision=4, linewidth=150)
doc = json.load(open(sys.argv[1]))
print(doc['bucket'], '|', doc.get('msg', '')[:300])
case = codec.dec(doc['case'])
for k, v in case.items():
    print(k, '=', v if not isinstance(v, list) else '\n   ' + '\n   '.join(repr(x) for x in v))
