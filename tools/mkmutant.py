#!/usr/bin/env python3
"""tools/mkmutant.py <out.patch> <file under /repo> <old text> <new text> [occurrence index]
writes a unified diff (paths a/..., b/...) replacing one occurrence of old by new; refuses ambiguous/no matches"""
import sys, difflib
out, rel, old, new = sys.argv[1:5]
occ = int(sys.argv[5]) if len(sys.argv) > 5 else None
old = old.encode().decode('unicode_escape'); new = new.encode().decode('unicode_escape')
s = open('/repo/' + rel).read()
n = s.count(old)
if n == 0 or (n > 1 and occ is None):
    sys.exit('%s: %d matches for %r' % (out, n, old))
idx = -1
for _ in range((occ or 0) + 1):
    idx = s.index(old, idx + 1)
t = s[:idx] + new + s[idx + len(old):]
d = difflib.unified_diff(s.splitlines(True), t.splitlines(True), 'a/' + rel, 'b/' + rel, n=3)
open(out, 'w').writelines(d)
print('wrote', out)
