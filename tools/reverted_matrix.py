#!/usr/bin/env python3
"""Every fix: commit of /repo reverted individually (= one real defect of the original tree) against the quick tier of the
properties the finding is recorded under, generated search only (VERIF_NO_REPLAY=1).
Writes mutants/reverted/<commit>-<slug>.patch and notes/killmatrix/reverted.md.   env SEEDS="1 2 3" (default "1")."""
import json
import os
import re
import subprocess

HERE = os.path.dirname(os.path.dirname(os.path.abspath(__file__)))
BASE = 'e9b51d8'


def sh(*a, **k):
    return subprocess.run(a, stdout=subprocess.PIPE, stderr=subprocess.STDOUT, text=True, **k).stdout


def main():
    seeds = os.environ.get('SEEDS', '1').split()
    kf = json.load(open(os.path.join(HERE, 'known_findings.json')))['findings']
    by_commit = {}
    for e in kf:
        if e.get('status') == 'fixed' and e.get('commit'):
            by_commit.setdefault(e['commit'][:7], []).append(e)
    d = os.path.join(HERE, 'mutants', 'reverted')
    os.makedirs(d, exist_ok=True)
    for f in os.listdir(d):
        os.remove(os.path.join(d, f))
    rows = []
    for line in sh('git', '-C', '/repo', 'log', '--format=%h %s', BASE + '..HEAD').splitlines():
        c, subj = line.split(' ', 1)
        slug = re.sub(r'[^A-Za-z0-9]+', '_', subj[5:55]).strip('_')
        patch = os.path.join(d, '%s-%s.patch' % (c, slug))
        open(patch, 'w').write(sh('git', '-C', '/repo', 'show', '-R', c, '--format='))
        ents = by_commit.get(c[:7], [])
        props = sorted(set(p for e in ents for p in e['properties'])) or ['?']
        res = {}
        for pid in props:
            if pid == '?':
                continue
            out = []
            for s in seeds:
                env = dict(os.environ, VERIF_NO_REPLAY='1', VERIF_SEED=s)
                p = subprocess.run([os.path.join(HERE, 'tools', 'mutant_run.sh'), patch, pid, 'quick'], cwd=HERE, env=env,
                                   stdout=subprocess.PIPE, stderr=subprocess.STDOUT, text=True)
                out.append({1: 'k', 0: 's', 3: 'P'}.get(p.returncode, '?'))
            res[pid] = ''.join(out)
        rows.append((c, subj, [e['id'] for e in ents], res))
        print(c, subj[:60], res, flush=True)
    os.makedirs(os.path.join(HERE, 'notes', 'killmatrix'), exist_ok=True)
    with open(os.path.join(HERE, 'notes', 'killmatrix', 'reverted.md'), 'w') as f:
        f.write('# Reverted fix: commits (real defects of the original tree) vs the quick tier, generated search only\n\n')
        f.write('VERIF_SEED in %s; k = killed, s = survived, P = patch no longer applies on top of later fixes.\n\n' % seeds)
        f.write('| commit | defect | finding | result per property |\n|---|---|---|---|\n')
        for c, subj, ids, res in rows:
            f.write('| %s | %s | %s | %s |\n' % (c, subj[5:].replace('|', '/'), ', '.join(ids), ' '.join('%s:%s' % kv for kv in res.items())))
    print('written notes/killmatrix/reverted.md')


if __name__ == '__main__':
    main()
