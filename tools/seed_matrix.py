#!/usr/bin/env python3
"""Run every seeded change (seeded/<id>/patch.diff) against the checks that are relevant for its property, with the
generated search only (VERIF_NO_REPLAY=1), and record the outcome:

  seeded/<id>/meta.json        which property it breaks, what it needs, what was run, which checks killed it
  notes/killmatrix/seeded.md   the kill matrix

usage: tools/seed_matrix.py [ids...]     (default: all)     env SEEDS="1 2" to try several VERIF_SEED values
"""
import json
import os
import re
import subprocess
import sys

HERE = os.path.dirname(os.path.dirname(os.path.abspath(__file__)))
REL = {
    'C01': ['C01', 'C10', 'C11', 'C12', 'C16'], 'C02': ['C02', 'C10', 'C14'], 'C03': ['C03', 'C04', 'C06', 'C11'],
    'C04': ['C04', 'C03', 'C06'], 'C05': ['C05', 'C03', 'C06'], 'C06': ['C06', 'C04', 'C14'],
    'C07': ['C07', 'C10', 'C12', 'C14'], 'C08': ['C08', 'C10', 'C11', 'C14', 'C06'], 'C09': ['C09', 'C15'],
    'C10': ['C10', 'C13', 'C05'], 'C11': ['C11', 'C10', 'C13', 'C03', 'C08'], 'C12': ['C12', 'C01', 'C07', 'C10', 'C09'],
    'C13': ['C13', 'C10', 'C11'], 'C14': ['C14', 'C02', 'C06', 'C03'], 'C15': ['C15', 'C09'], 'C16': ['C16', 'C01'],
    'C17': ['C17', 'C07', 'C03'],
}


def run(patch, pid, seed):
    env = dict(os.environ, VERIF_NO_REPLAY='1', VERIF_SEED=str(seed), MUT_LINES='2')
    p = subprocess.run([os.path.join(HERE, 'tools', 'mutant_run.sh'), patch, pid, 'quick'], cwd=HERE, env=env,
                       stdout=subprocess.PIPE, stderr=subprocess.STDOUT, text=True)
    first = ''
    for line in p.stdout.splitlines():
        if 'bucket=' in line:
            first = line.strip()[:240]
            break
    return {1: 'killed', 0: 'survived', 3: 'patch-failed'}.get(p.returncode, 'harness-error(%d)' % p.returncode), first


def main():
    ids = sys.argv[1:] or sorted(d for d in os.listdir(os.path.join(HERE, 'seeded')) if os.path.isdir(os.path.join(HERE, 'seeded', d)))
    seeds = [int(s) for s in os.environ.get('SEEDS', '1').split()]
    rows = []
    render_only = bool(os.environ.get('RENDER'))       # RENDER=1: no runs, write seeded.md from all meta.json files
    for sid in ids:
        if render_only:
            m = json.load(open(os.path.join(HERE, 'seeded', sid, 'meta.json')))
            rows.append((sid, m.get('title', ''), m['results'], m['killed_by']))
            continue
        d = os.path.join(HERE, 'seeded', sid)
        patch = os.path.join(d, 'patch.diff')
        prop = re.match(r'(C\d+)', sid).group(1)
        note = open(os.path.join(d, 'note.md')).read() if os.path.exists(os.path.join(d, 'note.md')) else ''
        title = note.splitlines()[0].lstrip('# ').strip() if note else ''
        meta_path = os.path.join(d, 'meta.json')
        meta = json.load(open(meta_path)) if os.path.exists(meta_path) else {}
        # OWN=1: re-run only the property's own check and keep the recorded outcomes of the other checks (final refresh)
        res = {pid: r for pid, r in meta.get('results', {}).items() if pid in REL[prop]} if os.environ.get('OWN') else {}
        for pid in ([prop] if os.environ.get('OWN') else REL[prop]):
            outs = [run(patch, pid, s) for s in seeds]
            res[pid] = {'outcome_per_seed': {str(s): o[0] for s, o in zip(seeds, outs)},
                        'first_violation': next((o[1] for o in outs if o[0] == 'killed'), '')}
        for pid in REL[prop]:
            res.setdefault(pid, {'outcome_per_seed': {}, 'first_violation': ''})
        killed_by = [pid for pid, r in res.items() if any(v == 'killed' for v in r['outcome_per_seed'].values())]
        meta.update({
            'id': sid, 'breaks_property': prop, 'title': title,
            'needs_to_manifest': 'see note.md (written by the author of the change, who had no access to /verif)',
            'confirmed': 'tools/confirm_seed.sh seeded/%s/patch.diff seeded/%s/demo.py: patch applies to /repo HEAD in a scratch worktree, '
                         '`pytest algopy` unchanged (385 passed, 2 skipped), demo exits 1 with the change and 0 without it' % (sid, sid),
            'ran': sorted(set(meta.get('ran', []) + ['VERIF_NO_REPLAY=1 VERIF_SEED=%s tools/mutant_run.sh seeded/%s/patch.diff %s quick' % (s, sid, pid)
                                                     for pid in ([prop] if os.environ.get('OWN') else REL[prop]) for s in seeds])),
            'results': res, 'killed_by': killed_by,
        })
        json.dump(meta, open(meta_path, 'w'), indent=1)
        rows.append((sid, title, res, killed_by))
        print(sid, 'killed by', killed_by or 'NOTHING', flush=True)
    os.makedirs(os.path.join(HERE, 'notes', 'killmatrix'), exist_ok=True)
    with open(os.path.join(HERE, 'notes', 'killmatrix', 'seeded.md'), 'w') as f:
        f.write('# Seeded changes (written by independent sub-agents without access to /verif) vs the quick tier\n\n')
        f.write('Generated search only (`VERIF_NO_REPLAY=1`), one letter per VERIF_SEED value tried (own check: %s; other checks: as recorded when the seed was first run, usually 1 and 2).  k = killed, s = survived, ? = patch failed / harness error, - = not run.\n\n' % seeds)
        f.write('| seed | change | own check | other checks |\n|---|---|---|---|\n')
        for sid, title, res, kb in rows:
            prop = re.match(r'(C\d+)', sid).group(1)

            def cell(pid):
                o = res.get(pid, {}).get('outcome_per_seed', {})
                return '%s:%s' % (pid, ''.join('k' if v == 'killed' else ('s' if v == 'survived' else '?') for v in o.values()) or '-')
            f.write('| %s | %s | %s | %s |\n' % (sid, title.replace('|', '/')[:110], cell(prop), ' '.join(cell(p) for p in REL[prop] if p != prop)))
    print('written notes/killmatrix/seeded.md')


if __name__ == '__main__':
    main()
