#!/bin/sh
# usage: tools/confirm_seed.sh <change.diff> <demo.py>
# confirms in a scratch worktree of /repo HEAD: patch applies, suite unchanged (385 passed, 2 skipped under `pytest algopy`),
# demo exits 1 with the change and 0 without it.  Removes the worktree afterwards.
D="$1"; DEMO="$2"
WT=$(mktemp -d /tmp/confirm.XXXXXX)
git -C /repo worktree add -q --detach "$WT/wt" HEAD || exit 9
cd "$WT/wt"
/venv/bin/python "$DEMO" > "$WT/demo0.log" 2>&1; R0=$?
if ! git apply "$D"; then echo "APPLY-FAILED"; cd /; git -C /repo worktree remove --force "$WT/wt"; rm -rf "$WT"; exit 3; fi
SUITE=$(/venv/bin/python -m pytest -q -p no:cacheprovider algopy 2>&1 | grep -E "passed|failed" | tail -1)
/venv/bin/python "$DEMO" > "$WT/demo1.log" 2>&1; R1=$?
echo "$(basename $D): suite=[$SUITE] demo_without=$R0 demo_with=$R1"
tail -2 "$WT/demo1.log" | cut -c1-200
cd /; git -C /repo worktree remove --force "$WT/wt"; rm -rf "$WT"
