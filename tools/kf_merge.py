#!/usr/bin/env python3
"""merge known_findings.d/*.json fragments into known_findings.json (union of properties/replays per id), delete the fragments"""
import json, glob, os
HERE = os.path.dirname(os.path.dirname(os.path.abspath(__file__)))
p = os.path.join(HERE, 'known_findings.json')
doc = json.load(open(p))
by = {e['id']: e for e in doc['findings']}
for frag in sorted(glob.glob(os.path.join(HERE, 'known_findings.d', '*.json'))):
    d = json.load(open(frag)); lst = d if isinstance(d, list) else d['findings']
    for e in lst:
        if e['id'] in by:
            t = by[e['id']]
            for pid in e['properties']:
                if pid not in t['properties']:
                    t['properties'].append(pid)
            for pid, r in e.get('replay', {}).items():
                if pid in t.setdefault('replay', {}) and t['replay'][pid] != r:
                    t.setdefault('more_reproducers', []).append(r)
                else:
                    t['replay'][pid] = r
            for r in e.get('more_reproducers', []):
                t.setdefault('more_reproducers', []).append(r)
            if t['status'] != e['status']:
                # a finding is fixed as soon as one record says so (the fix commit is what counts)
                if e['status'] == 'fixed':
                    t['status'] = 'fixed'; t['commit'] = e.get('commit')
            if len(e['what']) > len(t['what']) and t['status'] == e['status']:
                pass
        else:
            by[e['id']] = e
            doc['findings'].append(e)
    os.remove(frag)
for e in doc['findings']:
    e['properties'] = sorted(e['properties'])
    if e['status'] == 'fixed':
        e['record'] = ['fixed: property=%s %s %s' % (pid, e.get('commit'), e['what']) for pid in e['properties']]
    else:
        e.pop('record', None); e.pop('commit', None)
    for r in list(e.get('replay', {}).values()) + e.get('more_reproducers', []):
        assert os.path.exists(os.path.join(HERE, r)), r
json.dump(doc, open(p, 'w'), indent=1)
print(len(doc['findings']), 'findings;', sum(1 for e in doc['findings'] if e['status'] == 'open'), 'open')
