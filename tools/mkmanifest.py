#!/usr/bin/env python3
"""(Re)generate /verif/MANIFEST.json from the table below; validates against the schema if jsonschema is available."""
import json
import os
import sys

HERE = os.path.dirname(os.path.dirname(os.path.abspath(__file__)))

CHECKS = {
    'C01': dict(
        technique='property-based testing (Hypothesis): generated (function, D, P, shape, coefficients) vs arbitrary-precision numerical differentiation oracle (mpmath.taylor)',
        text='Generated-input search: one Hypothesis bucket per overloaded function / entry point; every output coefficient compared '
             'with mpmath numerical differentiation of t -> f(x(t)) (independent of Taylor recurrences). Shows the property on thousands of '
             '(function, D, P, shape, real/complex, sparse/dense) cells per run; does not prove absence.',
        note='trusts mpmath (50+ digits), NumPy/SciPy; tolerance 1e-9 relative (hyperu 1e-6); D <= 10, P <= 4, rank <= 3',
        ref='DESIGN.md section 4, C01'),
    'C03': dict(
        technique='property-based testing (Hypothesis, concolic program generation): duality pairing <xbar,v> = <ybar,F\'(x)v> mod t^D with F\'(x)v from forward mode only (2D-shift)',
        text='Generated-input search over straight-line programs of the differentiable API (single-operation buckets for every operation '
             'family + random compositions), recorded by the tracer, evaluated on Taylor curves with different base points per direction, '
             'dense non-symmetric adjoint seeds; the reverse sweep is compared order by order with a forward-only reference.',
        note='forward mode at degree 2D is the reference (validated by C01/C02/C07/C08/C12); tolerance 1e-8 relative to term magnitudes; '
             'D <= 4, P <= 3, programs <= 10 instructions, operands rank <= 2 and sides <= 3',
        ref='DESIGN.md section 4, C03'),
    'C05': dict(
        technique='property-based testing (Hypothesis, concolic program generation): differential test replay-vs-direct execution, recorded-trace vs expected-trace model',
        text='Generated programs (buffers, views, rewrites, constants on both sides, linear algebra, fft) are recorded with ndarray or UTPM inputs '
             'and replayed 1..4 times with unrelated inputs (other kind, D, P, points) through cg.function/cg.pushforward; every node value is '
             'compared with direct execution of the same program; the recorded node sequence is compared with an independently derived expected trace; '
             'recording-off and second-graph isolation are asserted.',
        note='direct execution through the generic algopy API is the reference; tolerance 1e-13; programs <= 12 instructions, D <= 4, P <= 3',
        ref='DESIGN.md section 4, C05'),
    'C04': dict(
        technique='property-based testing (Hypothesis, concolic program generation): differential test of all graph drivers against forward-mode-only derivatives of the direct program; metamorphic relation across recording point/kind/degree',
        text='Generated programs R^N -> R / R^M are recorded twice (ndarray at one point, UTPM of a drawn degree at another) and all eight drivers '
             '(+ jacobian of a UTPM argument, gradient of a list) are evaluated at a point different from both recording points and at the recording '
             'point; results are compared with first/second order forward-mode derivatives of the direct program and between the two graphs.',
        note='forward mode on the direct program is the reference (C01/C02/C07/C08/C09/C12); tolerance 1e-9 relative; N <= 4, programs <= 8 instructions',
        ref='DESIGN.md section 4, C04'),
    'C06': dict(
        technique='model-based property testing over call histories (Hypothesis-drawn step sequences, shrunk as one value): every call compared with the same call on a fresh graph; node-value and seed invariants after every reverse sweep',
        text='Histories of up to 10 calls (forward at other point/D/P/kind, repeated reverse sweeps, drivers, second graph, plain replay) are applied '
             'to one recorded program; each result is compared with the result obtained from the call\'s arguments alone (direct execution / fresh graph; driver results '
             'also with forward-mode derivatives of the direct program, which share no state with any graph), '
             'and after every reverse sweep all node forward values and the caller\'s seed must be byte-identical.',
        note='the fresh graph uses the same kernels (history independence is the claim, correctness of single calls is C03/C04/C05); tolerance 1e-12; '
             'histories <= 10 steps',
        ref='DESIGN.md section 4, C06'),
    'C11': dict(
        technique='property-based testing (Hypothesis, concolic program generation): metamorphic relations P directions vs each direction alone, and perturbation of one direction leaves the others unchanged (forward registers and reverse-sweep adjoints)',
        text='For every operation family and for random compositions, with a different base point per direction: each direction of every '
             'register equals the single-direction evaluation; changing one direction\'s inputs (and seed) leaves the other directions unchanged; '
             'the same for input adjoints after a reverse sweep.',
        note='tolerance 1e-12 (NumPy SIMD kernels round position-dependently); raw eigenvectors excluded (sign convention); P <= 3, D <= 7',
        ref='DESIGN.md section 4, C11'),
    'C12': dict(
        technique='property-based testing (Hypothesis, concolic program generation): metamorphic relation truncate-then-evaluate == evaluate-then-truncate for every D\' < D, forward and reverse; D=1 vs plain NumPy',
        text='For every operation family and random compositions: every register computed with D\' coefficients equals the first D\' coefficients '
             'computed with D (all D\' < D), the zeroth coefficient equals plain NumPy execution, and input adjoints of order < D\' from a truncated '
             'sweep equal those of the full sweep.',
        note='tolerance 1e-12; D <= 7 forward, <= 5 reverse; raw eigenvectors excluded',
        ref='DESIGN.md section 4, C12'),
    'C14': dict(
        technique='property-based testing (Hypothesis, concolic program generation + aliasing case generators): byte-snapshot invariants of operands/constants/inputs/seeds, differential test aliased vs copied operands',
        text='Every instruction of generated programs is executed on UTPM operands with byte snapshots of all registers and constants; traced '
             'programs are recorded, re-evaluated and swept with snapshotted user objects; binary operations with both operands the same object and '
             'in-place operators with the right operand aliasing the left (same object, reversed view, transpose, broadcast row) are compared with '
             'independent copies.',
        note='byte equality for immutability, 1e-13 for aliased-vs-copied; D <= 7, P <= 3',
        ref='DESIGN.md section 4, C14'),
    'C07': dict(
        technique='property-based testing (Hypothesis): generated operand kinds/ranks/sizes with constructively regular base matrices vs convolution-of-NumPy references, residual identities, exact rational determinants and mpmath numerical differentiation',
        text='One bucket per operation x rank pair x operand-kind combination (dot 27, outer 3, inv, solve 4, det, logdet, trace, expm): results compared with '
             'the defining convolution of NumPy dot/outer per direction, A inv(A) = I and A X = B modulo t^D, exact Leibniz determinants over Fractions and '
             'mpmath Taylor expansion of log|det A(t)| and expm(A(t)); different base matrices per direction, pivoting-forcing bases included.',
        note='trusts NumPy/LAPACK for zeroth coefficients and mpmath (>= 50 digits, expm >= 150); tolerance 1e-12 (dot/outer), 1e-9, expm 1e-8; sizes <= 5, D <= 6, P <= 3; '
             'solve with 1-D right-hand side and logdet with det <= 0 are outside the domain (declared by the code)',
        ref='DESIGN.md section 4, C07; notes/C07.md'),
    'C08': dict(
        technique='property-based testing (Hypothesis): generated matrix curves (square/tall/wide, pivoting, exactly repeated eigenvalues splitting at a chosen order) vs validity predicates (defining equations modulo t^D via independent convolution products) and NumPy/SciPy zeroth coefficients',
        text='For qr, qr_full, cholesky, lu/lu2/lu_factor, eigh (distinct and exactly repeated spectra with splitting at order 1..5 or never), eig (D <= 2) and svd: '
             'the returned factors must satisfy the defining equations, orthogonality and triangularity at every order (both directions of the predicate) and their '
             'zeroth coefficients must equal the NumPy/SciPy factorization the code wraps.',
        note='validity predicates + NumPy/SciPy zeroth coefficients; tolerance 1e-8 relative to term magnitudes, gaps >= 0.3, sigma_min >= 0.2; sizes <= 5, D <= 6 (eig 2), P <= 3',
        ref='DESIGN.md section 4, C08; notes/C08.md'),
    'C02': dict(
        technique='property-based testing (Hypothesis): operator x operand-kind x broadcast-pattern buckets vs exact Gaussian-rational truncated power series (exact comparison in the integer/dyadic regime), mpmath oracle for powers',
        text='111 buckets (4 operators x 21 operand-kind pairs incl. reflected forms, in-place forms incl. aliased right operands, 7 power forms): results compared '
             'with exact rational power-series arithmetic evaluated per direction with NumPy supplying the broadcasting of the reference; exact equality when float64 '
             'arithmetic is exact, 1e-12 relative to the convolution terms otherwise; imaginary parts and result shapes asserted.',
        note='trusts Python Fractions/NumPy broadcasting, mpmath for non-integer powers; D <= 8, P <= 3; dtype asserted only where the statement does (complex never dropped)',
        ref='DESIGN.md section 4, C02; notes/C02.md'),
    'C09': dict(
        technique='property-based testing (Hypothesis): generated integer-coefficient polynomial programs run on UTPM and on exact sparse polynomials (analytic derivatives in Fractions); metamorphic cross-checks and mpmath for smooth programs',
        text='Generated polynomial programs (degree <= 5, N <= 6, scalar/vector/matrix outputs) are pushed through init_*/extract_* (jacobian, jac_vec, hessian, hess_vec, tensor d=1..5) '
             'and compared with exact analytic derivatives; smooth programs are compared with mpmath and through the relations Jacobian column = jac_vec(e_j), Hessian = tensor(2) = hess_vec columns.',
        note='exact rational reference, tolerance 1e-10 relative to a majorant of the terms; (N,d) limited to C(N+d-1,d) <= 126',
        ref='DESIGN.md section 4, C09; notes/C09.md'),
    'C10': dict(
        technique='property-based testing (Hypothesis): registry of ~140 public operations vs NumPy/SciPy applied to zeroth coefficients (values, shape, len, size, ndim), comparison-operator truth tables with drawn outcome patterns, plain-argument dispatch differential test',
        text='203 buckets: (a) zeroth coefficient per direction and shape metadata of every operation family equal NumPy/SciPy on the zeroth coefficients; (b) < <= > >= == between polynomial/polynomial, '
             'scalar and ndarray operands equal numpy.all of the element-wise comparison (ties, mixed outcomes across elements and directions); (c) every public name shadowing a NumPy/SciPy function returns '
             'exactly the NumPy/SciPy result for plain arguments.',
        note='NumPy/SciPy are the specification; exact for data movement, 1e-13 element-wise, 1e-12 LAPACK-based; sign/layout-ambiguous factors excluded (C08)',
        ref='DESIGN.md section 4, C10; notes/C10.md'),
    'C13': dict(
        technique='property-based testing (Hypothesis, incl. a byte-decoded target; optional atheris stage): slice-wise NumPy model with parallel ndarray for view/write-through semantics',
        text='28 buckets over every basic index form (tuple and bare), setitem value kinds with/without broadcasting, reshape/transpose/sum/tile/diag/triu/tril/trace/symvec/vecsym/neg/conj/real/imag/fft/ifft/zeros/ones: '
             'op(x).data[d,p] == numpy_op(x.data[d,p]) exactly; views must share memory whenever NumPy returns a view and writing through them must update the parent like the NumPy model; constants clear higher coefficients; '
             'unsupported forms must raise.',
        note='NumPy is the specification, exact comparison; D <= 4, P <= 3, rank <= 4; the atheris stage runs only if atheris is importable (counted inconclusive otherwise)',
        ref='DESIGN.md section 4, C13; notes/C13.md'),
    'C17': dict(
        technique='property-based testing (Hypothesis) of round trips compared bit-wise + exhaustive enumeration of all pivot vectors for N <= 7 against an independent row-swap model',
        text='Round trips of base/directions <-> polynomial, symvec/vecsym (F/L/U), containers <-> polynomial, shift(s)/shift(-s), coeff_op, combine_blocks vs block indexing are compared bit-wise; '
             'all 5913 pivot vectors for N <= 7 are enumerated every run (piv2mat = replayed row swaps, piv2det = permutation sign) and lu_factor outputs of generated matrices satisfy P L U = A and det = sign*prod(diag U).',
        note='bit-wise comparison (signed zeros handled where the arithmetic changes them); exhaustive only for the pivot enumeration (reported in evidence), the rest is sampled',
        ref='DESIGN.md section 4, C17; notes/C17.md'),
    'C15': dict(
        technique='exhaustive enumeration (within a bound) + property-based testing (Hypothesis): exact integer/rational check of Gamma V = I against an independent enumeration of all monomials; generated polynomials/ridge functions through init_tensor/extract_tensor vs exact partials',
        text='Every (N, d) with C(N+d-1,d) <= bound (quick 40: 39 pairs, thorough 130: 52 pairs, d <= 8) is executed every run: the multi-index list must equal the independent enumeration '
             'of all compositions (no duplicates, right count) and sum_j Gamma[i,j] ray_j^alpha = delta(i,alpha) is decided in exact rational arithmetic for all (i, alpha); generated polynomials '
             'and ridge functions pushed through init_tensor/extract_tensor are compared with exact partial derivatives.',
        note='exhaustive within the stated bound on (N,d) (EXHAUSTIVE=True in evidence), sampled beyond; d capped at 8 (float64 conditioning of formula 13.13); residual bound 1e-9 * sum |Gamma||V|',
        ref='DESIGN.md section 4, C15; notes/C15.md'),
    'C16': dict(
        technique='property-based testing (Hypothesis): one bucket per exported n-th derivative function vs mpmath numerical differentiation at 45 digits; exact rules for the piecewise constant/linear functions; order 0 vs NumPy/SciPy bit-wise',
        text='For every name exported by algopy.nthderiv (enumerated at run time), orders n up to 10 (thorough 16 where the reference stays accurate), points of the declared domain with special points boosted, '
             'scalar/array arguments with and without out=: the value equals mpmath.diff of the function; order 0 equals the NumPy/SciPy function.',
        note='trusts mpmath; tolerance 1e-9 * max(1, |f^(n)|, |x f^(n+1)|) (hyperu 1e-7); n caps documented in notes/C16.md',
        ref='DESIGN.md section 4, C16; notes/C16.md'),
}

NOT_BUILT = 'check not built yet in this session (planned, see DESIGN.md section 4)'


def main():
    props = [json.loads(l)['id'] for l in open(os.path.join(HERE, 'properties.jsonl')) if l.strip()]
    checks = []
    na = []
    for pid in props:
        c = CHECKS.get(pid)
        if c is None or not os.path.exists(os.path.join(HERE, 'vlib', 'checks', pid.lower() + '.py')):
            na.append({'property_id': pid, 'reason': NOT_BUILT})
            continue
        checks.append({
            'property_id': pid,
            'quick_cmd': './vcheck %s quick' % pid,
            'thorough_cmd': './vcheck %s thorough' % pid,
            'evidence_file': 'evidence/%s.json' % pid,
            'replay_cmd_template': './vcheck %s --replay {path}' % pid,
            'engine': 'vcheck',
            'level_claimed': {'category': 'exploration', 'text': c['text'], 'design_ref': c['ref']},
            'level_note': c['note'],
            'technique': c['technique'],
        })
    man = {
        'version': 1,
        'setup_cmd': '/venv/bin/python -B -m vlib.env',
        'hooks': {
            'guard': 'ALGOPY_VERIF',
            'enable': 'no source hooks are needed: all observations go through the public API; checks import algopy from /repo (VERIF_REPO) directly',
            'baseline_off_cmd': 'cd /repo && /venv/bin/python -m pytest -ra -q -p no:cacheprovider --timeout=900 --continue-on-collection-errors',
            'source_commits': [],
            'add_only': True,
        },
        'engines': [{
            'name': 'vcheck', 'path': 'vcheck',
            'serves_properties': [c['property_id'] for c in checks],
            'kind_free_text': 'bucketed Hypothesis runner (vlib/runner.py): one seeded Hypothesis test per bucket, sharded over 16 processes, '
                              'plain-data case descriptors, JSON replay files, evidence writer, known-findings handling',
        }],
        'checks': checks,
        'notes': 'Exit 0 = held, 1 = VIOLATION line(s), 2 = harness error/inconclusive. VERIF_SEED selects the Hypothesis seeds. '
                 'known_findings.json lists open findings (KNOWN-FINDING lines) and fixed ones (fix: commits in /repo).',
        'not_applicable': na,
    }
    path = os.path.join(HERE, 'MANIFEST.json')
    with open(path, 'w') as f:
        json.dump(man, f, indent=1)
    try:
        import jsonschema
        jsonschema.validate(man, json.load(open('/root/.vp/MANIFEST.schema.json')))
        print('MANIFEST.json valid: %d checks, %d not_applicable' % (len(checks), len(na)))
    except ImportError:
        print('MANIFEST.json written (jsonschema not available here): %d checks' % len(checks))


if __name__ == '__main__':
    main()
