#!/usr/bin/env python3
"""tools/prep_seed.py <round> <PID>...: prepare /tmp/seed<round>-<PID>/ for an independent seeding sub-agent:
a scratch worktree of /repo HEAD (wt/), the property text only (property.txt), the task (prompt.txt, which lists the titles of
the changes of earlier rounds so that they are not repeated) and an empty out/.  Nothing from /verif's checks is exposed."""
import json, os, re, subprocess, sys, glob
HERE = os.path.dirname(os.path.dirname(os.path.abspath(__file__)))
TEMPLATE = open(os.path.join(HERE, 'tools', 'seed_prompt.txt')).read()
rnd = sys.argv[1]
props = {json.loads(l)['id']: json.loads(l) for l in open(os.path.join(HERE, 'properties.jsonl'))}
for pid in sys.argv[2:]:
    d = '/tmp/seed%s-%s' % (rnd, pid)
    if os.path.isdir(os.path.join(d, 'wt')):
        subprocess.run(['git', '-C', '/repo', 'worktree', 'remove', '--force', os.path.join(d, 'wt')])
    subprocess.run(['rm', '-rf', d])
    os.makedirs(os.path.join(d, 'out'))
    subprocess.run(['git', '-C', '/repo', 'worktree', 'add', '--detach', os.path.join(d, 'wt'), 'HEAD'], check=True, stdout=subprocess.DEVNULL, stderr=subprocess.DEVNULL)
    p = props[pid]
    open(os.path.join(d, 'property.txt'), 'w').write(
        'Property %s: %s\n\n%s\n\nQuantified over: %s\n\nWhy the existing tests cannot settle it: %s\n\nAnchors: %s\n'
        % (pid, p['title'], p['statement'], p['quantifier']['text'], p['why_tests_cant'], json.dumps(p['anchors'], indent=1)))
    prior = []
    for nd in sorted(glob.glob(os.path.join(HERE, 'seeded', pid + '-*', 'note.md'))):
        t = open(nd).read().splitlines()[0].lstrip('# ').strip()
        prior.append(' - ' + t)
    open(os.path.join(d, 'prompt.txt'), 'w').write(TEMPLATE.replace('@DIR@', d).replace('@PRIOR@', '\n'.join(prior)))
    print('prepared', d, len(prior), 'prior changes')
