#!/bin/sh
# usage: tools/import_seed.sh <round> <PID> <first n>   e.g. tools/import_seed.sh 3 C10 7
# copies /tmp/seed<round>-<PID>/out/{change,demo,note}<i>.* (i = 1..3) to seeded/<PID>-<n+i-1>/ and confirms each
# (tools/confirm_seed.sh); removes the seeding worktree afterwards.
R="$1"; PID="$2"; N="$3"; SRC="/tmp/seed$R-$PID"
cd "$(dirname "$0")/.."
for i in 1 2 3; do
  [ -f "$SRC/out/change$i.diff" ] || { echo "missing change$i"; continue; }
  n=$((N + i - 1)); d="seeded/$PID-$n"; mkdir -p "$d"
  cp "$SRC/out/change$i.diff" "$d/patch.diff"; cp "$SRC/out/demo$i.py" "$d/demo.py"; cp "$SRC/out/note$i.md" "$d/note.md"
  tools/confirm_seed.sh "$PWD/$d/patch.diff" "$PWD/$d/demo.py"
done
git -C /repo worktree remove --force "$SRC/wt" 2>/dev/null
rm -rf "$SRC"
