#!/bin/sh
# run the repository's baseline suite exactly as BASELINE.json does and print the summary line
# (unchanged tree: "22 failed, 389 passed, 2 skipped ... 3 errors" - the failures are the experimental/ always_fail set)
cd /repo && /venv/bin/python -m pytest -q -p no:cacheprovider --timeout=900 --continue-on-collection-errors 2>&1 | grep -E "passed|failed" | tail -1
