#!/bin/sh
# usage: tools/killmatrix.sh "<ID ...>" <patch>...   -> one line per (patch, ID): killed / SURVIVED / patch-failed
IDS="$1"; shift
for P in "$@"; do
  for ID in $IDS; do
    OUT=$(MUT_LINES=2 tools/mutant_run.sh "$P" "$ID" "${TIER:-quick}" 2>&1)
    RC=$?
    case $RC in
      1) R=killed ;;
      0) R=SURVIVED ;;
      3) R=patch-failed ;;
      *) R="harness-error($RC)" ;;
    esac
    FIRST=$(echo "$OUT" | grep "bucket=" | head -1 | cut -c1-160)
    N=$(basename "$P"); [ "$N" = patch.diff ] && N=$(basename "$(dirname "$P")"); echo "$N $ID $R $FIRST"
  done
done
