#!/usr/bin/env python3
"""regenerate the findings table of DESIGN.md (between the FINDINGS markers) from known_findings.json"""
import json, os, re
HERE = os.path.dirname(os.path.dirname(os.path.abspath(__file__)))
d = json.load(open(os.path.join(HERE, 'known_findings.json')))
rows = []
for e in d['findings']:
    rows.append('| %s | %s | %s | %s | %s |' % (e['id'], ', '.join(e['properties']), e['status'] + (' (' + e.get('commit', '') + ')' if e['status'] == 'fixed' else ''),
                                         e['what'].replace('|', '/'), ', '.join(sorted(set(e.get('replay', {}).values())))))
table = '| id | properties | status | what fails | reproducer |\n|---|---|---|---|---|\n' + '\n'.join(rows) + '\n'
p = os.path.join(HERE, 'DESIGN.md')
s = open(p).read()
a, b = '<!-- FINDINGS:BEGIN -->', '<!-- FINDINGS:END -->'
if a not in s:
    s += '\n\n## 10. Genuine defects found by the checks (generated from known_findings.json)\n\n' + a + '\n' + b + '\n'
s = s[:s.index(a) + len(a)] + '\n' + table + s[s.index(b):]
open(p, 'w').write(s)
print('%d findings: %d fixed, %d open' % (len(rows), sum(1 for e in d['findings'] if e['status'] == 'fixed'), sum(1 for e in d['findings'] if e['status'] == 'open')))
