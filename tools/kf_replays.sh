#!/bin/sh
# tools/kf_replays.sh <id>: run every reproducer registered for this finding id (all properties), print pass/fail
cd "$(dirname "$0")/.."
python3 - "$1" <<'PY' | while read pid path; do ./vcheck $pid --replay $path | head -1 | cut -c1-220; done
import json, sys, glob
kid = sys.argv[1]
seen = set()
for p in ['known_findings.json'] + sorted(glob.glob('known_findings.d/*.json')):
    doc = json.load(open(p)); lst = doc if isinstance(doc, list) else doc['findings']
    for e in lst:
        if e['id'] == kid:
            for pid, r in e.get('replay', {}).items():
                if (pid, r) not in seen:
                    seen.add((pid, r)); print(pid, r)
PY
