#!/bin/sh
# every hand-written mutant mutants/<PID>-<n>.patch against the quick tier of <PID>, generated search only
cd "$(dirname "$0")/.."
mkdir -p notes/killmatrix
OUT=notes/killmatrix/own.md
{
echo "# Hand-written mutants vs the quick tier of their property (generated search only, VERIF_SEED=1)"
echo
echo "| mutant | result | first violation |"
echo "|---|---|---|"
for P in $(ls mutants/C*-*.patch | sort -V); do
  ID=$(basename "$P" | cut -d- -f1)
  L=$(VERIF_NO_REPLAY=1 tools/killmatrix.sh "$ID" "$P" 2>&1 | head -1)
  R=$(echo "$L" | awk '{print $3}')
  F=$(echo "$L" | cut -d' ' -f4- | cut -c1-150 | tr '|' '/')
  echo "| $(basename $P .patch) | $R | $F |"
done
} > $OUT
grep -c killed $OUT; grep -v "killed" $OUT | grep "^| C"
