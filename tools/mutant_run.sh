#!/bin/sh
# usage: tools/mutant_run.sh <patch file> <ID> [quick|thorough]
# Applies the patch to a scratch copy of /repo (outside /repo and /verif), runs the check against it
# (VERIF_REPO), prints the result and removes the copy.  Evidence/replays of the run go to the scratch dir.
PATCH="$(readlink -f "$1")"; ID="$2"; TIER="${3:-quick}"
HERE="$(cd "$(dirname "$0")/.." && pwd)"
S="$(mktemp -d /tmp/vmut.XXXXXX)"
mkdir -p "$S/repo" "$S/out"
cp -r /repo/algopy "$S/repo/algopy"
if ! (cd "$S/repo" && patch -p1 -s < "$PATCH"); then echo "PATCH-FAILED $PATCH"; rm -rf "$S"; exit 3; fi
VERIF_REPO="$S/repo" VERIF_OUT="$S/out" "$HERE/vcheck" "$ID" "$TIER" > "$S/log" 2>&1
RC=$?
grep -E "^VIOLATION|^  bucket=|^KNOWN|seed=" "$S/log" | cut -c1-300 | head -${MUT_LINES:-8}
[ -n "$MUT_KEEP" ] && cp -r "$S/out" "$MUT_KEEP"
echo "mutant $(basename "$PATCH") on $ID $TIER: exit=$RC"
rm -rf "$S"
exit $RC
